#!/usr/bin/env python3
"""Regenerates MANIFEST.json from the per-property table below (kept in one place so that it stays valid)."""
import json, os, sys
ROOT = os.path.dirname(os.path.dirname(os.path.abspath(__file__)))
sys.path.insert(0, os.path.join(ROOT, 'tools'))
from vlib import props

TEXT = {
    'C11': ('Coq theorem C11_sound over the extracted interpreter and validator (all trees, all environments), the whitelist re-generated from '
            'validate.rs on every run; differential correspondence of execute/check_boolean_result against the extracted model plus the oracle on the implementation',
            'Coq kernel; 4 stdlib real-number/classical axioms via Flocq; translator; extraction (ExtrOcamlBasic); harness; generated cases'),
}
TECH = {}


def main():
    pending = json.load(open(os.path.join(ROOT, 'tools', 'pending.json'))) if os.path.exists(os.path.join(ROOT, 'tools', 'pending.json')) else {}
    checks = []
    for pid in sorted(props.ALL):
        if pid in pending:
            continue
        text, note = TEXT.get(pid, ('machine-checked Coq theorems about the executable model + differential correspondence with the crate', 'see DESIGN.md section 4'))
        checks.append({
            'property_id': pid,
            'quick_cmd': f'./check {pid} --tier quick',
            'thorough_cmd': f'./check {pid} --tier thorough',
            'evidence_file': f'evidence/{pid}.json',
            'replay_cmd_template': f'./check {pid} --replay {{path}}',
            'engine': 'coq-model+correspondence',
            'level_claimed': {'category': props.ALL[pid].level, 'text': text, 'design_ref': f'DESIGN.md section 6, {pid}'},
            'level_note': note,
            'technique': TECH.get(pid, 'machine-checked proof in Coq 8.16 about an executable Gallina model, tied to the code by a translator for the tables and a differential correspondence check for the algorithms'),
        })
    allp = [json.loads(l)['id'] for l in open(os.path.join(ROOT, 'properties.jsonl'))]
    na = [{'property_id': p, 'reason': pending.get(p, 'check under construction in this session; not claimed until it runs end to end')} for p in allp if p not in [c['property_id'] for c in checks]]
    m = {
        'version': 1,
        'setup_cmd': './setup.sh',
        'hooks': {'guard': 'slac_verif', 'enable': 'RUSTFLAGS="--cfg slac_verif" (no source hooks exist: every observation goes through the public API)',
                  'baseline_off_cmd': 'cd /repo && cargo test --workspace --no-fail-fast --offline', 'source_commits': [], 'add_only': True},
        'engines': [{'name': 'coq-model+correspondence', 'path': 'check', 'serves_properties': [c['property_id'] for c in checks],
                     'kind_free_text': 'Coq 8.16 development (coq/), translator (tools/translate.py), source pins (tools/pins.py), extracted OCaml model (ocaml/driver.ml), Rust harness (harness/), orchestrator (check, tools/vlib)'}],
        'checks': checks,
        'notes': 'Exit 2 from a check is a machinery error (unexpected axiom, forbidden vernacular, driver build failure), never a verdict. known_findings.json lists recorded and repaired defects.',
        'not_applicable': na,
    }
    json.dump(m, open(os.path.join(ROOT, 'MANIFEST.json'), 'w'), indent=1)
    print('MANIFEST.json:', len(checks), 'checks,', len(na), 'not claimed')


main()
