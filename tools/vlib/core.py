"""Common machinery of ./check: builds (translator, Coq, extraction, driver, harness), sharded runs with crash
isolation, verdict, replay and evidence files."""
import sys, os, re, json, time, subprocess, hashlib, struct, random, shutil, fcntl, threading, signal

ROOT = os.path.dirname(os.path.dirname(os.path.dirname(os.path.abspath(__file__))))
REPO = os.path.abspath(os.environ.get('VERIF_REPO', '/repo'))
SEED = int(os.environ.get('VERIF_SEED', '0') or 0)
CACHE = os.path.join(ROOT, '.cache')
COQ = os.path.join(ROOT, 'coq')
NPROC = min(16, os.cpu_count() or 4)
ALLOWED_AXIOMS = {
    'ClassicalDedekindReals.sig_not_dec', 'ClassicalDedekindReals.sig_forall_dec',
    'FunctionalExtensionality.functional_extensionality_dep', 'Classical_Prop.classic',
}
# every file of the development compiles in under a minute (slowest: TimeFacts.v, 50 s); a per-file limit turns a proof script that no longer terminates into a named failure
# within minutes instead of a build that runs into the overall limit
COQC_LIMIT = int(os.environ.get('VERIF_COQC_LIMIT', '600') or 600)
MAKE = 'make -j%d TIMECMD="timeout %d"' % (NPROC, COQC_LIMIT)
FORBIDDEN = r"Admitted|\badmit\b|^\s*Axiom\b|^\s*Parameter\b|^\s*Conjecture\b|^\s*Hypothesis\b|^\s*Variables?\b|Unset Guard|bypass_check|type-in-type|impredicative-set|Admit Obligations|Unset Positivity|Unset Universe"


def sh(cmd, cwd=None, timeout=3600, env=None, inp=None):
    e = dict(os.environ)
    e.update(env or {})
    try:
        p = subprocess.run(cmd, shell=True, cwd=cwd, env=e, input=inp, capture_output=True, text=True, timeout=timeout)
        return p.returncode, p.stdout, p.stderr
    except subprocess.TimeoutExpired as x:
        return 124, (x.stdout or b'').decode() if isinstance(x.stdout, bytes) else (x.stdout or ''), 'TIMEOUT after %ss' % timeout


def machinery_error(msg):
    print('ERROR (machinery): ' + msg)
    sys.exit(2)


class Lock:
    def __init__(self, name):
        os.makedirs(CACHE, exist_ok=True)
        self.path = os.path.join(CACHE, name + '.lock')

    def __enter__(self):
        self.f = open(self.path, 'w')
        fcntl.flock(self.f, fcntl.LOCK_EX)

    def __exit__(self, *a):
        fcntl.flock(self.f, fcntl.LOCK_UN)
        self.f.close()


# ----------------------------------------------------------------------------------------------------------
# model side
# ----------------------------------------------------------------------------------------------------------
def ensure_makefile():
    mk = os.path.join(COQ, 'Makefile')
    cp = os.path.join(COQ, '_CoqProject')
    if not os.path.exists(mk) or os.path.getmtime(mk) < os.path.getmtime(cp):
        rc, out, err = sh('coq_makefile -f _CoqProject -o Makefile', cwd=COQ)
        if rc:
            machinery_error('coq_makefile failed: ' + err[-400:])


def run_translator():
    rc, out, err = sh(f'python3 {ROOT}/tools/translate.py {REPO} {COQ}/Gen', cwd=ROOT)
    if rc != 0:
        return {'translator': 'failed: ' + (err or out)[-300:]}
    try:
        return json.loads(out.strip().splitlines()[-1])
    except Exception:
        return {'translator': 'bad output: ' + out[-200:]}


def forbidden_scan():
    """No Admitted/admit/Axiom/Parameter/Conjecture/... anywhere in the development; Variable/Hypothesis only inside
    a Section (Section/End nesting is tracked; the development uses no Modules)."""
    bad = []
    for dp, _, fs in os.walk(COQ):
        for f in sorted(fs):
            if not f.endswith('.v'):
                continue
            depth = 0
            text = open(os.path.join(dp, f), errors='replace').read()
            text = re.sub(r'\(\*.*?\*\)', lambda m: re.sub(r'[^\n]', ' ', m.group(0)), text, flags=re.S)   # blank out comments
            for i, code in enumerate(text.splitlines(), 1):
                if re.match(r'\s*Section\b', code):
                    depth += 1
                elif re.match(r'\s*End\s+\w+\s*\.', code) and depth > 0:
                    depth -= 1
                m = re.search(FORBIDDEN, code)
                if m and 'Print Assumptions' not in code:
                    word = m.group(0).strip()
                    if word in ('Hypothesis', 'Variable', 'Variables') and depth > 0:
                        continue
                    bad.append(f'{os.path.relpath(os.path.join(dp, f), COQ)}:{i}: {code.strip()[:100]}')
    return bad


def build_model(pid, want_proof=True):
    """Regenerate Gen/*.v, build Props/<pid>.vo (the property theorems) and Extract.vo (the executable model),
    audit assumptions, build the OCaml driver. Returns a dict describing what happened."""
    t0 = time.time()
    with Lock('coq'):
        tstatus = run_translator()
        ensure_makefile()
        info = {'translator': tstatus, 'proof_ok': False, 'model_ok': False, 'broken': None, 'log_tail': '', 'theorems': [], 'axioms': []}
        rc, out, err = sh('timeout 3000 %s Extract.vo' % MAKE, cwd=COQ)
        info['model_ok'] = rc == 0
        if rc != 0:
            info['model_log'] = (out + err)[-2000:]
        prop = os.path.join(COQ, 'Props', pid + '.v')
        if want_proof and os.path.exists(prop):
            rc, out, err = sh(f'timeout 3000 {MAKE} Props/{pid}.vo', cwd=COQ)
            log = out + err
            info['proof_ok'] = rc == 0
            if rc != 0:
                m = re.search(r'File "\./([^"]+)", line (\d+)', log)
                info['broken'] = f'{m.group(1)}:{m.group(2)}' if m else 'unknown'
                mt = re.search(r'\*\*\* \[Makefile:\d+: (\S+)\.vo\] Error 124', log)
                if not m and mt:
                    info['broken'] = '%s.v (coqc stopped after %d s: a proof script no longer terminates)' % (mt.group(1), COQC_LIMIT)
                info['log_tail'] = log[-2500:]
                # name the theorem/lemma that no longer checks
                if m:
                    try:
                        lines = open(os.path.join(COQ, m.group(1))).read().splitlines()[:int(m.group(2))]
                        for ln in reversed(lines):
                            mm = re.match(r'\s*(Theorem|Lemma|Corollary|Example|Definition|Fixpoint|Check)\s+(\w+)', ln)
                            if mm:
                                info['broken'] += ' (' + mm.group(2) + ')'
                                break
                    except Exception:
                        pass
            src = open(prop).read()
            info['theorems'] = re.findall(r'^(?:Theorem|Example|Corollary)\s+(\w+)', src, re.M)
            if rc == 0:
                # assumption audit: re-run coqc on the property file only (it contains nothing but `exact`s) and read Print Assumptions
                os.makedirs(os.path.join(CACHE, 'audit'), exist_ok=True)
                rc2, out2, err2 = sh(f'timeout 900 coqc -Q . "" -Q Gen "" -Q Props "" -o {CACHE}/audit/{pid}.vo Props/{pid}.v', cwd=COQ)
                if rc2 != 0:
                    info['proof_ok'] = False
                    info['broken'] = 'Props/%s.v (audit re-run failed)' % pid
                    info['log_tail'] = (out2 + err2)[-1500:]
                axioms = set()
                for blk in re.findall(r'Axioms:\n((?:.+\n?)*?)(?=\n?(?:Closed under|Axioms:|\Z|^\S+\s*\n?\s*:\s))', out2 + '\n', re.M):
                    pass
                for name in re.findall(r'^([A-Za-z_][\w.]*)\s*(?:\n\s+)?:', out2, re.M):
                    if '.' in name:
                        axioms.add(name)
                info['axioms'] = sorted(axioms)
                info['closed'] = out2.count('Closed under the global context')
                bad = axioms - ALLOWED_AXIOMS
                if bad:
                    machinery_error('unexpected axioms under %s: %s' % (pid, ', '.join(sorted(bad))))
            # tie (a): a table this property's theorems rest on that the translator could NOT regenerate (the code moved out of the shape the parser knows) means the
            # theorems were checked against the committed reference copy, not against today's source: the obligation "model = code" is open
            if info['proof_ok'] and isinstance(tstatus, dict):
                rc3, out3, _ = sh(f'coqdep -Q . "" -Q Gen "" -Q Props "" -sort Props/{pid}.v', cwd=COQ)
                deps = set(re.findall(r'Gen/(Gen\w+)\.v', out3))
                stale = sorted(d for d in deps if tstatus.get(d) == 'unparsed')
                if stale:
                    info['proof_ok'] = False
                    info['broken'] = 'translator: ' + ', '.join(stale) + ' could not be regenerated from the source (shape unknown to the parser); the theorems of Props/%s.v were checked against the reference copy only' % pid
        elif want_proof:
            info['broken'] = 'Props/%s.v missing' % pid
        bad = forbidden_scan()
        if bad:
            machinery_error('forbidden vernacular found:\n' + '\n'.join(bad[:20]))
        if info['model_ok']:
            build_driver()
    info['build_s'] = round(time.time() - t0, 1)
    return info


def source_pins(pid):
    """items of the current /repo/src in this property's scope (tools/pins.py) whose text differs from the recorded reference"""
    sys.path.insert(0, os.path.join(ROOT, 'tools'))
    import pins
    try:
        return pins.changed(REPO).get(pid, [])
    except Exception as e:
        return ['pins could not be computed: %r' % (e,)]


def build_driver():
    d = os.path.join(CACHE, 'ocaml')
    os.makedirs(d, exist_ok=True)
    srcs = [os.path.join(COQ, 'model.ml'), os.path.join(COQ, 'model.mli'), os.path.join(ROOT, 'ocaml', 'driver.ml')]
    h = hashlib.sha1(b''.join(open(s, 'rb').read() for s in srcs)).hexdigest()
    stamp = os.path.join(d, 'stamp')
    if os.path.exists(stamp) and open(stamp).read() == h and os.path.exists(os.path.join(d, 'driver')):
        return
    for s_ in srcs:
        shutil.copy(s_, d)
    rc, out, err = sh('ocamlfind ocamlopt -O2 -w -a model.mli model.ml driver.ml -o driver', cwd=d, timeout=900)
    if rc:
        machinery_error('driver build failed: ' + (out + err)[-600:])
    open(stamp, 'w').write(h)


DRIVER = os.path.join(CACHE, 'ocaml', 'driver')

# ----------------------------------------------------------------------------------------------------------
# implementation side
# ----------------------------------------------------------------------------------------------------------
VARIANTS = {
    'release': ('--release', ''), 'debug': ('', ''),
    'release-zb': ('--release', '--features zero_based_strings'), 'debug-zb': ('', '--features zero_based_strings'),
}


def harness_dir():
    tag = hashlib.sha1(REPO.encode()).hexdigest()[:8]
    return os.path.join(CACHE, 'harness-' + tag)


def build_harness(variant='release'):
    d = harness_dir()
    with Lock('cargo-' + os.path.basename(d)):
        os.makedirs(os.path.join(d, 'src'), exist_ok=True)
        for f in os.listdir(os.path.join(ROOT, 'harness', 'src')):
            src = os.path.join(ROOT, 'harness', 'src', f)
            dst = os.path.join(d, 'src', f)
            if not os.path.exists(dst) or open(src).read() != open(dst).read():
                shutil.copy(src, dst)
        for lock in (os.path.join(REPO, 'Cargo.lock'), '/repo/Cargo.lock'):   # a scratch worktree has no (ignored) Cargo.lock of its own
            if os.path.exists(lock):
                shutil.copy(lock, os.path.join(d, 'Cargo.lock'))
                break
        toml = ('[package]\nname = "slac_harness"\nversion = "0.1.0"\nedition = "2021"\n[workspace]\n[features]\n'
                'zero_based_strings = ["slac/zero_based_strings"]\n[dependencies]\n'
                'serde_json = { version = "1.0", features = ["float_roundtrip"] }\nregex-lite = "0.1"\nchrono = "0.4"\n'
                f'slac = {{ path = "{REPO}" }}\n[profile.dev]\noverflow-checks = true\ndebug = 0\nopt-level = 1\n[profile.release]\noverflow-checks = false\n')
        tp = os.path.join(d, 'Cargo.toml')
        if not os.path.exists(tp) or open(tp).read() != toml:
            open(tp, 'w').write(toml)
        prof, feat = VARIANTS[variant]
        tdir = 'target-zb' if feat else 'target'
        rc, out, err = sh(f'cargo build --offline {prof} {feat} --target-dir {tdir}', cwd=d, timeout=1800,
                          env={'CARGO_NET_OFFLINE': 'true', 'RUSTFLAGS': '--cfg slac_verif'})
        if rc:
            return None, (out + err)[-1500:]
        return os.path.join(d, tdir, 'release' if prof else 'debug', 'slac_harness'), ''


# ----------------------------------------------------------------------------------------------------------
# running cases
# ----------------------------------------------------------------------------------------------------------
def _run_one(binary, lines, isolate, per_case_timeout, env):
    """Run `lines` through `binary`. With isolate, a process death or a stall (no new output line for `stall` seconds) is attributed to
    the first case without output, recorded as CRASH/HANG, and the rest continues in a fresh process."""
    outs = {}
    rest = lines
    e = dict(os.environ)
    e.update(env or {})
    if isolate:
        e['VERIF_FLUSH'] = '1'
    stall = max(6.0, 40 * per_case_timeout)
    while rest:
        p = subprocess.Popen([binary], stdin=subprocess.PIPE, stdout=subprocess.PIPE, stderr=subprocess.DEVNULL, text=True, env=e, errors='replace')
        got = []
        state = {'t': time.time()}

        def feed():
            try:
                p.stdin.write("\n".join(rest) + "\n")
                p.stdin.close()
            except Exception:
                pass

        def read():
            for l in p.stdout:
                got.append(l.rstrip('\n'))
                state['t'] = time.time()
        tf = threading.Thread(target=feed, daemon=True)
        tr = threading.Thread(target=read, daemon=True)
        tf.start()
        tr.start()
        status = None
        budget_end = time.time() + max(60.0, per_case_timeout * len(rest) * 4)
        while True:
            tr.join(0.2)
            if not tr.is_alive():
                p.wait()
                status = p.returncode
                break
            now = time.time()
            if (isolate and now - state['t'] > stall) or now > budget_end:
                p.kill()
                tr.join(2)
                status = 'HANG'
                break
        done = 0
        for l in got:
            if ' ' in l:
                k, v = l.split(' ', 1)
                outs[k] = v
                done += 1
            elif l:
                outs[l] = ''
                done += 1
        if status == 0 and done >= len(rest):
            break
        if not isolate:
            for l in rest:
                cid = l.split(' ', 2)[1]
                outs.setdefault(cid, 'R=PROCESS-FAILED(%s) ## process=FAILS' % status)
            break
        idx = None
        for i, l in enumerate(rest):
            cid = l.split(' ', 2)[1].rstrip(')')
            if cid not in outs:
                idx = i
                break
        if idx is None:
            break
        cid = rest[idx].split(' ', 2)[1].rstrip(')')
        what = 'HANG' if status == 'HANG' else 'CRASH(%s)' % (signal.Signals(-status).name if isinstance(status, int) and status < 0 else status)
        outs[cid] = 'R=%s ## crash=FAILS' % what
        rest = rest[idx + 1:]
    return outs


def run_sharded(binary, lines, shards=NPROC, isolate=False, per_case_timeout=0.05, env=None):
    if not lines:
        return {}
    n = max(1, min(shards, len(lines) // 500 + 1))
    chunks = [lines[i::n] for i in range(n)]
    res = [None] * n

    def work(i):
        res[i] = _run_one(binary, chunks[i], isolate, per_case_timeout, env)
    ts = [threading.Thread(target=work, args=(i,)) for i in range(n)]
    [t.start() for t in ts]
    [t.join() for t in ts]
    outs = {}
    for r in res:
        outs.update(r)
    return outs


def with_ids(cases, prefix='c'):
    """cases: lines of the form `(kind ...)` without id, or `(kind ID ...)` with placeholder `_`"""
    out = []
    for i, c in enumerate(cases):
        k, rest = c[1:].split(' ', 1)
        assert rest.startswith('_ ') or rest == '_)' or rest.startswith('_)'), c[:60]
        out.append(f'({k} {prefix}{i}{rest[1:]}')
    return out


def split_line(v):
    """'K ## O' -> (K, {name: verdict})"""
    if v is None:
        return None, {}
    if ' ## ' in v:
        k, o = v.split(' ## ', 1)
    elif v.startswith('## '):
        k, o = '', v[3:]
    else:
        k, o = v, ''
    od = {}
    for f in o.split():
        if '=' in f:
            a, b = f.split('=', 1)
            od[a] = b
    return k, od


def k_fields(k):
    """'R=... T=... CB=ok' -> dict; values may contain spaces, so split on ' NAME=' boundaries of known upper-case keys"""
    d = {}
    if k is None:
        return d
    parts = re.split(r'(?:^| )([A-Z][A-Za-z0-9]*)=', k)
    # parts: ['', 'R', 'val', 'T', 'val', ...]
    for i in range(1, len(parts) - 1, 2):
        d[parts[i]] = parts[i + 1]
    return d


# ----------------------------------------------------------------------------------------------------------
# generators' helpers (neutral s-expression format)
# ----------------------------------------------------------------------------------------------------------
def bits(x):
    return struct.unpack('<Q', struct.pack('<d', x))[0]


def num(x):
    return f"(n {bits(x) if x == x else 9221120237041090560})"


def s(t):
    return "(s" + "".join(f" {ord(c)}" for c in t) + ")"


def b(v):
    return f"(b {1 if v else 0})"


def arr(*vs):
    return "(a" + "".join(" " + v for v in vs) + ")"


OPS = ["plus", "minus", "multiply", "divide", "greater", "greaterEqual", "less", "lessEqual", "equal", "notEqual", "and", "or", "xor", "not", "div", "mod", "ternaryCondition"]


def unsx(line):
    """human-readable rendering of a case line for messages: code point lists -> text"""
    def rep(m):
        try:
            return "'" + ''.join(chr(int(c)) for c in m.group(1).split()) + "'"
        except Exception:
            return m.group(0)
    t = re.sub(r'\(s((?: \d+)*)\)', rep, line)

    def repn(m):
        try:
            return repr(struct.unpack('<d', struct.pack('<Q', int(m.group(1))))[0])
        except Exception:
            return m.group(0)
    return re.sub(r'\(n (\d+)\)', repn, t)


def top_elems(line):
    """top-level elements of one s-expression line"""
    out, depth, cur = [], 0, ''
    for ch in line.strip()[1:-1]:
        if ch == '(':
            depth += 1
        if ch == ')':
            depth -= 1
        if ch == ' ' and depth == 0:
            if cur:
                out.append(cur)
            cur = ''
        else:
            cur += ch
    if cur:
        out.append(cur)
    return out


def text_of(line):
    """(text id c1 c2 ...) -> the string"""
    parts = line.strip('()').split(' ')[2:]
    return ''.join(chr(int(c)) for c in parts if c)
