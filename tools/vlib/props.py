"""Per-property definitions: which cases, which correspondence fields, which oracle fields, known-finding classes."""
import struct, re
from .runner import Prop
from . import core
from gen import trees, text, misc, builtins, regexgen

COMMON_ASSUME = ['the model corresponds to the code only as far as the generated cases exercise it (differential test, not a proof)',
                 'Rust std, rustc and the crates of Cargo.lock behave as documented']


class C03(Prop):
    pid = 'C03'
    k_fields = ['R']
    o_fields = ['det', 'rebind']
    k_is_o = True
    rule = ('17 operators in unary, binary and ternary position over 59 operand descriptors (44 boundary values of every kind, defined/undefined '
            'variables, failing/missing/echoing/constant calls), failing elements at every position of arrays and argument lists, all pairs of 33 signed numbers (whole, fractional, tiny, huge, signed zeros, non-finite) '
            'under the 12 arithmetic and comparison operators, signed numeric strings against numbers, arrays whose elements are cross-kind-equal pairs under = <> < <= > >=, '
            'random trees to depth 6 (8 in thorough); compared: result bit-exactly or error variant+payload against the extracted Coq interpreter (the language definition); '
            'distinct = distinct (result) strings on the implementation')
    assumptions = COMMON_ASSUME

    def gen(self, tier, R):
        return [(c, 'release') for c in trees.gen_eval(tier, R)] + [(c, 'release') for c in trees.gen_rebind(tier, R)]


class C04(C03):
    pid = 'C04'
    k_fields = ['T']        # the property is about what is evaluated, in which order: the result is C03's business (a changed error value with an unchanged trace is not a C04 violation)
    rule = ('same trees as C03 with calls and variables in every operand position; compared: the sequence of variable lookups and native calls with '
            'argument values recorded by a recording Environment against the trace of the extracted interpreter; distinct = distinct (result, trace) pairs')

    def nontrivial(self, line, k):
        return 'T= ' not in (k + ' ') and not k.endswith('T=')


class C11(Prop):
    pid = 'C11'
    k_fields = ['R', 'CB']
    o_fields = ['O11']
    rule = ('all 17 operators in unary and binary position over 22 leaves (literals of every kind, defined/undefined variables, failing/missing/constant '
            'calls), conditionals nested in result position, random trees to depth 5; oracle on the implementation: accepted by check_boolean_result and '
            'result-position leaves Boolean => a successful execute yields a Boolean; distinct = distinct (verdict, result) pairs')
    assumptions = COMMON_ASSUME + ['variables and calls in result position are documented as unknown kind']

    def gen(self, tier, R):
        return [(c, 'release') for c in trees.gen_boolcheck(tier, R)]


class C10(Prop):
    pid = 'C10'
    k_fields = ['CN', 'CNB', 'CNA', 'R', 'B']
    o_fields = ['O10', 'O10s', 'O10e', 'arity', 'bcount']
    rule = ('trees with conditionals and nested calls/arrays over environments registering every arity kind (exact, optional, variadic, none; pure and '
            'impure) called with 0..4 arguments, bound and unbound variables; oracle: accepted => execute never yields UndefinedVariable/FunctionNotFound, '
            'still accepted after optimize; function_exists verdict == registered arity (and registered purity) for every arity kind and every registered builtin at counts 0..8 and at '
            'every magnitude boundary up to usize::MAX, the validator\'s verdict on real calls with up to 1001 arguments; no WrongParameterCount for documented-kind arguments within the range')
    assumptions = COMMON_ASSUME

    def gen(self, tier, R):
        out = [(c, 'release') for c in trees.gen_opt('quick' if tier == 'quick' else 'thorough', R, kind='opt')]
        out += [(c.replace('(opt _', '(case _', 1), 'release') for c, _ in list(out)]   # every tree also through validate-then-execute (O10), not a prefix of them
        out += [('(arity _)', 'release')]
        # the same claims against the real StaticEnvironment (case-folded names, non-ASCII spellings, the whole standard library registered)
        out += [(c, 'release') for c in misc.gen_respell(tier, R)]
        return out


class C05(Prop):
    pid = 'C05'
    k_fields = ['S', 'E', 'B', 'A']
    o_fields = ['O05v', 'O05x']
    rule = ('every registered scripted function x every count 0..4 with literal/variable arguments under four contexts, the classic unsound rewrites of an algebraic simplifier '
            '(identities with every constant kind, re-association of + - * / over constants where rounding shows, concatenation) under bindings of every kind, constant nesting '
            'to depth 50 (63) over ten wrappers, then random trees to depth 5 (7) '
            'over literals, bound and unbound variables, all operators, arrays, conditionals, if_then with 0..4 arguments, pure/impure/failing/unknown calls, '
            'three bindings per tree; oracle: names resolve and value before => identical value after (also on the partially rewritten tree when optimize '
            'fails); no if_then/3 => identical result; distinct = distinct (status, optimized tree) pairs')
    assumptions = COMMON_ASSUME + ['if_then, where bound, is the standard function; impure scripted functions do not depend on call history']

    def gen(self, tier, R):
        return [(c, 'release') for c in trees.gen_opt(tier, R)]


class C06(C05):
    pid = 'C06'
    k_fields = ['S', 'E', 'T']
    o_fields = ['nolookup', 'noimpure', 'fix', 'minimal', 'size']
    per_case_timeout = 0.2
    isolate = True
    rule = C05.rule.split('; oracle')[0] + ('; oracle: optimize returns (per-case time cap), performs no variable lookup and no call of a function registered impure, '
                                            'optimizing again changes nothing, an independent syntactic checker finds no foldable node, node count not larger')


class C08(Prop):
    pid = 'C08'
    use_model = True
    k_fields = ['R', 'CB', 'CN']
    o_fields = ['total']
    isolate = True
    per_case_timeout = 0.2
    level = 'proof'
    rule = ('ill-formed trees: all 17 operators in unary, binary and ternary position over literals (NaN, inf, array literals), odd names (empty, keyword, '
            'non-ASCII), calls with 0..4 arguments registered or not; operator-over-operator depth 2; random trees to depth 40 (60); each in a child process '
            'with crash isolation: execute, optimize, both validators, serde_json to_value/to_string/from_value, ==, partial_cmp all return')
    assumptions = COMMON_ASSUME + ['real stack depth and wall-clock time are observed, not proved']

    def gen(self, tier, R):
        return [(c, 'release') for c in trees.gen_illformed(tier, R)]


class C01(Prop):
    pid = 'C01'
    k_fields = ['R']
    o_fields = ['expect', 'reparse']
    rule = ('trees: every (outer, inner) pair of the 15 binary operators with the inner one on the left, on the right and on both sides, every operator '
            'under/over both unary operators, calls and arrays around them, random trees to depth 6 (12); each rendered with minimal, full and random '
            'redundant parentheses and random layout, carrying the expected tree; plus accepted non-canonical texts (dropped/trailing commas); oracle on the '
            'implementation: compile(render t) == t, and compile(s) = Ok t => compile(render_min t) = compile(render_full t) = Ok t with the harness\' own '
            'renderer; correspondence: compile result (tree or error variant + token) against the extracted scanner+Pratt model')
    assumptions = COMMON_ASSUME

    def gen(self, tier, R):
        return [(c, 'release') for c in text.gen_roundtrip(tier, R)]

    def nontrivial(self, line, k):
        return k.startswith('R=ok')


class C02(Prop):
    pid = 'C02'
    k_fields = ['R']
    o_fields = ['expect', 'layout', 'tree']
    rule = ('token sequences: every ordered pair from 33 representative tokens (all punctuation, all keywords, the four number spellings, strings, '
            'identifiers incl. non-ASCII), random sequences of up to 8 tokens with random decimal numbers (boundary, halfway, subnormal, 400-digit, random '
            'bit patterns printed exactly), string contents over quotes/comment markers/controls/astral characters; each printed twice with independent '
            'random separators (whitespace, // comments, nested { } comments, unterminated trailing comments) and keyword case; all 2^n case masks of each '
            'keyword; a malformed stream; oracle: both layouts scan and compile identically and equal the intended token list with exact literal payloads '
            '(number = Python-rounded nearest double); the model\'s character classification is compared with Rust\'s over the code space')
    assumptions = COMMON_ASSUME + ["Python's float() is correctly rounded (independent reference for the nearest double)"]

    def gen(self, tier, R):
        return [(c, 'release') for c in text.gen_layout(tier, R)]

    def nontrivial(self, line, k):
        return k.startswith('R=ok')


class C07(Prop):
    pid = 'C07'
    variants = ['release', 'debug']
    k_fields = ['R']
    o_fields = []
    isolate = True
    per_case_timeout = 0.25
    rule = ('all sequences of up to 3 (4) lexical fragments from a 37-fragment alphabet (every token, quote, comment markers, dot, non-ASCII letter/digit/symbol), '
            'every third (every) prefix and single-character mutations/deletions of rendered scripts, unbalanced delimiters, unary chains and comment/string '
            'openers nested 1..65 deep, flat chains of 200..8000 (20000) operands for each of the 15 binary operators and 8000 (20000)-element lists/strings/comments (inputs over 2000 '
            'characters are compiled on a 192 KiB thread so that stack growth with the LENGTH of the input shows early; the 3000-operand chains also in a debug build), random Unicode text; the implementation runs in child processes with crash isolation and a per-case time cap: a crash, '
            'abort, stack overflow or hang is a violation; outcome (tree or error kind + payload) compared with the model')
    assumptions = COMMON_ASSUME + ['stack bytes per recursion level and wall-clock time are observed on the real code, not proved']

    def gen(self, tier, R):
        cs = text.gen_total(tier, R)
        # the long inputs also in a build without optimisation (larger stack frames: depth problems show an order of magnitude earlier)
        return [(c, 'release') for c in cs] + [(c, 'debug') for c in cs if 8000 < len(c) < 60000]   # (3000-token chains; the longest ones are too slow unoptimised)


class C12(Prop):
    pid = 'C12'
    k_fields = ['J', 'RV', 'E']   # E: the tree after optimize (program cases only)
    o_fields = ['roundtrip']
    trusted_extra = ["serde's derive output and serde_json (feature float_roundtrip) text layer: sampled, not proved"]
    rule = ('every operator in unary/binary/ternary position over literals of every kind (boundary doubles, NaN, +-inf, nested array literals) and odd '
            'Unicode names, random trees to depth 6 (10) with random finite bit patterns, chains to depth 100, and the trees compile and optimize produce '
            'from rendered scripts; correspondence: serde_json::to_value structurally equal to the model\'s ser_expr and the same verdict on from_value; '
            'oracle: from_value(to_value(e)) == e and from_str(to_string(e)) == e bitwise, reloaded tree executes/validates identically; distinct = distinct JSON values')
    assumptions = COMMON_ASSUME + ['a literal containing a non-finite number is the recorded known finding (JSON has no such numbers)']

    def gen(self, tier, R):
        return [(c, 'release') for c in misc.gen_ser(tier, R)]

    def known(self, line, k, o, mk=None):
        if line.startswith('(serscript ') and mk and 'NF=' in mk:
            # a program: whether a non-finite literal arises in it is decided by the definition (the model's optimizer), not by what the implementation happened to produce -
            # an optimizer that starts to emit such literals for programs that had none is a new failure, not the recorded one
            return 'nonfinite_literal' if 'NF=true' in mk else None
        if misc.has_nonfinite(line) or o.get('nonfinite') == 'true':
            return 'nonfinite_literal'
        return None


class C19(Prop):
    pid = 'C19'
    k_fields = None
    o_fields = ['refmap', 'respell']
    rule = ('operation sequences (add/overwrite/remove variable, add/overwrite/remove function, clear variables) over names in several case spellings incl. a '
            'non-ASCII pair: all of length 1-2, a sample of length 3 (all of length 3 and a sample of length 4 in thorough), random histories to 60 (200) '
            'steps; after every step the output of the operation and every lookup, existence check, call and listing for 9 spellings, compared with the '
            'association-list model and with an independent reference map inside the harness; rendered scripts evaluated with respelled identifiers '
            'and respelled registrations (oracle)')
    assumptions = COMMON_ASSUME + ['HashMap itself is trusted; str::to_lowercase is modelled for ASCII and Latin-1 letters (the names the generator uses)']

    def gen(self, tier, R):
        return [(c, 'release') for c in misc.gen_env(tier, R)]

    def nontrivial(self, line, k):
        return True


class C15(Prop):
    pid = 'C15'
    variants = ['release', 'release-zb']
    k_fields = ['R']
    o_fields = ['poscoh']
    k_is_o = True
    rule = ('length, at, copy, insert, find, count, contains, replace/remove, reverse, unique, all/any, split, split_csv, trim*, lowercase/uppercase/same_text over 32 '
            'strings (ASCII, 2/3/4-byte, combining, empty, CSV, whitespace, special-casing letters) x positions -1..8 and boundary magnitudes x counts x 18 needles, '
            '8 arrays (heterogeneous, nested, empty) x positions x elements, random strings; in both index-base configurations (default build and '
            'zero_based_strings build); compared with the sequence model in Coq (result or error variant); oracle on the implementation alone (poscoh): at '
            'enumerates s, copy(s, find(s,x), length(x)) = x for every substring, failed find = first-1, count/contains/insert/reverse/unique coherence, lowercase/uppercase = the '
            'Unicode mappings of the text, same_text(a,b) iff lowercase(a) = lowercase(b) on five partners per string')
    assumptions = COMMON_ASSUME + ['Unicode case mapping beyond ASCII is not modelled (those cases are compared by the coherence oracle only)']

    def gen(self, tier, R):
        return [(c, 'release') for c in builtins.gen_c15(tier, R, 1)] + [(c, 'release-zb') for c in builtins.gen_c15(tier, R, 0)]

    def nontrivial(self, line, k):
        return k.startswith('R=ok') or k.startswith('R=checked')


class C17(Prop):
    pid = 'C17'
    k_fields = ['R']
    o_fields = ['mathref']
    k_is_o = True
    rule = ('str/float/int/bool/chr/ord/int_to_hex/even/odd/abs/round/trunc/frac/sqrt on a 70-value boundary pool, 6000 (400000) random doubles (random bit patterns, '
            'integers of either sign, huge magnitudes, halfway cases), code points 0..299 and boundaries for chr/ord, 34 strings that do or do not parse as numbers - '
            'compared with the Coq models (Flocq arithmetic, Rust float grammar); oracle on the implementation alone (mathref): every maths builtin bitwise equal to '
            'the f64 method of the same name called independently, round = half away from zero, trunc+frac = x, float(str(x)) = x, parity for every integer, '
            'int_to_hex = upper-case hex of the truncated value, chr/ord inverse on 0..127 and rejecting everything else')
    assumptions = COMMON_ASSUME + ['transcendental functions and shortest-digit printing are oracles: compared with Rust std itself, not with a Coq definition']

    def gen(self, tier, R):
        return [(c, 'release') for c in builtins.gen_c17(tier, R)]


class C16(Prop):
    pid = 'C16'
    k_fields = ['R']
    o_fields = ['calendar', 'timeofday', 'fmtref']
    k_is_o = True
    per_case_timeout = 2.0
    rule = ('component extraction on boundary and random date-time numbers (years 1..9999, chrono range limits, NaN/inf), encode_date/encode_time with valid and '
            'invalid fields, inc_month with increments -30..30 and extremes, default-format printing and parsing - compared with the Coq calendar model '
            '(Hinnant day algorithms over Z, Flocq float layer); oracle on the implementation alone: daterange enumerates every day of the given years '
            '(114 years quick / all 3 652 059 dates of years 1..9999 thorough) against an independent day count: encode, year/month/day/day_of_week/is_leap_year, '
            'date_to_string/string_to_date, rejection of month 0/13 and day 0/32/30 February, inc_month clamping, date+time; todrange enumerates times of day at '
            'millisecond resolution (2.2 million quick / all 86 400 000 thorough): encode_time exact, hour/minute/second/millisecond recover')
    assumptions = COMMON_ASSUME + ["chrono's calendar, formatter and parser are trusted beyond the default patterns"]

    def gen(self, tier, R):
        return [(c, 'release') for c in builtins.gen_c16(tier, R)] + [(c, 'release') for c in builtins.gen_datefmt(tier, R)]

    def in_domain(self, line):
        # the property speaks of times of day at millisecond resolution and of years 1..9999: a millisecond argument outside 0..999 (chrono's leap-second notation 1000..1999 included)
        # or a year outside 1..9999 is modelled and compared, but a difference there is not a failing input of C16
        el = core.top_elems(line)
        if len(el) < 4 or el[0] != 'bi':
            return True
        name = core.unsx(el[3]).strip("'")

        def numv(t):
            m = re.match(r'\(n (\d+)\)$', t)
            return struct.unpack('<d', struct.pack('<Q', int(m.group(1))))[0] if m else None
        args = [numv(t) for t in el[4:]]
        if name == 'encode_time' and len(args) >= 4:
            ms = args[3]
            return ms is not None and ms == ms and 0 <= ms <= 999 and ms == int(ms)
        if name == 'encode_date' and len(args) >= 1:
            y = args[0]
            return y is not None and y == y and abs(y) != float('inf') and 1 <= int(y) <= 9999
        return True


class C13(Prop):
    pid = 'C13'
    k_fields = ['R']
    o_fields = ['order', 'sorted']
    known_covers_k = True
    rule = ('all ordered pairs of a 40-value pool (NaN, signed zeros, infinities, numeric and non-numeric strings, booleans, nested and mixed arrays) through Value::cmp/== '
            'and compare(); 12000 sampled (all 64000) triples: the order laws through the operators evaluated by execute, compare, between, min/max (ord3); arrays of '
            '0..12 and 100..300 elements: sort is a permutation, ordered, idempotent, min/max are bounding members (sortlaws) and sort/min/max equal the stable-sort '
            'model; arrays mixing numbers and numeric strings CONSISTENTLY; a failure counts as the recorded known finding only when the documented order, re-implemented independently '
            '(vlib/reford.py), is not a total preorder on the values of that case, and only for the laws that intransitivity explains')
    assumptions = COMMON_ASSUME + ['on arrays that are not tame the result of slice::sort is algorithm-dependent: only permutation/no-panic is compared there']

    def gen(self, tier, R):
        return [(c, 'release') for c in builtins.gen_c13(tier, R)]

    # what the known finding can explain: failures of transitivity and of the laws that presuppose it - nothing else
    EXPLAINED = ('transitive', 'bound_all_others', 'greater_than_its_successor', 'sorting_again')

    def known(self, line, k, o, mk=None):
        from . import reford
        el = core.top_elems(line)
        if not el:
            return None
        if el[0] == 'bi':
            if el[3] not in (core.s('sort'), core.s('max'), core.s('min'), core.s('between')):
                return None
            cls = reford.inconsistency_class(el[4:], smart=el[3] != core.s('between'))
        elif el[0] == 'sortlaws':
            cls = reford.inconsistency_class(el[2:], smart=True)
        elif el[0] == 'ord3':
            cls = reford.inconsistency_class(el[2:], smart=False)
        else:
            return None
        if cls is None:
            return None
        why = o.get('why', '-')
        if why not in ('-', '', None) and not all(any(x in r for x in self.EXPLAINED) for r in why.split(';')):
            return None
        return 'not_tame_nan' if cls == 'nan' else 'not_tame_numeric_string'


class C09(Prop):
    pid = 'C09'
    variants = ['release', 'debug', 'release-zb', 'debug-zb']
    k_fields = ['R', 'A']   # A: the result after optimize (script cases only)
    o_fields = ['fold']
    isolate = True
    per_case_timeout = 0.3
    known_covers_k = True
    rule = ('every registered function (names from the regenerated registration table) x no argument, each of 103 boundary values (NaN, infinities, signed zero, '
            'huge/fractional/negative numbers as indices, counts, dates, code points; empty and non-ASCII strings; malformed chrono format strings and regular '
            'expressions; nested, heterogeneous, 200-element and inconsistently ordered arrays), every ordered pair of a 33-value sub-pool (of all 103 in thorough), '
            'for every non-variadic function with three or more parameters 9 subjects x 21 x 21 extreme second/third arguments, 200 (20000) random 3-5 argument lists per function, 4000 (200000) calls through scripts (compile, validate, optimize, execute) - in the four builds '
            '{overflow checks on, off} x {default, zero_based_strings}, each in child processes with crash isolation and a per-case time cap; a panic, abort or hang is '
            'a violation; results of the modelled functions are compared with the Coq models')
    assumptions = COMMON_ASSUME + ['library internals (chrono, regex-lite, slice::sort) are exercised, not proved', 'memory use is bounded only by the per-process address space, not measured per call']

    def gen(self, tier, R):
        out = []
        for v, off in (('release', 1), ('debug', 1), ('release-zb', 0), ('debug-zb', 0)):
            t = tier if v == 'release' else 'quick'
            cs = builtins.gen_c09(t, R, off)
            out += [(c, v) for c in cs]   # every case in every build (a stride sample of the non-release builds once hid half of each family)
        # the structured calendar and conversion cases of C16 / C17 too (month ends, leap days, whole-year increments, near-integers): totality in both overflow settings
        extra = [c for c in builtins.gen_c16('quick', R) if c.startswith('(bi ')] + [c for c in builtins.gen_c17('quick', R) if c.startswith('(bi ')][::3]
        out += [(c, v) for v in ('release', 'debug') for c in extra]
        return out

    def known(self, line, k, o, mk=None):
        el = core.top_elems(line)
        if k is not None and 'PANIC' in k:
            if el and el[0] == 'bi' and el[3] == core.s('sort') and builtins.is_nontame_arr(el[4:]):
                return 'sort_panics_on_inconsistent_order'
            if el and el[0] in ('script', 'script0') and core.text_of(line).startswith('sort('):
                return 'sort_panics_on_inconsistent_order'
        if el and el[0] == 'bi' and el[3] in (core.s('sort'), core.s('max'), core.s('min')) and builtins.is_nontame_arr(el[4:]) and (k is None or 'PANIC' not in k):
            return 'unordered_result_on_inconsistent_order'
        return None

    def nontrivial(self, line, k):
        return k.startswith('R=ok')


class C14(Prop):
    pid = 'C14'
    k_fields = ['R', 'A']
    o_fields = ['det', 'foldeq', 'hasheq', 'fmtref', 'fold']
    known_covers_k = True
    rule = ('every pure registered builtin on arrays whose elements are equal across kinds (1, \'1\', \'1.0\', true, 0, \'0\', false, \'\', -0), on the boundary '
            'pool, on random argument lists and on clusters of NEARLY identical arguments (same second / different millisecond, adjacent doubles, texts differing in one character or in case) '
            'interleaved with failing calls: called twice in a row (det), folded by optimize and compared with the run-time call (foldeq; a function registered impure must never be folded), '
            'and evaluated in N fresh processes (64 quick / 2000 thorough: each with its own randomly seeded hasher and its own ORDER of the calls) whose outputs must be identical per call; Hash for Value is '
            'compared with the model\'s hash classes under a fixed-key hasher (hasheq); results of the modelled functions are compared with the Coq models')
    assumptions = COMMON_ASSUME + ['TZ-dependence of the RFC date functions is outside the property (identical arguments in an identical environment)']
    nproc = {'quick': 64, 'thorough': 2000}

    def gen(self, tier, R):
        cs = builtins.gen_c14(tier, R)
        out = [(c, 'release') for c in cs]
        out += [(c.replace('(bi _ 1 ', '(foldcall _ ', 1), 'release') for c in cs[::3]]
        # the impure functions under every argument count and shape: optimize must leave the call in place
        from vlib.core import num, s as S_, arr, b as B_
        shapes = [[], [num(10.0)], [arr(num(1.0), num(2.0), num(3.0))], [arr()], [num(1.0), num(2.0), num(3.0)], [arr(num(1.0)), arr(num(2.0))], [S_('a')], [B_(True), num(2.0)],
                  [arr(*[num(float(i)) for i in range(64)])]]
        out += [(c, 'release') for c in builtins.gen_datefmt(tier, R)]
        for nme in builtins.impure_names():
            for sh in shapes:
                out.append(('(foldcall _ ' + S_(nme) + ''.join(' ' + a for a in sh) + ')', 'release'))
        pool = builtins.POOL
        out.append(('(hashclass _ ' + ' '.join(pool) + ')', 'release'))
        out.append(('(hashclass _ ' + ' '.join(builtins.EQ_SPELLINGS) + ')', 'release'))
        # whole programs over the real standard library, executed as written (R) and after optimize (A): folding is calling - both equal the pipeline model
        out += [(c, 'release') for c in builtins.gen_composite_scripts(tier, R, 1)]
        return out

    def known(self, line, k, o, mk=None):
        el = core.top_elems(line)
        if el and el[0] in ('bi', 'foldcall'):
            args = el[4:] if el[0] == 'bi' else el[3:]
            name = el[3] if el[0] == 'bi' else el[2]
            if name in (core.s('sort'), core.s('max'), core.s('min')) and builtins.is_nontame_arr(args):
                return 'unordered_result_on_inconsistent_order'
        return None

    def post(self, ctx):
        """the same calls in N fresh processes: outputs must be byte-identical (a different hasher seed per process)"""
        import subprocess, hashlib
        recs = [r for r in ctx['recs'] if r['line'].startswith('(bi ')]
        lines = [r['line'] for r in recs]
        # keep the arrays with cross-kind-equal elements and a sample of the rest
        import re as _re, random as _random
        nb = [l for l in lines if _re.sub(r'^\((\w+) \w+ ', r'(\1 _ ', l) in builtins.C14_NEIGHBOURS]
        if ctx['tier'] == 'quick':
            nb = nb[::2] + nb[1::16]
        sel = [l for l in lines if '(a ' in l][:1500] + lines[::25] + nb
        sel = list(dict.fromkeys(sel))
        n = self.nproc[ctx['tier']]
        binary = ctx['binaries']['release']
        bad = []
        import concurrent.futures as cf

        def run(i):
            # a different call order in every process (0: as generated, 1: reversed, others: shuffled) - "after any other calls"
            order = list(sel)
            if i == 1:
                order.reverse()
            elif i > 1:
                _random.Random(ctx.get('seed', 0) * 100003 + i).shuffle(order)
            out = subprocess.run([binary], input="\n".join(order) + "\n", capture_output=True, text=True).stdout
            return {l.split(' ', 1)[0]: l for l in out.splitlines()}
        with cf.ThreadPoolExecutor(max_workers=16) as ex:
            outs = list(ex.map(run, range(n)))
        ref = outs[0]
        byid = {core.top_elems(l)[1]: l for l in sel}
        for i, o in enumerate(outs[1:], 1):
            if o != ref:
                for cid in ref:
                    if o.get(cid) != ref[cid]:
                        bad.append((byid.get(cid, cid), f'differs between fresh processes / call orders (process {i}): {ref[cid][:120]} vs {str(o.get(cid))[:120]}', None))
                        break
        self.extra_cov = {'fresh_processes': n, 'calls_per_process': len(sel), 'near_identical_argument_calls': len(nb), 'call_orders': 'as generated, reversed, shuffled per process', 'processes_deviating': len(bad)}
        return bad[:5]


class C18(Prop):
    pid = 'C18'
    k_fields = ['M', 'F', 'C', 'P', 'L']
    o_fields = ['regex']
    trusted_extra = ['regex-lite\'s engine: trusted; compared with a small reference engine in Coq on the generated subset']
    rule = ('31 fixed and 700 (60000) random patterns over literals, `.`, classes (also negated), * + ?, alternation, capturing and non-capturing groups, ^ and $, '
            'including empty-matching patterns, generated as ASTs and rendered to pattern text; 6 (17) haystacks each (empty, ASCII, non-ASCII, newline), replacement '
            'strings, limits 0..5 and fractional/negative; `$0`/`${0}` over every fixed pattern x haystack (the model proves the answer is the haystack); 18 escaped literals x 27 haystacks; 18 invalid and 8 valid-but-unmodelled patterns. Oracle on the '
            'implementation alone: the four builtins against regex-lite used directly by the harness (is_match iff find non-empty, find = find_iter, capture = first '
            'captures padded with empty strings and of length captures_len in both cases, replace without limit splices exactly the find spans and with limit n the '
            'first n), escaped literal = contains/count/replace, invalid pattern = error value from all four. Correspondence: all five outputs against the wrappers '
            'over the Coq reference engine (leftmost-first backtracking)')
    assumptions = COMMON_ASSUME + ['regex-lite is the engine under the wrappers: its matching semantics are compared with the reference engine on the generated subset only']

    def gen(self, tier, R):
        return [(c, 'release') for c in regexgen.gen_c18(tier, R)]


ALL = {c.pid: c for c in (C18, C09, C14, C13, C15, C16, C17, C12, C19, C01, C02, C03, C04, C05, C06, C07, C08, C10, C11)}
