"""The documented value order (C13) written independently of the crate and of the Coq model, on the s-expression values the cases are made of.
Used only to decide whether the order RESTRICTED TO THE VALUES OF ONE CASE is a total preorder: the known C13 finding (and its consequences for sort/min/max in
C09/C14) is confined to cases where it is not; a failure on values that the documented order does arrange consistently is a different violation and is reported."""
import re, struct

_NUM = re.compile(r'^[+-]?(?:inf|infinity|nan|(?:\d+\.?\d*|\.\d+)(?:[eE][+-]?\d+)?)$', re.I)


def parse(txt):
    """'(a (n 1) (s 49))' -> nested python value: ('b',bool) ('n',float) ('s',tuple of code points) ('a',[...])"""
    toks = txt.replace('(', ' ( ').replace(')', ' ) ').split()
    pos = 0

    def rd():
        nonlocal pos
        assert toks[pos] == '('
        pos += 1
        tag = toks[pos]
        pos += 1
        if tag == 'a':
            items = []
            while toks[pos] != ')':
                items.append(rd())
            pos += 1
            return ('a', items)
        args = []
        while toks[pos] != ')':
            args.append(toks[pos])
            pos += 1
        pos += 1
        if tag == 'n':
            return ('n', struct.unpack('<d', struct.pack('<Q', int(args[0])))[0])
        if tag == 'b':
            return ('b', args[0] == '1')
        if tag == 's':
            return ('s', tuple(int(c) for c in args))
        raise ValueError(tag)
    return rd()


_ORD = {'b': 0, 's': 1, 'n': 2, 'a': 3}


def _pc(x, y):
    return None if (x != x or y != y) else (x > y) - (x < y)


def _strnum(cps):
    t = ''.join(chr(c) for c in cps)
    if not _NUM.match(t):
        return None
    try:
        return float(t)
    except ValueError:
        return None


def cmp(a, b):
    ka, kb = a[0], b[0]
    r = None
    if ka == kb:
        if ka == 'b':
            r = (a[1] > b[1]) - (a[1] < b[1])
        elif ka == 's':
            r = (a[1] > b[1]) - (a[1] < b[1])
        elif ka == 'n':
            r = _pc(a[1], b[1])
        else:
            r = 0
            for x, y in zip(a[1], b[1]):
                r = cmp(x, y)
                if r != 0:
                    break
            if r == 0:
                r = (len(a[1]) > len(b[1])) - (len(a[1]) < len(b[1]))
    elif ka == 's' and kb == 'n':
        f = _strnum(a[1])
        r = _pc(f, b[1]) if f is not None else None
    elif ka == 'n' and kb == 's':
        f = _strnum(b[1])
        r = _pc(a[1], f) if f is not None else None
    if r is None:
        r = (_ORD[ka] > _ORD[kb]) - (_ORD[ka] < _ORD[kb])
    return r


def has_nan(v):
    if v[0] == 'n':
        return v[1] != v[1]
    if v[0] == 'a':
        return any(has_nan(x) for x in v[1])
    if v[0] == 's':
        f = _strnum(v[1])
        return f is not None and f != f
    return False


def consistent(vals):
    """is the documented order restricted to vals a total preorder?  (total relation: transitive iff it is the order induced by the 'number of strictly
    smaller elements' score - O(n^2))"""
    n = len(vals)
    if n > 400:
        vals = vals[:400]
        n = 400
    c = [[cmp(vals[i], vals[j]) for j in range(n)] for i in range(n)]
    for i in range(n):
        for j in range(n):
            if c[i][j] != -c[j][i]:
                return False
    score = [sum(1 for j in range(n) if c[j][i] < 0) for i in range(n)]
    for i in range(n):
        for j in range(n):
            if (c[i][j] < 0) != (score[i] < score[j]) or (c[i][j] == 0) != (score[i] == score[j]):
                return False
    return True


def inconsistency_class(arg_texts, smart=True):
    """None when the documented order arranges the values consistently, else 'nan' / 'mix' (which known class explains it)"""
    vals = [parse(t) for t in arg_texts]
    if smart and len(vals) == 1 and vals[0][0] == 'a':
        vals = vals[0][1]
    if consistent(vals):
        return None
    return 'nan' if any(has_nan(v) for v in vals) else 'mix'
