"""The verdict pipeline shared by all properties (DESIGN.md section 2.5)."""
import os, sys, json, time, random, hashlib, re
from . import core
from .core import ROOT, REPO, SEED


class Prop:
    pid = None
    level = 'proof'
    variants = ['release']      # harness builds this property needs
    k_fields = None             # K fields compared with the model (None: the whole K part)
    o_fields = None             # oracle fields that decide this property (None: all fields printed)
    k_is_o = False              # the model is the language/library definition: a disagreement is itself a failing input
    isolate = False             # run the implementation with per-case crash isolation
    per_case_timeout = 0.05
    use_model = True
    known_covers_k = False      # a known-finding class also excuses a correspondence disagreement (implementation behaviour unspecified there)
    rule = ''
    assumptions = []
    trusted_extra = []

    def gen(self, tier, R):
        """-> list of (line_with_placeholder_id, variant)"""
        raise NotImplementedError

    def search(self, R):
        """larger targeted generation used when a proof or the correspondence broke without an oracle failure"""
        out = []
        for _ in range(3):
            out += self.gen('quick', R)
        return out

    def known(self, line, k, o, mk=None):
        return None

    def in_domain(self, line):
        """for properties whose model is the definition (k_is_o): is this case inside what the property text quantifies over? A disagreement outside it is a broken
        correspondence (searched, reported without a failing input), not a failing input of the property."""
        return True

    def nontrivial(self, line, k):
        return True

    def post(self, ctx):
        """extra cross-case checks; returns list of (line, description, known_class_or_None)"""
        return []

    def describe(self, line):
        el = core.top_elems(line)
        if el and el[0] in ('case', 'opt', 'tot') and len(el) >= 5:
            return core.unsx(f"{el[0]} {el[1]}: {el[4]}  with {el[2]}")[:400]
        if el and el[0] in ('text', 'scan'):
            return f"{el[0]} {el[1]}: " + repr(core.text_of(line))[:300]
        return core.unsx(line)[:400]


def load_known():
    p = os.path.join(ROOT, 'known_findings.json')
    return json.load(open(p)) if os.path.exists(p) else {'known': [], 'fixed': []}


def write_replay(pid, payload):
    h = hashlib.sha1(json.dumps(payload, sort_keys=True).encode()).hexdigest()[:10]
    os.makedirs(os.path.join(ROOT, 'replays'), exist_ok=True)
    path = os.path.join(ROOT, 'replays', f'{pid}-{h}.json')
    json.dump(payload, open(path, 'w'), indent=1)
    return path


def evaluate(prop, cases, info, binaries):
    """run implementation and model on cases [(line, variant)], return per-case records"""
    by_variant = {}
    for i, (line, variant) in enumerate(cases):
        by_variant.setdefault(variant, []).append(i)
    ided = core.with_ids([c[0] for c in cases])
    impl = {}
    for variant, idxs in by_variant.items():
        outs = core.run_sharded(binaries[variant], [ided[i] for i in idxs], shards=8 if not prop.isolate else 16,
                                isolate=prop.isolate, per_case_timeout=prop.per_case_timeout)
        impl.update(outs)
    model = {}
    if prop.use_model and info['model_ok']:
        model = core.run_sharded(core.DRIVER, ided, shards=16, isolate=False, per_case_timeout=0.5)
    recs = []
    for i, (line, variant) in enumerate(cases):
        cid = f'c{i}'
        k, o = core.split_line(impl.get(cid))
        mk = model.get(cid)
        recs.append({'line': ided[i], 'variant': variant, 'impl_k': k, 'impl_o': o, 'model_k': mk, 'impl_raw': impl.get(cid)})
    return recs


def judge(prop, recs):
    disagreements, oracle_fail, known_hits = [], [], {}
    for r in recs:
        k, o = r['impl_k'], r['impl_o']
        if k is None:
            oracle_fail.append((r, 'no output from the implementation'))
            continue
        fails = [f for f, v in o.items() if v == 'FAILS' and (prop.o_fields is None or f in prop.o_fields or f in ('panic', 'crash', 'process'))]
        kn = None
        if fails:
            kn = prop.known(r['line'], k, o, r.get('model_k'))
            if kn:
                known_hits.setdefault(kn, []).append(r)
            else:
                oracle_fail.append((r, 'oracle ' + ','.join(fails)))
        mk = r['model_k']
        if mk is not None and not mk.startswith('NOMODEL') and 'UNMODELLED' not in mk:
            if prop.k_fields is None:
                same = (mk == k)
                diff = 'whole line'
            else:
                a, b_ = core.k_fields(k), core.k_fields(mk)
                bad = [f for f in prop.k_fields if a.get(f) != b_.get(f)]
                same = not bad
                diff = ','.join(bad)
            if not same:
                kn2 = (kn or prop.known(r['line'], k, o, r.get('model_k'))) if prop.known_covers_k else None
                if kn2:
                    known_hits.setdefault(kn2, []).append(r)
                else:
                    disagreements.append((r, diff))
    return disagreements, oracle_fail, known_hits


def run_check(prop, argv):
    pid = prop.pid
    tier = os.environ.get('VERIF_TIER') or ('thorough' if '--tier' in argv and argv[argv.index('--tier') + 1] == 'thorough' else 'quick')
    t0 = time.time()
    R = random.Random(SEED * 1000003 + int(hashlib.sha1(pid.encode()).hexdigest()[:6], 16))
    info = core.build_model(pid)
    # source pins: the items of /repo/src this property's hand-written model was transcribed from; a changed item reopens the obligation "model = code"
    pins_changed = core.source_pins(pid)
    info['pins_changed'] = pins_changed
    if pins_changed and info['proof_ok']:
        info['proof_ok'] = False
        info['broken'] = ('source pin: ' + '; '.join(pins_changed[:6]) + (' ...' if len(pins_changed) > 6 else '') +
                          ' changed since the model of %s was transcribed from it and validated (tools/pins.json); the theorems of Props/%s.v still check, about the model of the earlier text' % (pid, pid))
    binaries = {}
    for v in prop.variants:
        bpath, err = core.build_harness(v)
        if bpath is None:
            # the repository no longer compiles in this configuration: the property is not shown to hold
            path = write_replay(pid, {'property': pid, 'kind': 'harness-build-failed', 'variant': v, 'cargo': err})
            print(f'{pid}: harness build failed for variant {v} (does the repository still compile?)\n{err[-600:]}')
            print(f'VIOLATION property={pid} replay={path} no-failing-input-found')
            sys.exit(1)
        binaries[v] = bpath
    replaying = '--replay' in argv
    if replaying:
        rp = json.load(open(argv[argv.index('--replay') + 1]))
        lines = rp.get('cases') or ([rp['case']] if rp.get('case') else [])
        cases = [(re.sub(r'^\((\w+) \S+', r'(\1 _', ln), rp.get('variant', prop.variants[0])) for ln in lines]
    else:
        corpus = []
        cdir = os.path.join(ROOT, 'corpus')
        for f in sorted(os.listdir(cdir)) if os.path.isdir(cdir) else []:
            if f.startswith(pid + '-'):
                j = json.load(open(os.path.join(cdir, f)))
                corpus.append((re.sub(r'^\((\w+) \S+', r'(\1 _', j['case']), j.get('variant', prop.variants[0])))
        cases = corpus + prop.gen(tier, R)
    recs = evaluate(prop, cases, info, binaries)
    disagreements, oracle_fail, known_hits = judge(prop, recs)
    ctx = {'recs': recs, 'binaries': binaries, 'info': info, 'tier': tier, 'R': R, 'replaying': replaying, 'seed': SEED}
    post_known = {}
    for line, desc, kn in ([] if replaying else prop.post(ctx)):
        if kn:
            post_known.setdefault(kn, []).append({'line': line, 'desc': desc})
        else:
            oracle_fail.append(({'line': line, 'variant': prop.variants[0], 'impl_raw': desc, 'model_k': None}, desc))
    searched = 0
    violation = None
    proof_broken = (not info['proof_ok'])
    model_broken = prop.use_model and not info['model_ok']

    def smallest(lst):
        return min(lst, key=lambda x: len(x[0]['line']))

    if oracle_fail:
        r, why = smallest(oracle_fail)
        path = write_replay(pid, {'property': pid, 'kind': 'oracle-failure', 'why': why, 'case': r['line'], 'variant': r.get('variant'),
                                  'readable': prop.describe(r['line']), 'implementation': r.get('impl_raw'), 'model': r.get('model_k'),
                                  'how_to_replay': f'./check {pid} --replay <this file>'})
        violation = (path, '', f"{why}: {prop.describe(r['line'])} -> {str(r.get('impl_raw'))[:200]}")
    elif prop.k_is_o and [d for d in disagreements if prop.in_domain(d[0]['line'])]:
        r, diff = smallest([d for d in disagreements if prop.in_domain(d[0]['line'])])
        path = write_replay(pid, {'property': pid, 'kind': 'disagrees-with-definition', 'fields': diff, 'case': r['line'], 'variant': r['variant'],
                                  'readable': prop.describe(r['line']), 'implementation': r['impl_raw'], 'model': r['model_k']})
        violation = (path, '', f"implementation differs from the definition on {diff}: {prop.describe(r['line'])}\n   impl : {str(r['impl_k'])[:300]}\n   model: {str(r['model_k'])[:300]}")
    elif proof_broken or model_broken or disagreements:
        # the property is no longer shown to hold: search for a concrete failing input with the oracle on the implementation
        found = None
        if not replaying:
            R2 = random.Random(SEED + 7919)
            extra = prop.search(R2)
            if pins_changed:
                # the text changed under a model that still builds: look wider (two more generator seeds), with the model kept on so that a differing input is named too
                for k in (1, 2):
                    extra = extra + prop.gen('quick', random.Random((SEED + 104729 * k) * 1000003 + 17))
            if len(extra) > 400000:
                # keep the widened search bounded in time and memory (C09 generates 1.2 million calls per seed)
                extra = R2.sample(extra, 400000)
            searched = len(extra)
            recs2 = evaluate(prop, extra, info if (pins_changed and info['model_ok']) else dict(info, model_ok=False), binaries)
            dis2, of2, _ = judge(prop, recs2)
            if of2:
                found = smallest(of2)
            elif prop.k_is_o and [d for d in dis2 if prop.in_domain(d[0]['line'])]:
                r, diff = smallest([d for d in dis2 if prop.in_domain(d[0]['line'])])
                found = (r, 'implementation differs from the definition on ' + str(diff))
            elif dis2 and not disagreements:
                disagreements = dis2
        if found:
            r, why = found
            path = write_replay(pid, {'property': pid, 'kind': 'oracle-failure-found-by-search', 'why': why, 'case': r['line'], 'variant': r['variant'],
                                      'readable': prop.describe(r['line']), 'implementation': r['impl_raw'],
                                      'model': r.get('model_k'), 'broken': info.get('broken'), 'coqc': info.get('log_tail')})
            violation = (path, '', f"{why}: {prop.describe(r['line'])}")
        else:
            d0 = smallest(disagreements) if disagreements else None
            payload = {'property': pid, 'kind': 'proof-or-correspondence-broken',
                       'theorem_or_file': info.get('broken') if proof_broken else ('model build' if model_broken else None),
                       'coqc': info.get('log_tail') or info.get('model_log'),
                       'correspondence': None if not d0 else {'fields': d0[1], 'case': d0[0]['line'], 'readable': prop.describe(d0[0]['line']),
                                                              'implementation': d0[0]['impl_raw'], 'model': d0[0]['model_k']},
                       'case': d0[0]['line'] if d0 else '', 'variant': d0[0]['variant'] if d0 else None, 'searched_cases': searched}
            path = write_replay(pid, payload)
            what = ('theorem ' + str(info.get('broken'))) if proof_broken else ('model build' if model_broken else 'correspondence on ' + d0[1])
            msg = f"{what} no longer checks"
            if proof_broken and str(info.get('broken')).startswith('source pin'):
                msg = 'the obligation "model = code" is open - ' + str(info.get('broken'))
            if d0:
                msg += f"; first disagreement: {prop.describe(d0[0]['line'])}\n   impl : {str(d0[0]['impl_k'])[:300]}\n   model: {str(d0[0]['model_k'])[:300]}"
            violation = (path, ' no-failing-input-found', msg)
    # known findings
    kf = load_known()
    listed = {k['class']: k for k in kf.get('known', []) if k['property'] == pid}
    known_lines = []
    allk = dict(known_hits)
    for kcls, lst in post_known.items():
        allk.setdefault(kcls, []).extend(lst)
    for kcls, lst in allk.items():
        if kcls in listed:
            ex = lst[0]
            known_lines.append(f"KNOWN-FINDING: property={pid} {listed[kcls]['what']} [{len(lst)} case(s) this run, e.g. {prop.describe(ex['line'])[:160]}]")
        elif violation is None:
            r = lst[0]
            path = write_replay(pid, {'property': pid, 'kind': 'unlisted-known-class', 'class': kcls, 'case': r['line']})
            violation = (path, '', f'finding class {kcls} is not listed in known_findings.json')
    # evidence
    impl_ks = [r['impl_k'] for r in recs if r['impl_k'] is not None]
    distinct = len(set(k for r, k in ((r, r['impl_k']) for r in recs) if k is not None and prop.nontrivial(r['line'], k)))
    nthm = len(info['theorems'])
    obligations = nthm + 3  # + model build, correspondence, source pins
    cov = {
        'obligations': obligations, 'discharged': obligations if info['proof_ok'] else 0,
        'checker_cmd': f'make -C coq Props/{pid}.vo Extract.vo (coqc 8.16.1, full .vo build) + Print Assumptions allowlist + forbidden-vernacular scan',
        'trusted_base': ['Coq 8.16.1 kernel (coqc; vm_compute only in finite sweeps)', 'axioms under the property theorems: ' + (', '.join(info['axioms']) or 'none (closed under the global context)'),
                         'tools/translate.py (Gen/*.v)', 'extraction with ExtrOcamlBasic only + ocaml/driver.ml', 'Rust harness + generators', 'rustc/cargo, crates of Cargo.lock'] + list(prop.trusted_extra),
        'theorems': info['theorems'], 'translator': info['translator'],
        'evaluations': len(recs), 'distinct_nontrivial': distinct, 'rule': prop.rule,
        'correspondence_cases_with_model_output': sum(1 for r in recs if r['model_k'] is not None and not str(r['model_k']).startswith('NOMODEL') and 'UNMODELLED' not in str(r['model_k'])),
        'correspondence_disagreements': len(disagreements), 'oracle_failures': len(oracle_fail),
        'known_finding_cases': {k: len(v) for k, v in allk.items()}, 'searched_cases_after_break': searched,
        'samples': [prop.describe(r['line']) + '  =>  ' + str(r['impl_raw'])[:200] for r in (recs[:2] + recs[len(recs) // 2:len(recs) // 2 + 2] + recs[-2:])],
        'build_s': info.get('build_s'), 'source_pins_changed': pins_changed,
    }
    cov.update(getattr(prop, 'extra_cov', {}) or {})
    ev = {'property_id': pid, 'tier': tier, 'seed': SEED, 'level': prop.level, 'wall_s': round(time.time() - t0, 2), 'violations': 1 if violation else 0,
          'coverage': cov, 'assumptions': list(prop.assumptions)}
    if not replaying:
        os.makedirs(os.path.join(ROOT, 'evidence'), exist_ok=True)
        json.dump(ev, open(os.path.join(ROOT, 'evidence', f'{pid}.json'), 'w'), indent=1)
    print(f"{pid}: tier={tier} seed={SEED} cases={len(recs)} theorems={nthm} proof_ok={info['proof_ok']} model_ok={info['model_ok']} "
          f"disagreements={len(disagreements)} oracle_failures={len(oracle_fail)} known={ {k: len(v) for k, v in allk.items()} } "
          f"translator={info['translator']} wall={ev['wall_s']}s")
    if replaying:
        for r in recs:
            print('  case :', prop.describe(r['line']))
            print('  impl :', r['impl_raw'])
            print('  model:', r['model_k'])
    for l in known_lines:
        print(l)
    if violation:
        print('  ' + violation[2])
        print(f'VIOLATION property={pid} replay={violation[0]}{violation[1]}')
        sys.exit(1)
    sys.exit(0)
