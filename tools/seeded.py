#!/usr/bin/env python3
"""Seeded-change bookkeeping.
  tools/seeded.py verify <name> <pid> <mutdir>   confirm an independently produced change in a fresh scratch worktree (suite passes, demo fails
                                               with the change and passes without), then store it as seeded/<name>/
  tools/seeded.py run <name> [PID ...]          apply seeded/<name>/patch.diff to /repo, run the given checks (default: the property it breaks),
                                               undo it straight afterwards, record the verdicts in seeded/<name>/meta.json"""
import sys, os, json, subprocess, shutil, glob, re, time
ROOT = os.path.dirname(os.path.dirname(os.path.abspath(__file__)))
REPO = '/repo'
ENV = dict(os.environ, CARGO_NET_OFFLINE='true')


def sh(cmd, cwd=None, timeout=3600):
    p = subprocess.run(cmd, shell=True, cwd=cwd, env=ENV, capture_output=True, text=True, timeout=timeout)
    return p.returncode, p.stdout + p.stderr


def verify(name, pid, mutdir):
    wt = f'/tmp/vw-{name}'
    sh(f'git -C {REPO} worktree remove --force {wt}')
    rc, out = sh(f'git -C {REPO} worktree add -q --detach {wt} HEAD')
    assert rc == 0, out
    try:
        demos = [f for f in glob.glob(os.path.join(mutdir, '*.rs'))]
        assert len(demos) == 1, demos
        demo = os.path.basename(demos[0])[:-3]
        shutil.copy(demos[0], os.path.join(wt, 'tests', demo + '.rs'))
        rc0, out0 = sh(f'cargo test --offline --test {demo}', cwd=wt)
        rc1, out1 = sh(f'git apply {os.path.join(mutdir, "patch.diff")}', cwd=wt)
        assert rc1 == 0, 'patch does not apply: ' + out1
        rc2, out2 = sh(f'cargo test --offline --test {demo}', cwd=wt)
        os.remove(os.path.join(wt, 'tests', demo + '.rs'))
        rc3, out3 = sh('cargo test --workspace --no-fail-fast --offline', cwd=wt)
        passed = sum(int(x) for x in re.findall(r'test result: ok\. (\d+) passed', out3))
        ok = rc0 == 0 and rc2 != 0 and rc3 == 0
        print(f'{name}: demo without change rc={rc0} (want 0); demo with change rc={rc2} (want !=0); existing suite with change rc={rc3} ({passed} passed)  => {"CONFIRMED" if ok else "REJECTED"}')
        if not ok:
            print(out0[-500:], out2[-500:], out3[-800:])
            return False
        d = os.path.join(ROOT, 'seeded', name)
        os.makedirs(d, exist_ok=True)
        shutil.copy(os.path.join(mutdir, 'patch.diff'), os.path.join(d, 'patch.diff'))
        shutil.copy(demos[0], os.path.join(d, demo + '.rs'))
        notes = os.path.join(mutdir, 'notes.md')
        if os.path.exists(notes):
            shutil.copy(notes, os.path.join(d, 'notes.md'))
        meta = {'property': pid, 'origin': 'independent sub-agent given only the property text and a scratch worktree', 'needs_to_manifest': '', 'confirmed': {
            'repo_head': sh(f'git -C {REPO} rev-parse --short HEAD')[1].strip(), 'demo_without_change': 'passes', 'demo_with_change': 'fails', 'existing_suite_with_change': f'{passed} tests pass',
            'commands': [f'cargo test --offline --test {demo} (clean worktree)', 'git apply patch.diff', f'cargo test --offline --test {demo}', 'cargo test --workspace --no-fail-fast --offline']}, 'checks': {}}
        mp = os.path.join(d, 'meta.json')
        if os.path.exists(mp):
            old = json.load(open(mp))
            meta['checks'] = old.get('checks', {})
            meta['needs_to_manifest'] = old.get('needs_to_manifest', '')
        json.dump(meta, open(mp, 'w'), indent=1)
        return True
    finally:
        sh(f'git -C {REPO} worktree remove --force {wt}')


def run(name, pids, scratch=False):
    """scratch=True: apply the change to a scratch worktree of /repo and point the checks at it with VERIF_REPO (used while a long
    background run is reading /repo itself); otherwise apply it to /repo and undo it straight afterwards"""
    d = os.path.join(ROOT, 'seeded', name)
    meta = json.load(open(os.path.join(d, 'meta.json')))
    pids = pids or [meta['property']]
    target = REPO
    if scratch:
        target = '/tmp/vrepo'
        sh(f'git -C {REPO} worktree remove --force {target}')
        rc, out = sh(f'git -C {REPO} worktree add -q --detach {target} HEAD')
        assert rc == 0, out
        ENV['VERIF_REPO'] = target
    rc, out = sh(f'git -C {target} status --porcelain --untracked-files=no')
    assert out.strip() == '', target + ' has uncommitted changes: ' + out
    rc, out = sh(f'git -C {target} apply {os.path.join(d, "patch.diff")}')
    assert rc == 0, out
    try:
        for pid in pids:
            t0 = time.time()
            evf = os.path.join(ROOT, 'evidence', f'{pid}.json')
            saved = open(evf).read() if os.path.exists(evf) else None
            rc, out = sh(f'./check {pid} --tier quick', cwd=ROOT, timeout=7200)
            if saved is not None:
                open(evf, 'w').write(saved)   # the evidence file describes the unchanged tree: a run on a seeded change must not replace it
            lines = [l for l in out.splitlines() if not l.startswith('WARNING')]
            vio = [l for l in lines if l.startswith('VIOLATION')]
            summary = next((l for l in lines if l.startswith(pid + ':')), '')
            detail = [l for l in lines if l.startswith('  ')][:3]
            verdict = 'caught' if rc == 1 and vio else ('missed' if rc == 0 else f'error rc={rc}')
            meta['checks'][pid] = {'verdict': verdict, 'violation_line': vio[0] if vio else None, 'summary': summary[:300], 'detail': [x[:300] for x in detail], 'wall_s': round(time.time() - t0, 1)}
            print(f'{name} x {pid}: {verdict}  {vio[0] if vio else ""}')
            for x in detail:
                print('    ' + x[:260])
    finally:
        rc, out = sh(f'git -C {target} checkout -- .')
        sh(f'git -C {ROOT} checkout -- coq/Gen')   # the translator's output for the changed tree must not stay behind (it is regenerated on every run anyway)
        if scratch:
            sh(f'git -C {REPO} worktree remove --force {target}')
            ENV.pop('VERIF_REPO', None)
        # replays produced by the run stay out of the repository (.gitignore); evidence of the unchanged tree is regenerated below by the caller
    json.dump(meta, open(os.path.join(d, 'meta.json'), 'w'), indent=1)


if __name__ == '__main__':
    if sys.argv[1] == 'verify':
        sys.exit(0 if verify(sys.argv[2], sys.argv[3], sys.argv[4]) else 1)
    args = [a for a in sys.argv[2:] if a != '--scratch']
    run(args[0], args[1:], scratch='--scratch' in sys.argv)
