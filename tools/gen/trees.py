"""Generators of expression-tree cases (case / opt kinds) in the neutral s-expression format."""
import itertools
from vlib.core import num, s, b, arr, OPS

NAN = float('nan')
INF = float('inf')
# sizes around the thresholds an optimisation would pick (inline capacity, block size, table size, u8 counter): every structure - a chain of operators, a list of elements or arguments,
# a nesting of conditionals, a set of names - is exercised just below, at and just above each of them
SIZES = [7, 8, 9, 15, 16, 17, 18, 31, 32, 33, 34, 63, 64, 65, 66, 100, 127, 128, 129, 255, 256, 257]
SIZES_BIG = SIZES + [511, 512, 513, 1000, 1023, 1024, 1025]


def fn(name, kind, arity, pure=1):
    return f"({s(name)} {kind} {arity} {pure})"


def env(vars_, fns):
    return "(vars " + " ".join(f"({s(n)} {v})" for n, v in vars_) + ") (fns " + " ".join(fns) + ")"


K7 = f"(const {num(7.0)})"
KTRUE = "(const (b 1))"
KSTR = f"(const {s('s')})"
ENV_BASIC = env([('x', num(3.0)), ('y', s('str')), ('t', b(True)), ('f', b(False)), ('e', s(''))],
                [fn('boom', '(fail)', '(variadic)'), fn('boom0', '(fail)', '(poly 0 0)'), fn('echo', '(echo)', '(variadic)'), fn('k', K7, '(poly 0 3)'),
                 fn('kb', KTRUE, '(poly 0 0)'), fn('kn', K7, '(none)')])

NUMS = [0.0, -0.0, 1.0, -1.0, 0.5, -7.5, 2.0, 3.0, 10.0, 9.0, 2.0**53, 2.0**53 + 2, 1.7976931348623157e308, 5e-324, INF, -INF, NAN, 0.1, 1e300, -2.5]
STRS = ["", "a", "b", "10", "9", " 1", "1e3", "nan", "inf", "-0", "0", "1", "abc", "ab", "é", "1.0", "true", "+5", ".5", "5.", "0x10", "Infinity", "1e400", "-1e-400"]
VALS = [num(x) for x in NUMS] + [s(t) for t in STRS] + [b(True), b(False)] + \
       [arr(), arr(num(1.0)), arr(s("1")), arr(b(True)), arr(arr(num(1.0)), s("a")), arr(num(NAN)), arr(num(1.0), num(2.0)), arr(num(1.0), num(3.0))]


def operands():
    out = [f"(lit {v})" for v in VALS]
    out += [f"(var {s('u')})", f"(var {s('x')})", f"(var {s('t')})", f"(call {s('boom')} (lit {num(1.0)}))", f"(call {s('nofn')})",
            f"(call {s('echo')} (var {s('y')}) (lit {num(1.0)}))", f"(call {s('kb')})"]
    return out


OPERANDS = operands()


def gen_eval(tier, R):
    """C03/C04: every operator in unary, binary, ternary position over the operand descriptors, failing elements at each
    position of arrays and argument lists, then random nesting"""
    out = []

    def case(e):
        out.append(f"(case _ {ENV_BASIC} {e})")
    for o in OPS:
        for a in OPERANDS:
            case(f"(un {o} {a})")
    ops2 = OPERANDS   # every ordered pair of operand descriptors under every operator, in both tiers (a stride sample once dropped `false` and every negative number)
    for o in OPS:
        for a in ops2:
            for c in ops2:
                case(f"(bin {o} {a} {c})")
    small = OPERANDS[::5] + OPERANDS[-7:]
    for o in ["ternaryCondition", "plus", "and"]:
        for a in OPERANDS:
            for m in small[:6]:
                for c in small[6:12]:
                    case(f"(ter {o} {a} {m} {c})")
    # arithmetic and comparison on numbers of both signs: whole, fractional, tiny, huge, signed zeros, non-finite - all pairs (sign rules of div / mod,
    # rounding direction, cancellation), plus numeric strings of both signs against numbers for the comparison and equality operators
    signed = [0.0, -0.0, 1.0, -1.0, 2.0, -2.0, 3.0, -3.0, 0.5, -0.5, 7.0, -7.0, 7.5, -7.5, 2.5, -2.5, 10.0, -10.0, 0.1, -0.1, 6.0, -6.0, 1e16, -1e16, 2.0**53, -(2.0**53), 5e-324, -5e-324, 1e308, -1e308, INF, -INF, NAN,
              2.0**31, -(2.0**31), 2.0**32, 2.0**63, -(2.0**63), 2.0**64, 0.30000000000000004, 0.3, 1e-17, -1e-17, 2.220446049250313e-16, 1.0000000000000002]   # integer-type boundaries; neighbours one ulp apart; values below every 'epsilon'
    if tier == 'thorough':
        signed += [R.choice([-1, 1]) * R.choice([R.uniform(0, 10), float(R.randint(0, 1000)), R.uniform(0, 1e-3), R.uniform(1e15, 1e17)]) for _ in range(60)]
    for o in ["plus", "minus", "multiply", "divide", "div", "mod", "greater", "greaterEqual", "less", "lessEqual", "equal", "notEqual"]:
        for x in signed:
            for y in signed:
                case(f"(bin {o} (lit {num(x)}) (lit {num(y)}))")
    # equality and order of ARRAYS whose corresponding elements are pairs on which `=` and the order treat kinds differently (Boolean vs 0/1, NaN vs NaN,
    # numeric string vs number, signed zeros): element-wise `=` inside arrays, at depth 1 and 2, alone and followed by an equal element
    eqp = [(b(True), num(1.0)), (b(False), num(0.0)), (num(NAN), num(NAN)), (s("1"), num(1.0)), (s("1.0"), num(1.0)), (num(-0.0), num(0.0)), (s("a"), s("a")), (b(True), s("1")),
           (num(1.0), num(2.0)), (s(""), num(0.0)), (arr(), s("")), (b(True), b(True))]
    for p_, q_ in eqp:
        for (l_, r_) in [(arr(p_), arr(q_)), (arr(q_), arr(p_)), (arr(p_, s("x")), arr(q_, s("x"))), (arr(num(5.0), p_), arr(num(5.0), q_)), (arr(arr(p_)), arr(arr(q_))), (arr(arr(p_, q_)), arr(arr(q_, p_))),
                         (arr(p_), arr(q_, num(0.0))), (p_, q_), (q_, p_)]:
            for o in ["equal", "notEqual", "less", "lessEqual", "greater", "greaterEqual"]:
                case(f"(bin {o} (lit {l_}) (lit {r_}))")
    sstr = ["-1", "-0.5", "-7", "+7", "-7.5", "7", "-0", "-inf", "-1e3", " -1", "-", "--1"]
    for o in ["greater", "greaterEqual", "less", "lessEqual", "equal", "notEqual", "plus", "minus"]:
        for t in sstr:
            for y in signed[:20]:
                case(f"(bin {o} (lit {s(t)}) (lit {num(y)}))")
                case(f"(bin {o} (lit {num(y)}) (lit {s(t)}))")
    for k in range(4):
        for pos in range(k + 1):
            elems = [f"(call {s('echo')} (lit {num(float(i))}))" for i in range(k)]
            for bad in [f"(var {s('u')})", f"(call {s('boom')} (lit (b 1)))"]:
                e = elems[:pos] + [bad] + elems[pos:]
                case("(arr " + " ".join(e) + ")")
                case(f"(call {s('echo')} " + " ".join(e) + ")")
                case(f"(call {s('nofn')} " + " ".join(e) + ")")

    def rnd(d):
        if d == 0 or R.random() < 0.25:
            return R.choice(OPERANDS)
        k = R.random()
        if k < 0.15:
            return f"(un {R.choice(OPS)} {rnd(d-1)})"
        if k < 0.75:
            return f"(bin {R.choice(OPS)} {rnd(d-1)} {rnd(d-1)})"
        if k < 0.85:
            return f"(ter {R.choice(['ternaryCondition']*4+OPS)} {rnd(d-1)} {rnd(d-1)} {rnd(d-1)})"
        if k < 0.93:
            return "(arr " + " ".join(rnd(d-1) for _ in range(R.randint(0, 3))) + ")"
        return f"(call {R.choice([s('echo'), s('k'), s('boom'), s('nofn')])} " + " ".join(rnd(d-1) for _ in range(R.randint(0, 3))) + ")"
    for _ in range(8000 if tier == 'quick' else 400000):
        case(rnd(R.randint(2, 6 if tier == 'quick' else 8)))
    # sizes: left-nested chains of n operands under one operator - all of one kind, then with one mistyped operand and a failing one (undefined variable, failing call) behind it:
    # the error is that of the FIRST failing operation in evaluation order, and nothing behind it is evaluated, whatever the length of the chain
    L = lambda v: f"(lit {v})"
    def chain(o, items):
        e = items[0]
        for x in items[1:]:
            e = f"(bin {o} {e} {x})"
        return e
    sizes = SIZES if tier == 'quick' else SIZES_BIG
    for n in sizes:
        for o, good, bad in (("plus", L(num(1.0)), L(b(True))), ("plus", L(s("a")), L(num(1.0))), ("plus", f"(arr {L(num(1.0))})", L(num(2.0))), ("minus", L(num(1.0)), L(s("a"))),
                             ("multiply", L(num(1.0)), L(b(False))), ("and", L(b(True)), None), ("or", L(b(False)), None), ("xor", L(b(True)), L(num(1.0)))):
            case(chain(o, [good] * n))
            fails = [f"(var {s('u')})", f"(call {s('boom')} {L(num(2.0))})", f"(call {s('echo')} (var {s('y')}))"]
            for pos_bad in sorted({1, n // 2, n - 2}):
                for pos_fail in sorted({pos_bad + 1, n - 1}):
                    if bad is None or not (0 < pos_bad < pos_fail < n):
                        continue
                    items = [good] * n
                    items[pos_bad] = bad
                    items[pos_fail] = fails[(n + pos_bad) % 3]
                    case(chain(o, items))
            items = [good] * n
            items[n - 1] = fails[n % 3]
            case(chain(o, items))
            if o in ("and", "or"):
                items = [good] * n
                items[n // 2] = L(b(o == "or"))          # decides the chain: nothing behind it runs
                items[n - 1] = f"(call {s('boom')} {L(num(1.0))})"
                case(chain(o, items))
    # sizes: arrays and argument lists of n elements in which one element fails - at every kind of position (first, block boundaries, last) - among elements that leave a trace
    for n in sizes:
        if n > 300:
            continue
        for wrap in ("arr", "call"):
            for p in sorted({0, 1, 6, 7, 8, 15, 16, 31, 32, n // 2, n - 2, n - 1}):
                if not (0 <= p < n):
                    continue
                for bad in (f"(call {s('boom')} {L(num(float(p)))})", f"(var {s('u')})", f"(bin plus {L(num(1.0))} {L(b(True))})"):
                    items = [f"(call {s('echo')} {L(num(float(i)))})" if i % 3 else f"(var {s('x')})" for i in range(n)]
                    items[p] = bad
                    case(("(arr " if wrap == "arr" else f"(call {s('echo')} ") + " ".join(items) + ")")
    return out


def gen_boolcheck(tier, R):
    """C11: all operators in unary/binary position over leaves of every kind incl. undefined on either side; conditionals nested
    in result position; random trees"""
    vals = [num(x) for x in (0.0, 1.0, 5.0, -2.5, NAN)] + [s(''), s('a'), s('10')] + [b(True), b(False)] + ["(a)", f"(a {num(1.0)})"]
    leaves = [f"(lit {v})" for v in vals] + [f"(var {s(n)})" for n in ('u', 'x', 't', 'f', 'e')] + \
             [f"(call {s('boom')} (lit (b 1)))", f"(call {s('nofn')})", f"(call {s('kb')})", f"(call {s('k')})"] + [f"(call {s('echo')} (lit {num(1.0)}))"]
    cases = []
    for o in OPS:
        for a in leaves:
            cases.append(f"(un {o} {a})")
        for a in leaves:
            for c in leaves:
                cases.append(f"(bin {o} {a} {c})")
    # conditionals nested in result position
    res_pos = [f"(bin {o} {a} {c})" for o in ('or', 'and', 'plus', 'less') for a in leaves[::4] for c in leaves[::5]] + leaves
    for c in leaves[::3]:
        for m in res_pos[::3]:
            for r in res_pos[::7]:
                cases.append(f"(ter ternaryCondition {c} {m} {r})")
                cases.append(f"(ter ternaryCondition {c} (ter ternaryCondition {c} {r} {m}) {m})")

    def rnd(d):
        if d == 0 or R.random() < 0.25:
            return R.choice(leaves)
        k = R.random()
        if k < 0.2:
            return f"(un {R.choice(['not','not','minus'] + OPS[:2])} {rnd(d-1)})"
        if k < 0.7:
            return f"(bin {R.choice(OPS)} {rnd(d-1)} {rnd(d-1)})"
        if k < 0.9:
            return f"(ter {R.choice(['ternaryCondition']*5 + ['plus'])} {rnd(d-1)} {rnd(d-1)} {rnd(d-1)})"
        return "(arr " + " ".join(rnd(d-1) for _ in range(R.randint(0, 2))) + ")"
    for _ in range(4000 if tier == 'quick' else 300000):
        cases.append(rnd(R.randint(2, 5)))
    # long chains of conditionals in result position with the one offending leaf at the very bottom (a validator that stops looking at some depth accepts them)
    for d in ((3, 17, 64, 127, 128, 129, 130, 200, 300) if tier == 'quick' else (3, 17, 64, 127, 128, 129, 130, 200, 300, 600, 1000)):
        for bad in (f"(lit {num(5.0)})", f"(lit {s('a')})", "(arr)", f"(bin plus (var {s('x')}) (lit {num(1.0)}))", f"(un minus (var {s('x')}))", "(lit (b 1))"):
            for side in (0, 1):
                e = bad
                for _ in range(d):
                    e = f"(ter ternaryCondition (var {s('f')}) (lit (b 1)) {e})" if side == 0 else f"(ter ternaryCondition (var {s('t')}) {e} (lit (b 0)))"
                cases.append(e)
    # sizes: conditionals nested d deep through the then-, the else- or the condition position, with one offending leaf either at the very bottom or in the OUTERMOST slot that is still pending when
    # the walk is d levels down (a walk that hands over to another routine at some depth, or keeps a fixed-size work list, loses exactly those)
    T, F, X1, L_f = "(lit (b 1))", "(lit (b 0))", f"(var {s('t')})", f"(var {s('f')})"
    for d in (list(range(1, 41)) + [48, 63, 64, 65, 100]) if tier == 'quick' else list(range(1, 130)):
        for bad in (f"(lit {num(1.0)})", f"(lit {s('a')})", f"(bin plus (var {s('x')}) (lit {num(1.0)}))"):
            for pos in ("then", "else", "cond"):
                for where in ("bottom", "outer", "outer-selected"):
                    # "outer-selected": the conditions are such that execution really takes the offending branch (then the accepted tree visibly yields a non-Boolean)
                    sel = where == "outer-selected"
                    e = bad if where == "bottom" else (F if (sel and pos == "cond") else T)
                    for lvl in range(d):
                        outer_bad = bad if (where != "bottom" and lvl == d - 1) else None
                        if pos == "then":
                            e = f"(ter ternaryCondition {(L_f if (sel and outer_bad) else X1)} {e} {outer_bad or F})"
                        elif pos == "else":
                            e = f"(ter ternaryCondition {(X1 if (sel and outer_bad) else L_f)} {outer_bad or T} {e})"
                        else:
                            e = f"(ter ternaryCondition {e} {T} {outer_bad or F})"
                    cases.append(e)
    return [f"(case _ {ENV_BASIC} {e})" for e in cases]


# ---- optimizer / validator environments: every arity kind, pure and impure ----
OPT_FNS = [("k", K7, "(poly 0 0)", 1), ("p1", K7, "(poly 1 0)", 1), ("imp", K7, "(variadic)", 0), ("fail", "(fail)", "(poly 0 1)", 1), ("echo", "(echo)", "(variadic)", 1),
           ("if_then", "(ifthen)", "(poly 2 1)", 1), ("none0", KTRUE, "(none)", 1), ("opt2", KSTR, "(poly 1 2)", 1), ("impfail", "(fail)", "(poly 0 0)", 0),
           ("impnone", K7, "(none)", 0), ("echo2", "(echo)", "(poly 2 2)", 1)]
OPT_FNS_S = [fn(n, k, a, p) for n, k, a, p in OPT_FNS]
OPT_LITS = [num(0.0), num(1.0), num(2.0), num(-3.5), num(NAN), num(INF), s(""), s("a"), s("10"), b(True), b(False), "(a)", f"(a {num(1.0)})"]
BINOPS = ["plus", "minus", "multiply", "divide", "greater", "less", "equal", "notEqual", "and", "or", "xor", "div", "mod"]


def rnd_opt_tree(R, d, undefined=True):
    names = [n for n, _, _, _ in OPT_FNS] + ["nofn"]

    def rnd(d):
        k = R.random()
        if d == 0 or k < 0.22:
            j = R.random()
            if j < 0.6:
                return f"(lit {R.choice(OPT_LITS)})"
            if j < 0.8 or not undefined:
                return f"(var {s(R.choice(['x','y','t']))})"
            return f"(var {s('u')})"
        if k < 0.32:
            return f"(un {R.choice(['minus','not','not','minus','plus'])} {rnd(d-1)})"
        if k < 0.62:
            return f"(bin {R.choice(BINOPS + ['ternaryCondition','not'] if R.random()<0.05 else BINOPS)} {rnd(d-1)} {rnd(d-1)})"
        if k < 0.70:
            return f"(ter {R.choice(['ternaryCondition']*6+['plus'])} {rnd(d-1)} {rnd(d-1)} {rnd(d-1)})"
        if k < 0.78:
            return "(arr " + " ".join(rnd(d-1) for _ in range(R.randint(0, 3))) + ")"
        n = R.choice(names + ["if_then"] * 3)
        k2 = 3 if (n == "if_then" and R.random() < 0.6) else R.randint(0, 4)
        return f"(call {s(n)} " + " ".join(rnd(d-1) for _ in range(k2)) + ")"
    return rnd(d)


def gen_opt(tier, R, kind='opt'):
    """C05/C06/C10: random trees over literals, variables, all operators, arrays, conditionals, pure/impure/unknown calls of every
    arity kind and count, several bindings (bound or not) per tree"""
    out = []
    # systematic: every function x every count 0..4 with literal arguments, alone and under an operator
    for n, _, _, _ in OPT_FNS + [("nofn", 0, 0, 0)]:
        for cnt in range(0, 5):
            for lits in ([f"(lit {num(float(i))})" for i in range(cnt)], [f"(lit (b {i % 2}))" for i in range(cnt)], [f"(var {s('x')})"] * cnt):
                c = f"(call {s(n)} " + " ".join(lits) + ")"
                for e in (c, f"(bin plus {c} (lit {num(1.0)}))", f"(arr {c} (lit (b 1)))", f"(ter ternaryCondition (lit (b 1)) {c} (lit (b 0)))"):
                    out.append(f"({kind} _ {env([('x', num(2.0))], OPT_FNS_S)} {e})")
    # the classic unsound rewrites of an algebraic simplifier: identities and re-association that hold in exact arithmetic or for one operand kind only,
    # each under bindings of every kind (NaN, signed zeros, infinities, values where rounding shows, numeric and other strings, Booleans, arrays, unbound)
    X, Y = f"(var {s('x')})", f"(var {s('y')})"
    L = lambda v: f"(lit {v})"
    consts = [num(v) for v in (0.0, -0.0, 1.0, -1.0, 2.0, 0.1, 0.2, 0.3, 1e16, 1e308, -1e308, 1e-16)] + [s(""), s("a"), b(True), b(False), "(a)"]
    idents = []
    for o in ["plus", "minus", "multiply", "divide", "div", "mod", "and", "or", "xor", "equal", "notEqual", "less", "lessEqual", "greater", "greaterEqual"]:
        for c in consts:
            idents += [f"(bin {o} {X} {L(c)})", f"(bin {o} {L(c)} {X})"]
        idents += [f"(bin {o} {X} {X})", f"(bin {o} {X} {Y})"]
    for u in ["not", "minus"]:
        idents += [f"(un {u} (un {u} {X}))", f"(un {u} (bin and {X} {Y}))", f"(un {u} (bin less {X} {Y}))"]
    arith = ["plus", "minus", "multiply", "divide"]
    fl = [num(v) for v in (0.1, 0.2, 0.3, 1.0, 1e16, 1e308, -1e308, 3.0)]
    fsel = fl if tier == 'thorough' else fl[:6]
    for o1 in arith:
        for o2 in arith:
            for c1 in fsel:
                for c2 in fsel:
                    idents += [f"(bin {o2} (bin {o1} {X} {L(c1)}) {L(c2)})", f"(bin {o1} {L(c1)} (bin {o2} {X} {L(c2)}))", f"(bin {o2} (bin {o1} {L(c1)} {X}) {L(c2)})", f"(bin {o1} {L(c1)} (bin {o2} {L(c2)} {X}))"]
    for o in ["plus"]:
        for c1 in (s("a"), s(""), "(a)", f"(a {num(1.0)})"):
            for c2 in (s("b"), s(""), "(a)", f"(a {num(2.0)})"):
                idents += [f"(bin {o} (bin {o} {X} {L(c1)}) {L(c2)})", f"(bin {o} {L(c1)} (bin {o} {L(c2)} {X}))"]
    xb = [num(v) for v in (0.1, 1e16, -1e308, 0.0, -0.0, NAN, INF, 1.0, 3.0)] + [s("a"), s("10"), s(""), b(True), b(False), "(a)", None]
    for e in idents:
        for xv in (xb if tier == 'thorough' else R.sample(xb, 6)):
            binds = ([('x', xv)] if xv is not None else []) + [('y', R.choice(xb[:-1]))]
            out.append(f"({kind} _ {env(binds, OPT_FNS_S)} {e})")
    # if_then / conditionals whose two branches are `=` to each other without being identical (1 / true, '5' / 5, 0 / -0, [1] / [true]): "both branches are the same" is not
    eqb = [(num(1.0), b(True)), (b(True), num(1.0)), (num(0.0), b(False)), (s("5"), num(5.0)), (num(5.0), s("5")), (num(0.0), num(-0.0)), (num(-0.0), num(0.0)),
           (f"(a {num(1.0)})", "(a (b 1))"), (s("1.0"), num(1.0)), (num(2.0), num(2.0))]
    for l1, l2 in eqb:
        for cond in (X, f"(bin less {X} {L(num(0.0))})", L(b(False)), f"(un not {X})"):
            for wrap in (lambda e: e, lambda e: f"(call {s('echo')} {e})", lambda e: f"(bin plus (arr {e}) (arr))", lambda e: f"(call {s('if_then')} {Y} {e} {e})"):
                for xv in (num(0.0), b(False), b(True), None):
                    binds = ([('x', xv)] if xv is not None else []) + [('y', b(True))]
                    out.append(f"({kind} _ {env(binds, OPT_FNS_S)} {wrap(f'(call {s(chr(105)+chr(102)+chr(95)+chr(116)+chr(104)+chr(101)+chr(110))} {cond} {L(l1)} {L(l2)})')})")
                    out.append(f"({kind} _ {env(binds, OPT_FNS_S)} {wrap(f'(ter ternaryCondition {cond} {L(l1)} {L(l2)})')})")
    # environments that do NOT provide if_then, or provide it with an arity that excludes three arguments: the validator must still look it up
    no_if = [f_ for f_ in OPT_FNS_S if '105 102 95 116 104 101 110' not in f_]
    if2 = no_if + [fn('if_then', '(ifthen)', '(poly 2 0)', 1)]
    for fns_ in (no_if, if2):
        for cnt in range(0, 5):
            args = " ".join([X, L(num(1.0)), L(num(2.0)), L(num(3.0))][:cnt])
            c_ = f"(call {s('if_then')} {args})"
            for e in (c_, f"(bin plus {c_} {L(num(1.0))})", f"(arr {c_})", f"(call {s('echo')} {c_})"):
                out.append(f"({kind} _ {env([('x', b(True))], fns_)} {e})")
    # deep constant nesting: a fold removes one level per pass, so the number of passes grows with the depth (a bound on passes, or a quadratic walk, shows here)
    def nest(d, wrap, leaf):
        e = leaf
        for _ in range(d):
            e = wrap(e)
        return e
    wraps = [lambda e: f"(un minus {e})", lambda e: f"(un not {e})", lambda e: f"(arr {e})", lambda e: f"(bin plus {e} {L(num(1.0))})", lambda e: f"(bin plus {L(num(1.0))} {e})",
             lambda e: f"(call {s('p1')} {e})", lambda e: f"(call {s('echo')} {e} {L(num(2.0))})", lambda e: f"(ter ternaryCondition {L(b(True))} {e} {L(num(0.0))})",
             lambda e: f"(call {s('if_then')} {L(b(True))} {e} {L(num(0.0))})", lambda e: f"(arr {L(num(0.0))} (un minus {e}))"]
    for d in ([1, 2, 5, 9, 10, 11, 12, 16, 20, 33, 50] if tier == 'quick' else list(range(1, 64))):
        for w in wraps:
            for leaf in (L(num(5.0)), L(b(True)), X):
                out.append(f"({kind} _ {env([('x', num(2.0))], OPT_FNS_S)} {nest(d, w, leaf)})")
    # the same function called more than once in one tree with arguments that are `=` to each other without being identical (1 / '1' / true, 0 / -0 / false, [1] / [true]):
    # a result remembered per (name, arguments) under the language's loose equality would be reused for a different call
    loose = [(num(1.0), s("1")), (num(1.0), b(True)), (s("1"), b(True)), (num(0.0), num(-0.0)), (num(0.0), b(False)), (num(0.0), s("0")), (s("1.0"), num(1.0)), (s("+1"), num(1.0)),
             (f"(a {num(1.0)})", "(a (b 1))"), (f"(a {s('1')})", f"(a {num(1.0)})"), (num(2.0), num(2.0))]
    for a1, a2 in loose:
        for fname in ('echo', 'p1', 'opt2', 'echo2', 'imp'):
            for pair in ((a1, a2), (a2, a1)):
                c1 = f"(call {s(fname)} {L(pair[0])})" if fname != 'echo2' else f"(call {s(fname)} {L(pair[0])} {L(num(9.0))})"
                c2 = f"(call {s(fname)} {L(pair[1])})" if fname != 'echo2' else f"(call {s(fname)} {L(pair[1])} {L(num(9.0))})"
                for e in (f"(arr {c1} {c2})", f"(bin plus (arr {c1}) (arr {c2}))", f"(arr {c1} {X} {c2})", f"(call {s('echo')} {c1} {c2})", f"(ter ternaryCondition {X} {c1} {c2})", f"(arr {c1} {c1} {c2})"):
                    for xv in (b(True), b(False)):
                        out.append(f"({kind} _ {env([('x', xv)], OPT_FNS_S)} {e})")
    # a variable that is not bound but whose name is the name of a registered function (of any arity kind), and the other way round: variables and functions are separate namespaces,
    # a function of that name makes neither the variable defined nor the validator lenient
    for fname, _, _, _ in OPT_FNS + [("nofn", 0, 0, 0)]:
        for up in (fname, fname.upper()):
            V = f"(var {s(up)})"
            for e in (V, f"(bin plus {V} {L(num(1.0))})", f"(arr {V})", f"(call {s('echo')} {V})", f"(bin equal {V} {L(num(0.0))})", f"(bin and {V} {L(b(True))})", f"(un not {V})",
                      f"(ter ternaryCondition {L(b(True))} {V} {L(num(0.0))})", f"(call {s(fname)} {V})"):
                out.append(f"({kind} _ {env([('x', num(2.0))], OPT_FNS_S)} {e})")
                out.append(f"({kind} _ {env([('x', num(2.0)), (fname, num(5.0))], OPT_FNS_S)} {e})")
    # constant sub-trees whose value is a special one (-0, NaN, +-inf, '', [], a numeric string) under a consumer that is not constant and can tell the difference (division, concatenation,
    # comparison, a function that returns its arguments): what folding puts into the tree must be the very value evaluation would have produced there
    M0 = f"(un minus {L(num(0.0))})"
    specials = [M0, f"(bin multiply {L(num(0.0))} {L(num(-1.0))})", f"(bin mod {L(num(-5.0))} {L(num(5.0))})", f"(bin divide {L(num(0.0))} {L(num(0.0))})", f"(bin divide {L(num(1.0))} {L(num(0.0))})",
                f"(bin divide {L(num(-1.0))} {L(num(0.0))})", f"(bin plus {L(s(''))} {L(s(''))})", f"(bin plus (arr) (arr))", f"(bin plus {L(s('1'))} {L(s('0'))})", f"(un minus {M0})", f"(arr {M0})",
                f"(call {s('echo')} {M0})", f"(call {s('p1')} {M0})"]
    for sp in specials:
        for cons in (lambda e: f"(bin divide {X} {e})", lambda e: f"(bin divide {L(num(1.0))} (bin plus {e} (bin multiply {X} {L(num(0.0))})))", lambda e: f"(bin plus {e} {X})", lambda e: f"(bin less {e} {X})",
                     lambda e: f"(bin equal {e} {X})", lambda e: f"(call {s('echo')} {e} {X})", lambda e: f"(arr {e} {X})", lambda e: f"(bin plus (arr {e}) (arr {X}))", lambda e: f"(bin multiply {e} {X})",
                     lambda e: f"(ter ternaryCondition {X} {e} {L(num(1.0))})"):
            for xv in (num(1.0), num(-1.0), num(0.0), s(''), b(True), None):
                binds = [('x', xv)] if xv is not None else []
                out.append(f"({kind} _ {env(binds, OPT_FNS_S)} {cons(sp)})")
    # wide calls: a pure variadic function with 99, 100, 101, 150 and 300 literal arguments must fold like a narrow one
    for cnt in (99, 100, 101, 150, 300):
        args = " ".join(L(num(float(j % 9))) for j in range(cnt))
        for fname in ('echo', 'imp', 'nofn'):
            out.append(f"({kind} _ {env([('x', num(2.0))], OPT_FNS_S)} (call {s(fname)} {args}))")
            out.append(f"({kind} _ {env([('x', num(2.0))], OPT_FNS_S)} (bin plus (arr (call {s(fname)} {args})) (arr {X})))")
    # sizes: lists (array elements, call arguments) of n members in which ONE member is special - a constant sub-tree that needs two passes, an unknown variable or function, a call outside its arity,
    # a non-literal among literals - at the first, a middle, the last positions and at block boundaries; and k DISTINCT pure calls in one tree followed by a repeat of the first
    sizes = SIZES if tier == 'quick' else SIZES_BIG
    two_pass = f"(bin plus (bin plus {L(num(1.0))} {L(num(2.0))}) {L(num(3.0))})"
    specials_sz = [two_pass, f"(var {s('nosuchvar')})", f"(call {s('nofn')} {L(num(1.0))})", f"(call {s('p1')})", f"(call {s('p1')} {L(num(1.0))} {L(num(2.0))})", X, f"(un minus {L(num(0.0))})",
                   f"(call {s('imp')} {L(num(1.0))})", f"(call {s('if_then')} {L(b(True))} {L(num(1.0))} {L(num(2.0))})"]
    for n in sizes:
        if n > 300 and tier == 'quick':
            continue
        for sp in specials_sz:
            for p_ in sorted({0, 7, 8, 15, 16, 31, 32, 63, 64, n // 2, n - 2, n - 1}):
                if not (0 <= p_ < n):
                    continue
                items = [L(num(float(i_ % 10))) for i_ in range(n)]
                items[p_] = sp
                for wrap in (lambda t: f"(arr {t})", lambda t: f"(call {s('echo')} {t})", lambda t: f"(bin plus (arr {t}) (arr {X}))"):
                    out.append(f"({kind} _ {env([('x', num(2.0))], OPT_FNS_S)} {wrap(' '.join(items))})")
    for k_ in (15, 16, 17, 18, 31, 32, 33, 34, 63, 64, 65, 66, 100, 129, 257):
        calls = [f"(call {s('echo')} {L(num(float(i_)))})" for i_ in range(k_)]
        for tail in ([calls[0]], [calls[0], calls[1]], [calls[k_ // 2]], [f"(call {s('echo')} {L(s('0'))})"]):
            out.append(f"({kind} _ {env([('x', num(2.0))], OPT_FNS_S)} (arr {' '.join(calls + tail)}))")
            out.append(f"({kind} _ {env([('x', num(2.0))], OPT_FNS_S)} (arr {' '.join(calls + [X] + tail)}))")
    N = 12000 if tier == 'quick' else 500000
    i = 0
    while i < N:
        e = rnd_opt_tree(R, R.randint(1, 5 if tier == 'quick' else 7))
        for _ in range(3):   # several bindings per tree
            binds = []
            if R.random() < 0.8:
                binds.append(('x', R.choice(OPT_LITS)))
            if R.random() < 0.8:
                binds.append(('y', R.choice(OPT_LITS)))
            if R.random() < 0.8:
                binds.append(('t', b(R.random() < 0.5)))
            out.append(f"({kind} _ {env(binds, OPT_FNS_S)} {e})")
            i += 1
    return out


def gen_rebind(tier, R):
    """C03/C19: the binding execute sees is the one the latest add_variable calls established - an environment that went through an earlier binding of the same names (other value of the kind,
    a value `=` to the new one without being identical, another kind, another spelling of the name, removed in between) evaluates like a fresh one"""
    vals = [num(1.0), s("1"), b(True), num(0.0), num(-0.0), b(False), s("0"), s("1.0"), arr(num(1.0)), arr(s("1")), arr(b(True)), num(2.0), s("a"), arr(), s(""), num(NAN)]
    X = lambda n: f"(var {s(n)})"
    L = lambda v: f"(lit {v})"
    exprs = [lambda n: X(n), lambda n: f"(bin plus {X(n)} {L(s('a'))})", lambda n: f"(bin divide {L(num(1.0))} {X(n)})", lambda n: f"(bin less {X(n)} {L(s('abc'))})", lambda n: f"(bin xor {X(n)} {L(b(True))})",
             lambda n: f"(arr {X(n)})", lambda n: f"(un minus {X(n)})", lambda n: f"(un not {X(n)})", lambda n: f"(bin equal {X(n)} {L(num(1.0))})", lambda n: f"(bin plus {X(n)} {X(n)})",
             lambda n: f"(bin plus {X(n)} {L(arr())})", lambda n: f"(ter ternaryCondition {X(n)} {L(num(1.0))} {L(num(2.0))})", lambda n: f"(bin and {X(n)} {X('y')})"]
    out = []
    names = [("x", "x"), ("x", "X"), ("Län", "LÄN"), ("ω", "Ω")]
    for v1 in vals:
        for v2 in vals:
            for i, ex in enumerate(exprs):
                n1, n2 = names[(i + len(out)) % len(names)]
                out.append(f"(rebind _ (vars ({s(n1)} {v1}) ({s('y')} {b(True)})) (vars ({s(n2)} {v2})) {ex(n1)})")
    for _ in range(500 if tier == 'quick' else 20000):
        n1, n2 = R.choice(names)
        e = R.choice(exprs)(R.choice([n1, n2]))
        out.append(f"(rebind _ (vars ({s(n1)} {R.choice(vals)}) ({s(n2)} {R.choice(vals)})) (vars ({s(R.choice([n1, n2]))} {R.choice(vals)})) {e})")
    return out


def gen_illformed_sizes(tier, R):
    """C08: lists of n members with a member that is not a literal (or is ill-formed) in the last positions, through every entry point"""
    out = []
    lit = lambda i: f"(lit {num(float(i % 7))})"
    tails = [f"(var {s('k')})", f"(var {s('u')})", f"(un minus {lit(1)})", f"(un plus {lit(1)})", f"(bin not {lit(1)} {lit(2)})", f"(call {s('nofn')})", f"(lit {num(NAN)})", f"(lit {arr(num(1.0))})"]
    for n in (SIZES if tier == 'quick' else SIZES_BIG):
        for t in tails:
            for p_ in sorted({n - 1, n - 2, n - 7, n // 2, 0}):
                if not (0 <= p_ < n):
                    continue
                items = [lit(i) for i in range(n)]
                items[p_] = t
                out.append(f"(arr {' '.join(items)})")
                out.append(f"(call {s('echo')} {' '.join(items)})")
    return out


def gen_illformed(tier, R):
    """C08: exhaustive ill-formed trees to depth 2 over the full operator enum in unary, binary and ternary position x literal
    kinds (NaN, inf, array literals) x odd names x argument counts; deep random trees"""
    lits = [f"(lit {v})" for v in (num(NAN), num(INF), num(-0.0), num(1.0), s(''), s('a'), b(True), arr(), arr(num(NAN), arr(s('x'))))]
    names = ['', 'and', ' ', 'É', '😀', 'k', 'echo', 'nofn', 'if_then', "a'b", 'éA', '€X', '日本B', 'xäÖ', 'gröSSe', 'İ', 'ǅz', 'ſ', 'MAX', 'ÿŸ']
    leaves = lits + [f"(var {s(n)})" for n in names[:6] + names[10:]] + [f"(call {s(n)} " + " ".join(lits[:c]) + ")" for n in names[:10] for c in range(0, 5)] + \
             [f"(call {s(n)} " + " ".join(lits[:c]) + ")" for n in names[10:] for c in (0, 2)]
    out = []
    envs = env([('k', num(1.0)), ('', s('empty-name')), ('É', b(True))], OPT_FNS_S)
    L1 = leaves[::3]
    for o in OPS:
        for a in leaves:
            out.append(f"(un {o} {a})")
        for a in L1:
            for c in L1:
                out.append(f"(bin {o} {a} {c})")
        for a in L1[::2]:
            for m in L1[::3]:
                for c in L1[::4]:
                    out.append(f"(ter {o} {a} {m} {c})")
    # every operator over pairs of extreme numbers (integer-type boundaries and their neighbours, signed zeros, non-finite): no operand pair may panic
    ext = [f"(lit {num(v)})" for v in (-(2.0**63), -1.0, 0.0, -0.0, 1.0, 2.0**63, 2.0**31, -(2.0**31), 2.0**32, 2.0**53, NAN, INF, -INF, 5e-324, 1e308, -1e308, 0.5, -(2.0**63) - 2048.0, 2.0**64)]
    for o in OPS:
        for a in ext:
            out.append(f"(un {o} {a})")
            for c in ext:
                out.append(f"(bin {o} {a} {c})")
    # depth 2: operator over operator
    for o in OPS:
        for o2 in OPS:
            a, c = R.choice(leaves), R.choice(leaves)
            out.append(f"(un {o} (bin {o2} {a} {c}))")
            out.append(f"(bin {o} (un {o2} {a}) (ter {o2} {a} {c} {a}))")
            out.append(f"(ter {o} (bin {o2} {a} {c}) (un {o2} {c}) (arr {a} (un {o} {c})))")

    def rnd(d):
        if d == 0 or R.random() < 0.15:
            return R.choice(leaves)
        k = R.random()
        if k < 0.3:
            return f"(un {R.choice(OPS)} {rnd(d-1)})"
        if k < 0.6:
            return f"(bin {R.choice(OPS)} {rnd(d-1)} {R.choice(leaves)})" if R.random() < 0.5 else f"(bin {R.choice(OPS)} {R.choice(leaves)} {rnd(d-1)})"
        if k < 0.75:
            return f"(ter {R.choice(OPS)} {R.choice(leaves)} {rnd(d-1)} {R.choice(leaves)})"
        if k < 0.85:
            return f"(arr {R.choice(leaves)} {rnd(d-1)})"
        return f"(call {s(R.choice(names))} {rnd(d-1)} {R.choice(leaves)})"
    for _ in range(3000 if tier == 'quick' else 100000):
        out.append(rnd(R.randint(3, 40 if tier == 'quick' else 60)))
    out += gen_illformed_sizes(tier, R)
    return [f"(tot _ {envs} {e})" for e in out] + [f"(wide _ {n})" for n in ((10, 1000, 100000) if tier == 'quick' else (10, 1000, 20000, 100000, 400000))]
