"""Generators of source-text cases (front end: C01, C02, C07)."""
import itertools, struct, sys
sys.setrecursionlimit(max(sys.getrecursionlimit(), 20000))   # left-nested chains of a thousand operands are rendered recursively
from decimal import Decimal
from vlib.core import bits

BIN = {'or': 1, 'and': 2, 'xor': 3, '=': 4, '<>': 4, '<': 5, '<=': 5, '>': 5, '>=': 5, '+': 6, '-': 6, '*': 7, '/': 7, 'div': 7, 'mod': 7}
OPNAME = {'or': 'or', 'and': 'and', 'xor': 'xor', '=': 'equal', '<>': 'notEqual', '<': 'less', '<=': 'lessEqual', '>': 'greater', '>=': 'greaterEqual',
          '+': 'plus', '-': 'minus', '*': 'multiply', '/': 'divide', 'div': 'div', 'mod': 'mod'}
TOKNAME = {'(': 'LeftParen', ')': 'RightParen', '[': 'LeftBracket', ']': 'RightBracket', ',': 'Comma', '+': 'Plus', '-': 'Minus', '*': 'Star', '/': 'Slash',
           '>': 'Greater', '>=': 'GreaterEqual', '<': 'Less', '<=': 'LessEqual', '=': 'Equal', '<>': 'NotEqual',
           'and': 'And', 'or': 'Or', 'xor': 'Xor', 'not': 'Not', 'div': 'Div', 'mod': 'Mod'}
KEYWORDS = ('or', 'and', 'xor', 'not', 'div', 'mod', 'true', 'false')


def cs(t):
    return "(s" + "".join(f" {ord(c)}" for c in t) + ")"


def num_value(text):
    """nearest double of a decimal literal (Python's float() is correctly rounded)"""
    return float(text)


def nbits(x):
    return bits(x)


# ---------------- trees ----------------
def canon(t):
    k = t[0]
    if k == 'num':
        return f"(lit (n {nbits(num_value(t[1]))}))"
    if k == 'str':
        return f"(lit {cs(t[1])})"
    if k == 'bool':
        return f"(lit (b {1 if t[1] else 0}))"
    if k == 'var':
        return f"(var {cs(t[1])})"
    if k == 'un':
        return f"(un {'minus' if t[1] == '-' else 'not'} {canon(t[2])})"
    if k == 'bin':
        return f"(bin {OPNAME[t[1]]} {canon(t[2])} {canon(t[3])})"
    if k == 'arr':
        return "(arr" + "".join(" " + canon(e) for e in t[1]) + ")"
    return f"(call {cs(t[1])}" + "".join(" " + canon(e) for e in t[2]) + ")"


def prec_of(t):
    return {'un': 8, 'bin': None}.get(t[0], 10) if t[0] != 'bin' else BIN[t[1]]


def toks(t, ctx, style, R):
    """token list (source spellings). ctx = minimal precedence level required by the position. style: 'min' | 'full' | 'rand'"""
    k = t[0]
    if k == 'num':
        inner, p = [('num', t[1])], 10
    elif k == 'str':
        inner, p = [('str', t[1])], 10
    elif k == 'bool':
        inner, p = [('kw', 'true' if t[1] else 'false')], 10
    elif k == 'var':
        inner, p = [('id', t[1])], 10
    elif k == 'un':
        inner, p = [('kw', 'not') if t[1] == 'not' else ('p', '-')] + toks(t[2], 8, style, R), 8
    elif k == 'bin':
        q = BIN[t[1]]
        op = ('kw', t[1]) if t[1].isalpha() else ('p', t[1])
        inner, p = toks(t[2], q, style, R) + [op] + toks(t[3], q + 1, style, R), q
    elif k == 'arr':
        inner = [('p', '[')]
        for i, e in enumerate(t[1]):
            inner += ([('p', ',')] if i else []) + toks(e, 1, style, R)
        inner, p = inner + [('p', ']')], 10
    else:
        inner = [('id', t[1]), ('p', '(')]
        for i, e in enumerate(t[2]):
            inner += ([('p', ',')] if i else []) + toks(e, 1, style, R)
        inner, p = inner + [('p', ')')], 10
    need = ctx > p
    extra = (style == 'full' and k in ('un', 'bin')) or (style == 'rand' and R.random() < 0.3)
    if need or extra:
        inner = [('p', '(')] + inner + [('p', ')')]
        if style == 'rand' and R.random() < 0.1:
            inner = [('p', '(')] + inner + [('p', ')')]
    return inner


def spell(tok, R=None, recase=False):
    k, v = tok
    if k == 'str':
        return "'" + v.replace("'", "''") + "'"
    if k == 'kw' and recase and R is not None:
        return ''.join(c.upper() if R.random() < 0.5 else c.lower() for c in v)
    return v


def tok_canon(tok):
    k, v = tok
    if k == 'num':
        return f"(lit (n {nbits(num_value(v))}))"
    if k == 'str':
        return f"(lit {cs(v)})"
    if k == 'id':
        return f"(id {cs(v)})"
    if k == 'kw' and v in ('true', 'false'):
        return f"(lit (b {1 if v == 'true' else 0}))"
    return TOKNAME[v]


def identch(c):
    return c.isalnum() or c == '_'


def glue(prev, nxt):
    """would the two spellings lex differently when adjacent?"""
    if not prev or not nxt:
        return False
    a, b_ = prev[-1], nxt[0]
    if (identch(a) or a == '.') and (identch(b_) or b_ == '.'):
        return True
    if prev in ('<', '>') and b_ in '=>':
        return True
    if prev == '/' and b_ == '/':
        return True
    if a == "'" and b_ == "'":
        return True
    if a == '.' and b_.isdigit():
        return True
    if a.isdigit() and b_ == '.':
        return True
    return False


WS = [' ', '\t', '\n', '\r']


def rnd_sep(R, depth=0):
    k = R.random()
    if k < 0.45:
        return R.choice(WS)
    if k < 0.6:
        return '//' + R.choice(["", " c", "'", "{", "}", "+ 1", " // x", "{{", " é", "Größe 日本", "😀", " \u00a0x", "\r", "\t'"]) + '\n'
    if k < 0.9:
        body = R.choice(["", " x ", "'q", "// ", "+", "\n", "1 + ", "''", "é", " 日本語 ", "😀//", "\r\n"])
        if depth < 4 and R.random() < 0.4:
            body += rnd_sep_block(R, depth + 1) + R.choice(["", " y"])
        return '{' + body + '}'
    return ' \r\n '


def rnd_sep_block(R, depth):
    return '{' + R.choice(["", "n", " ' ", "ü"]) + (rnd_sep_block(R, depth + 1) if depth < 4 and R.random() < 0.4 else '') + '}'


def layout(tokens, R, recase=True, dense=0.5, tail=True):
    """text for a token list with random separators; separators are only omitted where the neighbours do not glue"""
    out = ''
    sp = [spell(t, R, recase and R.random() < 0.5) for t in tokens]
    lead = ''.join(rnd_sep(R) for _ in range(R.choice([0, 0, 1, 2])))
    out += lead
    for i, t in enumerate(sp):
        if i:
            seps = ''.join(rnd_sep(R) for _ in range(R.choice([0, 1, 1, 2]) if R.random() < dense else 0))
            if seps == '' and glue(sp[i - 1], t):
                seps = ' '
            if seps and glue(sp[i - 1], seps):    # e.g. '/' followed by a '//' comment, or a number followed by nothing
                seps = ' ' + seps
            out += seps
        out += t
    if tail:
        end = R.choice(['', ' ', '\n', ' // end', ' {open', '{ {nested} still open', '//', '// ünï', '{ é'])
        if end and glue(sp[-1] if sp else '', end):
            end = ' ' + end
        out += end
    return out


def text_case(kind, txt, *extra):
    return f"({kind} _ " + " ".join(list(extra) + [str(ord(c)) for c in txt]) + ")"


def exp_field(canon_str):
    return "(exp " + " ".join(str(ord(c)) for c in canon_str) + ")"


# ---------------- C01 ----------------
ATOMS = [('num', '1'), ('num', '2.5'), ('num', '.5'), ('num', '7.'), ('str', "a'b"), ('str', ''), ('bool', True), ('bool', False), ('var', 'x'), ('var', 'y_1'), ('var', 'Abc'), ('var', '_'),
         ('var', 'Ünï'), ('num', '0'), ('num', '123456789012345678901234567890'), ('var', 'notx'), ('var', 'or_'), ('var', 'e5')]
NAMES = ['f', 'max', 'g_2', 'IF_then', 'ä']


def rnd_tree(R, d, width=3):
    k = R.random()
    if d == 0 or k < 0.2:
        return R.choice(ATOMS)
    if k < 0.35:
        return ('un', R.choice(['-', 'not']), rnd_tree(R, d - 1, width))
    if k < 0.85:
        return ('bin', R.choice(list(BIN)), rnd_tree(R, d - 1, width), rnd_tree(R, d - 1, width))
    if k < 0.93:
        return ('arr', [rnd_tree(R, d - 1, width) for _ in range(R.randint(0, width))])
    return ('call', R.choice(NAMES), [rnd_tree(R, d - 1, width) for _ in range(R.randint(0, width))])


def gen_roundtrip(tier, R):
    """C01: every (outer, inner) operator pair x inner on the left / right x unary wrappers x {min, full, random} parenthesisation,
    unary/binary/call/array combinations, random trees; each rendered text carries the expected tree"""
    trees = []
    a, b_, c = ('var', 'a'), ('var', 'b'), ('num', '3')
    ops = list(BIN)
    for o in ops:
        for i in ops:
            trees.append(('bin', o, ('bin', i, a, b_), c))
            trees.append(('bin', o, a, ('bin', i, b_, c)))
            trees.append(('bin', o, ('bin', i, a, b_), ('bin', i, b_, c)))
        for u in ('-', 'not'):
            trees.append(('un', u, ('bin', o, a, b_)))
            trees.append(('bin', o, ('un', u, a), b_))
            trees.append(('bin', o, a, ('un', u, b_)))
            trees.append(('un', u, ('un', '-' if u == 'not' else 'not', ('bin', o, a, ('un', u, b_)))))
            trees.append(('call', 'f', [('bin', o, a, b_), ('un', u, c)]))
            trees.append(('arr', [('un', u, ('call', 'g', [])), ('bin', o, ('arr', []), ('call', 'h', [a]))]))
            trees.append(('bin', o, ('call', 'f', [a]), ('un', u, ('call', 'g', [b_, c]))))
    # the same operator pairs over every KIND of leaf in every position (a rewrite keyed on "literal here, variable there" shows only for one assignment of kinds)
    kinds = [('var', 'x'), ('num', '1'), ('num', '2.5'), ('str', 'a'), ('call', 'f', [('var', 'y')]), ('arr', [('num', '1')]), ('kwlit', 'true')]
    kinds = [k for k in kinds if k[0] != 'kwlit']
    same = [('+', '+'), ('*', '*'), ('-', '-'), ('/', '/'), ('and', 'and'), ('or', 'or'), ('xor', 'xor'), ('=', '='), ('<', '<'), ('+', '-'), ('-', '+'), ('*', '/'), ('+', '*'), ('*', '+'), ('div', 'mod'), ('and', 'or')]
    same = [(o, i) for o, i in same if o in ops and i in ops]
    for o, i in same:
        for l1 in kinds:
            for l2 in kinds[:4]:
                for l3 in kinds[:4]:
                    trees.append(('bin', o, ('bin', i, l1, l2), l3))
                    trees.append(('bin', o, l1, ('bin', i, l2, l3)))
    depth = 6 if tier == 'quick' else 12
    for _ in range(1500 if tier == 'quick' else 300000):
        trees.append(rnd_tree(R, R.randint(1, depth), 3 if tier == 'quick' else 6))
    # sizes: chains of n operands under one operator (left-nested, as the language associates; and with a right-nested group at the end, which must keep its parentheses), alone and inside a call
    from gen.trees import SIZES, SIZES_BIG
    for n in (SIZES if tier == 'quick' else SIZES_BIG):
        for o in [x for x in ('-', '/', '+', '*', 'or', 'and', 'xor', 'div', 'mod') if x in ops]:
            leaves = [('var', f'x{i}') if i % 2 else ('num', str(i + 1)) for i in range(n)]
            t = leaves[0]
            for x in leaves[1:]:
                t = ('bin', o, t, x)
            trees.append(t)
            if n <= 130:
                t2 = leaves[0]
                for x in leaves[1:-2]:
                    t2 = ('bin', o, t2, x)
                t2 = ('bin', o, t2, ('bin', o, leaves[-2], leaves[-1]))
                trees.append(t2)
                trees.append(('call', 'f', [t, ('un', '-', t2)]))
    out = []
    for t in trees:
        ex = exp_field('R=ok:' + canon(t))
        for style in ('min', 'full', 'rand'):
            tk = toks(t, 1, style, R)
            out.append(text_case('rtext', layout(tk, R, recase=True, dense=0.3), ex))
    # accepted texts that are not canonical renderings: optional / trailing commas, redundant parentheses
    for _ in range(400 if tier == 'quick' else 40000):
        t = rnd_tree(R, R.randint(1, 5))
        tk = toks(t, 1, 'rand', R)
        tk2 = []
        for x in tk:
            if x == ('p', ',') and R.random() < 0.4:
                continue
            if x in (('p', ')'), ('p', ']')) and tk2 and tk2[-1] not in (('p', '('), ('p', '['), ('p', ',')) and R.random() < 0.2:
                tk2.append(('p', ','))
            tk2.append(x)
        out.append(text_case('rtext', layout(tk2, R), '(exp)'))
    return out


# ---------------- C02 ----------------
def rnd_number(R):
    k = R.random()
    if k < 0.25:
        return R.choice(['0', '1', '10', '255', '9007199254740993', '9007199254740992', '9007199254740991', '4503599627370497.5', '0.1', '.1', '1.', '3.14159',
                         '0.000000000000000000000000000000000000000001', '179769313486231570000000000000000000000' + '0' * 270, '1' + '0' * 309,
                         '2.2250738585072011', '0.' + '0' * 307 + '22250738585072011', '0.' + '0' * 323 + '49406564584124654', '0.' + '0' * 323 + '24703282292062327',
                         '0.' + '0' * 323 + '24703282292062328', '17976931348623158' + '0' * 292, '17976931348623159' + '0' * 292, '123456789.123456789', '00012.500'])
    if k < 0.6:
        x = struct.unpack('<d', struct.pack('<Q', R.getrandbits(63)))[0]
        if x != x or x in (float('inf'),):
            x = 1.5
        s_ = format(Decimal(x), 'f')
        if len(s_) > 420:
            s_ = s_[:420]
        if '.' not in s_ and R.random() < 0.3:
            s_ += '.'
        return s_
    ip = ''.join(R.choice('0123456789') for _ in range(R.randint(0, 20)))
    fp = ''.join(R.choice('0123456789') for _ in range(R.randint(0, 25)))
    if not ip and not fp:
        ip = '7'
    return ip + ('.' + fp if fp or R.random() < 0.3 else '')


STR_ALPH = ["a", "'", "''", "{", "}", "//", " ", "\n", "é", "日本", "😀", "é", " ", "\\", '"', "\t", "{'", "0", "+", " ", "\x00", "\x7f"]
IDENTS = ['x', 'y_1', 'Abc', '_', '_9', 'Ünï', 'ǅx', 'notx', 'or_', 'e5', 'TRUEish', 'divx', 'a１', 'ⅷ', 'K', 'ſ', 'İ', 'x²',
          # identifiers that are NOT keywords although a Unicode case mapping sends them onto one (long s -> S, dotless i -> I, Kelvin sign -> k, I with dot -> i + dot),
          # identifiers that merely start or end with a keyword, and keywords glued to digits / underscores
          'falſe', 'FALſE', 'dıv', 'DıV', 'dİv', 'truE_', 'android', 'note', 'nota', 'orx', 'xor1', 'mod_', 'divide', 'truex', 'falsey', '_and', 'and1', 'not_', 'ſ1', 'ı', 'modulo', 'Or2']


def rnd_token(R):
    k = R.random()
    if k < 0.25:
        return ('p', R.choice(['(', ')', '[', ']', ',', '+', '-', '*', '/', '>', '>=', '<', '<=', '=', '<>']))
    if k < 0.45:
        return ('kw', R.choice(KEYWORDS))
    if k < 0.65:
        return ('num', rnd_number(R))
    if k < 0.85:
        return ('str', ''.join(R.choice(STR_ALPH) for _ in range(R.randint(0, 6))))
    return ('id', R.choice(IDENTS))


ALL_TOKENS = [('p', x) for x in ['(', ')', '[', ']', ',', '+', '-', '*', '/', '>', '>=', '<', '<=', '=', '<>']] + [('kw', k) for k in KEYWORDS] + \
             [('num', '12'), ('num', '1.5'), ('num', '.5'), ('num', '7.'), ('str', 'a'), ('str', "'"), ('str', ''), ('id', 'x'), ('id', '_1'), ('id', 'Ünï'), ('id', 'falſe'), ('id', 'dıv'), ('id', 'android')]


def gen_layout(tier, R):
    """C02: every token kind adjacent to every token kind; two independent layouts / keyword-case variants of the same token sequence
    (kind lay); the expected token list with exact literal payloads (kind stext)"""
    out = []
    seqs = [[a, b_] for a in ALL_TOKENS for b_ in ALL_TOKENS]
    for kw in KEYWORDS:   # all case masks of each keyword
        for mask in range(1 << len(kw)):
            sp = ''.join(c.upper() if mask >> i & 1 else c for i, c in enumerate(kw))
            out.append(text_case('stext', ' ' + sp + ' ', exp_field('R=ok:' + tok_canon(('kw', kw)))))
    for _ in range(2500 if tier == 'quick' else 300000):
        seqs.append([rnd_token(R) for _ in range(R.randint(1, 8))])
    for sq in seqs:
        ex = exp_field('R=ok:' + ' '.join(tok_canon(t) for t in sq))
        t1 = layout(sq, R, recase=True, dense=0.8)
        t2 = layout(sq, R, recase=True, dense=0.2)
        out.append(text_case('stext', t1, ex))
        out.append("(lay _ (a " + " ".join(str(ord(c)) for c in t1) + ") (b " + " ".join(str(ord(c)) for c in t2) + "))")
    # malformed stream: both sides must reject with the same error
    for bad in ["1 +\x0c 2", "1\x0b+ 2", "a\xa0+ b", "a\u2028b", "1 \x85 2", "\ufeff1", "'abc", "'", "a ' b", "$", "a $ b", "1 ? 2", "\\", "{", "{ {", "//", "", "   ", "#", "a ~ b", "1..2", ".", "..", "1.2.3", "٣", "x ٣", "١٢٣", "²", "½", "a ½", " ", "a b", "　"]:
        out.append(text_case('scan', bad))
        out.append(text_case('text', bad))
    # sizes: lexemes of n characters - number literals whose value is decided by digits far behind the 17th (a text padded with zeros, a tail that lifts it over a midpoint, the smallest and the
    # largest doubles written out), string literals and identifiers of n characters with multi-byte characters at the end and at the 32/64 boundaries
    from gen.trees import SIZES
    def number_forms(n):
        forms = ["0.1" + "0" * (n - 3), "9007199254740993." + "0" * max(0, n - 18) + "1", "9007199254740993." + "0" * max(1, n - 17), "0." + "0" * (n - 3) + "1", "1" + "0" * (n - 1),
                 "1" + "0" * (n - 2) + "1", "0." + "9" * (n - 2), "4.9406564584124654" + "0" * max(0, n - 18) if n > 18 else "0.5", "123456789" * (n // 9 + 1)]
        return [f[:n] if not f.endswith('1') or len(f) <= n else f[:n - 1] + '1' for f in forms]
    for n in SIZES:
        for f in number_forms(n):
            if len(f) >= 1 and f[0].isdigit():
                out.append(text_case('scan', f))
                out.append(text_case('text', f + " + 1"))
        for ch in ("é", "€", "😀", "a"):
            body = "a" * (n - 1) + ch
            out.append(text_case('rtext', "'" + body + "'", exp_field("R=ok:(lit (s" + "".join(f" {ord(c)}" for c in body) + "))")))
            if ch != "😀" and ch != "€":
                out.append(text_case('rtext', body, exp_field("R=ok:(var (s" + "".join(f" {ord(c)}" for c in body) + "))")))
            for k in (31, 32, 33, 63, 64):
                if k < n:
                    b2 = "b" * k + ch + "c" * (n - k - 1)
                    out.append(text_case('rtext', "'" + b2 + "'", exp_field("R=ok:(lit (s" + "".join(f" {ord(c)}" for c in b2) + "))")))
    # through compile() itself (not only the scanner): every white-space and line-break character inside string literals, inside // comments (which end at LF only) and inside block comments,
    # and between tokens - a normalisation of the raw text before scanning (CR LF -> LF, tabs -> spaces, trimming) would change what a literal denotes or where a comment ends
    for w in ["\r", "\r\n", "\n", "\t", "\n\r", " \r ", "\x0b", "\x0c", "\u0085", "\u2028", "\u00a0"]:
        for src in [f"'a{w}b'", f"'{w}'", f"'a{w}' + 'b'", f"x = 'l1{w}l2{w}'", f"1 +// c{w} + 2\n3", f"1 // c{w}+ 2", f"1 {{ c{w} }} + 2", f"1{w}+{w}2", f"{w}1 + 2{w}", f"[1,{w}2]", f"f({w}'a{w}b'{w})",
                    f"'a''{w}''b'", f"// only{w}", f"1 + 2 //{w}"]:
            out.append(text_case('text', src))
            out.append(text_case('scan', src))
        # with the expectation spelled out (oracle `expect`): a literal denotes exactly its contents; a // comment runs to the next LF and nowhere else
        wc = w.encode().decode('unicode_escape') if '\\' in w else w
        def lit_s(t):
            return "(lit (s" + "".join(f" {ord(c)}" for c in t) + "))"
        out.append(text_case('rtext', f"'a{wc}b'", exp_field("R=ok:" + lit_s(f"a{wc}b"))))
        out.append(text_case('rtext', f"'{wc}'", exp_field("R=ok:" + lit_s(wc))))
        out.append(text_case('rtext', f"'a''{wc}''b'", exp_field("R=ok:" + lit_s(f"a'{wc}'b"))))
        if '\n' not in wc:
            out.append(text_case('rtext', f"'p' // c{wc}+ 'q'\n", exp_field("R=ok:" + lit_s("p"))))
            out.append(text_case('rtext', f"'p' +// c{wc} 'x'\n'q'", exp_field("R=ok:(bin plus " + lit_s("p") + " " + lit_s("q") + ")")))
    # the model's character classification equals Rust's char::is_alphabetic / is_numeric on the code space
    hi = 0x110000 if tier == 'thorough' else 0x34000
    for lo in range(0, hi, 0x1000):
        out.append(f"(uniclass _ {lo} {lo + 0xfff})")
    if tier == 'quick':
        out.append("(uniclass _ 917504 921599)")
    return out


# ---------------- C07 ----------------
FRAGS = ['1', 'a', '(', ')', '[', ']', ',', '+', '-', '*', '/', '=', '<', '>', '<=', '<>', '>=', 'not', 'and', 'or', 'xor', 'div', 'mod', "'s'", "'", '.', '{', '}', '//', ' ', '\n', 'true', '.5', '$',
         'é', '٣', '→']


def gen_total(tier, R):
    """C07: every sequence of up to 3 (4 in thorough) lexical fragments from a 37-fragment alphabet, truncations at every prefix and
    single-character mutations of rendered scripts, unbalanced delimiters and unary chains to depth 64, arbitrary Unicode text"""
    out = []
    n_max = 4 if tier == 'thorough' else 3
    for n in range(1, n_max + 1):
        for c in itertools.product(FRAGS, repeat=n):
            out.append(text_case('text', ' '.join(c) if (n < 3 or hash(c) % 2) else ''.join(c)))
    # sizes: every kind of lexeme at n characters with a multi-byte character last (a lexeme copied by a byte range computed in characters ends inside it)
    from gen.trees import SIZES
    for n in SIZES:
        for ch in ("é", "€", "😀", "٣", "²"):
            for body in ("a" * (n - 1) + ch, ch * n, "a" * (n // 2) + ch + "a" * (n - n // 2 - 1)):
                out.append(text_case('text', "'" + body + "'"))
                out.append(text_case('text', body))
                out.append(text_case('text', "1" * (n - 1) + ch))
                out.append(text_case('text', "{" + body + "} 1"))
                out.append(text_case('text', "1 //" + body))
                out.append(text_case('text', "f(" + body + ", '" + body + "')"))
    for _ in range(600 if tier == 'quick' else 30000):
        t = rnd_tree(R, R.randint(1, 5))
        txt = layout(toks(t, 1, 'rand', R), R)
        for cut in range(0, len(txt) + 1, 1 if tier == 'thorough' else 3):
            out.append(text_case('text', txt[:cut]))
        for _ in range(4):
            j = R.randrange(len(txt))
            out.append(text_case('text', txt[:j] + R.choice("()[],+-*/=<>.'{}$ a1é\n") + txt[j + 1:]))
            out.append(text_case('text', txt[:j] + txt[j + 1:]))
    for d in list(range(1, 66)) + [100, 200]:
        for op, cl in (('(', ')'), ('[', ']'), ('f(', ')'), ('-', ''), ('not ', ''), ('- not ', ''), ('(-', ')'), ('[1,', ']'), ('1+(', ')'), ('{', '}'), ("'", '')):
            if d > 64 and op not in ('(', '-', 'not ', '{'):
                continue
            if d > 64 and tier == 'quick':
                continue
            out.append(text_case('text', op * d + '1' + cl * d))
            out.append(text_case('text', op * d))
            out.append(text_case('text', op * d + '1' + cl * (d - 1)))
            out.append(text_case('text', cl * d + '1'))
    # string literals and comments whose special characters (doubled quote, closing brace, line end) come after multi-byte text at every small offset
    for pre in ["", "a", "é", "éa", "aé", "日本", "café", "😀", "x😀é", "ßßß"]:
        for mid in ["''", "''''", "'' ''", "''é''"]:
            for post in ["s", "", "é"]:
                out.append(text_case('text', "'" + pre + mid + post + "'"))
                out.append(text_case('text', "n = '" + pre + mid + post + "' + 1"))
                out.append(text_case('text', "'" + pre + mid + post))
        out.append(text_case('text', "1 {" + pre + "} + 2"))
        out.append(text_case('text', "1 {" + pre + " {" + pre + "} } + 2"))
        out.append(text_case('text', "1 // " + pre + "\n + 2"))
        out.append(text_case('text', pre + "x // " + pre))
    pool = "aZ_09 \t\n+-*/()[],.<>='{}$éß日本😀́  ٣½²ǅ\x00\x7f﻿"
    # long FLAT chains (nesting depth 0): the parser must consume them in its loop, not by recursion - recursion depth that grows with the length overflows the stack here
    for opt in ['+', '-', '*', '/', ' div ', ' mod ', ' and ', ' or ', ' xor ', '=', '<>', '<', '>', '<=', '>=']:
        for n in ((200, 3000, 8000) if tier == 'quick' else (200, 1000, 3000, 8000, 20000)):   # (quadratic scanning: 20000 operands take seconds, too close to the stall threshold under load)
            out.append(text_case('text', opt.join(['a'] * n)))
    big = 8000 if tier == 'quick' else 20000
    out.append(text_case('text', '[' + ','.join(['1'] * big) + ']'))
    out.append(text_case('text', 'f(' + ','.join(['x'] * big) + ')'))
    out.append(text_case('text', "'" + "a''" * big + "'"))
    out.append(text_case('text', '1 ' + '{c}' * big + ' + 2'))
    for _ in range(3000 if tier == 'quick' else 200000):
        out.append(text_case('text', ''.join(R.choice(pool) for _ in range(R.randint(0, 30)))))
    return out
