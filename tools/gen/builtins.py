"""Generators for the standard-library properties (C09, C13, C14, C15, C16, C17)."""
import struct
import os, re, datetime, struct
from vlib.core import num, s, b, arr, COQ

NAN, INF = float('nan'), float('inf')
NUMS = [0.0, -0.0, 1.0, -1.0, 2.0, 3.0, 4.0, 0.5, 2.5, -2.5, -3.0, -4.0, 7.0, 10.0, 65.0, 127.0, 128.0, 255.0, 1e15, -1e15, 2.0**53, 2.0**63, 2.0**64, 1e300, -1e300, 5e-324, INF, -INF, NAN,
        3735928559.0, -1.5, 1.5, 0.1]
STRS = ["", "a", "abc", "abcabc", "aaa", "ab", "b", "10", "9", " 1", "1e3", "nan", "  x y  ", "\t\n x ", "äb", "bä", "日本語", "a;b;\"c;d\";e", "a,b", ";", ",", "\"", "AbC", "é", "ÀB", "x'y", "1.5", "-0",
        "true", "😀a", "a😀", "é", "ß", "İ", "ǅ"]
ARRS = [arr(), arr(num(1.0)), arr(num(1.0), s("1"), b(True)), arr(num(3.0), num(1.0), num(2.0), num(1.0)), arr(s("b"), s("a"), s("c")), arr(b(True), b(False), b(True)),
        arr(arr(num(1.0)), arr()), arr(num(NAN), num(1.0)), arr(s("9"), num(9.0), s("10")), arr(b(True), b(True)), arr(s("1.0"), num(1.0), s("1"), b(True), num(1.0))]
POOL = [num(x) for x in NUMS] + [s(t) for t in STRS] + [b(True), b(False)] + ARRS

COMMON = ["all", "any", "at", "between", "bool", "contains", "compare", "copy", "count", "empty", "find", "float", "int", "insert", "length", "max", "min", "replace", "remove", "reverse",
          "sort", "str", "unique"]
STRING = ["chr", "ord", "lowercase", "uppercase", "same_text", "split", "split_csv", "trim", "trim_left", "trim_right"]
MATH = ["abs", "frac", "round", "sqrt", "trunc", "even", "odd", "int_to_hex"]
MODELLED = COMMON + STRING + MATH


def registered_names():
    """names of all registered builtins, from the table the translator regenerated"""
    p = os.path.join(COQ, 'Gen', 'GenBuiltins.v')
    return re.findall(r'\(\* (\w+) : \w+::\w+ \*\)', open(p).read())


def impure_names():
    """names registered impure, from the regenerated table"""
    p = os.path.join(COQ, 'Gen', 'GenBuiltins.v')
    return re.findall(r', false\)\s+\(\* (\w+) :', open(p).read())


def bi(off, name, args):
    return f"(bi _ {off} {s(name)}" + "".join(" " + a for a in args) + ")"


def is_nontame_arr(args, smart=True):
    """the documented value order (written independently in vlib/reford.py) does NOT arrange these argument values consistently - only then can the known
    C13 finding (NaN compares Equal to everything; Number vs numeric String vs other String is cyclic) explain a failure"""
    from vlib import reford
    return reford.inconsistency_class(args, smart) is not None


def gen_pool_calls(R, names, off, n_random, pool=POOL, pairs=True):
    out = []
    for n in names:
        out.append(bi(off, n, []))
        for a in pool:
            out.append(bi(off, n, [a]))
        if pairs:
            for a in pool:
                for c in pool:
                    out.append(bi(off, n, [a, c]))
        for _ in range(n_random):
            out.append(bi(off, n, [R.choice(pool) for _ in range(R.choice([3, 3, 3, 4, 5]))]))
    return out


# ---------------- C15 ----------------
C15_NAMES = ["length", "at", "copy", "insert", "find", "count", "contains", "replace", "remove", "reverse", "unique", "all", "any", "split", "split_csv", "trim", "trim_left", "trim_right",
             "lowercase", "uppercase", "same_text"]
C15_STRS = ["", "a", "ab", "abc", "abcabc", "aaa", "aaaa", "äb", "bä", "äbä", "日本語", "😀a", "a😀b", "é", "ée", "  x y  ", "\t\n x ", " x　", "a;b;\"c;d\";e", "a,b,,c", "\"", "x;\"y", "AbC",
            "ß", "İ", "ǅ", "ὈΔΥΣΣΕΎΣ", "Σ", "aΣ", "ΑΣ ", "ﬁ", "ŉ", "ÄRGER", "École", "привет", "ÑandÚ", "Straße", "ΣΊΣΥΦΟΣ",
            # the final-sigma rule: cased / case-ignorable neighbours (full stop, apostrophe, soft hyphen, combining accent, modifier letter), digits, doubled and isolated sigmas
            "ΑΣ.", "ΑΣ'Β", "ΑΣ\u0301", "ΑΣ\u0301Α", "A\u00adΣ", "1Σ", "ΑΣ1", "ΑΣΣ", "Σ Σ", "ʰΣ", "ΑʰΣʰ", "ΑΣ.Α", "Α.Σ", "'Σ'", "ǅΣ", "ΣΑ", "aΣb", "aΣ-"]
C15_ARRS = [arr(), arr(num(1.0)), arr(num(1.0), s("1"), b(True)), arr(num(3.0), num(1.0), num(2.0), num(1.0)), arr(s("b"), s("a"), s("b")), arr(arr(num(1.0)), arr(), arr(num(1.0))),
            arr(b(True), b(True), b(False)), arr(s("x"), arr(s("x")), num(0.0), num(-0.0)),
            # members whose `=` is not transitive (true = 1 = '1' but true <> '1'): what counts is equality with the members KEPT so far, in this order
            arr(b(True), num(1.0), s("1")), arr(s("1.0"), num(1.0), s("1")), arr(s("a"), s("2.50"), num(2.5), s("a"), s("2.5")), arr(s("0"), num(0.0), b(False), s("-0"), num(-0.0)),
            # few members, long members: the length of a needle says nothing about whether it is a member
            arr(s("abc")), arr(arr(num(1.0), num(2.0), num(3.0)), arr(num(1.0), num(2.0), num(3.0))), arr(s("hello"), num(1.0), s("hello")), arr(arr(arr(num(1.0), num(2.0))))]


def gen_c15(tier, R, off):
    out = []
    strs = [s(t) for t in C15_STRS]
    idx = [num(float(i)) for i in range(-1, 9)] + [num(0.5), num(1.5), num(NAN), num(INF), num(-0.0), num(2.0**32), num(2.0**64), num(1e300)]
    subs = [s(t) for t in ["", "a", "b", "ab", "bc", "ä", "aa", "😀", "é", "é", "e", ";", ",", " ", "\"", "x", "語", "σ"]]
    for st in strs:
        out.append(bi(off, "length", [st]))
        out.append(bi(off, "reverse", [st]))
        for n in ("trim", "trim_left", "trim_right", "lowercase", "uppercase"):
            out.append(bi(off, n, [st]))
        out.append(bi(off, "split_csv", [st]))
        for i in idx:
            out.append(bi(off, "at", [st, i]))
            for c in idx[:8] + idx[-6:]:
                out.append(bi(off, "copy", [st, i, c]))
            for x in subs[:6]:
                out.append(bi(off, "insert", [st, x, i]))
        for x in subs:
            for n in ("find", "count", "contains", "remove", "split", "same_text"):
                out.append(bi(off, n, [st, x]))
            out.append(bi(off, "split_csv", [st, x]))
            for t in subs[:5]:
                out.append(bi(off, "replace", [st, x, t]))
        out.append(f"(poscoh _ {st})")
    # letter case beyond ASCII: every text against its own upper-, lower- and swapped-case spelling (and those of the other texts), through the per-character tables of the model
    for t in C15_STRS:
        for u in {t.upper(), t.lower(), t.swapcase(), t.title(), t.casefold()}:
            out.append(bi(off, "same_text", [s(t), s(u)]))
            out.append(bi(off, "lowercase", [s(u)]))
            out.append(bi(off, "uppercase", [s(u)]))
    if off == 1:
        # the model's case tables equal char::to_lowercase / to_uppercase of the toolchain on the code space
        blocks = list(range(0, 0x110000, 0x1000)) if tier == 'thorough' else [0, 0x1000, 0x2000, 0xa000, 0xf000, 0x10000, 0x11000, 0x16000, 0x1e000, 0x2f000, 0x10f000]
        for lo in blocks:
            for q in range(4):
                out.append(f"(unicase _ {lo + q * 0x400} {lo + q * 0x400 + 0x3ff})")
    elems = [num(1.0), s("1"), b(True), num(3.0), s("b"), arr(num(1.0)), arr(), num(0.0), s("x"), num(NAN), s("abc"), s("hello"), arr(num(1.0), num(2.0), num(3.0)), arr(arr(num(1.0), num(2.0))),
             s("a much longer text than any array here has members")]
    for a in C15_ARRS:
        for n in ("length", "reverse", "unique", "all", "any"):
            out.append(bi(off, n, [a]))
        for i in idx:
            out.append(bi(off, "at", [a, i]))
            for c in idx[:6]:
                out.append(bi(off, "copy", [a, i, c]))
            out.append(bi(off, "insert", [a, s("new"), i]))
        for x in elems:
            for n in ("find", "count", "contains", "remove"):
                out.append(bi(off, n, [a, x]))
            out.append(bi(off, "replace", [a, x, s("r")]))
        out.append(f"(poscoh _ {a})")
    alphabet = "abä😀 ;,\"é\tA"
    for _ in range(1500 if tier == 'quick' else 150000):
        t = ''.join(R.choice(alphabet) for _ in range(R.randint(0, 9)))
        x = ''.join(R.choice(alphabet) for _ in range(R.randint(0, 3)))
        n = R.choice(["find", "count", "contains", "remove", "split", "replace", "copy", "at", "insert", "split_csv", "trim", "reverse"])
        if n == "replace":
            out.append(bi(off, n, [s(t), s(x), s(R.choice(["", "Z", "äö"]))]))
        elif n == "copy":
            out.append(bi(off, n, [s(t), num(float(R.randint(-1, 11))), num(float(R.randint(-1, 11)))]))
        elif n == "at":
            out.append(bi(off, n, [s(t), num(float(R.randint(-1, 11)))]))
        elif n == "insert":
            out.append(bi(off, n, [s(t), s(x), num(float(R.randint(-1, 11)))]))
        elif n in ("trim", "reverse"):
            out.append(bi(off, n, [s(t)]))
        else:
            out.append(bi(off, n, [s(t), s(x)]))
        if R.random() < 0.3:
            out.append(f"(poscoh _ {s(t)})")
    out += [c for c in sized_cases(tier, R, off) if c.startswith("(poscoh") or any(k in c for k in (" 97 116)", " 99 111 112 121)", " 105 110 115 101 114 116)", " 108 101 110 103 116 104)", " 114 101 118 101 114 115 101)",
            " 102 105 110 100)", " 99 111 117 110 116)", " 117 112 112 101 114 99 97 115 101)", " 117 110 105 113 117 101)", " 99 111 110 116 97 105 110 115)"))]
    return out


# ---------------- C17 ----------------
def rnd_double(R):
    k = R.random()
    if k < 0.3:
        return struct.unpack('<d', struct.pack('<Q', R.getrandbits(64)))[0]
    if k < 0.6:
        return float(R.randint(-10**4, 10**4))
    if k < 0.8:
        return R.uniform(-1e6, 1e6)
    return R.choice([2.0**53, -2.0**53, 2.0**53 + 2, 1e300, -1e300, 0.5, -0.5, 1.5, 2.5, -2.5, 4503599627370496.5, 4503599627370495.5, 0.49999999999999994, 9.223372036854776e18, -9.223372036854776e18,
                     1.8446744073709552e19, 5e-324, -5e-324, 255.0, 256.0, 65535.0, 4294967295.0, 4294967296.0])


def gen_c17(tier, R):
    out = []
    vals = [num(x) for x in NUMS]
    for n in MATH + ["bool", "int", "float", "str", "chr"]:
        out.append(bi(1, n, []))
        for a in POOL:
            out.append(bi(1, n, [a]))
        out.append(bi(1, n, [num(1.0), num(2.0)]))
    nr = 6000 if tier == 'quick' else 400000
    for _ in range(nr):
        x = rnd_double(R)
        n = R.choice(MATH + ["int", "float", "bool", "chr"])
        out.append(bi(1, n, [num(x)]))
    # whole numbers and their neighbours a few ulps / a tiny epsilon away, in both signs (truncation, rounding and parity must not be nudged)
    import math as _m
    near = []
    for kk in [0, 1, 2, 15, 16, 255, 256, 434, 435, 4095, 65535, 65536, 2**24, 2**31, 2**32, 2**52, 2**53]:
        for sg in (1.0, -1.0):
            base = sg * float(kk)
            near += [base, _m.nextafter(base, 0.0), _m.nextafter(base, sg * _m.inf), base - sg * 1e-10, base - sg * 1e-12, base + sg * 1e-10, base - sg * 0.5, base + sg * 0.49999999999999994]
    for x in near:
        for n in MATH + ["int", "float", "bool", "str"]:
            out.append(bi(1, n, [num(x)]))
        out.append(f"(mathref _ {num(x)})")
    for cp in list(range(0, 300)) + [0x7ff, 0x800, 0xffff, 0x10000, 0x10ffff, 0xd7ff, 0xe000]:
        out.append(bi(1, "ord", [s(chr(cp))]))
        out.append(bi(1, "chr", [num(float(cp))]))
        out.append(bi(1, "chr", [num(cp + 0.5)]))
    for t in ["", "ab", "aé", "1", " 1", "1 ", "+1", "-1.5e3", "1e400", "-1e-400", "inf", "-Infinity", "NaN", "nan", "0x10", "1_000", "١", ".5", "5.", ".", "e5", "1e", "1e+", "TRUE", "true", "١٢", "1.5.2", "--1",
              "+-1", "infinit", "  ", "1e5", "1E5", "1d5"]:
        for n in ("float", "int", "bool", "str", "ord"):
            out.append(bi(1, n, [s(t)]))
    # str(number): the shortest text that reads back as the number - powers of ten and of two with their neighbours (the rounding interval is lop-sided at a power of two),
    # sums that need 16 or 17 digits, halves, subnormals, the largest doubles, whole numbers around 2^53, random bit patterns of every magnitude
    shown = []
    for e10 in (list(range(-30, 31)) + [-323, -308, -300, -100, 100, 300, 308]) if tier == 'thorough' else [-323, -308, -20, -7, -6, -5, -4, -1, 0, 1, 5, 15, 16, 17, 20, 21, 22, 23, 100, 308]:
        v = float(f"1e{e10}")
        shown += [v, _m.nextafter(v, 0.0), _m.nextafter(v, _m.inf), 3 * v, 9.5 * v]
    for e2 in ([-1074, -1073, -1022, -1021, -60, -1, 0, 1, 10, 52, 53, 54, 63, 64, 100, 1023] if tier == 'quick' else list(range(-1074, 1024, 7))):
        v = _m.ldexp(1.0, e2)
        shown += [v, _m.nextafter(v, 0.0), _m.nextafter(v, _m.inf)]
    shown += [0.1 + 0.2, 0.1 + 0.7, 1.1 * 1.1, 4.35 * 100, 1 / 3, 2 / 3, 1e23, 8.41e21, 9007199254740993.0, 5e-324, 1.7976931348623157e308, 2.2250738585072014e-308, 0.5, 1.5, 2.5, 1e15 + 0.5, 123456789012345680.0]
    # exact ties between the two nearest 17-digit decimals: a quarter or three quarters at the 2^50 scale (16 integer digits + 1), an odd multiple of 1/8 at the 2^47 scale
    shown += [float(R.randint(2**50, 2**51 - 1)) + R.choice([0.25, 0.75]) for _ in range(150 if tier == 'quick' else 20000)] + [1202996698280249.25, 1202996698280249.75]
    shown += [float(R.randint(2**47, 2**48 - 1)) + R.choice([0.125, 0.375, 0.625, 0.875]) for _ in range(100 if tier == 'quick' else 20000)]
    shown += [struct.unpack('<d', struct.pack('<Q', R.getrandbits(63)))[0] for _ in range(300 if tier == 'quick' else 60000)]
    shown += [R.uniform(-1e6, 1e6) for _ in range(300 if tier == 'quick' else 60000)] + [float(R.randint(-10**17, 10**17)) for _ in range(100 if tier == 'quick' else 20000)]
    for v in shown:
        if v == v and abs(v) != _m.inf:
            out.append(bi(1, "str", [num(v)]))
            out.append(bi(1, "str", [num(-v)]))
    # implementation-only references: maths builtins against the f64 methods called independently, float(str(x)) = x, parity
    for _ in range(4000 if tier == 'quick' else 1000000):
        out.append(f"(mathref _ {num(rnd_double(R))})")
    for x in NUMS + [float(i) for i in range(-40, 41)] + [2.0**52 + 1, 2.0**53 - 1, -2.0**53 + 1, 1e15 + 1, -1e15 - 1]:
        out.append(f"(mathref _ {num(x)})")
    out += [c for c in sized_cases(tier, R) if " 102 108 111 97 116)" in c or " 105 110 116)" in c]
    return out


# ---------------- C16 ----------------
MSD = 86400000.0


def daynum(y, m, d):
    return float((datetime.date(y, m, d) - datetime.date(1970, 1, 1)).days)


def gen_c16(tier, R):
    out = []
    one = ["year", "month", "day", "hour", "minute", "second", "millisecond", "day_of_week", "is_leap_year", "date", "time"]
    vals = []
    for y in [1, 4, 100, 400, 1600, 1899, 1900, 1969, 1970, 1972, 1999, 2000, 2024, 2100, 9999]:
        for (m, d) in [(1, 1), (2, 28), (2, 29), (3, 1), (12, 31), (6, 15)]:
            try:
                vals.append(daynum(y, m, d))
            except ValueError:
                pass
    nv = 300 if tier == 'quick' else 3000
    for _ in range(nv):
        vals.append(float(R.randint(-719162, 2932896)))
    tods = [0, 1, 30, 31, 47, 999, 1000, 59999, 3599999, 3600000, 43200000, 86399999] + [R.randrange(86400000) for _ in range(nv)]
    xs = [v + t / MSD for v in vals[:60] for t in tods[:12]] + [R.choice(vals) + R.choice(tods) / MSD for _ in range(nv * 3)] + [t / MSD for t in tods[:100]] + [-(t / MSD) for t in tods[:40]]
    xs += [NAN, INF, -INF, 1e300, -1e300, 9.5e7, -9.5e7, 95026601.0, 95026602.0, -95745048.0, -95745049.0, 2932896.0, 2932897.0, -719528.0, -719529.0, 0.5, -0.5, 1e-9, -1e-9]
    for n in one:
        for x in xs:
            out.append(bi(1, n, [num(x)]))
        out.append(bi(1, n, []))
        out.append(bi(1, n, [s("a")]))
        out.append(bi(1, n, [num(1.0), num(2.0)]))
    k = 2500 if tier == 'quick' else 60000
    for _ in range(k):
        y = R.choice([R.randint(1, 9999)] * 6 + [0, -1, 10000, 262142, 262143, -262143, -262144, 2024])
        m = R.choice([R.randint(1, 12)] * 6 + [0, 13, 2])
        d = R.choice([R.randint(1, 31)] * 5 + [0, 28, 29, 30, 31, 32])
        out.append(bi(1, "encode_date", [num(float(y) + R.choice([0, 0, 0.9])), num(float(m)), num(float(d))]))
    for _ in range(k):
        h = R.choice([R.randint(0, 23)] * 6 + [24, 25, -1])
        mi = R.choice([R.randint(0, 59)] * 6 + [60, -1])
        sec = R.choice([R.randint(0, 59)] * 6 + [59, 60])
        ml = R.choice([R.randint(0, 999)] * 6 + [1000, 1999, 2000, -1])
        a = [num(float(h)), num(float(mi)), num(float(sec))]
        if R.random() < 0.7:
            a.append(num(float(ml)))
        out.append(bi(1, "encode_time", a))
    for _ in range(k):
        x = R.choice(vals) + R.choice(tods) / MSD
        a = [num(x)]
        if R.random() < 0.85:
            a.append(num(float(R.choice([R.randint(-30, 30)] * 8 + [0, 1200, -1200, 10**7, -10**7, 2**31, 0.5, -0.5]))))
        out.append(bi(1, "inc_month", a))
    # inc_month from every month end and leap day by whole years and by months that land in February, across century and 400-year boundaries
    for y in [1896, 1900, 1904, 1996, 2000, 2004, 2023, 2024, 2096, 2100, 2396, 2400, 4, 8, 96, 100, 104, 9996]:
        for (m, d) in [(2, 29), (2, 28), (1, 31), (1, 30), (1, 29), (3, 31), (12, 31), (8, 31), (10, 31), (11, 30), (3, 30)]:
            try:
                base = daynum(y, m, d)
            except ValueError:
                continue
            for inc in [1, -1, 2, 11, 12, -12, 13, 24, -24, 36, 48, -48, 96, -96, 120, 1200, -1200, 4800, 6, -6, 12.5, 0]:
                out.append(bi(1, "inc_month", [num(base + R.choice([0.0, 0.75, 0.999])), num(float(inc))]))
    for _ in range(k // 2):
        x = R.choice(vals) + R.choice(tods) / MSD
        out.append(bi(1, "date_to_string", [s(R.choice(["%Y-%m-%d", "%H:%M:%S", "%Y-%m-%d %H:%M:%S"])), num(x)]))
    for _ in range(k // 2):
        y = R.randint(1, 9999)
        m = R.randint(1, 12)
        d = R.choice([R.randint(1, 28)] * 4 + [29, 30, 31])
        out.append(bi(1, "string_to_date", [s(f"{y:04d}-{m:02d}-{d:02d}")]))
        out.append(bi(1, "string_to_time", [s(f"{R.randint(0,23):02d}:{R.randint(0,59):02d}:{R.randint(0,59):02d}")]))
        out.append(bi(1, "string_to_datetime", [s(f"{y:04d}-{m:02d}-{min(d, 28):02d} {R.randint(0,23):02d}:{R.randint(0,59):02d}:{R.randint(0,59):02d}")]))
    # exhaustive oracles on the implementation: date ranges (years) and time-of-day ranges (milliseconds)
    if tier == 'quick':
        years = sorted(set([1, 2, 3, 4, 5, 99, 100, 101, 399, 400, 401, 1582, 1600, 1699, 1700, 1800, 1899, 1900, 1901, 1969, 1970, 1971, 1999, 2000, 2001, 2023, 2024, 2038, 2100, 2400, 9996, 9997, 9998, 9999] +
                           [R.randint(1, 9999) for _ in range(80)]))
        for y in years:
            out.append(f"(daterange _ {y} {y})")
        for _ in range(40):
            lo = R.randrange(86400000 - 50000)
            out.append(f"(todrange _ {lo} {lo + 50000})")
        out.append("(todrange _ 0 100000)")
        out.append("(todrange _ 86300000 86399999)")
    else:
        for y in range(1, 10000, 25):
            out.append(f"(daterange _ {y} {min(9999, y + 24)})")
        for lo in range(0, 86400000, 100000):
            out.append(f"(todrange _ {lo} {lo + 99999})")
    return out


def gen_datefmt(tier, R):
    """texts and explicit format strings for string_to_date / _time / _datetime: complete and incomplete formats (no year, no day, no seconds), fractional seconds, two-digit years,
    month names, day of year, literal text, texts that do not fit - compared with chrono used directly (the result is a function of the two arguments alone)"""
    pairs = [("24.12.", "%d.%m."), ("12-24", "%m-%d"), ("Dec 24", "%b %d"), ("358", "%j"), ("29.02.", "%d.%m."), ("2024-12-24", "%Y-%m-%d"), ("24.12.2024", "%d.%m.%Y"), ("24.12.24", "%d.%m.%y"),
             ("2024-358", "%Y-%j"), ("2024", "%Y"), ("2024-12", "%Y-%m"), ("10:11:12", "%H:%M:%S"), ("10:11", "%H:%M"), ("10", "%H"), ("10:11:12.013", "%H:%M:%S%.3f"), ("10:11:12.5", "%H:%M:%S%.f"),
             ("23:59:60", "%H:%M:%S"), ("12:00 PM", "%I:%M %p"), ("2024-12-24 10:11:12", "%Y-%m-%d %H:%M:%S"), ("2024-12-24T10:11:12.250", "%Y-%m-%dT%H:%M:%S%.3f"), ("24.12. 10:11", "%d.%m. %H:%M"),
             ("2024-02-30", "%Y-%m-%d"), ("0001-01-01", "%Y-%m-%d"), ("9999-12-31 23:59:59", "%Y-%m-%d %H:%M:%S"), ("Tue, 24 Dec 2024", "%a, %d %b %Y"), ("Mon, 24 Dec 2024", "%a, %d %b %Y"),
             ("x", "%Y"), ("", ""), ("2024", ""), ("", "%Y"), ("2024-12-24", "%Q"), ("2024-12-24 +0100", "%Y-%m-%d %z"), ("1734998400", "%s"), ("W52 2024 2", "W%W %Y %u")]
    out = [f"(datefmt _ {s(t)} {s(f)})" for t, f in pairs]
    for _ in range(200 if tier == 'quick' else 20000):
        y, m, d = R.randint(1, 9999), R.randint(1, 12), R.randint(1, 31)
        h, mi, sec, ms = R.randint(0, 24), R.randint(0, 60), R.randint(0, 60), R.randint(0, 999)
        f, t = R.choice([("%Y-%m-%d", f"{y:04d}-{m:02d}-{d:02d}"), ("%d.%m.", f"{d:02d}.{m:02d}."), ("%m/%d/%y", f"{m:02d}/{d:02d}/{y % 100:02d}"), ("%H:%M:%S%.3f", f"{h:02d}:{mi:02d}:{sec:02d}.{ms:03d}"),
                         ("%H:%M", f"{h:02d}:{mi:02d}"), ("%Y-%m-%d %H:%M:%S%.3f", f"{y:04d}-{m:02d}-{d:02d} {h:02d}:{mi:02d}:{sec:02d}.{ms:03d}"), ("%j %Y", f"{R.randint(1, 366):03d} {y:04d}")])
        out.append(f"(datefmt _ {s(t)} {s(f)})")
    return out


# ---------------- C13 ----------------
ORD_POOL = [num(x) for x in [0.0, -0.0, 1.0, -1.0, 9.0, 10.0, 2.5, INF, -INF, NAN, 5e-324, 1e300, 0.3, 0.30000000000000004]] + \
           [s(t) for t in ["", "a", "b", "ab", "10", "9", " 9", "1e1", "nan", "inf", "-0", "é", "A", "true", "0.3", "+1", "infinity"]] + [b(True), b(False)] + \
           [arr(), arr(num(1.0)), arr(num(1.0), num(2.0)), arr(s("a")), arr(arr()), arr(arr(num(1.0)), s("a")), arr(num(NAN)), arr(s("9")), arr(num(9.0)), arr(s("10")), arr(b(True)), arr(num(1.0), s("a"))]


def gen_c13(tier, R):
    out = []
    P = ORD_POOL
    for a in P:
        for c in P:
            out.append(f"(cmp _ {a} {c})")
            out.append(bi(1, "compare", [a, c]))
    for x, y in [(s("5"), num(3.0)), (num(3.0), s("5")), (s("10"), num(9.0)), (s("-1"), num(0.0)), (s("2"), num(2.0)), (s("1e1"), num(9.5)), (b(True), s("0")), (s("a"), num(1.0))]:
        for name in ("sort", "max", "min"):
            out.append(bi(1, name, [arr(x, y)]))
            out.append(bi(1, name, [arr(y, x)]))
        out.append(f"(sortlaws _ {arr(x, y)})")
        out.append(f"(sortlaws _ {arr(y, x)})")
        out.append(f"(sortlaws _ {arr(y, x, y, x)})")
    trip = [(a, c, d) for a in P for c in P for d in P]
    if tier == 'quick':
        trip = R.sample(trip, 12000)
    for a, c, d in trip:
        out.append(f"(ord3 _ {a} {c} {d})")
        out.append(bi(1, "between", [a, c, d]))

    def rnd_val(depth):
        k = R.random()
        if depth == 0 or k < 0.7:
            return R.choice(P[:28])
        return arr(*[rnd_val(depth - 1) for _ in range(R.randint(0, 3))])
    tame_nums = [num(float(i)) for i in range(-5, 6)] + [num(0.5), num(-0.0), num(INF), num(-INF), num(1e300)]
    tame_strs = [s(t) for t in ["", "a", "b", "ab", "abc", "é", "A", "Z", "x y"]]
    for _ in range(2500 if tier == 'quick' else 100000):
        k = R.random()
        n = R.randint(0, 12) if R.random() < 0.9 else R.randint(100, 300)
        if k < 0.3:
            els = [R.choice(tame_nums) for _ in range(n)]
        elif k < 0.5:
            els = [R.choice(tame_strs) for _ in range(n)]
        elif k < 0.7:
            els = [R.choice(tame_strs + [b(True), b(False), arr(), arr(s("a")), arr(s("a"), s("b"))]) for _ in range(n)]
        elif k < 0.85:
            els = [R.choice(tame_nums + [b(True), b(False), arr(num(1.0)), arr(num(1.0), num(0.0)), arr()]) for _ in range(n)]
        else:
            els = [rnd_val(2) for _ in range(n)]
        if k >= 0.85 and R.random() < 0.5:
            # numbers next to numeric strings where the documented order IS consistent: single-digit strings order like their numbers; Booleans lowest, arrays highest
            mix = tame_nums[:11] + [num(float(i)) for i in range(6, 12)] + [s(str(d)) for d in range(10)] + [b(True), b(False), arr(), arr(s("5"), num(3.0))]
            els = [R.choice(mix) for _ in range(n)]
        a = arr(*els)
        out.append(f"(sortlaws _ {a})")
        out.append(bi(1, "sort", [a]))
        if n <= 12:
            out.append(bi(1, "max", [a]))
            out.append(bi(1, "min", [a]))
            out.append(bi(1, "max", els) if els else bi(1, "max", []))
    out += [c for c in sized_cases(tier, R) if any(k in c for k in ("(sortlaws", " 115 111 114 116)", " 109 97 120)", " 109 105 110)"))]
    return out


def sized_cases(tier, R, off=1):
    """sizes: the collection builtins on arrays and texts of n members / characters for n around the usual thresholds - numeric strings among numbers (sort / min / max / unique must not switch rules
    with the length), pairs that are `=` across kinds at both ends of a long array (unique), multi-byte characters at the 32- and 64-byte boundaries of long texts (positions), extreme counts and
    positions on long sources (copy / insert / at)"""
    from gen.trees import SIZES
    out = []
    for n in SIZES:
        digits = [s(str((7 * i) % (n + 3))) for i in range(n)]                  # numeric strings: '10' < '9' as texts
        nums_ = [num(float((7 * i) % (n + 3))) for i in range(n)]
        words = [s(chr(97 + (5 * i) % 26) + chr(97 + (11 * i) % 26)) for i in range(n)]
        crossk = [num(float(i + 2)) for i in range(n - 2)] + [num(1.0), s("1")]   # 1 and '1' meet at the far end
        crossk2 = [num(1.0)] + [num(float(i + 2)) for i in range(n - 2)] + [b(True)]
        zeros = [num(float(i + 1)) for i in range(n - 2)] + [num(0.0), num(-0.0)]
        for els in (digits, nums_, words):
            a = arr(*els)
            out.append(bi(off, "sort", [a])); out.append(bi(off, "max", [a])); out.append(bi(off, "min", [a])); out.append(f"(sortlaws _ {a})")
            out.append(bi(off, "unique", [a])); out.append(bi(off, "reverse", [a])); out.append(bi(off, "length", [a]))
        for els in (crossk, crossk2, zeros, digits + [num(9.0)]):
            a = arr(*els)
            out.append(bi(off, "unique", [a])); out.append(bi(off, "contains", [a, s("1")])); out.append(bi(off, "count", [a, b(True)])); out.append(bi(off, "find", [a, s("1")]))
        base = arr(*nums_)
        for st in (num(0.0), num(1.0), num(float(n - 1)), num(float(n)), num(float(n + 1))):
            for cnt in (num(0.0), num(1.0), num(float(n)), num(1e300), num(INF), num(2.0**64), num(2.0**63)):
                out.append(bi(off, "copy", [base, st, cnt]))
            out.append(bi(off, "at", [base, st])); out.append(bi(off, "insert", [base, s("x"), st]))
        for ch in ("é", "€", "😀", "e\u0301"):
            for k in (0, 30, 31, 32, 33, 62, 63, 64, n - 1):
                if 0 <= k < n:
                    t = "abcdefghij" * (n // 10 + 1)
                    t = t[:k] + ch + t[k + len(ch):n]
                    ts = s(t)
                    out.append(f"(poscoh _ {ts})")
                    for i in sorted({1, k, k + 1, k + 2, n - 1, n, n + 1}):
                        out.append(bi(off, "at", [ts, num(float(i))])); out.append(bi(off, "copy", [ts, num(float(i)), num(3.0)])); out.append(bi(off, "insert", [ts, s("|"), num(float(i))]))
                    out.append(bi(off, "copy", [ts, num(2.0), num(1e300)])); out.append(bi(off, "length", [ts])); out.append(bi(off, "reverse", [ts]))
                    out.append(bi(off, "find", [ts, s(ch)])); out.append(bi(off, "count", [ts, s("a")])); out.append(bi(off, "uppercase", [ts]))
        # float / int of long texts: the digits behind the 17th decide
        for txt in ("9007199254740993." + "0" * max(1, n - 18) + "1", "0.1" + "0" * (n - 3), "1" + "0" * (n - 1), "0." + "0" * (n - 3) + "7", "-" + "123456789" * (n // 9 + 1)):
            out.append(bi(off, "float", [s(txt[:n] if not txt.endswith("1") else txt)])); out.append(bi(off, "int", [s(txt[:n])]))
    return out


# ---------------- C09 ----------------
C09_EXTRA = [num(x) for x in [2.0**31, 2.0**32, -2.0**63, 9.5e7, -9.5e7, 95026601.0, -95745048.0, 2932896.0, -719162.0, 3000000.0, -800000.0, 19000.5, 1e-300, 262143.0 * 366, 0.99999999999]] + \
            [s(t) for t in ["%Q", "%", "%Y-%m-%d", "%H:%M:%S", "%+", "%s", "%Z", "%:::z", "%-", "%9f", "%.3f", "%E", "(", "[", "(a*)*b", "a{1000}", "a{1000000}", "(?P<n>x)", "\\", "\\p{Greek}", "(?i)Ab", "$1", "${x", "x|",
                            "2024-02-30", "0000-00-00", "9999-12-31 23:59:60", "24:00:00", "Sun, 03 Mar 2024 10:00:00 +0000", "2024-03-03T10:00:00+00:00", "a\x00b", "\U0010ffff", "𝒳"]] + \
            [arr(*[num(float(i % 7)) for i in range(200)]), arr(*([s("9"), num(9.0), s("10")] * 70)), arr(*[num(NAN) if i % 3 == 0 else num(float(i)) for i in range(60)]),
             arr(arr(arr(arr(arr(num(1.0)))))), arr(*[s("x" * 50)] * 30)]
C09_POOL = POOL + C09_EXTRA


def script_of(name, args):
    """render a call as source text where the arguments are expressible (non-negative finite numbers, strings, booleans, arrays of those)"""
    import struct as _st

    def lit(a):
        if a.startswith('(n '):
            x = _st.unpack('<d', _st.pack('<Q', int(a[3:-1])))[0]
            if x != x:
                return '(0/0)'
            if x in (INF, -INF):
                return '(1/0)' if x > 0 else '(-1/0)'
            t = format(__import__('decimal').Decimal(abs(x)), 'f')
            return t if x >= 0 and not (x == 0 and _st.pack('<d', x)[7] & 0x80) else '(-' + t + ')'
        if a.startswith('(s'):
            t = ''.join(chr(int(c)) for c in a[2:-1].split())
            return "'" + t.replace("'", "''") + "'"
        if a.startswith('(b '):
            return 'true' if a == '(b 1)' else 'false'
        return None
    parts = [lit(a) for a in args]
    if any(p is None for p in parts):
        return None
    return f"{name}({', '.join(parts)})"


def max_arity():
    """name -> registered maximum parameter count (variadic: 99), from the regenerated table"""
    p = os.path.join(COQ, 'Gen', 'GenBuiltins.v')
    out = {}
    for m in re.finditer(r'(GPoly (\d+) (\d+)|GVariadic|GNone), \w+\)\s+\(\* (\w+) :', open(p).read()):
        out[m.group(4)] = 99 if m.group(1) == 'GVariadic' else 0 if m.group(1) == 'GNone' else int(m.group(2)) + int(m.group(3))
    return out


# systematic triples: a subject of every kind (non-empty, non-ASCII, nested) x two arguments from the extremes an index, count, component or text can take
C09_SUBJECTS = [arr(num(1.0), num(2.0), num(3.0)), arr(), s("abc"), s("äb日"), s(""), num(2.0), num(19000.5), b(True), arr(s("a"), arr())]
C09_EXTREMES = [num(x) for x in [0.0, 1.0, 2.0, 3.0, -1.0, 0.5, 12.0, 2.0**31, -2.0**31, 2.0**32, 2.0**53, 2.0**63, 2.0**64, 1e300, -1e300, INF, -INF, NAN]] + [s("b"), s(""), arr(num(1.0))]


def gen_c09(tier, R, off):
    names = registered_names()
    out = []
    ar = max_arity()
    for n in names:
        if 3 <= ar.get(n, 0) < 99:
            for a in C09_SUBJECTS + (C09_EXTREMES[:6] if n.startswith('encode') or n == 'between' else []):
                for c in C09_EXTREMES:
                    for d in C09_EXTREMES:
                        out.append(bi(off, n, [a, c, d]))
    pool = C09_POOL
    # the sub-pool for all ordered pairs: a stride sample plus the values no pair family may lack (empty text / array, zero, negative, NaN, infinities, a non-ASCII text)
    small = POOL[::5] + C09_EXTRA[::2]
    for v in [s(""), s("a"), s("äb"), arr(), num(0.0), num(-1.0), num(1.0), num(NAN), num(INF), num(-INF), b(False), arr(num(1.0), s("1"), b(True))]:
        if v not in small:
            small.append(v)
    for n in names:
        if n in ('random', 'choice') and False:
            continue
        out.append(bi(off, n, []))
        for a in pool:
            out.append(bi(off, n, [a]))
        p2 = pool if tier == 'thorough' else small
        for a in p2:
            for c in p2:
                out.append(bi(off, n, [a, c]))
        for _ in range(200 if tier == 'quick' else 20000):
            out.append(bi(off, n, [R.choice(pool) for _ in range(R.choice([3, 3, 3, 4, 5]))]))
    # the regex builtins on VALID patterns of every shape (groups that do not take part in a match, empty matches, anchors, classes) over a few haystacks, with replacements and limits
    re_pats = ["(a)|(b)", "a(x)?b", "(\\d{4})-(\\d{2})(-\\d{2})?", "(a)|b", "((a)|(b))+", "(?:(a)|(b))c", "x*", "", "^", "$", "\\b", "(a*)(b*)", "[^a]", "a|", "(|a)", ".", "é?", "(?i)A(b)?", "(a)(b)?(c)?(d)?"]
    re_hays = ["", "b", "ab", "2024-05", "aaa", "éa", "xyz", "a\nb"]
    for n in names:
        if n.startswith('re_'):
            for h in re_hays:
                for ptn in re_pats:
                    out.append(bi(off, n, [s(h), s(ptn)]))
                    if n == 're_replace':
                        out.append(bi(off, n, [s(h), s(ptn), s("<$1>")]))
                        out.append(bi(off, n, [s(h), s(ptn), s("-"), num(1.0)]))
    # through scripts
    for _ in range(4000 if tier == 'quick' else 200000):
        n = R.choice(names)
        args = [R.choice(pool) for _ in range(R.choice([0, 1, 1, 2, 2, 3, 4]))]
        sc = script_of(n, args)
        if sc is not None:
            out.append(("(script _ " if off == 1 else "(script0 _ ") + " ".join(str(ord(c)) for c in sc) + ")")
    out += gen_composite_scripts(tier, R, off)
    out += [c for c in sized_cases(tier, R, off) if c.startswith("(bi ")]
    return out


def gen_composite_scripts(tier, R, off):
    """whole programs over the real standard library: calls nested in calls, operators, conditionals and arrays around them - scanned, parsed, validated, optimized and executed by the crate,
    and by the model as one function (StdEnv.run_script); compared before and after optimize"""
    nums = ["0", "1", "2", "3", "2.5", "10", "0.1", "100", "7"]
    strs = ["''", "'a'", "'abc'", "'Hello World'", "'a,b,c'", "'  x '", "'ÄÖ'", "'2024-02-29'", "'10'", "'3.5'", "'aXbXc'", "'ΑΣ'"]
    arrs = ["[]", "[1, 2, 3]", "['b', 'a']", "[3, 1, 2, 1]", "[true, false]", "[[1], [2]]", "['1', 1, true]"]

    def num_e(d):
        k = R.random()
        if d == 0 or k < 0.3:
            return R.choice(nums)
        c = R.choice(["length({s})", "length({a})", "find({s}, {s})", "count({s}, {s})", "max({n}, {n})", "min({n}, {n}, {n})", "abs({n})", "round({n})", "trunc({n})", "int({s10})", "float({s10})",
                      "ord('a')", "at({a3}, {i})", "({n} + {n})", "({n} * {n})", "({n} - {n})", "({n} div 2)", "({n} mod 3)", "if_then({b}, {n}, {n})", "year(encode_date(2024, 2, 29))",
                      "day(inc_month(encode_date(2024, 1, 31), {i}))", "compare({n}, {n})", "pow({n})", "frac({n})", "hour(encode_time(13, 5, 7))", "day_of_week(string_to_date('2024-03-03'))"])
        return fill(c, d)

    def str_e(d):
        k = R.random()
        if d == 0 or k < 0.3:
            return R.choice(strs)
        c = R.choice(["lowercase({s})", "uppercase({s})", "trim({s})", "copy({s}, {i}, {i})", "replace({s}, {s}, {s})", "str({n})", "str({b})", "reverse({s})", "insert({s}, {s}, 1)", "({s} + {s})",
                      "int_to_hex({n})", "chr(65)", "at({s3}, {i})", "if_then({b}, {s}, {s})", "remove({s}, 'a')", "date_to_string('%Y-%m-%d', encode_date(2024, 2, {i}))", "re_replace({s}, 'a', 'b')"])
        return fill(c, d)

    def bool_e(d):
        k = R.random()
        if d == 0 or k < 0.3:
            return R.choice(["true", "false"])
        c = R.choice(["contains({s}, {s})", "contains({a}, {n})", "empty({s})", "empty({a})", "same_text({s}, {s})", "even({n})", "odd({n})", "between({n}, {n}, {n})", "all({b}, {b})", "any({a})",
                      "({n} < {n})", "({s} = {s})", "({n} = {s10})", "({b} and {b})", "({b} or {b})", "(not {b})", "({b} xor {b})", "is_leap_year(encode_date(2024, 1, 1))", "bool({n})", "({a} = {a})"])
        return fill(c, d)

    def arr_e(d):
        k = R.random()
        if d == 0 or k < 0.35:
            return R.choice(arrs)
        # (sort only over arrays of one kind: on arrays whose order is inconsistent - the recorded finding F15/F17 - the result depends on the sorting algorithm, and a computed array cannot be classified from the text)
        c = R.choice(["sort({t})", "unique({a})", "reverse({a})", "split({s}, ',')", "copy({a}, 0, {i})", "insert({a}, {n}, 0)", "({a} + {a})", "[{n}, {s}, {b}]", "split_csv({s})", "re_find({s}, 'a')"])
        return fill(c, d)

    def fill(c, d):
        out = c
        while '{' in out:
            i = out.index('{'); j = out.index('}', i); key = out[i + 1:j]
            rep = {'t': lambda: R.choice(["[3, 1, 2, 1]", "['b', 'a', 'c']", "[]", "[2.5, 10, 0.1]", "split('c,a,b', ',')", "[true, false, true]", "reverse([1, 2, 3])", "[length('ab'), 7, 0]"]),
                   'n': lambda: num_e(d - 1), 's': lambda: str_e(d - 1), 'b': lambda: bool_e(d - 1), 'a': lambda: arr_e(d - 1), 'i': lambda: R.choice(["0", "1", "2", "3"]),
                   's10': lambda: R.choice(["'10'", "'3.5'", "'0'"]), 'a3': lambda: "[1, 2, 3]", 's3': lambda: "'abc'"}[key]()
            out = out[:i] + rep + out[j + 1:]
        return out
    res = []
    kind = "(script _ " if off == 1 else "(script0 _ "
    for _ in range(2500 if tier == 'quick' else 100000):
        sc = R.choice([num_e, str_e, bool_e, arr_e])(R.randint(1, 3))
        res.append(kind + " ".join(str(ord(c)) for c in sc) + ")")
    return res


# ---------------- C14 ----------------
EQ_SPELLINGS = None


def gen_c14(tier, R):
    names = [n for n in registered_names() if n not in ('random', 'choice')]
    eqpool = [num(1.0), s("1"), s("1.0"), b(True), num(0.0), s("0"), b(False), s(""), num(-0.0), s("-0"), num(2.0), s("2"), s("a"), arr(), arr(num(1.0)), arr(s("1")),
              # every spelling the float parser accepts for one number: a hash that classifies strings by their look must agree with `=`
              num(INF), s("inf"), s("infinity"), s("Infinity"), s("INF"), s("+inf"), s("+infinity"), num(-INF), s("-inf"), s("-infinity"), num(NAN), s("nan"), s("NaN"),
              s("+1"), s("1e0"), s("1E0"), s("01"), s("1."), s(".5"), num(0.5), s("0.5"), s("5e-1"), s("+.5"), num(10.0), s("1e1"), s("10"), s("1_0"), s(" 1"), s("0x1")]
    global EQ_SPELLINGS
    EQ_SPELLINGS = eqpool
    arrays = []
    for _ in range(400 if tier == 'quick' else 20000):
        arrays.append(arr(*[R.choice(eqpool) for _ in range(R.randint(0, 9))]))
    out = []
    for a in arrays:
        for n in ("unique", "sort", "reverse", "count", "contains", "find", "max", "min", "all", "any", "length", "str", "remove"):
            if n in ("count", "contains", "find", "remove"):
                out.append(bi(1, n, [a, R.choice(eqpool)]))
            else:
                out.append(bi(1, n, [a]))
    for n in names:
        out.append(bi(1, n, []))
        for a in POOL:
            out.append(bi(1, n, [a]))
        for _ in range(40 if tier == 'quick' else 2000):
            out.append(bi(1, n, [R.choice(POOL) for _ in range(R.choice([2, 2, 3]))]))
    out += gen_c14_neighbours(tier, R, names)
    out += [c for c in sized_cases(tier, R) if c.startswith("(bi ")]
    return out


def gen_c14_neighbours(tier, R, names):
    """clusters of NEARLY identical arguments (same second / minute / day but different milliseconds, adjacent doubles, texts differing in one character or in
    letter case, arrays differing in one element): a result remembered under too coarse a key, or any other dependence on the call history, shows when the
    members of a cluster are called in different orders (C14.post runs them in a different order in every fresh process)"""
    out = []
    bases = [0.5, 19000.5, -3.25, 0.0] + ([R.uniform(-700000, 2900000) for _ in range(40)] if tier == 'thorough' else [R.uniform(-700000, 2900000) for _ in range(2)])
    steps = [0, 1, 250, 750, 999, 1000, 59999, 3599999]
    nums = []
    for x in bases:
        nums.append([num(x + k / 86400000.0) for k in steps])
    nums.append([num(x) for x in (1.0, 1.0000000000000002, 0.9999999999999999, 1.5, 1.4999999999999998, 2.5, -1.5)])
    texts = [[s(t) for t in ("abc", "abd", "ABC", "abc ", " abc", "abcc", "äbc")], [s(t) for t in ("10", "10.0", "1e1", " 10", "9")]]
    arrs = [[arr(num(1.0), num(2.0), num(3.0)), arr(num(1.0), num(2.0), num(4.0)), arr(num(1.0), s("2"), num(3.0)), arr(num(3.0), num(2.0), num(1.0)), arr(num(1.0), num(2.0))]]
    # formats that succeed, and formats that fail only after part of the output was produced (state left behind by an error path shows in the NEXT call)
    fmts = [s("%H:%M:%S%.3f"), s("%Y-%m-%d %H:%M:%S"), s("%S%.f"), s("%d.%m.%Y"), s("%Y-%Q"), s("%H:%M %z"), s("%Y%"), s("%Y-%m-%d %Z"), s("%Q"), s("x%")]
    ar = max_arity()
    # failing calls in between: wrong kinds, out-of-range and malformed arguments for every function (errors must not leave anything behind either)
    bad = [s("%Y-%Q"), s("("), s("2024-02-30"), num(NAN), num(-1.0), num(1e300), arr(), s("")]
    for n in names:
        k = ar.get(n, 0)
        for a in bad:
            for c in (bad[:4] if k >= 2 else []):
                out.append(bi(1, n, [a, c]))
            if k >= 1:
                out.append(bi(1, n, [a]))
    for n in names:
        k = ar.get(n, 0)
        if k == 0:
            continue
        for cl in nums + texts + arrs:
            for a in cl:
                if k >= 1:
                    out.append(bi(1, n, [a]))
                if k >= 2:
                    out.append(bi(1, n, [a, num(1.0)]))
                    out.append(bi(1, n, [a, cl[0]]))
        if n in ('date_to_string', 'time_to_string'):
            for cl in nums:
                for f in fmts:
                    for a in cl:
                        out.append(bi(1, n, [f, a]))
    C14_NEIGHBOURS.clear()
    C14_NEIGHBOURS.update(out)
    return out


C14_NEIGHBOURS = set()
