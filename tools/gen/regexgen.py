"""Generator for the regex builtins (C18): patterns as ASTs (for the Coq reference engine) rendered to pattern text (for regex-lite)."""
from vlib.core import num, s

SPECIAL = set('\\.+*?()|[]{}^$#&-~')


def esc(c):
    return '\\' + c if c in SPECIAL else c


def render(t, ctx=0):
    """ctx: 0 alternation level, 1 sequence level, 2 atom level (operand of a postfix operator)"""
    k = t[0]
    if k == 'e':
        out, lvl = '', 1
        if ctx == 2:
            return '(?:)'
        return ''
    if k == 'c':
        return esc(t[1])
    if k == 'any':
        return '.'
    if k == 'cls':
        body = ''.join((esc(a) if a == b_ else esc(a) + '-' + esc(b_)) for a, b_ in t[2])
        return '[' + ('^' if t[1] else '') + body + ']'
    if k == 'seq':
        out, lvl = render(t[1], 1) + render(t[2], 1), 1
    elif k == 'alt':
        out, lvl = render(t[1], 0) + '|' + render(t[2], 0), 0
    elif k in ('star', 'plus', 'opt'):
        out, lvl = render(t[1], 2) + {'star': '*', 'plus': '+', 'opt': '?'}[k], 2
        return out if ctx <= 2 and not (ctx == 2) else '(?:' + out + ')'
    elif k == 'grp':
        return '(' + render(t[2], 0) + ')'
    elif k == 'ncg':
        return '(?:' + render(t[1], 0) + ')'
    elif k == 'bol':
        return '^'
    elif k == 'eol':
        return '$'
    if lvl < ctx:
        return '(?:' + out + ')'
    return out


def sx(t):
    k = t[0]
    if k == 'c':
        return f"(c {ord(t[1])})"
    if k == 'cls':
        return f"(cls {1 if t[1] else 0} " + ' '.join(f"({ord(a)} {ord(b_)})" for a, b_ in t[2]) + ")"
    if k in ('seq', 'alt'):
        return f"({k} {sx(t[1])} {sx(t[2])})"
    if k in ('star', 'plus', 'opt', 'ncg'):
        return f"({k} {sx(t[1])})"
    if k == 'grp':
        return f"(grp {t[1]} {sx(t[2])})"
    return f"({k})"


def number_groups(t, counter):
    k = t[0]
    if k == 'grp':
        counter[0] += 1
        i = counter[0]
        return ('grp', i, number_groups(t[2], counter))
    if k in ('seq', 'alt'):
        a = number_groups(t[1], counter)
        b_ = number_groups(t[2], counter)
        return (k, a, b_)
    if k in ('star', 'plus', 'opt', 'ncg'):
        return (k, number_groups(t[1], counter))
    return t


ALPH = "ab.xé"


def rnd_re(R, d, top=True):
    k = R.random()
    if d == 0 or k < 0.3:
        j = R.random()
        if j < 0.55:
            return ('c', R.choice("aabbx.é+"))
        if j < 0.7:
            return ('any',)
        if j < 0.9:
            return ('cls', R.random() < 0.25, R.sample([('a', 'a'), ('b', 'b'), ('a', 'c'), ('x', 'z'), ('.', '.'), ('é', 'é'), ('0', '9')], R.randint(1, 2)))
        return R.choice([('bol',), ('eol',), ('e',)])
    if k < 0.55:
        return ('seq', rnd_re(R, d - 1, False), rnd_re(R, d - 1, False))
    if k < 0.68:
        return ('alt', rnd_re(R, d - 1, False), rnd_re(R, d - 1, False))
    if k < 0.88:
        inner = rnd_re(R, d - 1, False)
        if inner[0] in ('star', 'plus', 'opt', 'bol', 'eol', 'e'):
            inner = ('ncg', inner) if inner[0] in ('star', 'plus', 'opt') else ('c', 'a')
        return (R.choice(['star', 'plus', 'opt']), inner)
    return (R.choice(['grp', 'grp', 'ncg']), 0, rnd_re(R, d - 1, False)) if R.random() < 0.7 else ('ncg', rnd_re(R, d - 1, False))


def fix(t):
    """normalise ('ncg', 0, x) produced above"""
    if t[0] == 'ncg' and len(t) == 3:
        return ('ncg', fix(t[2]))
    if t[0] == 'grp':
        return ('grp', t[1], fix(t[2]))
    if t[0] in ('seq', 'alt'):
        return (t[0], fix(t[1]), fix(t[2]))
    if t[0] in ('star', 'plus', 'opt', 'ncg'):
        return (t[0], fix(t[1]))
    return t


def gen_c18(tier, R):
    out = []
    hays = ["", "a", "b", "ab", "ba", "aab", "abab", "aaa", "xaby", "a.b", "éa", "aéb", "a\nb", "+a+", "abcabc", "  ", "zzz"]
    reps = ["", "X", "-é-", "[", "ab", "$$", "<$0>", "$1", "${1}x", "a$", "$x",
            # every form of a group reference, and everything that merely looks like one
            "$2$1", "${2}-${1}", "$10", "${10}", "$01", "${+1}", "${-1}", "$1a", "${1}a", "$", "$$$1", "$$1", "${", "${}", "${1", "$-", "é$1é", "$1$", "${name}", "$_", "$1_", "${ 1}", "$0$0", "$0a", "${0}a", "$00", "${00}",
            "${99999999999999999999}", "$99999999999999999999", "{$1}", "$}{1", "$é"]
    fixed = [('c', 'a'), ('star', ('c', 'a')), ('plus', ('c', 'a')), ('opt', ('c', 'a')), ('e',), ('any',), ('star', ('any',)), ('seq', ('c', 'a'), ('c', 'b')),
             ('alt', ('c', 'a'), ('c', 'b')), ('alt', ('c', 'a'), ('seq', ('c', 'a'), ('c', 'b'))), ('alt', ('seq', ('c', 'a'), ('c', 'b')), ('c', 'a')),
             ('grp', 0, ('c', 'a')), ('seq', ('grp', 0, ('c', 'a')), ('grp', 0, ('opt', ('c', 'b')))), ('seq', ('grp', 0, ('star', ('c', 'a'))), ('grp', 0, ('c', 'b'))),
             ('alt', ('grp', 0, ('c', 'a')), ('grp', 0, ('c', 'b'))), ('star', ('grp', 0, ('alt', ('c', 'a'), ('c', 'b')))), ('seq', ('bol',), ('c', 'a')), ('seq', ('c', 'b'), ('eol',)),
             ('bol',), ('eol',), ('seq', ('bol',), ('eol',)), ('cls', False, [('a', 'b')]), ('cls', True, [('a', 'a')]), ('plus', ('cls', False, [('a', 'c')])),
             ('seq', ('c', 'a'), ('seq', ('star', ('any',)), ('c', 'b'))), ('star', ('ncg', ('seq', ('c', 'a'), ('c', 'b')))), ('opt', ('grp', 0, ('seq', ('c', 'a'), ('c', 'b')))),
             ('c', '.'), ('c', '+'), ('seq', ('c', 'a'), ('c', '.')), ('star', ('ncg', ('star', ('c', 'a')))),
             # alternations whose branches carry groups (the group count of a pattern is not the count of groups that take part in a match)
             ('alt', ('seq', ('grp', 0, ('c', 'a')), ('grp', 0, ('c', 'b'))), ('seq', ('grp', 0, ('c', 'x')), ('grp', 0, ('c', 'y')))),
             ('seq', ('ncg', ('alt', ('grp', 0, ('c', 'a')), ('grp', 0, ('c', 'b')))), ('c', 'c')),
             ('alt', ('grp', 0, ('c', 'a')), ('alt', ('grp', 0, ('c', 'b')), ('grp', 0, ('c', 'x')))), ('alt', ('grp', 0, ('c', 'a')), ('c', 'b')),
             ('opt', ('grp', 0, ('c', 'q'))), ('seq', ('opt', ('grp', 0, ('c', 'q'))), ('grp', 0, ('c', 'a'))), ('grp', 0, ('grp', 0, ('c', 'a')))]
    n_fixed = len(fixed)
    pats = [fix(p) for p in fixed]
    for _ in range(700 if tier == 'quick' else 60000):
        pats.append(fix(rnd_re(R, R.randint(1, 4))))
    for ip, p in enumerate(pats):
        p = number_groups(p, [0])
        text = render(p)
        # the fixed patterns on every haystack; random ones always on the empty and on a (mostly) non-matching haystack plus a sample
        hs = hays if ip < n_fixed or (len(out) < 12000 and tier == 'thorough') else ["", "zzz"] + R.sample(hays[1:-1], 4)
        for h in hs:
            rep = R.choice(reps)
            lim = R.choice([0.0, 1.0, 1.0, 2.0, 3.0, 5.0, 1.5, -1.0])
            out.append(f"(re _ {sx(p)} {s(text)} {s(h)} {s(rep)} {num(lim)})")
        # `$0` puts every match back (C18_dollar_zero_is_identity: the model's answer is the haystack, so any other answer of the code is a disagreement)
        if ip < n_fixed:
            for h in hays:
                out.append(f"(re _ {sx(p)} {s(text)} {s(h)} {s(R.choice(['$0', '${0}']))} {num(R.choice([0.0, 1.0, 2.0, 5.0]))})")
        else:
            out.append(f"(re _ {sx(p)} {s(text)} {s(R.choice(hays))} {s('$0')} {num(R.choice([0.0, 1.0, 3.0]))})")
    # patterns outside the modelled subset (counted repetitions, flags, classes, word boundaries) on short AND long haystacks: the four builtins against the engine used
    # directly (oracle only) - a shortcut keyed on the length of the haystack or on the first characters of the pattern must not change any answer
    xpats = ["Z{0,2}o", "Z{0}o", "a{0,}b", "a{2}", "a{1,3}?", "\\d+", "(?i)ab", "[[:alpha:]]+", "\\bab\\b", "x{0,1}y", "(a){0,2}b", "β{0,}α", "o", "q", "t{0,2}he", "Z{0,2}o|q", "(Z{0,2})o", "a{0}", "(?:ab){0,3}c",
             "\\w{0,3}x", "é{0,1}a", ".{0,40}g$", "^.{0,3}q"]
    xhays = ["", "o", "ab", "the quick brown fox jumps over the lazy dog", "α" * 21, "a" * 40, " " * 33 + "o", "x" * 31 + "y", "x" * 32 + "y", "ABab" * 10, "é" * 20 + "a", "q" + "-" * 40]
    for xp in xpats:
        for h in xhays:
            out.append(f"(rex _ (e) {s(xp)} {s(h)} {s(R.choice(reps))} {num(R.choice([0.0, 1.0, 2.0]))})")
    lits = ["", "a", "ab", "a.b", ".", "+", "a+", "(", "[a]", "\\", "é", "aa", "$", "^a", "a|b", "a{2}", "x*", "?"]
    for x in lits:
        for h in hays + ["a.b.a.b", "a+a+", "[a][a]", "aaaa", "(()", "\\\\", "a{2}a{2}", "a|b|", "^a^a", "$$"]:
            out.append(f"(relit _ {s(x)} {s(h)} {s(R.choice(reps))})")
    for bad in ["(", ")", "[", "a{", "a{2", "*", "+a", "?", "a**", "(?P<n", "\\", "[z-a]", "(?x", "a{5,2}", "\\p{Foo}", "(?<n>a)(?<n>b)", "\\8", "(?i"]:
        for h in ["", "a"]:
            out.append(f"(reinv _ {s(bad)} {s(h)})")
    for ok in ["a", "", "a{2}", "\\d+", "(?i)A", "[[:alpha:]]", "\\bab\\b", "a{1,3}?"]:
        out.append(f"(reinv _ {s(ok)} {s('a')})")
    return out
