"""Generators for serialization (C12) and static-environment histories (C19)."""
import itertools
from vlib.core import num, s, b, arr, OPS, bits
from gen import trees, text

NAN, INF = float('nan'), float('inf')


def gen_ser(tier, R):
    """C12: every operator in unary/binary/ternary position, conditionals, Unicode names and strings (controls, quotes, astral),
    every kind of literal incl. nested array literals, boundary doubles and random bit patterns, trees compile and optimize produce"""
    names = ['x', '', 'É', '😀', 'a"b', 'a\\b', '\n', '\x00', 'type', 'operator', ' ', '퟿', 'ẞ', '10', '-3', '1.5', '1e3', '.5', '007', 'true', 'null', 'NaN', 'inf', '[]', '{}']
    doubles = [0.0, -0.0, 1.0, -1.5, 0.1, 1e300, 5e-324, 2.2250738585072014e-308, 1.7976931348623157e308, 2.0**53, 2.0**53 + 2, 9007199254740993.0, 1e21, 1e-7, 123456.789, 4.35, 0.3,
               NAN, INF, -INF,
               # magnitudes around the integer types a serializer might narrow to, in both signs (negative literals only arise from folding or hand-built trees)
               9.5e18, -9.5e18, 1e16, -1e16, 1e17, -1e17, 2.0**63, -(2.0**63), -(2.0**63) - 2048.0, 2.0**64, 1.8e19, -1.8e19, 2.0**31, -(2.0**31), 2.0**32, 4294967295.0, 16777216.0, 16777217.0, 2147483648.0,
               -2147483649.0, 65536.0 * 65536.0, 1.0 + 2.0**-23, 2.0**-23, -1.0, -0.1, -1e-7, -5e-324, -1.7976931348623157e308]
    lits = [num(x) for x in doubles] + [s(n) for n in names] + [b(True), b(False), arr(), arr(num(1.0), s('a'), arr(b(True), arr())), arr(num(NAN)), arr(arr(num(INF)))]
    # every shape of (finite) array literal to depth 3 with 0..2 members per level: singletons of singletons, empty inside non-empty, mixed depths
    def shapes(d):
        base = [num(1.0), s('a')]
        if d == 0:
            return base[:1]
        inner = shapes(d - 1)
        out_ = [arr()] + [arr(x) for x in inner] + [arr(x, y) for x in inner[:4] for y in inner[:4]]
        return base[:1] + out_
    lits += [v for v in shapes(3) if v.startswith('(a')][:160]
    leaves = [f"(lit {v})" for v in lits] + [f"(var {s(n)})" for n in names] + [f"(call {s(n)})" for n in names[:4]]
    out = []
    for o in OPS:
        for a in leaves[::3]:
            out.append(f"(un {o} {a})")
            out.append(f"(bin {o} {a} {leaves[(len(out) * 7) % len(leaves)]})")
            out.append(f"(ter {o} {a} {leaves[(len(out) * 5) % len(leaves)]} {leaves[(len(out) * 3) % len(leaves)]})")
    for a in leaves:
        out.append(a)
        out.append(f"(arr {a} {a})")
        out.append(f"(call {s('f')} {a})")

    def rnd_double():
        x = R.getrandbits(64)
        return f"(n {x})" if (x >> 52) & 0x7ff != 0x7ff else num(1.25)

    def rnd(d):
        if d == 0 or R.random() < 0.2:
            k = R.random()
            if k < 0.5:
                return f"(lit {rnd_double()})"
            return R.choice(leaves)
        k = R.random()
        if k < 0.2:
            return f"(un {R.choice(OPS)} {rnd(d-1)})"
        if k < 0.55:
            return f"(bin {R.choice(OPS)} {rnd(d-1)} {rnd(d-1)})"
        if k < 0.7:
            return f"(ter {R.choice(OPS)} {rnd(d-1)} {rnd(d-1)} {rnd(d-1)})"
        if k < 0.85:
            return "(arr " + " ".join(rnd(d-1) for _ in range(R.randint(0, 3))) + ")"
        return f"(call {s(R.choice(names))} " + " ".join(rnd(d-1) for _ in range(R.randint(0, 3))) + ")"
    for _ in range(6000 if tier == 'quick' else 400000):
        out.append(rnd(R.randint(1, 6 if tier == 'quick' else 10)))
    # deep chains up to depth 100 (serde_json's own recursion limit is 128)
    for d in (10, 50, 100):
        e = "(lit (b 1))"
        for i in range(d):
            e = f"(un not {e})" if i % 2 else f"(bin and {e} (var {s('x')}))"
        out.append(e)
    # sizes: array literals of n members holding the values a compact encoding would get wrong (-0, whole numbers beyond 2^53, 0.1, the largest double) at the first, a middle and the last place
    from gen.trees import SIZES
    for n in SIZES:
        for special in (num(-0.0), num(2.0**53 + 2), num(0.1), num(1.7976931348623157e308), num(-1.0), s(""), b(False), arr(), arr(num(-0.0))):
            for p_ in sorted({0, n // 2, n - 1}):
                els = [num(float(i)) for i in range(n)]
                els[p_] = special
                out.append(f"(lit {arr(*els)})")
                if n <= 66:
                    out.append(f"(bin divide (lit {num(1.0)}) (call {s('at')} (lit {arr(*els)}) (lit {num(float(p_))})))")
    res = [f"(ser _ {e})" for e in out]
    # trees that compile and optimize produce: scripts -> compile -> (optimize against the stdlib) -> serialize
    for _ in range(1500 if tier == 'quick' else 100000):
        t = text.rnd_tree(R, R.randint(1, 5))
        txt = text.layout(text.toks(t, 1, 'min', R), R, recase=False, dense=0.1, tail=False)
        res.append("(serscript _ " + " ".join(str(ord(c)) for c in txt) + ")")
    for src in ["1/0", "-1/0", "0/0", "1e", "sqrt(-1)", "[1/0, 2]", "max(1/0, 1)", "ln(0)", "pow(10, 400)", "1 + 2 * 3", "if_then(true, 1/0, 2)", "'a' + 'b'", "[1, 'x', [true]]", "str(0/0)", "0/0 = 0/0"]:
        res.append("(serscript _ " + " ".join(str(ord(c)) for c in src) + ")")
    # programs in which a variable meets a constant under every operator, the constants an algebraic rewrite would treat specially (0, -0, 1, powers of two, their reciprocals): the tree the
    # optimizer leaves behind must be the one the definition prescribes, and must reload - a rewrite that turns `x / 0` into `x * inf` puts a literal into the tree that JSON cannot carry
    cs = ["0", "(-0)", "1", "(-1)", "2", "4", "0.5", "0.25", "1024", "(1 - 1)", "(2 * 0)", "3", "0.1", "1e308", "1e-320"]
    for o_ in ["+", "-", "*", "/", "div", "mod", "=", "<>", "<", ">="]:
        for c in cs:
            for prog in (f"x {o_} {c}", f"{c} {o_} x", f"[x {o_} {c}, 1]", f"f(y) {o_} {c} {o_} {c}", f"if_then(x > 1, x {o_} {c}, 0)"):
                res.append("(serscript _ " + " ".join(str(ord(ch)) for ch in prog) + ")")
    return res


def has_nonfinite(line):
    import re
    for m in re.finditer(r'\(n (\d+)\)', line):
        if (int(m.group(1)) >> 52) & 0x7ff == 0x7ff:
            return True
    return False


NAMES = ["a", "A", "ab", "Ab", "AB", "ä", "Ä", "x_1", "X_1"]
# spellings whose lower case is not the Latin-1 one: other scripts, one-to-many mappings (İ -> i + U+0307), title-case digraphs, compatibility letters (Kelvin sign), and
# names that merely look alike (ß / ss, ﬁ / fi are NOT the same key); names with a capital sigma are not modelled (final-sigma rule) and run against the oracles only
WNAMES = ["ω", "Ω", "ж", "Ж", "ß", "ẞ", "ss", "SS", "İ", "i̇", "i", "I", "ı", "ǅ", "ǆ", "Ǆ", "\u212a", "k", "K", "ﬁ", "FI", "fi", "ᾈ", "ᾀ", "Σ", "σ", "ς", "ὈΔΥΣΣΕΎΣ", "ὀδυσσεύς"]


def gen_env(tier, R):
    """C19: all operation sequences up to length 2 (3 sampled; 3 complete and 4 sampled in thorough) over 37 operations on 3 names x
    several spellings (incl. a non-ASCII pair) x {variable, function}, random histories up to 60 (200) steps; every lookup, existence check,
    call and listing after every step"""
    qs = "(qs " + " ".join(s(n) for n in NAMES) + ")"
    # (the last ones: values that are `=` to another value of the same kind without being identical - an overwrite must still replace the stored value)
    vals = [num(1.0), num(2.0), "(b 1)", s('v'), num(0.0), num(-0.0), arr(num(1.0)), arr(b(True)), arr(s('1')), arr(num(0.0)), arr(num(-0.0))]
    AL = []
    for n in ["a", "A", "ä", "Ä", "ab", "AB"]:
        for v in vals[:2]:
            AL.append(f"(addv {s(n)} {v})")
        AL.append(f"(remv {s(n)})")
        for t in "01":
            AL.append(f"(addf {s(n)} {t})")
        AL.append(f"(remf {s(n)})")
    AL.append("(clrv)")
    out = []
    for n in (1, 2, 3, 4):
        if n == 4 and tier == 'quick':
            break
        for c in itertools.product(AL, repeat=n):
            if tier == 'quick' and n == 3 and R.random() > 0.1:
                continue
            if n == 4 and R.random() > 0.05:
                continue
            out.append(f"(env _ {qs} (ops {' '.join(c)}))")
    for _ in range(1500 if tier == 'quick' else 100000):
        k = R.randint(4, 60 if tier == 'quick' else 200)
        ops = []
        for _ in range(k):
            n = R.choice(NAMES)
            r = R.random()
            if r < 0.3:
                ops.append(f"(addv {s(n)} {R.choice(vals)})")
            elif r < 0.45:
                ops.append(f"(remv {s(n)})")
            elif r < 0.5:
                ops.append("(clrv)")
            elif r < 0.8:
                ops.append(f"(addf {s(n)} {R.choice('012')})")
            else:
                ops.append(f"(remf {s(n)})")
        out.append(f"(env _ {qs} (ops {' '.join(ops)}))")
    wqs = "(qs " + " ".join(s(n) for n in WNAMES) + ")"
    for i in range(800 if tier == 'quick' else 30000):
        pool = WNAMES[:-5] if i % 4 else WNAMES
        k = R.randint(2, 30 if tier == 'quick' else 120)
        ops = []
        for _ in range(k):
            n = R.choice(pool)
            r = R.random()
            if r < 0.35:
                ops.append(f"(addv {s(n)} {R.choice(vals)})")
            elif r < 0.5:
                ops.append(f"(remv {s(n)})")
            elif r < 0.53:
                ops.append("(clrv)")
            elif r < 0.85:
                ops.append(f"(addf {s(n)} {R.choice('012')})")
            else:
                ops.append(f"(remf {s(n)})")
        out.append(f"(env _ {wqs if i % 4 == 0 else '(qs ' + ' '.join(s(n) for n in WNAMES[:-5]) + ')'} (ops {' '.join(ops)}))")
    # sizes: histories over n distinct names (an inline table with an overflow area, a bucket array that grows, a u8 slot counter): fill, remove from the front, re-add through another spelling, remove again
    for n in (15, 16, 17, 18, 31, 32, 33, 34, 63, 64, 65, 66, 100, 129, 257):
        names_n = [f"v{i}" if i % 2 else f"V{i}" for i in range(n)]
        qn = "(qs " + " ".join(s(x) for x in [names_n[0].lower(), names_n[-1].upper(), names_n[n // 2], "nosuch"]) + ")"
        fill = [f"(addv {s(x)} {num(float(i))})" for i, x in enumerate(names_n)]
        fillf = [f"(addf {s(x)} {i % 3})" for i, x in enumerate(names_n)]
        for ops in (fill + [f"(remv {s(names_n[0].swapcase())})", f"(addv {s(names_n[-1].swapcase())} {num(1000.0)})", f"(remv {s(names_n[-1])})", f"(addv {s(names_n[0])} {num(7.0)})"],
                    fill + [f"(remv {s(names_n[n - 2])})", f"(remv {s(names_n[1])})", f"(addv {s(names_n[n // 2].swapcase())} (b 1))", "(clrv)", f"(addv {s(names_n[3])} {num(3.0)})"],
                    fillf + [f"(remf {s(names_n[0].swapcase())})", f"(addf {s(names_n[-1].swapcase())} 2)", f"(remf {s(names_n[-1])})", f"(addf {s(names_n[n - 2])} 1)", f"(remf {s(names_n[n - 2].swapcase())})"],
                    fill + fillf + [f"(remv {s(x)})" for x in names_n[:n // 2]] + [f"(addv {s(names_n[-1].swapcase())} {num(-1.0)})"] + [f"(remf {s(x.swapcase())})" for x in names_n[n // 2:]]):
            out.append(f"(env _ {qn} (ops {' '.join(ops)}))")
    out += gen_respell(tier, R)
    # overwriting a function with the same native function but another arity / purity, under respelled names (oracle against a reference map)
    for i in range(300 if tier == 'quick' else 20000):
        out.append(f"(fnhist _ {R.getrandbits(48)} {R.choice([3, 6, 12, 40])})")
    return out


def gen_respell(tier, R):
    """scripts over the names registered in a real StaticEnvironment (ASCII, mixed-case and non-ASCII names; the whole standard library), evaluated with respelled
    identifiers and respelled registrations (C19), and validated-then-executed against that environment (C10)"""
    out = []
    # evaluating a tree is unaffected by the letter case of identifiers and of registered names
    for _ in range(1500 if tier == 'quick' else 100000):
        t = text.rnd_tree(R, R.randint(1, 5))
        txt = text.layout(text.toks(t, 1, 'min', R), R, recase=False, dense=0.1, tail=False)
        out.append("(respell _ " + " ".join(str(ord(c)) for c in txt) + ")")
    for src in ["MAX(1, x)", "Length(Abc) + y_1", "If_Then(X > 1, 'a', 'b')", "ünï + ÜNÏ", "not NOTX", "Str(E5) + lowercase(ABC)", "ÜNÏ", "Ünï * 2", "Ä(1, ünÏ)", "ä(Ä(x))", "f(ÜNÏ) = F(ünï)",
                "G_2(Ä())", "[ÜNÏ, Abc, ABC]", "if_then(ÜNÏ > 1, Ä(1), ä(2))"]:
        out.append("(respell _ " + " ".join(str(ord(c)) for c in src) + ")")
    return out
