#!/usr/bin/env python3
"""Source pins: for every property the items (top-level fn / impl / enum / struct / const / macro blocks) of /repo/src that its hand-written model was written from and validated
against. `tools/pins.py --write` records the digest of each item's comment- and whitespace-insensitive text in tools/pins.json (done when the model has been validated against that
text: thorough tier quiet). On every check the digests are recomputed from the current tree; an item that differs, disappeared or newly matches reopens the obligation "model = code"
for the properties that rest on it - exactly like a translator table that no longer matches - and the check then searches for a failing input.
Usage: tools/pins.py <repo> [--write]        prints {"pid": [changed items]} as JSON"""
import sys, os, re, json, hashlib
sys.path.insert(0, os.path.dirname(os.path.abspath(__file__)))
from translate import strip

HERE = os.path.dirname(os.path.abspath(__file__))
REF = os.path.join(HERE, 'pins.json')
ALL = r'.*'
# property -> {file: [regexes over item headers]}   (scopes follow the anchors of properties.jsonl, narrowed to the items the model of that property represents, and widened to the items of other modules that code merely depends on - round 13 of DESIGN section 8)
VALUE_OPS = [r'impl (Neg|Not|Add|Sub|Mul|Div|Rem|BitXor) for Value', r'impl Value\b']
VALUE_ORD = [r'impl (Ord|PartialOrd|PartialEq|Eq) for Value', r'impl Value\b']
SCOPE = {
    'C01': {'src/compiler.rs': [ALL], 'src/token.rs': [ALL], 'src/operator.rs': [ALL], 'src/lib.rs': [ALL]},
    'C02': {'src/scanner.rs': [ALL], 'src/token.rs': [r'enum Token'], 'src/lib.rs': [ALL]},
    'C03': {'src/interpreter.rs': [ALL], 'src/value.rs': VALUE_OPS + VALUE_ORD, 'src/lib.rs': [ALL], 'src/environment.rs': [r'impl Environment for StaticEnvironment', r'impl StaticEnvironment']},
    'C04': {'src/interpreter.rs': [ALL], 'src/value.rs': [r'impl Value\b', r'impl PartialEq for Value']},
    'C05': {'src/optimizer.rs': [ALL], 'src/environment.rs': [r'impl Environment for StaticEnvironment'], 'src/interpreter.rs': [ALL], 'src/lib.rs': [ALL], 'src/value.rs': VALUE_OPS},
    'C06': {'src/optimizer.rs': [ALL], 'src/environment.rs': [r'impl Environment for StaticEnvironment'], 'src/function.rs': [ALL], 'src/interpreter.rs': [ALL], 'src/lib.rs': [ALL]},
    'C07': {'src/scanner.rs': [ALL], 'src/compiler.rs': [ALL], 'src/lib.rs': [ALL], 'src/token.rs': [ALL]},
    'C08': {'src/interpreter.rs': [ALL], 'src/optimizer.rs': [ALL], 'src/validate.rs': [ALL], 'src/ast.rs': [ALL], 'src/operator.rs': [ALL], 'src/value.rs': [ALL], 'src/environment.rs': [ALL]},
    'C09': {'src/stdlib/mod.rs': [ALL], 'src/stdlib/common.rs': [ALL], 'src/stdlib/math.rs': [ALL], 'src/stdlib/string.rs': [ALL], 'src/stdlib/time.rs': [ALL], 'src/stdlib/regex.rs': [ALL],
            'src/value.rs': VALUE_ORD + [r'impl Hash for Value', r'impl Display for Value']},
    'C10': {'src/validate.rs': [r'fn check_variables_and_functions', r'fn check_expressions'], 'src/environment.rs': [ALL], 'src/function.rs': [ALL]},
    'C11': {'src/validate.rs': [r'fn check_boolean_result'], 'src/interpreter.rs': [ALL], 'src/value.rs': [r'impl (Not|BitXor|Ord|PartialOrd|PartialEq) for Value', r'impl Value\b']},
    'C12': {'src/ast.rs': [ALL], 'src/operator.rs': [ALL], 'src/value.rs': [r'impl Serialize for Value', r'Deserialize', r'Visitor', r'enum Value'], 'src/optimizer.rs': [ALL]},
    'C13': {'src/value.rs': VALUE_ORD, 'src/stdlib/common.rs': [r'fn (between|compare|max|min|sort)\b'], 'src/stdlib/mod.rs': [r'fn smart_vec'], 'src/interpreter.rs': [ALL]},
    'C14': {'src/value.rs': [r'impl (Hash|PartialEq|Eq|Ord|PartialOrd) for Value'], 'src/stdlib/mod.rs': [ALL], 'src/stdlib/common.rs': [ALL], 'src/stdlib/math.rs': [ALL], 'src/stdlib/string.rs': [ALL],
            'src/stdlib/time.rs': [ALL], 'src/stdlib/regex.rs': [ALL], 'src/function.rs': [ALL], 'src/environment.rs': [r'impl Environment for StaticEnvironment'], 'src/optimizer.rs': [r'fn fold_constants', r'fn expressions_are_const']},
    'C15': {'src/stdlib/common.rs': [ALL], 'src/stdlib/string.rs': [ALL], 'src/stdlib/mod.rs': [ALL], 'src/value.rs': [r'impl (PartialEq|Eq|Hash|Ord|PartialOrd) for Value', r'impl Value\b']},
    'C16': {'src/stdlib/time.rs': [ALL], 'src/stdlib/math.rs': [r'generate_std_math_functions', r'fn (trunc|frac)\b']},
    'C17': {'src/stdlib/math.rs': [ALL], 'src/stdlib/string.rs': [r'fn (chr|ord)\b'], 'src/stdlib/common.rs': [r'fn (str|float|int|bool)\b'], 'src/stdlib/mod.rs': [ALL], 'src/value.rs': [r'impl Display for Value', r'impl Value\b']},
    'C18': {'src/stdlib/regex.rs': [ALL], 'src/stdlib/mod.rs': [r'fn usize_from_f64', r'fn default_']},
    'C19': {'src/environment.rs': [ALL], 'src/function.rs': [ALL]},
}


def items(src):
    """top-level items of a Rust file (comments stripped): {header: digest}; the `#[cfg(test)] mod ...` block is left out"""
    s = strip(src)
    out, i, n = {}, 0, len(s)
    while i < n:
        # an item runs to the matching close of its first top-level brace, or to a ';' at depth 0
        j, depth, seen = i, 0, False
        while j < n:
            ch = s[j]
            if ch == '"':
                j += 1
                while j < n and s[j] != '"':
                    j += 2 if s[j] == '\\' else 1
            elif ch == "'" and j + 2 < n and (s[j + 2] == "'" or s[j + 1] == '\\'):
                j += 3 if s[j + 1] == '\\' else 2
            elif ch in '{([':
                depth += 1
                seen = seen or ch == '{'
            elif ch in '})]':
                depth -= 1
                if depth == 0 and seen and ch == '}':
                    j += 1
                    break
            elif ch == ';' and depth == 0:
                j += 1
                break
            j += 1
        text = s[i:j]
        i = j
        body = re.sub(r'\s+', '', text)
        if not body:
            continue
        head = re.sub(r'\s+', ' ', re.sub(r'#!?\[[^\]]*\]', ' ', text.split('{', 1)[0])).strip()
        if re.search(r'cfg\(test\)', text.split('{', 1)[0]) or re.match(r'(pub )?mod test', head):
            continue
        if head.startswith('use ') or head == '':
            head = 'use/attributes'
        key = head[:120]
        k, c = key, 1
        while k in out:
            c += 1
            k = f'{key} #{c}'
        out[k] = hashlib.sha1(body.encode()).hexdigest()[:16]
    return out


def current(repo):
    files = sorted({f for sc in SCOPE.values() for f in sc})
    return {f: (items(open(os.path.join(repo, f)).read()) if os.path.exists(os.path.join(repo, f)) else {}) for f in files}


def changed(repo):
    """{pid: [file: item, ...]} for the items in the property's scope whose text differs from the recorded reference (or that appeared / disappeared)"""
    ref = json.load(open(REF)) if os.path.exists(REF) else {}
    cur = current(repo)
    res = {}
    for pid, sc in SCOPE.items():
        bad = []
        for f, pats in sc.items():
            a, b = ref.get(f, {}), cur.get(f, {})
            for k in sorted(set(a) | set(b)):
                if any(re.search(p, k) for p in pats) and a.get(k) != b.get(k):
                    bad.append(f'{f}: {k}')
        res[pid] = bad
    return res


if __name__ == '__main__':
    repo = sys.argv[1]
    if '--write' in sys.argv:
        json.dump(current(repo), open(REF, 'w'), indent=1, sort_keys=True)
    print(json.dumps(changed(repo)))
