#!/bin/sh
# independent re-check of every property file and everything it depends on; prints the axioms they rely on (about 5 minutes)
cd "$(dirname "$0")/../coq" && make -j16 >/dev/null 2>&1
exec coqchk -o -silent -Q . "" -Q Gen "" -Q Props "" $(ls Props/*.vo | sed 's#Props/##; s#\.vo##')
