#!/bin/sh
# runs every registered quick (or thorough: pass "thorough") check on the current /repo and prints one summary line per property
cd "$(dirname "$0")/.."
tier=${1:-quick}
for p in C01 C02 C03 C04 C05 C06 C07 C08 C09 C10 C11 C12 C13 C14 C15 C16 C17 C18 C19; do
  out=$(./check $p --tier $tier 2>&1); rc=$?
  echo "$p rc=$rc $(echo "$out" | grep "^$p:" | cut -c1-160)"
  echo "$out" | grep -E "^(VIOLATION|KNOWN-FINDING|ERROR)" | cut -c1-220
done
