(* Model side of the correspondence check: reads one s-expression case per line, runs the extracted Coq model,
   prints one canonical line per case (the K fields of the harness' line). *)
open Model
type sx = A of string | L of sx list
let parse_line (s:string) : sx =
  let n = String.length s in
  let rec skip i = if i < n && (s.[i] = ' ' || s.[i] = '\t') then skip (i+1) else i in
  let rec item i =
    let i = skip i in
    if s.[i] = '(' then begin
      let rec items i acc = let i = skip i in if s.[i] = ')' then (L (List.rev acc), i+1) else let (x, j) = item i in items j (x :: acc) in
      items (i+1) [] end
    else begin
      let j = ref i in while !j < n && s.[!j] <> ' ' && s.[!j] <> '(' && s.[!j] <> ')' do incr j done;
      (A (String.sub s i (!j - i)), !j) end in
  fst (item 0)
let rec pos_of_int k = if k = 1 then XH else if k land 1 = 0 then XO (pos_of_int (k lsr 1)) else XI (pos_of_int (k lsr 1))
let n_of_int k = if k = 0 then N0 else Npos (pos_of_int k)
let rec int_of_pos = function XH -> 1 | XO p -> 2 * int_of_pos p | XI p -> 2 * int_of_pos p + 1
let int_of_n = function N0 -> 0 | Npos p -> int_of_pos p
let rec nat_of_int k = if k = 0 then O else S (nat_of_int (k-1))
let rec pos_len = function XH -> 1 | XO q | XI q -> 1 + pos_len q
let w_big p = pos_len p > 12
let rec int_of_nat = function O -> 0 | S k -> 1 + int_of_nat k
let digits_of_string s = List.init (String.length s) (fun i -> n_of_int (Char.code s.[i]))  (* ASCII digit codes, as digits_val expects c - 48 *)
let string_of_digits ds = String.concat "" (List.map (fun d -> string_of_int (int_of_n d)) ds)
let cp_list xs = List.map (function A k -> n_of_int (int_of_string k) | _ -> failwith "cp") xs
let cps = function L (A "s" :: xs) -> cp_list xs | _ -> failwith "str"
let rec value = function
  | L [A "b"; A k] -> VBool (k = "1")
  | L [A "n"; A bits] -> num_of_digits (digits_of_string bits)
  | L (A "s" :: _) as x -> VStr (cps x)
  | L (A "a" :: xs) -> VArr (List.map value xs)
  | _ -> failwith "value"
let op_of = function
  | "plus" -> Plus | "minus" -> Minus | "multiply" -> Multiply | "divide" -> Divide | "greater" -> Greater | "greaterEqual" -> GreaterEqual
  | "less" -> Less | "lessEqual" -> LessEqual | "equal" -> Equal | "notEqual" -> NotEqual | "and" -> And | "or" -> Or | "xor" -> Xor
  | "not" -> Not | "div" -> Div | "mod" -> Mod | "ternaryCondition" -> TernaryCondition | s -> failwith ("op " ^ s)
let op_name = function
  | Plus -> "plus" | Minus -> "minus" | Multiply -> "multiply" | Divide -> "divide" | Greater -> "greater" | GreaterEqual -> "greaterEqual"
  | Less -> "less" | LessEqual -> "lessEqual" | Equal -> "equal" | NotEqual -> "notEqual" | And -> "and" | Or -> "or" | Xor -> "xor"
  | Not -> "not" | Div -> "div" | Mod -> "mod" | TernaryCondition -> "ternaryCondition"
let rec expr = function
  | L [A "un"; A o; e] -> EUn (op_of o, expr e)
  | L [A "bin"; A o; l; r] -> EBin (op_of o, expr l, expr r)
  | L [A "ter"; A o; l; m; r] -> ETer (op_of o, expr l, expr m, expr r)
  | L (A "arr" :: es) -> EArr (List.map expr es)
  | L [A "lit"; v] -> ELit (value v)
  | L [A "var"; n] -> EVar (cps n)
  | L (A "call" :: n :: ps) -> ECall (cps n, List.map expr ps)
  | _ -> failwith "expr"
let show_str s = "(s" ^ String.concat "" (List.map (fun c -> " " ^ string_of_int (int_of_n c)) s) ^ ")"
let rec show_value = function
  | VBool b -> if b then "(b 1)" else "(b 0)"
  | VStr s -> show_str s
  | VNum f -> "(n " ^ string_of_digits (digits_of_num f) ^ ")"
  | VArr l -> "(a" ^ String.concat "" (List.map (fun v -> " " ^ show_value v) l) ^ ")"
let show_nerr = function
  | FunctionNotFound _ -> "FunctionNotFound" | WrongParameterCount _ -> "WrongParameterCount" | WrongParameterType -> "WrongParameterType"
  | IndexOutOfBounds _ -> "IndexOutOfBounds" | IndexNegative -> "IndexNegative" | CustomError -> "CustomError"
let show_err = function
  | Undefined n -> "err:UndefinedVariable:" ^ show_str n
  | InvalidUnary o -> "err:InvalidUnaryOperator:" ^ op_name o
  | InvalidBinary o -> "err:InvalidBinaryOperator:" ^ op_name o
  | InvalidTernary o -> "err:InvalidTernaryOperator:" ^ op_name o
  | NativeFunctionError (n, e) -> "err:NativeFunctionError:" ^ show_str n ^ ":" ^ show_nerr e
let show_res = function Ok v -> "ok:" ^ show_value v | Er e -> show_err e
let rec show_expr = function
  | EUn (o, r) -> "(un " ^ op_name o ^ " " ^ show_expr r ^ ")"
  | EBin (o, l, r) -> "(bin " ^ op_name o ^ " " ^ show_expr l ^ " " ^ show_expr r ^ ")"
  | ETer (o, l, m, r) -> "(ter " ^ op_name o ^ " " ^ show_expr l ^ " " ^ show_expr m ^ " " ^ show_expr r ^ ")"
  | EArr es -> "(arr" ^ String.concat "" (List.map (fun e -> " " ^ show_expr e) es) ^ ")"
  | ELit v -> "(lit " ^ show_value v ^ ")"
  | EVar n -> "(var " ^ show_str n ^ ")"
  | ECall (n, ps) -> "(call " ^ show_str n ^ String.concat "" (List.map (fun e -> " " ^ show_expr e) ps) ^ ")"
let show_ptok = function
  | LParen -> "LeftParen" | RParen -> "RightParen" | LBracket -> "LeftBracket" | RBracket -> "RightBracket" | Comma -> "Comma" | TNot -> "Not"
  | TBin b -> (match b with Plus0 -> "Plus" | Minus0 -> "Minus" | Multiply0 -> "Star" | Divide0 -> "Slash" | Greater0 -> "Greater" | GreaterEqual0 -> "GreaterEqual"
               | Less0 -> "Less" | LessEqual0 -> "LessEqual" | Equal0 -> "Equal" | NotEqual0 -> "NotEqual" | And0 -> "And" | Or0 -> "Or" | Xor0 -> "Xor" | Div0 -> "Div" | Mod0 -> "Mod")
  | TLit v -> "(lit " ^ show_value v ^ ")" | TId0 n -> "(id " ^ show_str n ^ ")"
let show_serr = function EInvalidChar c -> "InvalidCharacter:" ^ string_of_int (int_of_n c) | EInvalidNumber -> "InvalidNumber" | EUnterminated -> "UnterminatedStringLiteral" | EEof -> "Eof" | EFuel -> "OUT-OF-FUEL"
let show_perr = function Eof -> "Eof" | NoPrefix t -> "NoValidPrefixToken:" ^ show_ptok t | NoInfix -> "NoValidInfixToken" | CallNotVar -> "CallNotOnVariable:LeftParen"
  | Invalid t -> "InvalidToken:" ^ show_ptok t | Multiple t -> "MultipleExpressions:" ^ show_ptok t | OutOfFuel -> "OUT-OF-FUEL"
let show_event = function
  | Lookup n -> "L" ^ show_str n
  | Call (n, vs) -> "C" ^ show_str n ^ "[" ^ String.concat "," (List.map show_value vs) ^ "]"
let show_trace tr = String.concat ";" (List.map show_event tr)
let show_check = function
  | None -> "ok" | Some (MissingVariable n) -> "MissingVariable:" ^ show_str n | Some (MissingFunction n) -> "MissingFunction:" ^ show_str n
  | Some (ParamCountMismatch (n, k)) -> "ParamCountMismatch:" ^ show_str n ^ ":" ^ string_of_int (int_of_nat k)
let vars_of vs = List.map (function L [n; v] -> (cps n, value v) | _ -> failwith "var") vs
let arity_of = function
  | L [A "poly"; A r; A o] -> Poly (nat_of_int (int_of_string r), nat_of_int (int_of_string o)) | L [A "variadic"] -> Variadic | L [A "none"] -> ANone | _ -> failwith "arity"
let kind_of = function L [A "const"; v] -> KConst (value v) | L [A "fail"] -> KFail | L [A "echo"] -> KEcho | L [A "ifthen"] -> KIfThen | _ -> failwith "kind"
let fns_of fs = List.map (function L [n; k; a; A p] -> (cps n, ((kind_of k, arity_of a), p = "1")) | _ -> failwith "fn") fs
let bres_str = function BOk v -> Some ("ok:" ^ show_value v) | BErr e -> Some ("err:" ^ show_nerr e) | BUnmodelled -> None
let () =
  try while true do
    let line = input_line stdin in
    if String.length line > 0 then
    match parse_line line with
    | L [A "case"; A id; L (A "vars" :: vs); L (A "fns" :: fs); e] ->
        let (((r, tr), cb), cn) = run_case (vars_of vs) (fns_of fs) (expr e) in
        Printf.printf "%s R=%s T=%s CB=%s CN=%s\n" id (show_res r) (show_trace tr) (if cb then "ok" else "rej") (show_check cn)
    | L [A "tot"; A id; L (A "vars" :: vs); L (A "fns" :: fs); e] ->
        let (((r, _), cb), cn) = run_case (vars_of vs) (fns_of fs) (expr e) in
        Printf.printf "%s R=%s CB=%s CN=%s\n" id (show_res r) (if cb then "ok" else "rej") (show_check cn)
    | L [A "opt"; A id; L (A "vars" :: vs); L (A "fns" :: fs); e] ->
        let ((((((st, e'), tr), before), after), cnb), cna) = run_opt (vars_of vs) (fns_of fs) (expr e) in
        let sst = match st with OOk -> "ok" | OErr x -> show_err x | OOutOfFuel -> "OUT-OF-FUEL" in
        Printf.printf "%s S=%s E=%s T=%s B=%s A=%s CNB=%s CNA=%s\n" id sst (show_expr e') (show_trace tr) (show_res before) (show_res after) (show_check cnb) (show_check cna)
    | L (A (("script" | "script0") as kd) :: A id :: cs) ->
        let off = nat_of_int (if kd = "script" then 1 else 0) in
        let marked = function Er (NativeFunctionError (n, _)) -> n = unmodelled_mark | _ -> false in
        (match run_script off [] (cp_list cs) with
         | SNoCompile (CScanErr e) -> Printf.printf "%s R=nocompile:%s\n" id (show_serr e)
         | SNoCompile (CParseErr e) -> Printf.printf "%s R=nocompile:%s\n" id (show_perr e)
         | SNoCompile (COk _) -> failwith "script"
         | SRan (r, _, a, _, _) -> if marked r || marked a then Printf.printf "%s UNMODELLED(builtin)\n" id else Printf.printf "%s R=%s A=%s\n" id (show_res r) (show_res a))
    | L [A "rebind"; A id; L (A "vars" :: _); L (A "vars" :: vs2); e] ->
        (* the binding in force is the second one *)
        Printf.printf "%s R=%s\n" id (show_res (eval_static (vars_of vs2) (expr e)))
    | L (A "serscript" :: A id :: cs) ->
        let marked_e = function NativeFunctionError (n, _) -> n = unmodelled_mark | _ -> false in
        let rec nf_v = function VNum f -> (match f with B754_nan | B754_infinity _ -> true | _ -> false) | VArr l -> List.exists nf_v l | _ -> false in
        let rec nf = function ELit v -> nf_v v | EUn (_, r) -> nf r | EBin (_, l, r) -> nf l || nf r | ETer (_, l, m, r) -> nf l || nf m || nf r
                              | EArr es -> List.exists nf es | ECall (_, ps) -> List.exists nf ps | EVar _ -> false in
        (match run_script (nat_of_int 1) [] (cp_list cs) with
         | SNoCompile _ -> Printf.printf "%s R=nocompile\n" id
         | SRan (_, _, _, OErr x, _) when marked_e x -> Printf.printf "%s UNMODELLED(builtin)\n" id
         | SRan (_, _, _, OOutOfFuel, _) -> Printf.printf "%s UNMODELLED(fuel)\n" id
         | SRan (_, _, _, _, o) -> Printf.printf "%s R=compiled E=%s NF=%s\n" id (show_expr o) (if nf o then "true" else "false"))
    | L (A "text" :: A id :: cs) ->
        (match compile0 (cp_list cs) with
         | COk e -> Printf.printf "%s R=ok:%s\n" id (show_expr e)
         | CScanErr e -> Printf.printf "%s R=err:%s\n" id (show_serr e)
         | CParseErr e -> Printf.printf "%s R=err:%s\n" id (show_perr e))
    | L (A "rtext" :: A id :: L (A "exp" :: _) :: cs) ->
        (match compile0 (cp_list cs) with
         | COk e -> Printf.printf "%s R=ok:%s\n" id (show_expr e)
         | CScanErr e -> Printf.printf "%s R=err:%s\n" id (show_serr e)
         | CParseErr e -> Printf.printf "%s R=err:%s\n" id (show_perr e))
    | L (A "stext" :: A id :: L (A "exp" :: _) :: cs) | L [A "lay"; A id; L (A "a" :: cs); L (A "b" :: _)] ->
        (match scan_raw (cp_list cs) with
         | Ok0 ts -> Printf.printf "%s R=ok:%s\n" id (String.concat " " (List.map (fun t -> show_ptok (conv_tok t)) ts))
         | Er0 e -> Printf.printf "%s R=err:%s\n" id (show_serr e))
    | L (A "scan" :: A id :: cs) ->
        (match scan_raw (cp_list cs) with
         | Ok0 ts -> Printf.printf "%s R=ok:%s\n" id (String.concat " " (List.map (fun t -> show_ptok (conv_tok t)) ts))
         | Er0 e -> Printf.printf "%s R=err:%s\n" id (show_serr e))
    | L (A "bi" :: A id :: A off :: name :: args) ->
        let args = List.map value args in
        let r = match bres_str (call_builtin (nat_of_int (int_of_string off)) (cps name) args) with
          | Some s -> s
          | None -> (match bres_str (call_time (cps name) args) with Some s -> s | None -> "UNMODELLED") in
        Printf.printf "%s R=%s\n" id r
    | L [A "cmp"; A id; a; b] ->
        let a = value a and b = value b in
        Printf.printf "%s R=%s %s\n" id (match vcmp a b with Lt -> "Less" | Eq -> "Equal" | Gt -> "Greater") (if veq a b then "eq" else "ne")
    | L [A "ser"; A id; e] ->
        let e = expr e in
        let (j, back) = roundtrip e in
        let rec sj = function
          | JNull -> "null" | JBool b -> if b then "true" else "false" | JNum f -> "#" ^ string_of_digits (digits_of_num f)
          | JStr s -> show_str s | JArr l -> "[" ^ String.concat "," (List.map sj l) ^ "]"
          | JObj fs -> let fs = List.sort compare (List.map (fun (k, v) -> (show_str k, sj v)) fs) in "{" ^ String.concat "," (List.map (fun (k, v) -> k ^ ":" ^ v) fs) ^ "}" in
        Printf.printf "%s J=%s RV=%s\n" id (sj j) (match back with Some e' -> if e' = e then "same" else "diff" | None -> "err")
    | L [A "env"; A id; L (A "qs" :: qs); L (A "ops" :: ops)] ->
        let op = function
          | L [A "addv"; n; v] -> AddV (cps n, value v) | L [A "remv"; n] -> RemV (cps n) | L [A "clrv"] -> ClrV
          | L [A "addf"; n; A t] -> AddF (cps n, n_of_int (int_of_string t)) | L [A "remf"; n] -> RemF (cps n) | _ -> failwith "op" in
        let so = function ONone -> "none" | OVal v -> show_value v | OFn (d, t) -> "fn" ^ show_str d ^ "#" ^ string_of_int (int_of_n t) | OUnit -> "unit" in
        let ops' = List.map op ops and qs' = List.map cps qs in
        let res = run_ops empty_env ops' qs' in
        let line (((out, vs), fs), lst) =
          so out ^ "|" ^ String.concat "," (List.map so vs) ^ "|" ^ String.concat "," (List.map so fs) ^ "|" ^
          String.concat "," (List.sort compare (List.map (fun (d, t) -> show_str d ^ "#" ^ string_of_int (int_of_n t)) lst)) in
        Printf.printf "%s %s\n" id (String.concat " ; " (List.map line res))
    | L [A "re"; A id; ast; _; hay; rep; lim] ->
        let rec re_of = function
          | L [A "e"] -> REmpty | L [A "c"; A k] -> RChar (n_of_int (int_of_string k)) | L [A "any"] -> RAny
          | L (A "cls" :: A neg :: rs) -> RClass (neg = "1", List.map (function L [A lo; A hi] -> (n_of_int (int_of_string lo), n_of_int (int_of_string hi)) | _ -> failwith "range") rs)
          | L [A "seq"; a; b] -> RSeq (re_of a, re_of b) | L [A "alt"; a; b] -> RAlt (re_of a, re_of b)
          | L [A "star"; a] -> RStar (re_of a) | L [A "plus"; a] -> RPlus (re_of a) | L [A "opt"; a] -> ROpt (re_of a)
          | L [A "grp"; A i; a] -> RGroup (nat_of_int (int_of_string i), re_of a) | L [A "ncg"; a] -> re_of a
          | L [A "bol"] -> RBol | L [A "eol"] -> REol | _ -> failwith "re" in
        let r = re_of ast and h = cps hay and t = cps rep in
        let lim_nat = match value lim with
          | VNum f -> (match usize_from f with Z0 -> 0 | Zpos p -> (let rec cap p acc w = if acc > 1000 then 1000 else match p with XH -> acc + w | XO q -> cap q acc (2*w) | XI q -> cap q (acc + w) (2*w) in if w_big p then 1000 else cap p 0 1) | Zneg _ -> 0)
          | _ -> failwith "lim" in
        let strs l = "(a" ^ String.concat "" (List.map (fun x -> " " ^ show_str x) l) ^ ")" in
        let out k =
          let kk = nat_of_int k in
          Printf.sprintf "M=(b %d) F=%s C=%s P=%s L=%s" (if re_is_match kk r h then 1 else 0) (strs (re_find kk r h)) (strs (re_capture kk r h))
            (show_str (re_replace_x kk r h t O)) (show_str (re_replace_x kk r h t (nat_of_int lim_nat))) in
        let a = out 1 and b = out 2 in
        if has_nullable_loop r then Printf.printf "%s UNMODELLED(nullable-loop)\n" id
        else if a = b then Printf.printf "%s %s\n" id a else Printf.printf "%s UNMODELLED(fuel)\n" id
    | L [A "uniclass"; A id; A lo; A hi] ->
        let lo = int_of_string lo and hi = int_of_string hi in
        let ranges p =
          let out = Buffer.create 1024 and start = ref (-1) and first = ref true in
          let emit a b = (if not !first then Buffer.add_char out ','); first := false; Buffer.add_string out (Printf.sprintf "%d-%d" a b) in
          for c = lo to hi do
            let v = p (n_of_int c) in
            if v && !start < 0 then start := c
            else if (not v) && !start >= 0 then begin emit !start (c - 1); start := -1 end
          done;
          if !start >= 0 then emit !start hi;
          Buffer.contents out in
        Printf.printf "%s R=A:%s;N:%s\n" id (ranges u_alpha) (ranges u_num)
    | L [A "unicase"; A id; A lo; A hi] ->
        let lo = int_of_string lo and hi = int_of_string hi in
        let bl = Buffer.create 65536 and bu = Buffer.create 65536 in
        let show l = String.concat "." (List.map (fun c -> string_of_int (int_of_n c)) l) in
        for c = lo to hi do
          if c < 0xD800 || c > 0xDFFF then begin
            let l = u_lower (n_of_int c) and u = u_upper (n_of_int c) in
            (match l with [x] when int_of_n x = c -> () | _ -> (if Buffer.length bl > 0 then Buffer.add_char bl ','); Buffer.add_string bl (Printf.sprintf "%d>%s" c (show l)));
            (match u with [x] when int_of_n x = c -> () | _ -> (if Buffer.length bu > 0 then Buffer.add_char bu ','); Buffer.add_string bu (Printf.sprintf "%d>%s" c (show u)))
          end
        done;
        let ranges p =
          let out = Buffer.create 1024 and start = ref (-1) and first = ref true in
          let emit a b = (if not !first then Buffer.add_char out ','); first := false; Buffer.add_string out (Printf.sprintf "%d-%d" a b) in
          for c = lo to hi do
            let v = (c < 0xD800 || c > 0xDFFF) && p (n_of_int c) in
            if v && !start < 0 then start := c
            else if (not v) && !start >= 0 then begin emit !start (c - 1); start := -1 end
          done;
          if !start >= 0 then emit !start hi;
          Buffer.contents out in
        Printf.printf "%s R=L:%s;U:%s;C:%s;I:%s\n" id (Buffer.contents bl) (Buffer.contents bu) (ranges u_cased) (ranges u_ignorable)
    | L (A k :: A id :: _) -> Printf.printf "%s NOMODEL:%s\n" id k
    | _ -> failwith "case"
  done with End_of_file -> ()
