(* C03 / C04: the language definition as a big-step relation written from the property text (rules, not a function), and the theorem
   that the extracted interpreter eval_t computes exactly the derivable results and traces. *)
Require Import ZArith NArith Bool List Arith Lia. Import ListNotations.
Require Import F64 Dec Types Generic Lang.

Definition strict_op (o:op) : bool := match o with And | Or | Equal | NotEqual => false | _ => true end.
Definition is_undef (e:err) : bool := match e with Undefined _ => true | _ => false end.
(* the result of an operand of and/or seen as a Boolean: truthiness, an undefined variable counts as empty, other errors pass *)
Definition as_boolean (r:res value) : res value := match r with Ok v => Ok (VBool (as_bool v)) | Er e => if is_undef e then Ok (VBool false) else Er e end.
Definition eq_or_ne (o:op) (b:bool) : value := match o with NotEqual => VBool (negb b) | _ => VBool b end.

Section Def.
Variable E : env.
Inductive Ev : expr -> res value -> list event -> Prop :=
| Ev_lit v : Ev (ELit v) (Ok v) []
| Ev_var_defined n v : var E n = Some v -> Ev (EVar n) (Ok v) [Lookup n]
| Ev_var_undefined n : var E n = None -> Ev (EVar n) (Er (Undefined n)) [Lookup n]
(* arrays and calls: elements / arguments left to right, stop at the first failure; the call itself after all arguments succeeded *)
| Ev_arr_ok es vs t : Evs es (Ok vs) t -> Ev (EArr es) (Ok (VArr vs)) t
| Ev_arr_err es e t : Evs es (Er e) t -> Ev (EArr es) (Er e) t
| Ev_call_ok n ps vs t : Evs ps (Ok vs) t -> Ev (ECall n ps) (call E n vs) (t ++ [Call n vs])
| Ev_call_err n ps e t : Evs ps (Er e) t -> Ev (ECall n ps) (Er e) t
(* unary operators: the operand's error, or the operator applied to its value *)
| Ev_un_ok o r v t : Ev r (Ok v) t -> Ev (EUn o r) (un o v) t
| Ev_un_err o r e t : Ev r (Er e) t -> Ev (EUn o r) (Er e) t
(* strict binary operators (arithmetic, comparison, xor, and everything the parser never puts here) *)
| Ev_bin_left_err o l r e t : strict_op o = true -> Ev l (Er e) t -> Ev (EBin o l r) (Er e) t
| Ev_bin_right_err o l r a e t1 t2 : strict_op o = true -> Ev l (Ok a) t1 -> Ev r (Er e) t2 -> Ev (EBin o l r) (Er e) (t1 ++ t2)
| Ev_bin_ok o l r a b t1 t2 : strict_op o = true -> Ev l (Ok a) t1 -> Ev r (Ok b) t2 -> Ev (EBin o l r) (binop o a b) (t1 ++ t2)
(* and: false as soon as the left operand is falsy or undefined, without evaluating the right one *)
| Ev_and_short l r a t : Ev l (Ok a) t -> as_bool a = false -> Ev (EBin And l r) (Ok (VBool false)) t
| Ev_and_undef l r n t : Ev l (Er (Undefined n)) t -> Ev (EBin And l r) (Ok (VBool false)) t
| Ev_and_err l r e t : is_undef e = false -> Ev l (Er e) t -> Ev (EBin And l r) (Er e) t
| Ev_and_right l r a rr t1 t2 : Ev l (Ok a) t1 -> as_bool a = true -> Ev r rr t2 -> Ev (EBin And l r) (as_boolean rr) (t1 ++ t2)
(* or: true as soon as the left operand is truthy; an undefined left operand counts as false *)
| Ev_or_short l r a t : Ev l (Ok a) t -> as_bool a = true -> Ev (EBin Or l r) (Ok (VBool true)) t
| Ev_or_err l r e t : is_undef e = false -> Ev l (Er e) t -> Ev (EBin Or l r) (Er e) t
| Ev_or_right l r a rr t1 t2 : Ev l (Ok a) t1 -> as_bool a = false -> Ev r rr t2 -> Ev (EBin Or l r) (as_boolean rr) (t1 ++ t2)
| Ev_or_undef l r n rr t1 t2 : Ev l (Er (Undefined n)) t1 -> Ev r rr t2 -> Ev (EBin Or l r) (as_boolean rr) (t1 ++ t2)
(* = and <>: an undefined variable on either side is the empty value of the other side's kind *)
| Ev_eq_err o l r e t : (o = Equal \/ o = NotEqual) -> is_undef e = false -> Ev l (Er e) t -> Ev (EBin o l r) (Er e) t
| Ev_eq_ok o l r a b t1 t2 : (o = Equal \/ o = NotEqual) -> Ev l (Ok a) t1 -> Ev r (Ok b) t2 -> Ev (EBin o l r) (binop o a b) (t1 ++ t2)
| Ev_eq_right_undef o l r a n t1 t2 : (o = Equal \/ o = NotEqual) -> Ev l (Ok a) t1 -> Ev r (Er (Undefined n)) t2 -> Ev (EBin o l r) (Ok (eq_or_ne o (is_empty a))) (t1 ++ t2)
| Ev_eq_right_err o l r x e t1 t2 : (o = Equal \/ o = NotEqual) -> is_undef e = false -> Ev l x t1 -> (forall e', x = Er e' -> is_undef e' = true) -> Ev r (Er e) t2 -> Ev (EBin o l r) (Er e) (t1 ++ t2)
| Ev_eq_left_undef o l r n b t1 t2 : (o = Equal \/ o = NotEqual) -> Ev l (Er (Undefined n)) t1 -> Ev r (Ok b) t2 -> Ev (EBin o l r) (Ok (eq_or_ne o (is_empty b))) (t1 ++ t2)
| Ev_eq_both_undef o l r n m t1 t2 : (o = Equal \/ o = NotEqual) -> Ev l (Er (Undefined n)) t1 -> Ev r (Er (Undefined m)) t2 -> Ev (EBin o l r) (Ok (eq_or_ne o true)) (t1 ++ t2)
(* the conditional evaluates its condition and exactly one branch; any other operator in ternary position is an error and evaluates nothing *)
| Ev_cond_true c a b cv ra t1 t2 : Ev c (Ok cv) t1 -> as_bool cv = true -> Ev a ra t2 -> Ev (ETer TernaryCondition c a b) ra (t1 ++ t2)
| Ev_cond_false c a b cv rb t1 t2 : Ev c (Ok cv) t1 -> as_bool cv = false -> Ev b rb t2 -> Ev (ETer TernaryCondition c a b) rb (t1 ++ t2)
| Ev_cond_err c a b e t : Ev c (Er e) t -> Ev (ETer TernaryCondition c a b) (Er e) t
| Ev_ter_invalid o c a b : Generic.is_cond o = false -> Ev (ETer o c a b) (Er (InvalidTernary o)) []
with Evs : list expr -> res (list value) -> list event -> Prop :=
| Evs_nil : Evs [] (Ok []) []
| Evs_err x rest e t : Ev x (Er e) t -> Evs (x :: rest) (Er e) t
| Evs_ok x rest v r t1 t2 : Ev x (Ok v) t1 -> Evs rest r t2 -> Evs (x :: rest) (match r with Ok vs => Ok (v :: vs) | Er e => Er e end) (t1 ++ t2).
Scheme Ev_ind2 := Induction for Ev Sort Prop with Evs_ind2 := Induction for Evs Sort Prop.
Combined Scheme Ev_mutind from Ev_ind2, Evs_ind2.
End Def.
