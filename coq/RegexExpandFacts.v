(* the capture-keeping iteration finds exactly the matches of the plain one; a replacement text without `$` is used as it is, so re_replace_x is re_replace there;
   `$$` is one dollar, `$0` / `${0}` is the match itself *)
Require Import ZArith NArith Bool List Arith Lia. Import ListNotations.
Require Import F64 Dec Types Builtins Regex RegexExpand.

Definition span_of (x : nat * nat * caps) : nat * nat := (fst (fst x), snd (fst x)).
Lemma find_iter_c_spans kf r whole : forall n start last, map span_of (find_iter_c kf n r whole start last) = find_iter kf n r whole start last.
Proof.
  induction n as [|n IH]; intros start last; [reflexivity|]. cbn [find_iter_c find_iter]. cbv zeta.
  destruct (search (fuel_for kf whole) r (skipn start whole) start) as [[[st en] c]|]; [|reflexivity].
  destruct (Nat.eqb st en && match last with Some l => Nat.eqb en l | None => false end).
  - destruct (Nat.ltb st (length whole)); [|reflexivity].
    destruct (search (fuel_for kf whole) r (skipn (S st) whole) (S st)) as [[[st2 en2] c2]|]; [|reflexivity]. cbn [map]. rewrite IH. reflexivity.
  - cbn [map]. rewrite IH. reflexivity.
Qed.
Theorem spans_c_spans kf r s : map span_of (spans_c kf r s) = spans kf r s.
Proof. apply find_iter_c_spans. Qed.

Definition no_dollar (t:list N) : bool := forallb (fun c => negb (c =? 36)%N) t.
Lemma expand_plain get : forall fuel t, (length t < fuel)%nat -> no_dollar t = true -> expand fuel t get = t.
Proof.
  induction fuel as [|f IH]; intros t L H; [lia|]. destruct t as [|c r]; [reflexivity|]. cbn [no_dollar forallb] in H. apply andb_prop in H as [Hc Hr].
  apply negb_true_iff, N.eqb_neq in Hc. cbn [expand].
  assert (E : expand f r get = r) by (apply IH; [cbn in L; lia | exact Hr]).
  destruct c as [|p]; [rewrite E; reflexivity|]. 
  repeat (destruct p as [p|p|]; try (rewrite E; reflexivity)); try congruence.
Qed.
Lemma splice_x_plain r s t : no_dollar t = true -> forall sp pos, splice_x r s pos sp t = splice s pos (map span_of sp) t.
Proof.
  intros H. induction sp as [|[[a b] c] rest IH]; intros pos; [reflexivity|]. cbn [splice_x splice map span_of fst snd].
  rewrite expand_plain by (auto; lia). rewrite IH. reflexivity.
Qed.
Lemma firstn_map {A B} (f:A -> B) n l : firstn n (map f l) = map f (firstn n l).
Proof. revert l; induction n as [|n IH]; intros [|x l]; cbn; [reflexivity..|]. rewrite IH. reflexivity. Qed.
Theorem replace_x_plain kf r s t limit : no_dollar t = true -> re_replace_x kf r s t limit = re_replace kf r s t limit.
Proof.
  intros H. unfold re_replace_x, re_replace. cbv zeta. rewrite (splice_x_plain r s t H). rewrite <- spans_c_spans.
  destruct limit; [reflexivity|]. rewrite firstn_map. reflexivity.
Qed.
(* the forms of a reference *)
Theorem expand_forms get : expand 3 [36; 36]%N get = [36]%N /\ expand 3 [36; 48]%N get = get 0%nat /\ expand 5 [36; 123; 49; 125]%N get = get 1%nat /\
  expand 2 [36]%N get = [36]%N /\ expand 4 [36; 120; 49]%N get = [] /\ expand 4 [36; 49; 120]%N get = [] /\ expand 4 [36; 123; 49]%N get = [36; 123; 49]%N.
Proof. repeat split; cbn; rewrite ?app_nil_r; reflexivity. Qed.
