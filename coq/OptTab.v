(* C05/C06/C10: the walks of the optimizer and of the names validator satisfy, node by node, the equation that the arm selected from the regenerated tables prescribes *)
From Flocq Require Import Core BinarySingleNaN.
Require Import ZArith NArith Bool List Arith Lia. Import ListNotations.
Require Import F64 Dec Types Generic Lang Opt IO WalkTypes WalkRead GenOptArms.

(* Reading the arms of the three tree walks (Gen/GenStruct.v) the way Rust reads `match expression`: the first arm, in source order, whose node kind and guard fit.
   The glossary (what each body text does, in terms of the recursive calls and of evaluate-and-replace) is the trusted part; the theorems say that the
   hand-written walks of the model satisfy, at every node, exactly the equation the selected arm prescribes. *)
Section Walks.
Variable E : env.
Notation fold := (Generic.fold as_bool is_empty un binop E).
Notation fold_list := (Generic.fold_list as_bool is_empty un binop E).
Notation evalfold := (Generic.evalfold as_bool is_empty un binop E).
Notation tt := Generic.tt. Notation tt_list := Generic.tt_list.

(* `a?; b?` on sub-trees: stop at the first error, leaving what follows untouched *)
Definition seq2 (k:expr -> expr -> expr) (l r:expr) : Generic.status * expr * bool :=
  let '(st1, l', f1) := fold l in
  match st1 with Generic.SErr _ => (st1, k l' r, f1) | Generic.SOk => let '(st2, r', f2) := fold r in (st2, k l' r', f1 || f2) end.
Definition seq3 (k:expr -> expr -> expr -> expr) (l m r:expr) : Generic.status * expr * bool :=
  let '(st1, l', f1) := fold l in
  match st1 with Generic.SErr _ => (st1, k l' m r, f1) | Generic.SOk =>
    let '(st2, m', f2) := fold m in
    match st2 with Generic.SErr _ => (st2, k l' m' r, f1 || f2) | Generic.SOk => let '(st3, r', f3) := fold r in (st3, k l' m' r', f1 || f2 || f3) end end.
Definition fold_body (b:gwalk) (e:expr) : option (Generic.status * expr * bool) :=
  match b, e with
  | FEvalIfOperandLiteralElseRec, EUn o r => Some (if Generic.is_lit r then evalfold e else let '(st, r', f) := fold r in (st, EUn o r', f))
  | FEvalIfBothLiteralElseRecLeftRight, EBin o l r => Some (if Generic.is_lit l && Generic.is_lit r then evalfold e else seq2 (EBin o) l r)
  | FSelectBranchIfLiteralConditionElseRecAll, ETer o l m r =>
      Some (match l, Generic.is_cond o with ELit c, true => (Generic.SOk, if as_bool c then m else r, true) | _, _ => seq3 (ETer o) l m r end)
  | FEvalWhole, _ => Some (evalfold e)
  | FRecAll, EArr es => Some (let r := fold_list es in (fst (fst r), EArr (snd (fst r)), snd r))
  | FRecAll, ECall n ps => Some (let r := fold_list ps in (fst (fst r), ECall n (snd (fst r)), snd r))
  | FEvalWholeIfExistsPure, ECall n ps => Some (match fn_exists E n (length ps) with Exists true => evalfold e | _ => (Generic.SOk, e, false) end)
  | WNothing, _ => Some (Generic.SOk, e, false)
  | _, _ => None end.
Theorem fold_is_the_table : forall e, Some (fold e) = match arm_for gen_fold_constants_arms e with Some b => fold_body b e | None => None end.
Proof.
  destruct e as [o r|o l r|o l m r|es|v|n|n ps].
  - reflexivity.
  - reflexivity.
  - cbn. destruct l; try reflexivity.
  - change (arm_for gen_fold_constants_arms (EArr es)) with (if forallb Generic.is_lit es then Some FEvalWhole else Some FRecAll). rewrite Generic.fold_arr. destruct (forallb Generic.is_lit es); reflexivity.
  - reflexivity.
  - reflexivity.
  - change (arm_for gen_fold_constants_arms (ECall n ps)) with (if forallb Generic.is_lit ps then Some FEvalWholeIfExistsPure else Some FRecAll). rewrite Generic.fold_call. destruct (forallb Generic.is_lit ps); reflexivity.
Qed.

Definition tt_body (b:gwalk) (e:expr) : option (expr * bool) :=
  match b, e with
  | TRecRight, EUn o r => Some (let '(r', f) := tt r in (EUn o r', f))
  | TRecLeftRight, EBin o l r => Some (let '(l', f1) := tt l in let '(r', f2) := tt r in (EBin o l' r', f1 || f2))
  | TRecLeftMiddleRight, ETer o l m r => Some (let '(l', f1) := tt l in let '(m', f2) := tt m in let '(r', f3) := tt r in (ETer o l' m' r', f1 || f2 || f3))
  | TRecAll, EArr es => Some (EArr (fst (tt_list es)), snd (tt_list es))
  | TRecAll, ECall n ps => Some (ECall n (fst (tt_list ps)), snd (tt_list ps))
  | TRewriteIfExactlyThreeElseRecAll, ECall n ps => Some (match ps with [a; b; c] => (ETer TernaryCondition a b c, true) | _ => (ECall n (fst (tt_list ps)), snd (tt_list ps)) end)
  | WNothing, _ => Some (e, false)
  | _, _ => None end.
Theorem tt_is_the_table : forall e, Some (tt e) = match arm_for gen_transform_ternary_arms e with Some b => tt_body b e | None => None end.
Proof.
  destruct e as [o r|o l r|o l m r|es|v|n|n ps]; [reflexivity|reflexivity|reflexivity| | reflexivity|reflexivity| ].
  - rewrite Generic.tt_arr. reflexivity.
  - change (arm_for gen_transform_ternary_arms (ECall n ps)) with (if leqb n if_then_name then Some TRewriteIfExactlyThreeElseRecAll else Some TRecAll).
    rewrite Generic.tt_call. unfold Generic.is_if3. destruct (leqb n if_then_name); cbn [andb].
    + destruct ps as [|a [|b [|c [|d t]]]]; reflexivity.
    + reflexivity.
Qed.

(* the loop of `optimize`: transform, fold, repeat while something was found; stop with the error and the partially rewritten tree *)
Theorem optimize_loop_is_the_model : gen_optimize_loop_as_modelled = true /\ gen_fold_constants_ends_ok = true /\ gen_expressions_are_const_as_modelled = true /\
  forall k e, Generic.optimize as_bool is_empty un binop E (S k) e =
    (let '(e1, f1) := tt e in let '(st, e2, f2) := fold e1 in
     match st with Generic.SErr x => (Generic.OErr x, e2) | Generic.SOk => if f1 || f2 then Generic.optimize as_bool is_empty un binop E k e2 else (Generic.OOk, e2) end).
Proof. repeat split; reflexivity. Qed.
End Walks.
