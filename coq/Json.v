(* serde data model of Expression / Value as JSON trees *)
From Flocq Require Import Core BinarySingleNaN.
Require Import ZArith NArith Bool List Arith Lia. Import ListNotations.
Require Import F64 Dec Types.
Inductive json := JNull | JBool (b:bool) | JNum (f:f64) | JStr (s:list N) | JArr (l:list json) | JObj (fs:list (list N * json)).
Definition SS (l:list Z) : list N := map Z.to_N l.
Definition k_type := SS [116;121;112;101]. Definition k_right := SS [114;105;103;104;116]. Definition k_left := SS [108;101;102;116].
Definition k_middle := SS [109;105;100;100;108;101]. Definition k_operator := SS [111;112;101;114;97;116;111;114].
Definition k_expressions := SS [101;120;112;114;101;115;115;105;111;110;115]. Definition k_value := SS [118;97;108;117;101].
Definition k_name := SS [110;97;109;101]. Definition k_params := SS [112;97;114;97;109;115].
Definition t_unary := SS [117;110;97;114;121]. Definition t_binary := SS [98;105;110;97;114;121]. Definition t_ternary := SS [116;101;114;110;97;114;121].
Definition t_array := SS [97;114;114;97;121]. Definition t_literal := SS [108;105;116;101;114;97;108]. Definition t_variable := SS [118;97;114;105;97;98;108;101]. Definition t_call := SS [99;97;108;108].
Definition op_json (o:op) : list N := SS (match o with
  | Plus => [112;108;117;115] | Minus => [109;105;110;117;115] | Multiply => [109;117;108;116;105;112;108;121] | Divide => [100;105;118;105;100;101]
  | Greater => [103;114;101;97;116;101;114] | GreaterEqual => [103;114;101;97;116;101;114;69;113;117;97;108] | Less => [108;101;115;115] | LessEqual => [108;101;115;115;69;113;117;97;108]
  | Equal => [101;113;117;97;108] | NotEqual => [110;111;116;69;113;117;97;108] | And => [97;110;100] | Or => [111;114] | Xor => [120;111;114] | Not => [110;111;116]
  | Div => [100;105;118] | Mod => [109;111;100] | TernaryCondition => [116;101;114;110;97;114;121;67;111;110;100;105;116;105;111;110] end)%Z.
Definition all_ops := [Plus;Minus;Multiply;Divide;Greater;GreaterEqual;Less;LessEqual;Equal;NotEqual;And;Or;Xor;Not;Div;Mod;TernaryCondition].
Definition op_of_json (s:list N) : option op := find (fun o => leqb (op_json o) s) all_ops.
Definition finite (f:f64) : bool := match f with B754_nan | B754_infinity _ => false | _ => true end.
Fixpoint ser_value (v:value) : json :=
  match v with VBool b => JBool b | VStr s => JStr s | VNum f => if finite f then JNum f else JNull | VArr l => JArr (map ser_value l) end.
Fixpoint deser_value (j:json) : option value :=
  match j with
  | JBool b => Some (VBool b) | JStr s => Some (VStr s) | JNum f => Some (VNum f)
  | JArr l => option_map VArr ((fix go (l:list json) : option (list value) := match l with [] => Some [] | x :: t => match deser_value x, go t with Some v, Some vs => Some (v :: vs) | _, _ => None end end) l)
  | JNull | JObj _ => None end.
Fixpoint ser_expr (e:expr) : json :=
  match e with
  | EUn o r => JObj [(k_type, JStr t_unary); (k_right, ser_expr r); (k_operator, JStr (op_json o))]
  | EBin o l r => JObj [(k_type, JStr t_binary); (k_left, ser_expr l); (k_right, ser_expr r); (k_operator, JStr (op_json o))]
  | ETer o l m r => JObj [(k_type, JStr t_ternary); (k_left, ser_expr l); (k_middle, ser_expr m); (k_right, ser_expr r); (k_operator, JStr (op_json o))]
  | EArr es => JObj [(k_type, JStr t_array); (k_expressions, JArr (map ser_expr es))]
  | ELit v => JObj [(k_type, JStr t_literal); (k_value, ser_value v)]
  | EVar n => JObj [(k_type, JStr t_variable); (k_name, JStr n)]
  | ECall n ps => JObj [(k_type, JStr t_call); (k_name, JStr n); (k_params, JArr (map ser_expr ps))]
  end.
Fixpoint jget (k:list N) (fs:list (list N * json)) : option json := match fs with [] => None | (k', v) :: t => if leqb k' k then Some v else jget k t end.
Definition jstr (j:option json) : option (list N) := match j with Some (JStr s) => Some s | _ => None end.
Definition jop (j:option json) : option op := match jstr j with Some s => op_of_json s | None => None end.
Fixpoint deser_expr (fuel:nat) (j:json) : option expr :=
  match fuel with O => None | S f =>
  let sub (x:option json) := match x with Some y => deser_expr f y | None => None end in
  let subs (x:option json) := match x with Some (JArr l) => (fix go (l:list json) : option (list expr) := match l with [] => Some [] | y :: t => match deser_expr f y, go t with Some e, Some es => Some (e :: es) | _, _ => None end end) l | _ => None end in
  match j with
  | JObj fs =>
      match jstr (jget k_type fs) with
      | Some t =>
          if leqb t t_unary then match sub (jget k_right fs), jop (jget k_operator fs) with Some r, Some o => Some (EUn o r) | _, _ => None end
          else if leqb t t_binary then match sub (jget k_left fs), sub (jget k_right fs), jop (jget k_operator fs) with Some l, Some r, Some o => Some (EBin o l r) | _, _, _ => None end
          else if leqb t t_ternary then match sub (jget k_left fs), sub (jget k_middle fs), sub (jget k_right fs), jop (jget k_operator fs) with Some l, Some m, Some r, Some o => Some (ETer o l m r) | _, _, _, _ => None end
          else if leqb t t_array then option_map EArr (subs (jget k_expressions fs))
          else if leqb t t_literal then match jget k_value fs with Some v => option_map ELit (deser_value v) | None => None end
          else if leqb t t_variable then option_map EVar (jstr (jget k_name fs))
          else if leqb t t_call then match jstr (jget k_name fs), subs (jget k_params fs) with Some n, Some ps => Some (ECall n ps) | _, _ => None end
          else None
      | None => None end
  | _ => None end end.
Fixpoint depth (e:expr) : nat :=
  match e with ELit _ | EVar _ => 1 | EUn _ r => S (depth r) | EBin _ l r => S (Nat.max (depth l) (depth r)) | ETer _ l m r => S (Nat.max (depth l) (Nat.max (depth m) (depth r)))
  | EArr es => S (fold_right (fun x a => Nat.max (depth x) a) 0 es) | ECall _ ps => S (fold_right (fun x a => Nat.max (depth x) a) 0 ps) end%nat.
Definition roundtrip (e:expr) : json * option expr := let j := ser_expr e in (j, deser_expr (S (depth e)) j).

(* ---------------- C12: the round trip ---------------- *)
Fixpoint fin_value (v:value) : bool := match v with VNum f => finite f | VArr l => forallb fin_value l | _ => true end.
Fixpoint fin_expr (e:expr) : bool :=
  match e with
  | ELit v => fin_value v | EVar _ => true | EUn _ r => fin_expr r | EBin _ l r => fin_expr l && fin_expr r
  | ETer _ l m r => fin_expr l && fin_expr m && fin_expr r | EArr es => forallb fin_expr es | ECall _ ps => forallb fin_expr ps end.
Section VInd.
  Variable P : value -> Prop.
  Hypothesis Hb : forall b, P (VBool b). Hypothesis Hs : forall s, P (VStr s). Hypothesis Hn : forall f, P (VNum f).
  Hypothesis Ha : forall l, Forall P l -> P (VArr l).
  Fixpoint value_ind' (v:value) : P v :=
    match v with VBool b => Hb b | VStr s => Hs s | VNum f => Hn f
    | VArr l => Ha l ((fix go (l:list value) : Forall P l := match l with [] => Forall_nil _ | x::t => Forall_cons x (value_ind' x) (go t) end) l) end.
End VInd.
Fixpoint deser_values (l:list json) : option (list value) := match l with [] => Some [] | x :: t => match deser_value x, deser_values t with Some v, Some vs => Some (v :: vs) | _, _ => None end end.
Lemma deser_values_fix l : (fix go (l:list json) : option (list value) := match l with [] => Some [] | x :: t => match deser_value x, go t with Some v, Some vs => Some (v :: vs) | _, _ => None end end) l = deser_values l.
Proof. induction l as [|x t IH]; simpl; auto; try (rewrite IH; reflexivity). Qed.
Theorem value_roundtrip : forall v, fin_value v = true -> deser_value (ser_value v) = Some v.
Proof.
  induction v using value_ind'; simpl; intros Hf; auto.
  - rewrite Hf. reflexivity.
  - rewrite deser_values_fix. assert (G : deser_values (map ser_value l) = Some l).
    { induction H as [|x t Hx Ht IH]; simpl in *; auto. apply andb_prop in Hf as [H1 H2]. rewrite (Hx H1), (IH H2). reflexivity. }
    rewrite G. reflexivity.
Qed.
Lemma op_roundtrip o : op_of_json (op_json o) = Some o.
Proof. destruct o; vm_compute; reflexivity. Qed.
Fixpoint deser_exprs (f:nat) (l:list json) : option (list expr) := match l with [] => Some [] | y :: t => match deser_expr f y, deser_exprs f t with Some e, Some es => Some (e :: es) | _, _ => None end end.
Lemma deser_exprs_fix f l : (fix go (l:list json) : option (list expr) := match l with [] => Some [] | y :: t => match deser_expr f y, go t with Some e, Some es => Some (e :: es) | _, _ => None end end) l = deser_exprs f l.
Proof. induction l as [|x t IH]; simpl; auto; try (rewrite IH; reflexivity). Qed.
Lemma maxl_le (es:list expr) x : In x es -> (depth x <= fold_right (fun x a => Nat.max (depth x) a) 0 es)%nat.
Proof. induction es as [|y t IH]; simpl; intros H; [contradiction|]. destruct H as [->|H]. lia. specialize (IH H). lia. Qed.
Theorem C12_roundtrip : forall e fuel, fin_expr e = true -> (depth e <= fuel)%nat -> deser_expr fuel (ser_expr e) = Some e.
Proof.
  induction e using expr_ind'; intros fuel Hf Hd; (destruct fuel as [|fuel]; [simpl in Hd; lia|]); cbn [fin_expr] in Hf; cbn [depth] in Hd.
  - cbn -[op_of_json op_json deser_value]. rewrite (IHe fuel Hf ltac:(lia)), op_roundtrip. reflexivity.
  - apply andb_prop in Hf as [H1 H2]. cbn -[op_of_json op_json deser_value]. rewrite (IHe1 fuel H1 ltac:(lia)), (IHe2 fuel H2 ltac:(lia)), op_roundtrip. reflexivity.
  - apply andb_prop in Hf as [H12 H3]. apply andb_prop in H12 as [H1 H2]. cbn -[op_of_json op_json deser_value]. rewrite (IHe1 fuel H1 ltac:(lia)), (IHe2 fuel H2 ltac:(lia)), (IHe3 fuel H3 ltac:(lia)), op_roundtrip. reflexivity.
  - cbn -[op_of_json op_json deser_value]. rewrite deser_exprs_fix.
    assert (G : deser_exprs fuel (map ser_expr es) = Some es).
    { assert (Hd' : forall x, In x es -> (depth x <= fuel)%nat) by (intros x Hx; pose proof (maxl_le es x Hx); lia). clear Hd.
      induction H as [|x t Hx Ht IH]; simpl in *; auto. apply andb_prop in Hf as [H1 H2].
      rewrite (Hx fuel H1 (Hd' x (or_introl eq_refl))), (IH H2); auto. }
    rewrite G. reflexivity.
  - cbn -[op_of_json op_json deser_value ser_value]. rewrite (value_roundtrip v Hf). reflexivity.
  - cbn. reflexivity.
  - cbn -[op_of_json op_json deser_value]. rewrite deser_exprs_fix.
    assert (G : deser_exprs fuel (map ser_expr ps) = Some ps).
    { assert (Hd' : forall x, In x ps -> (depth x <= fuel)%nat) by (intros x Hx; pose proof (maxl_le ps x Hx); lia). clear Hd.
      induction H as [|x t Hx Ht IH]; simpl in *; auto. apply andb_prop in Hf as [H1 H2].
      rewrite (Hx fuel H1 (Hd' x (or_introl eq_refl))), (IH H2); auto. }
    rewrite G. reflexivity.
Qed.
Example C12_refuted_nonfinite : deser_expr 5 (ser_expr (ELit (VNum B754_nan))) = None.
Proof. reflexivity. Qed.
Print Assumptions C12_roundtrip.
