(* C10 / C08 facts: validated trees, arity decision, offender naming, scripted environments are coherent *)
Require Import ZArith NArith Bool List Arith Lia. Import ListNotations.
Require Import F64 Dec Types Generic Lang Opt IO OptFacts.

Definition env_coherent (E:env) : Prop :=
  (forall n, var_exists E n = true -> var E n <> None) /\
  (forall n k p vs m m', fn_exists E n k = Exists p -> length vs = k -> call E n vs <> Er (NativeFunctionError m (FunctionNotFound m'))) /\
  (forall f vs n, call E f vs <> Er (Undefined n)).

Lemma validated_never_unresolved : forall E e, env_coherent E -> check_names E e = None -> ~ Generic.unresolved (fst (eval_t E e)).
Proof.
  intros E e [Hv [Hf Hc]] H. rewrite eval_t_fst. unfold eval.
  exact (Generic.C10_no_unresolved as_bool is_empty un binop E un_no_undef binop_no_undef Hc Hv Hf un_no_fnf binop_no_fnf e H).
Qed.

Lemma call_kind_resolved n k vs : (forall m m', call_kind n k vs <> Er (NativeFunctionError m (FunctionNotFound m'))) /\ (forall x, call_kind n k vs <> Er (Undefined x)).
Proof.
  destruct k; cbn [call_kind]; split; intros; try discriminate;
  unfold std_if_then; destruct vs as [|[] [|? [|? ?]]]; try discriminate; try (destruct b; discriminate).
Qed.
Lemma mk_env_coherent vars fns : env_coherent (mk_env vars fns).
Proof.
  unfold env_coherent, mk_env; cbn [var call fn_exists var_exists]. repeat split.
  - intros n H. destruct (lookup n vars); [discriminate|discriminate].
  - intros n k p vs m m' H _. destruct (lookup n fns) as [[[kd a] pu]|]; [|discriminate]. apply (proj1 (call_kind_resolved n kd vs)).
  - intros f vs n. destruct (lookup f fns) as [[[kd a] pu]|]; [|discriminate]. apply (proj2 (call_kind_resolved f kd vs)).
Qed.

(* the arity decision *)
Lemma arity_exact a p k : fn_result a p k = Exists p <-> in_arity a k = true.
Proof. unfold fn_result. destruct (in_arity a k); split; auto; discriminate. Qed.
Lemma arity_never_other a p k q : fn_result a p k = Exists q -> q = p.
Proof. unfold fn_result. destruct (in_arity a k); intros H; [injection H; auto|discriminate]. Qed.
Lemma in_arity_spelled a k : in_arity a k = true <->
  match a with Poly r o => r <= k <= r + o | Variadic => 1 <= k | ANone => k = 0 end.
Proof.
  destruct a as [r o| |]; cbn [in_arity].
  - rewrite andb_true_iff, !Nat.leb_le. tauto.
  - rewrite Nat.ltb_lt. lia.
  - rewrite Nat.eqb_eq. tauto.
Qed.

(* a rejection names an offender that occurs in the tree *)
Fixpoint occurs_var (n:list N) (e:expr) : Prop :=
  match e with
  | EUn _ r => occurs_var n r | EBin _ l r => occurs_var n l \/ occurs_var n r | ETer _ l m r => occurs_var n l \/ occurs_var n m \/ occurs_var n r
  | EArr es => (fix go (l:list expr) : Prop := match l with [] => False | x :: t => occurs_var n x \/ go t end) es
  | ELit _ => False | EVar m => m = n
  | ECall _ ps => (fix go (l:list expr) : Prop := match l with [] => False | x :: t => occurs_var n x \/ go t end) ps end.
Fixpoint occurs_call (n:list N) (k:nat) (e:expr) : Prop :=
  match e with
  | EUn _ r => occurs_call n k r | EBin _ l r => occurs_call n k l \/ occurs_call n k r | ETer _ l m r => occurs_call n k l \/ occurs_call n k m \/ occurs_call n k r
  | EArr es => (fix go (l:list expr) : Prop := match l with [] => False | x :: t => occurs_call n k x \/ go t end) es
  | ELit _ | EVar _ => False
  | ECall m ps => (m = n /\ length ps = k) \/ (fix go (l:list expr) : Prop := match l with [] => False | x :: t => occurs_call n k x \/ go t end) ps end.
Definition names_offender (E:env) (e:expr) : Prop :=
  match check_names E e with
  | None => True
  | Some (Generic.MissingVariable n) => occurs_var n e /\ var_exists E n = false
  | Some (Generic.MissingFunction n) => exists k, occurs_call n k e /\ fn_exists E n k = NotFound
  | Some (Generic.ParamCountMismatch n k) => occurs_call n k e /\ fn_exists E n k = WrongArity
  end.
Lemma offender_list (E:env) (es:list expr) : Forall (names_offender E) es ->
  match Generic.check_list E es with
  | None => True
  | Some (Generic.MissingVariable n) => (fix go (l:list expr) : Prop := match l with [] => False | x :: t => occurs_var n x \/ go t end) es /\ var_exists E n = false
  | Some (Generic.MissingFunction n) => exists k, (fix go (l:list expr) : Prop := match l with [] => False | x :: t => occurs_call n k x \/ go t end) es /\ fn_exists E n k = NotFound
  | Some (Generic.ParamCountMismatch n k) => (fix go (l:list expr) : Prop := match l with [] => False | x :: t => occurs_call n k x \/ go t end) es /\ fn_exists E n k = WrongArity
  end.
Proof.
  induction 1 as [|x t Hx Ht IH]; cbn [Generic.check_list]; auto.
  unfold names_offender, check_names in Hx. destruct (Generic.check E x) as [[n|n|n k]|].
  - destruct Hx; split; auto.
  - destruct Hx as [k [A B]]. exists k; split; auto.
  - destruct Hx; split; auto.
  - destruct (Generic.check_list E t) as [[n|n|n k]|]; auto.
    + destruct IH; split; auto.
    + destruct IH as [k [A B]]; exists k; split; auto.
    + destruct IH; split; auto.
Qed.
Lemma rejection_names_offender : forall E e, names_offender E e.
Proof.
  intros E. induction e using expr_ind'; unfold names_offender, check_names in *; cbn [Generic.check occurs_var occurs_call].
  - destruct (Generic.check E e) as [[n|n|n k]|]; auto.
  - destruct (Generic.check E e1) as [[n|n|n k]|].
    + destruct IHe1; split; auto.
    + destruct IHe1 as [k [A B]]; exists k; split; auto.
    + destruct IHe1; split; auto.
    + destruct (Generic.check E e2) as [[n|n|n k]|]; auto.
      * destruct IHe2; split; auto.
      * destruct IHe2 as [k [A B]]; exists k; split; auto.
      * destruct IHe2; split; auto.
  - destruct (Generic.check E e1) as [[n|n|n k]|].
    + destruct IHe1; split; auto.
    + destruct IHe1 as [k [A B]]; exists k; split; auto.
    + destruct IHe1; split; auto.
    + destruct (Generic.check E e2) as [[n|n|n k]|].
      * destruct IHe2; split; auto.
      * destruct IHe2 as [k [A B]]; exists k; split; auto.
      * destruct IHe2; split; auto.
      * destruct (Generic.check E e3) as [[n|n|n k]|]; auto.
        -- destruct IHe3; split; auto.
        -- destruct IHe3 as [k [A B]]; exists k; split; auto.
        -- destruct IHe3; split; auto.
  - rewrite Generic.check_list_fix. apply (offender_list E es). exact H.
  - exact I.
  - destruct (var_exists E n) eqn:V; auto.
  - destruct (fn_exists E n (length ps)) eqn:F.
    + rewrite Generic.check_list_fix. pose proof (offender_list E ps H) as X.
      destruct (Generic.check_list E ps) as [[m|m|m k]|];
        try solve [auto]; try solve [destruct X; split; auto]; try solve [destruct X as [k0 [A B]]; exists k0; split; auto].
    + exists (length ps). split; auto.
    + split; auto.
Qed.

(* ---- the arity decision as written in the source (match arms regenerated into Gen/GenArity.v), interpreted ---- *)
Require Import GenArity.
Definition kind_of (a:arity) : akind := match a with Poly _ _ => KPoly | Variadic => KVariadic | ANone => KNone end.
Definition akind_eqb (x y:akind) : bool := match x, y with KPoly, KPoly | KVariadic, KVariadic | KNone, KNone => true | _, _ => false end.
Fixpoint arms_decide (arms:list (akind * aguard * bool)) (a:arity) (k:nat) : option bool :=
  match arms with
  | [] => None
  | (kd, g, v) :: t =>
      if akind_eqb kd (kind_of a) then
        match g with
        | GAlways => Some v
        | GPositive => if Nat.ltb 0 k then Some v else arms_decide t a k
        | GZero => if Nat.eqb k 0 then Some v else arms_decide t a k
        | GRange mn mx => match a with Poly r o => Some (if Nat.ltb k (mn r o) || Nat.ltb (mx r o) k then negb v else v) | _ => None end
        end
      else arms_decide t a k
  end.
