(* the extracted interpreter computes exactly what the rules of Spec.v derive (results and traces) *)
Require Import ZArith NArith Bool List Arith Lia. Import ListNotations.
Require Import F64 Dec Types Generic Lang Spec.
Section S.
Variable E : env.
Notation Ev := (Spec.Ev E). Notation Evs := (Spec.Evs E).

Lemma strict_facts o : strict_op o = true ->
  (forall a, needs_right o (Ok a) = true) /\ (forall e, needs_right o (Er e) = false) /\
  (forall e rr, bin_combine o (Er e) rr = Er e) /\ (forall a b, bin_combine o (Ok a) (Ok b) = binop o a b) /\ (forall a e, bin_combine o (Ok a) (Er e) = Er e).
Proof. destruct o; try discriminate; intros _; repeat split; intros; try reflexivity; try (destruct e; reflexivity). Qed.
Lemma as_boolean_boolr r : as_boolean r = boolr r.
Proof. destruct r as [v|[]]; reflexivity. Qed.

(* soundness: everything derivable is what eval_t returns *)
Ltac rw := repeat match goal with H : eval_t _ _ = _ |- _ => rewrite H; clear H | H : evals_t _ _ = _ |- _ => rewrite H; clear H end.
Ltac strict := match goal with S : strict_op ?o = true |- _ => destruct (strict_facts o S) as (A & B & C & D & F) end.
Ltac ab := match goal with H : as_bool _ = _ |- _ => rewrite ?H end.
Ltac eo := match goal with H : _ = Equal \/ _ = NotEqual |- _ => destruct H; subst end.
Ltac nu := match goal with H : is_undef ?e = false |- _ => destruct e; try discriminate H end.
Theorem Ev_sound : (forall e r t, Ev e r t -> eval_t E e = (r, t)) /\ (forall es r t, Evs es r t -> evals_t E es = (r, t)).
Proof.
  apply (Spec.Ev_mutind E (fun e r t _ => eval_t E e = (r, t)) (fun es r t _ => evals_t E es = (r, t))); intros;
    rewrite ?eval_t_arr, ?eval_t_call; cbn [eval_t evals_t is_cond Generic.is_cond]; rw; try reflexivity.
  - match goal with H : var E _ = _ |- _ => rewrite H end. reflexivity.
  - match goal with H : var E _ = _ |- _ => rewrite H end. reflexivity.
  - strict. rewrite B, C. reflexivity.
  - strict. rewrite A, F. reflexivity.
  - strict. rewrite A, D. reflexivity.
  - cbn [needs_right]. ab. unfold bin_combine, Generic.bin_combine. ab. reflexivity.
  - nu; reflexivity.
  - cbn [needs_right]. ab. unfold bin_combine, Generic.bin_combine. ab. rewrite as_boolean_boolr. reflexivity.
  - cbn [needs_right]. ab. unfold bin_combine, Generic.bin_combine. ab. reflexivity.
  - nu; reflexivity.
  - cbn [needs_right]. ab. cbn [negb]. unfold bin_combine, Generic.bin_combine. ab. rewrite as_boolean_boolr. reflexivity.
  - cbn [needs_right]. unfold bin_combine, Generic.bin_combine. rewrite as_boolean_boolr. reflexivity.
  - eo; nu; reflexivity.
  - eo; reflexivity.
  - eo; reflexivity.
  - match goal with H : forall e', ?x = Er e' -> _ |- _ => destruct x as [a|ex]; [|specialize (H ex eq_refl); destruct ex; try discriminate H] end; eo; nu; reflexivity.
  - eo; reflexivity.
  - eo; reflexivity.
  - ab. reflexivity.
  - ab. reflexivity.
  - match goal with H : Generic.is_cond _ = false |- _ => unfold is_cond; rewrite H end. reflexivity.
Qed.

(* completeness: what eval_t returns is derivable *)
Lemma Evs_complete es : Forall (fun e => Ev e (fst (eval_t E e)) (snd (eval_t E e))) es -> Evs es (fst (evals_t E es)) (snd (evals_t E es)).
Proof.
  induction 1 as [|x t Hx Ht IH]; cbn [evals_t]. constructor.
  destruct (eval_t E x) as [rx tx]. cbn [fst snd] in Hx. destruct rx as [v|e].
  - destruct (evals_t E t) as [rt tt]. cbn [fst snd] in *. apply (Spec.Evs_ok E x t v rt tx tt Hx IH).
  - cbn [fst snd]. constructor. exact Hx.
Qed.
Theorem Ev_complete : forall e, Ev e (fst (eval_t E e)) (snd (eval_t E e)).
Proof.
  induction e using expr_ind'.
  - cbn [eval_t]. destruct (eval_t E e) as [rr tr]. cbn [fst snd] in *. destruct rr as [v|x]; unfold un_combine, Generic.un_combine. apply Spec.Ev_un_ok; auto. apply Spec.Ev_un_err; auto.
  - cbn [eval_t]. destruct (eval_t E e1) as [rl tl]. destruct (eval_t E e2) as [rr tr]. cbn [fst snd] in *.
    destruct (strict_op o) eqn:S.
    + destruct (strict_facts o S) as (A & B & C & D & F). destruct rl as [a|x].
      * rewrite A. cbn [fst snd]. destruct rr as [b|y]. rewrite D. apply Spec.Ev_bin_ok; auto. rewrite F. apply Spec.Ev_bin_right_err with a; auto.
      * rewrite B, C. cbn [fst snd]. apply Spec.Ev_bin_left_err; auto.
    + destruct o; try discriminate.
      * (* = *) destruct rl as [a|x]; cbn [needs_right].
        -- cbn [fst snd]. destruct rr as [b|y]. apply Spec.Ev_eq_ok; auto.
           destruct y; try (apply (Spec.Ev_eq_right_err E Equal e1 e2 (Ok a)); auto; discriminate). eapply (Spec.Ev_eq_right_undef E Equal); eauto.
        -- destruct x; cbn [fst snd]; try (apply Spec.Ev_eq_err; auto; fail).
           destruct rr as [b|y]. eapply (Spec.Ev_eq_left_undef E Equal); eauto.
           destruct y; try (apply (Spec.Ev_eq_right_err E Equal e1 e2 (Er (Undefined n))); auto; intros e' X; injection X as <-; reflexivity). eapply (Spec.Ev_eq_both_undef E Equal); eauto.
      * (* <> *) destruct rl as [a|x]; cbn [needs_right].
        -- cbn [fst snd]. destruct rr as [b|y]. apply Spec.Ev_eq_ok; auto.
           destruct y; try (apply (Spec.Ev_eq_right_err E NotEqual e1 e2 (Ok a)); auto; discriminate). eapply (Spec.Ev_eq_right_undef E NotEqual); eauto.
        -- destruct x; cbn [fst snd]; try (apply Spec.Ev_eq_err; auto; fail).
           destruct rr as [b|y]. eapply (Spec.Ev_eq_left_undef E NotEqual); eauto.
           destruct y; try (apply (Spec.Ev_eq_right_err E NotEqual e1 e2 (Er (Undefined n))); auto; intros e' X; injection X as <-; reflexivity). eapply (Spec.Ev_eq_both_undef E NotEqual); eauto.
      * (* and *) destruct rl as [a|x]; cbn [needs_right].
        -- destruct (as_bool a) eqn:B; cbn [fst snd]; unfold bin_combine, Generic.bin_combine; rewrite B.
           rewrite <- as_boolean_boolr. apply Spec.Ev_and_right with a; auto. apply Spec.Ev_and_short with a; auto.
        -- cbn [fst snd]. destruct x; try (apply Spec.Ev_and_err; auto; fail). apply Spec.Ev_and_undef with n; auto.
      * (* or *) destruct rl as [a|x]; cbn [needs_right].
        -- destruct (as_bool a) eqn:B; cbn [negb fst snd]; unfold bin_combine, Generic.bin_combine; rewrite B.
           apply Spec.Ev_or_short with a; auto. rewrite <- as_boolean_boolr. apply Spec.Ev_or_right with a; auto.
        -- destruct x; cbn [fst snd]; try (apply Spec.Ev_or_err; auto; fail).
           unfold bin_combine, Generic.bin_combine. rewrite <- as_boolean_boolr. apply Spec.Ev_or_undef with n; auto.
  - cbn [eval_t]. destruct (Generic.is_cond o) eqn:C; unfold is_cond; rewrite C.
    + destruct o; try discriminate. destruct (eval_t E e1) as [rc tc]. cbn [fst snd] in *. destruct rc as [cv|x].
      * destruct (as_bool cv) eqn:B.
        -- destruct (eval_t E e2) as [rm tm]. cbn [fst snd] in *. apply Spec.Ev_cond_true with cv; auto.
        -- destruct (eval_t E e3) as [rr tr]. cbn [fst snd] in *. apply Spec.Ev_cond_false with cv; auto.
      * cbn [fst snd]. apply Spec.Ev_cond_err; auto.
    + cbn [fst snd]. apply Spec.Ev_ter_invalid; auto.
  - rewrite eval_t_arr. pose proof (Evs_complete es H) as X. destruct (evals_t E es) as [r t]. cbn [fst snd] in *.
    destruct r as [vs|x]; cbn [fst snd]. apply Spec.Ev_arr_ok; auto. apply Spec.Ev_arr_err; auto.
  - constructor.
  - cbn [eval_t]. destruct (var E n) eqn:V; cbn [fst snd]. apply Spec.Ev_var_defined; auto. apply Spec.Ev_var_undefined; auto.
  - rewrite eval_t_call. pose proof (Evs_complete ps H) as X. destruct (evals_t E ps) as [r t]. cbn [fst snd] in *.
    destruct r as [vs|x]; cbn [fst snd]. apply Spec.Ev_call_ok; auto. apply Spec.Ev_call_err; auto.
Qed.
(* the two together: the derivable judgements are exactly the graph of the interpreter (hence the relation is deterministic and total) *)
Theorem Ev_iff_eval_t : forall e r t, Ev e r t <-> eval_t E e = (r, t).
Proof.
  intros e r t. split. apply (proj1 Ev_sound).
  intros H. pose proof (Ev_complete e) as X. rewrite H in X. exact X.
Qed.
End S.
