(* C18: an escaped non-empty literal used as a pattern behaves exactly like count and replace on that literal (for every haystack and replacement text) *)
Require Import ZArith NArith Bool List Arith Lia. Import ListNotations.
Require Import F64 Dec Types Builtins BuiltinFacts Regex RegexFacts.

Lemma count_sub_step n f s : n <> [] -> count_sub (S f) n s = if is_prefix n s then S (count_sub f n (skipn (length n) s)) else match s with [] => 0%nat | _ :: r => count_sub f n r end.
Proof. destruct n; [congruence|reflexivity]. Qed.
Lemma replace_sub_step n t f s : n <> [] -> replace_sub (S f) n t s = if is_prefix n s then t ++ replace_sub f n t (skipn (length n) s) else match s with [] => [] | c :: r => c :: replace_sub f n t r end.
Proof. destruct n; [congruence|reflexivity]. Qed.
Lemma is_prefix_nil n : n <> [] -> is_prefix n [] = false. Proof. destruct n; [congruence|reflexivity]. Qed.
Section L.
Variable k : nat. Hypothesis k1 : (1 <= k)%nat.
Variable x : list N. Hypothesis xne : x <> [].
(* the occurrences a left-to-right non-overlapping scan finds, as absolute (start, end) pairs; s is the text from absolute position p on *)
Fixpoint occs (n:nat) (s:list N) (p:nat) : list (nat * nat) :=
  match n with O => [] | S n' =>
    match find_sub x s with None => [] | Some i => (p + i, p + i + length x)%nat :: occs n' (skipn (i + length x) s) (p + i + length x) end end.
Lemma skipn_skipn {A} (a b:nat) (l:list A) : skipn a (skipn b l) = skipn (a + b) l.
Proof. rewrite Nat.add_comm. revert l. induction b as [|b IH]; intros l; [reflexivity|]. destruct l; [destruct a; reflexivity|]. cbn [skipn Nat.add]. apply IH. Qed.
Lemma xlen : (1 <= length x)%nat. Proof. destruct x; [congruence | cbn; lia]. Qed.
Lemma find_iter_lit : forall n whole start last, (start <= length whole)%nat ->
  find_iter k n (lit x) whole start last = occs n (skipn start whole) start.
Proof.
  induction n as [|n IH]; intros whole start last Hs; cbn [find_iter occs]; [reflexivity|].
  rewrite search_lit by (rewrite skipn_length; pose proof (fuel_enough k whole k1); lia).
  destruct (find_sub x (skipn start whole)) as [i|] eqn:F; cbn [option_map]; [|reflexivity].
  pose proof xlen. destruct (find_sub_sound x _ i F) as [_ Le]. rewrite skipn_length in Le.
  replace (Nat.eqb (start + i) (start + i + length x)) with false by (symmetry; apply Nat.eqb_neq; lia). cbn [andb].
  f_equal. rewrite (IH whole (start + i + length x)%nat _ ltac:(lia)). rewrite skipn_skipn. f_equal. f_equal. lia.
Qed.
Lemma count_find : forall s f, (length s < f)%nat ->
  count_sub f x s = match find_sub x s with None => 0%nat | Some i => S (count_sub (f - S i) x (skipn (i + length x) s)) end.
Proof.
  induction s as [|c r IH]; intros f L; (destruct f as [|f]; [cbn in L; lia|]); rewrite (count_sub_step x f _ xne); cbn [find_sub].
  - rewrite (is_prefix_nil x xne). reflexivity.
  - destruct (is_prefix x (c :: r)) eqn:P.
    + cbn [Nat.add]. rewrite Nat.sub_succ, Nat.sub_0_r. reflexivity.
    + cbn [length] in L. rewrite (IH f ltac:(lia)). destruct (find_sub x r) as [i|]; cbn [option_map]; reflexivity.
Qed.
Lemma occs_count : forall m s n f p, (length s <= m)%nat -> (length s < n)%nat -> (length s < f)%nat -> length (occs n s p) = count_sub f x s.
Proof.
  induction m as [|m IH]; intros s n f p Lm Ln Lf; (destruct n as [|n]; [lia|]); cbn [occs]; rewrite (count_find s f Lf);
    destruct (find_sub x s) as [i|] eqn:F; try reflexivity; pose proof xlen; destruct (find_sub_sound x s i F) as [_ Le].
  - lia.
  - cbn [length]. f_equal. apply IH; rewrite skipn_length; lia.
Qed.
Lemma occs_slices : forall n whole start a b, (start <= length whole)%nat -> In (a, b) (occs n (skipn start whole) start) -> slice whole a b = x.
Proof.
  induction n as [|n IH]; intros whole start a b Hs; cbn [occs]; [intros []|].
  destruct (find_sub x (skipn start whole)) as [i|] eqn:F; [|intros []]. destruct (find_sub_sound x _ i F) as [Eq Le]. rewrite skipn_length in Le.
  intros [E|I].
  - injection E as <- <-. unfold slice. replace (start + i + length x - (start + i))%nat with (length x) by lia. rewrite skipn_skipn in Eq. rewrite (Nat.add_comm start i). exact Eq.
  - rewrite skipn_skipn in I. replace (i + length x + start)%nat with (start + i + length x)%nat in I by lia. apply (IH whole (start + i + length x)%nat a b ltac:(lia) I).
Qed.
Lemma replace_find : forall t s f, (length s < f)%nat ->
  replace_sub f x t s = match find_sub x s with None => s | Some i => firstn i s ++ t ++ replace_sub (f - S i) x t (skipn (i + length x) s) end.
Proof.
  intros t. induction s as [|c r IH]; intros f L; (destruct f as [|f]; [cbn in L; lia|]); rewrite (replace_sub_step x t f _ xne); cbn [find_sub].
  - rewrite (is_prefix_nil x xne). reflexivity.
  - destruct (is_prefix x (c :: r)) eqn:P.
    + cbn [Nat.add firstn app]. rewrite Nat.sub_succ, Nat.sub_0_r. reflexivity.
    + cbn [length] in L. rewrite (IH f ltac:(lia)). destruct (find_sub x r) as [i|]; cbn [option_map]; reflexivity.
Qed.
Lemma splice_occs : forall t m whole n f start, (length whole - start <= m)%nat -> (start <= length whole)%nat -> (length whole - start < n)%nat -> (length whole - start < f)%nat ->
  splice whole start (occs n (skipn start whole) start) t = replace_sub f x t (skipn start whole).
Proof.
  intros t. induction m as [|m IH]; intros whole n f start Lm Ls Ln Lf; (destruct n as [|n]; [lia|]); cbn [occs];
    rewrite (replace_find t (skipn start whole) f ltac:(rewrite skipn_length; lia));
    destruct (find_sub x (skipn start whole)) as [i|] eqn:F; try reflexivity; pose proof xlen; destruct (find_sub_sound x _ i F) as [_ Le]; rewrite skipn_length in Le.
  - lia.
  - cbn [splice]. unfold slice at 1. replace (start + i - start)%nat with i by lia. f_equal. f_equal.
    rewrite skipn_skipn. replace (i + length x + start)%nat with (start + i + length x)%nat by lia.
    apply IH; lia.
Qed.
(* an escaped non-empty literal: re_find returns exactly count(s, x) matches, each equal to x, and re_replace is replace(s, x, t) *)
Theorem literal_find_is_count : forall s, length (re_find k (lit x) s) = count_sub (S (length s)) x s /\ Forall (fun y => y = x) (re_find k (lit x) s).
Proof.
  intros s. unfold re_find, spans. rewrite (find_iter_lit _ s 0 None ltac:(lia)). cbn [skipn]. split.
  - rewrite map_length. apply (occs_count (length s)); lia.
  - apply Forall_forall. intros y Hy. apply in_map_iff in Hy as [[a b] [<- I]]. cbn [fst snd]. apply (occs_slices (S (S (length s))) s 0 a b ltac:(lia)). exact I.
Qed.
Theorem literal_replace_is_replace : forall s t, re_replace k (lit x) s t 0 = replace_sub (S (length s)) x t s.
Proof.
  intros s t. unfold re_replace, spans. rewrite (find_iter_lit _ s 0 None ltac:(lia)).
  apply (splice_occs t (length s) s (S (S (length s))) (S (length s)) 0); lia.
Qed.
End L.
