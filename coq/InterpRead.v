(* reading a regenerated match table the way Rust reads a match: the first arm, in source order, whose pattern fits *)
From Flocq Require Import Core BinarySingleNaN.
Require Import ZArith NArith Bool List Arith Lia. Import ListNotations.
Require Import F64 Dec Types Generic Lang InterpTypes.

(* ---- reading the generated tables the way Rust reads a match: the first arm, in source order, whose pattern fits ---- *)
Definition op_eqb (a b:op) : bool := match a, b with
  | Plus, Plus | Minus, Minus | Multiply, Multiply | Divide, Divide | Greater, Greater | GreaterEqual, GreaterEqual | Less, Less | LessEqual, LessEqual | Equal, Equal
  | NotEqual, NotEqual | And, And | Or, Or | Xor, Xor | Not, Not | Div, Div | Mod, Mod | TernaryCondition, TernaryCondition => true | _, _ => false end.
Definition kind_eqb (a b:gkind) : bool := match a, b with KBool, KBool | KStr, KStr | KNum, KNum | KArr, KArr => true | _, _ => false end.
Definition kind_of (v:value) : gkind := match v with VBool _ => KBool | VStr _ => KStr | VNum _ => KNum | VArr _ => KArr end.
Definition pat_matches (p:gpat) (r:res value) : bool :=
  match p, r with POk, Ok _ => true | PUndef, Er (Undefined _) => true | PErr, Er _ => true | PAny, _ => true | _, _ => false end.
Definition op_matches (po:option op) (o:op) : bool := match po with None => true | Some o' => op_eqb o' o end.
Fixpoint first_arm (arms:list (option op * gpat * gact)) (o:op) (r:res value) : option gact :=
  match arms with [] => None | (po, p, a) :: t => if op_matches po o && pat_matches p r then Some a else first_arm t o r end.
Fixpoint kinds_arm {A} (rows:list (gkind * gkind * A)) (a b:value) : option A :=
  match rows with [] => None | (ka, kb, r) :: t => if kind_eqb ka (kind_of a) && kind_eqb kb (kind_of b) then Some r else kinds_arm t a b end.
Fixpoint okinds_arm (rows:list (option (gkind * gkind) * gact)) (a b:value) : option gact :=
  match rows with [] => None
  | (None, r) :: _ => Some r
  | (Some (ka, kb), r) :: t => if kind_eqb ka (kind_of a) && kind_eqb kb (kind_of b) then Some r else okinds_arm t a b end.

