(* C03: the value operations of the model are the reading of the operator impls of Value regenerated from value.rs (Gen/GenValueOps.v) *)
From Flocq Require Import Core BinarySingleNaN.
Require Import ZArith NArith Bool List Arith Lia. Import ListNotations.
Require Import F64 Dec Types Generic Lang InterpTypes InterpRead GenValueOps.

(* ---- glossary: what each right-hand-side text means, in terms of the f64 / list operations of the model. This glossary is the trusted part of the tie. ---- *)
Definition res_sem (r:gact) (a b:value) : option (res value) :=
  match r, a, b with
  | RStrConcat, VStr x, VStr y => Some (Ok (VStr (x ++ y)))
  | RArrConcat, VArr x, VArr y => Some (Ok (VArr (x ++ y)))
  | RNumAdd, VNum x, VNum y => Some (Ok (VNum (fadd x y)))
  | RNumSub, VNum x, VNum y => Some (Ok (VNum (fsub x y)))
  | RNumMul, VNum x, VNum y => Some (Ok (VNum (fmul x y)))
  | RNumDiv, VNum x, VNum y => Some (Ok (VNum (fdiv x y)))
  | RNumRem, VNum x, VNum y => Some (Ok (VNum (frem x y)))
  | RNumDivTrunc, VNum x, VNum y => Some (Ok (VNum (ftrunc (fdiv x y))))
  | RBoolXor, VBool x, VBool y => Some (Ok (VBool (xorb x y)))
  | _, _, _ => None end.
(* a Value operator impl: the first arm whose kinds fit, else the catch-all error *)
Definition value_op (o:op) (a b:value) : option (res value) :=
  match find (fun row => op_eqb (fst (fst row)) o) gen_value_ops with
  | Some (_, rows, d) => match kinds_arm rows a b with Some r => res_sem r a b | None => Some (Er (InvalidBinary d)) end
  | None => None end.
Definition value_neg (v:value) : option (res value) :=
  match find (fun row => kind_eqb (fst row) (kind_of v)) gen_value_neg, v with
  | Some (_, RNumNeg), VNum x => Some (Ok (VNum (fneg x)))
  | Some _, _ => None
  | None, _ => Some (Er (InvalidUnary Minus)) end.
