(* C06: a successful result of optimize contains no constant-foldable node and no three-argument if_then call *)
Require Import ZArith NArith Bool List Arith Lia. Import ListNotations.
Require Import F64 Dec Types Generic Lang Opt IO OptFacts.
Section M.
Variable E : env.
Notation fold := (Generic.fold as_bool is_empty un binop E).
Notation fold_list := (Generic.fold_list as_bool is_empty un binop E).
Notation evalfold := (Generic.evalfold as_bool is_empty un binop E).
Notation tt := Generic.tt.
Notation is_lit := Generic.is_lit.
Notation SOk := Generic.SOk.

(* the syntactic predicate of the statement: an operator or array whose operands are all literals, a call of a pure function within
   its registered arity whose arguments are all literals, a conditional with a literal condition *)
Definition node_foldable (e:expr) : bool :=
  match e with
  | EUn _ r => is_lit r
  | EBin _ l r => is_lit l && is_lit r
  | ETer o l _ _ => is_lit l && Generic.is_cond o
  | EArr es => forallb is_lit es
  | ECall n ps => forallb is_lit ps && match fn_exists E n (length ps) with Exists true => true | _ => false end
  | _ => false end.
Fixpoint has_foldable (e:expr) : bool :=
  node_foldable e ||
  match e with
  | EUn _ r => has_foldable r | EBin _ l r => has_foldable l || has_foldable r | ETer _ l m r => has_foldable l || has_foldable m || has_foldable r
  | EArr es => existsb has_foldable es | ECall _ ps => existsb has_foldable ps | _ => false end.

Lemma evalfold_flag e : snd (evalfold e) = true.
Proof. unfold Generic.evalfold. destruct (Generic.eval _ _ _ _ _ e); reflexivity. Qed.
Lemma evalfold_not_unchanged e x : evalfold e <> (SOk, x, false).
Proof. intros H. pose proof (evalfold_flag e) as F. rewrite H in F. discriminate. Qed.
Lemma fold_list_unchanged : forall es, fold_list es = (SOk, es, false) -> Forall (fun x => fold x = (SOk, x, false)) es.
Proof.
  induction es as [|x t IH]; intros H. constructor.
  cbn [Generic.fold_list] in H. destruct (fold x) as [[st1 x'] f1] eqn:Fx. destruct st1; [|discriminate].
  destruct (fold_list t) as [[st2 t'] f2] eqn:Ft. injection H. intros Hf Ht Hx Hs. subst st2 x' t'.
  apply orb_false_iff in Hf as [Hf1 Hf2]. subst f1 f2. constructor; auto.
Qed.
Theorem fold_unchanged_minimal : forall e, fold e = (SOk, e, false) -> has_foldable e = false.
Proof.
  induction e using expr_ind'; intros HF; cbn [has_foldable node_foldable].
  - cbn [Generic.fold] in HF. destruct (is_lit e) eqn:L. exfalso; eapply evalfold_not_unchanged; eauto.
    destruct (fold e) as [[st r'] f]. injection HF. intros Hf Hr Hs. subst st r' f. cbn [orb]. auto.
  - cbn [Generic.fold] in HF. destruct (is_lit e1 && is_lit e2) eqn:L. exfalso; eapply evalfold_not_unchanged; eauto.
    destruct (fold e1) as [[st1 l'] f1]. destruct st1; [|discriminate]. destruct (fold e2) as [[st2 r'] f2]. injection HF. intros Hf Hr Hl Hs. subst st2 l' r'.
    apply orb_false_iff in Hf as [Hf1 Hf2]. subst f1 f2. rewrite IHe1, IHe2; auto.
  - assert (G : (let '(st1, l', f1) := fold e1 in
        match st1 with Generic.SErr _ => (st1, ETer o l' e2 e3, f1) | SOk =>
          let '(st2, m', f2) := fold e2 in
          match st2 with Generic.SErr _ => (st2, ETer o l' m' e3, f1 || f2) | SOk =>
            let '(st3, r', f3) := fold e3 in (st3, ETer o l' m' r', f1 || f2 || f3) end end) = (SOk, ETer o e1 e2 e3, false) ->
        has_foldable e1 || has_foldable e2 || has_foldable e3 = false).
    { destruct (fold e1) as [[st1 l'] f1]. destruct st1; [|discriminate]. destruct (fold e2) as [[st2 m'] f2]. destruct st2; [|discriminate].
      destruct (fold e3) as [[st3 r'] f3]. intros X. injection X. intros Hf Hr Hm Hl Hs. subst st3 l' m' r'.
      apply orb_false_iff in Hf as [Hf Hf3]. apply orb_false_iff in Hf as [Hf1 Hf2]. subst f1 f2 f3. rewrite IHe1, IHe2, IHe3; auto. }
    cbn [Generic.fold] in HF. destruct e1; try (rewrite (G HF); reflexivity).
    destruct (Generic.is_cond o); [discriminate|]. cbn [is_lit andb orb]. rewrite (G HF). reflexivity.
  - rewrite Generic.fold_arr in HF. destruct (forallb is_lit es) eqn:L. exfalso; eapply evalfold_not_unchanged; eauto.
    cbn zeta in HF. destruct (fold_list es) as [[st es'] f] eqn:Fl. cbn [fst snd] in HF. injection HF. intros Hf He Hs. subst st es' f.
    pose proof (fold_list_unchanged es Fl) as U. cbn [orb].
    clear Fl L. induction H as [|x t Hx Ht IHt]; cbn [existsb]; auto. inversion U; subst. rewrite (Hx H1). cbn [orb]. apply IHt; auto.
  - reflexivity.
  - reflexivity.
  - rewrite Generic.fold_call in HF. destruct (forallb is_lit ps) eqn:L.
    + destruct (fn_exists E n (length ps)) as [[|]| |] eqn:F; try (exfalso; eapply evalfold_not_unchanged; eauto; fail); cbn [andb orb];
      clear -L; induction ps as [|x t IHt]; cbn [existsb]; auto; cbn [forallb] in L; apply andb_prop in L as [Lx Lt]; destruct x; try discriminate; cbn [has_foldable node_foldable orb]; auto.
    + cbn zeta in HF. destruct (fold_list ps) as [[st ps'] f] eqn:Fl. cbn [fst snd] in HF. injection HF. intros Hf He Hs. subst st ps' f.
      pose proof (fold_list_unchanged ps Fl) as U. cbn [andb orb].
      clear Fl L. induction H as [|x t Hx Ht IHt]; cbn [existsb]; auto. inversion U; subst. rewrite (Hx H1). cbn [orb]. apply IHt; auto.
Qed.
End M.
(* transform_ternary reports no change only on trees without a three-argument if_then call *)
Lemma tt_list_flag : forall es, Forall (fun e => snd (Generic.tt e) = false -> Generic.no_if3 e = true) es -> snd (Generic.tt_list es) = false -> forallb Generic.no_if3 es = true.
Proof.
  induction 1 as [|x t Hx Ht IH]; cbn [Generic.tt_list forallb]; auto. destruct (Generic.tt x) as [x' f1]. destruct (Generic.tt_list t) as [t' f2].
  cbn [snd] in *. intros Hf. apply orb_false_iff in Hf as [-> ->]. rewrite Hx, IH; auto.
Qed.
Theorem tt_unchanged_no_if3 : forall e, snd (Generic.tt e) = false -> Generic.no_if3 e = true.
Proof.
  induction e using expr_ind'; cbn [Generic.no_if3].
  - cbn [Generic.tt]. destruct (Generic.tt e) as [r' f]. exact IHe.
  - cbn [Generic.tt]. destruct (Generic.tt e1) as [l' f1]. destruct (Generic.tt e2) as [r' f2]. cbn [snd] in *. intros Hf. apply orb_false_iff in Hf as [-> ->]. rewrite IHe1, IHe2; auto.
  - cbn [Generic.tt]. destruct (Generic.tt e1) as [l' f1]. destruct (Generic.tt e2) as [m' f2]. destruct (Generic.tt e3) as [r' f3]. cbn [snd] in *. intros Hf.
    apply orb_false_iff in Hf as [Hf ->]. apply orb_false_iff in Hf as [-> ->]. rewrite IHe1, IHe2, IHe3; auto.
  - rewrite Generic.tt_arr. cbn [snd]. apply tt_list_flag. exact H.
  - reflexivity.
  - reflexivity.
  - rewrite Generic.tt_call. destruct (Generic.is_if3 n ps) eqn:I.
    + unfold Generic.is_if3 in I. apply andb_prop in I as [_ I]. apply Nat.eqb_eq in I. destruct ps as [|a [|b [|c [|d t]]]]; try discriminate.
    + cbn [snd negb andb]. apply tt_list_flag. exact H.
Qed.
Theorem optimize_result_minimal : forall E k e acc e' tr, optimize_t E k e acc = (Generic.OOk, e', tr) -> has_foldable E e' = false /\ Generic.no_if3 e' = true.
Proof.
  intros E k e acc e' tr H. destruct (fixpoint E k e acc e' tr H) as [A B]. split.
  - apply fold_unchanged_minimal. pose proof (fold_erase E e') as X. unfold fold_g in X. rewrite <- X. exact B.
  - apply tt_unchanged_no_if3. rewrite A. reflexivity.
Qed.
