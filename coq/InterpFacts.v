(* C03/C04/C13: the hand-written value operations and operator dispatch of Lang.v ARE the reading of the match tables regenerated from interpreter.rs and value.rs (Gen/GenInterp.v) *)
From Flocq Require Import Core BinarySingleNaN.
Require Import ZArith NArith Bool List Arith Lia. Import ListNotations.
Require Import F64 Dec Types Generic Lang GenInterp.

(* ---- reading the generated tables the way Rust reads a match: the first arm, in source order, whose pattern fits ---- *)
Definition op_eqb (a b:op) : bool := match a, b with
  | Plus, Plus | Minus, Minus | Multiply, Multiply | Divide, Divide | Greater, Greater | GreaterEqual, GreaterEqual | Less, Less | LessEqual, LessEqual | Equal, Equal
  | NotEqual, NotEqual | And, And | Or, Or | Xor, Xor | Not, Not | Div, Div | Mod, Mod | TernaryCondition, TernaryCondition => true | _, _ => false end.
Definition kind_eqb (a b:gkind) : bool := match a, b with KBool, KBool | KStr, KStr | KNum, KNum | KArr, KArr => true | _, _ => false end.
Definition kind_of (v:value) : gkind := match v with VBool _ => KBool | VStr _ => KStr | VNum _ => KNum | VArr _ => KArr end.
Definition pat_matches (p:gpat) (r:res value) : bool :=
  match p, r with POk, Ok _ => true | PUndef, Er (Undefined _) => true | PErr, Er _ => true | PAny, _ => true | _, _ => false end.
Definition op_matches (po:option op) (o:op) : bool := match po with None => true | Some o' => op_eqb o' o end.
Fixpoint first_arm (arms:list (option op * gpat * gact)) (o:op) (r:res value) : option gact :=
  match arms with [] => None | (po, p, a) :: t => if op_matches po o && pat_matches p r then Some a else first_arm t o r end.
Fixpoint kinds_arm {A} (rows:list (gkind * gkind * A)) (a b:value) : option A :=
  match rows with [] => None | (ka, kb, r) :: t => if kind_eqb ka (kind_of a) && kind_eqb kb (kind_of b) then Some r else kinds_arm t a b end.
Fixpoint okinds_arm (rows:list (option (gkind * gkind) * gact)) (a b:value) : option gact :=
  match rows with [] => None
  | (None, r) :: _ => Some r
  | (Some (ka, kb), r) :: t => if kind_eqb ka (kind_of a) && kind_eqb kb (kind_of b) then Some r else okinds_arm t a b end.

(* ---- glossary: what each right-hand-side text means, in terms of the f64 / list operations of the model. This glossary is the trusted part of the tie. ---- *)
Definition res_sem (r:gact) (a b:value) : option (res value) :=
  match r, a, b with
  | RStrConcat, VStr x, VStr y => Some (Ok (VStr (x ++ y)))
  | RArrConcat, VArr x, VArr y => Some (Ok (VArr (x ++ y)))
  | RNumAdd, VNum x, VNum y => Some (Ok (VNum (fadd x y)))
  | RNumSub, VNum x, VNum y => Some (Ok (VNum (fsub x y)))
  | RNumMul, VNum x, VNum y => Some (Ok (VNum (fmul x y)))
  | RNumDiv, VNum x, VNum y => Some (Ok (VNum (fdiv x y)))
  | RNumRem, VNum x, VNum y => Some (Ok (VNum (frem x y)))
  | RNumDivTrunc, VNum x, VNum y => Some (Ok (VNum (ftrunc (fdiv x y))))
  | RBoolXor, VBool x, VBool y => Some (Ok (VBool (xorb x y)))
  | _, _, _ => None end.
(* a Value operator impl: the first arm whose kinds fit, else the catch-all error *)
Definition value_op (o:op) (a b:value) : option (res value) :=
  match find (fun row => op_eqb (fst (fst row)) o) gen_value_ops with
  | Some (_, rows, d) => match kinds_arm rows a b with Some r => res_sem r a b | None => Some (Er (InvalidBinary d)) end
  | None => None end.
Definition value_neg (v:value) : option (res value) :=
  match find (fun row => kind_eqb (fst row) (kind_of v)) gen_value_neg, v with
  | Some (_, RNumNeg), VNum x => Some (Ok (VNum (fneg x)))
  | Some _, _ => None
  | None, _ => Some (Er (InvalidUnary Minus)) end.
Definition tab_ordinal (v:value) : option N := option_map snd (find (fun row => kind_eqb (fst row) (kind_of v)) gen_ordinal).
Definition lex := (fix lex (l1 l2:list value) {struct l1} : comparison :=
         match l1, l2 with [], [] => Eq | [], _ :: _ => Lt | _ :: _, [] => Gt
         | p :: t1, q :: t2 => match vcmp p q with Eq => lex t1 t2 | c => c end end).
Definition alleq := (fix alleq (l1 l2:list value) {struct l1} : bool := match l1, l2 with [], [] => true | p::t1, q::t2 => veq p q && alleq t1 t2 | _, _ => false end).
(* Ord::cmp: the arm gives an Option<Ordering>; None falls back on the ordinals *)
Definition cmp_arm_sem (r:gact) (a b:value) : option (option comparison) :=
  match r, a, b with
  | CNative, VBool x, VBool y => Some (Some (bcmp x y))
  | CNative, VStr x, VStr y => Some (Some (scmp x y))
  | CNative, VNum x, VNum y => Some (fcmp x y)
  | CNative, VArr x, VArr y => Some (Some (lex x y))
  | CStrAsNumLeft, VStr x, VNum y => Some (match parse_f64 x with Some fx => fcmp fx y | None => None end)
  | CStrAsNumRight, VNum x, VStr y => Some (match parse_f64 y with Some fy => fcmp x fy | None => None end)
  | CNone, _, _ => Some None
  | _, _, _ => None end.
Definition tab_cmp (a b:value) : option comparison :=
  match okinds_arm gen_cmp_arms a b, tab_ordinal a, tab_ordinal b with
  | Some r, Some oa, Some ob =>
      match cmp_arm_sem r a b with
      | Some (Some c) => Some c
      | Some None => if gen_cmp_falls_back_on_ordinal then Some (N.compare oa ob) else None
      | None => None end
  | _, _, _ => None end.
Definition eq_arm_sem (r:gact) (a b:value) : option bool :=
  match r, a, b with
  | ENative, VBool x, VBool y => Some (Bool.eqb x y)
  | ENative, VStr x, VStr y => Some (match scmp x y with Eq => true | _ => false end)
  | ENative, VNum x, VNum y => Some (feq x y)
  | ENative, VArr x, VArr y => Some (alleq x y)
  | EBoolAsNumLeft, VBool x, VNum y => Some (feq (of_bool x) y)
  | EBoolAsNumRight, VNum x, VBool y => Some (feq x (of_bool y))
  | EByCmp, _, _ => Some (match vcmp a b with Eq => true | _ => false end)
  | _, _, _ => None end.
Definition tab_eq (a b:value) : option bool := match okinds_arm gen_eq_arms a b with Some r => eq_arm_sem r a b | None => None end.

Definition boolean_fn (full:bool) (lv:value) (rr:res value) : res value := if Bool.eqb (as_bool lv) full then boolr rr else Ok (VBool (as_bool lv)).
Definition inner_sem (a:gact) (o:op) (lv:value) (rr:res value) : option (res value) :=
  let with_right (f:value -> option (res value)) := match rr with Ok rv => f rv | Er _ => None end in
  let cmpb (f:comparison -> bool) := with_right (fun rv => Some (Ok (VBool (f (vcmp lv rv))))) in
  match a with
  | GAdd => with_right (value_op Plus lv) | GSub => with_right (value_op Minus lv) | GMul => with_right (value_op Multiply lv) | GDivide => with_right (value_op Divide lv)
  | GDivInt => with_right (value_op Div lv) | GRem => with_right (value_op Mod lv) | GXor => with_right (value_op Xor lv)
  | GGt => cmpb (fun c => match c with Gt => true | _ => false end) | GGe => cmpb (fun c => match c with Lt => false | _ => true end)
  | GLt => cmpb (fun c => match c with Lt => true | _ => false end) | GLe => cmpb (fun c => match c with Gt => false | _ => true end)
  | GEq => with_right (fun rv => Some (Ok (VBool (veq lv rv)))) | GNe => with_right (fun rv => Some (Ok (VBool (negb (veq lv rv)))))
  | GLeftEmpty => Some (Ok (VBool (is_empty lv))) | GLeftNotEmpty => Some (Ok (VBool (negb (is_empty lv))))
  | GErrRight => match rr with Er e => Some (Er e) | Ok _ => None end
  | GInvalid => Some (Er (InvalidBinary o))
  | _ => None end.
Definition tab_inner (o:op) (lv:value) (rr:res value) : option (res value) :=
  match first_arm gen_binary_inner o rr with Some a => inner_sem a o lv rr | None => None end.
Definition undef_left_sem (neg:bool) (rr:res value) : res value :=
  match rr with Ok rv => Ok (VBool (if neg then negb (is_empty rv) else is_empty rv)) | Er (Undefined _) => Ok (VBool (negb neg)) | Er e => Er e end.
Definition tab_binary (o:op) (rl rr:res value) : option (res value) :=
  match first_arm gen_binary_outer o rl, rl with
  | Some GAndFull, Ok lv => if gen_boolean_as_modelled then Some (boolean_fn true lv rr) else None
  | Some GOrFull, Ok lv => if gen_boolean_as_modelled then Some (boolean_fn false lv rr) else None
  | Some GOrOfRight, _ => if gen_boolean_as_modelled then Some (boolean_fn false (VBool false) rr) else None
  | Some GConstFalse, _ => Some (Ok (VBool false))
  | Some GStrict, Ok lv => tab_inner o lv rr
  | Some GEqUndefLeft, _ => Some (undef_left_sem false rr)
  | Some GNeUndefLeft, _ => Some (undef_left_sem true rr)
  | Some GErrLeft, Er e => Some (Er e)
  | _, _ => None end.
Definition tab_unary (o:op) (r:res value) : option (res value) :=
  match first_arm gen_unary_arms o r, r with
  | Some GNeg, Ok v => value_neg v
  | Some GNot, Ok v => if gen_value_not_is_not_as_bool then Some (Ok (VBool (negb (as_bool v)))) else None
  | Some GErrOperand, Er e => Some (Er e)
  | Some GInvalidU, _ => Some (Er (InvalidUnary o))
  | _, _ => None end.

(* ---- the hand-written model IS the reading of the tables regenerated from the source ---- *)
Theorem vcmp_is_the_table : forall a b, Some (vcmp a b) = tab_cmp a b.
Proof. intros a b. destruct a, b; try reflexivity; cbn; try (destruct (fcmp _ _) as [[]|]; reflexivity); try (destruct (parse_f64 _); [destruct (fcmp _ _) as [[]|]|]; reflexivity). Qed.
Theorem veq_is_the_table : forall a b, Some (veq a b) = tab_eq a b.
Proof. intros a b. destruct a, b; reflexivity. Qed.
Theorem binop_is_the_table : forall o lv rv, Some (binop o lv rv) = tab_inner o lv (Ok rv).
Proof. intros o lv rv. destruct o; try reflexivity; destruct lv, rv; reflexivity. Qed.
Theorem un_combine_is_the_table : forall o r, Some (un_combine o r) = tab_unary o r.
Proof. intros o r. destruct r as [v|e]; [|destruct o; reflexivity]. destruct o; try reflexivity; destruct v; reflexivity. Qed.
Theorem bin_combine_is_the_table : forall o rl rr, Some (bin_combine o rl rr) = tab_binary o rl rr.
Proof.
  intros o rl rr. destruct rl as [lv|el].
  - destruct rr as [rv|er].
    + destruct o; try (match goal with |- Some (bin_combine ?o (Ok ?l) (Ok ?r)) = _ => change (Some (binop o l r) = tab_inner o l (Ok r)); apply binop_is_the_table end); cbn; unfold boolean_fn, Generic.boolr; destruct (as_bool lv); reflexivity.
    + destruct o; destruct er; try reflexivity; cbn; unfold boolean_fn, Generic.boolr; destruct (as_bool lv); reflexivity.
  - destruct el; destruct o; try reflexivity; destruct rr as [rv|[]]; reflexivity.
Qed.
Theorem helpers_as_modelled : gen_helpers_as_modelled = true /\ gen_ternary_as_modelled = true /\ gen_boolean_as_modelled = true /\ gen_get_values_as_modelled = true /\ gen_cmp_falls_back_on_ordinal = true.
Proof. repeat split; reflexivity. Qed.
