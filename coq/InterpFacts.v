(* C03/C04/C11: the operator dispatch of the model is the reading of the arms of fn unary / fn binary regenerated from interpreter.rs (Gen/GenEvalArms.v), over the value operations of InterpOps.v *)
From Flocq Require Import Core BinarySingleNaN.
Require Import ZArith NArith Bool List Arith Lia. Import ListNotations.
Require Import F64 Dec Types Generic Lang InterpTypes InterpRead GenValueOps InterpOps GenEvalArms.

Definition boolean_fn (full:bool) (lv:value) (rr:res value) : res value := if Bool.eqb (as_bool lv) full then boolr rr else Ok (VBool (as_bool lv)).
Definition inner_sem (a:gact) (o:op) (lv:value) (rr:res value) : option (res value) :=
  let with_right (f:value -> option (res value)) := match rr with Ok rv => f rv | Er _ => None end in
  let cmpb (f:comparison -> bool) := with_right (fun rv => Some (Ok (VBool (f (vcmp lv rv))))) in
  match a with
  | GAdd => with_right (value_op Plus lv) | GSub => with_right (value_op Minus lv) | GMul => with_right (value_op Multiply lv) | GDivide => with_right (value_op Divide lv)
  | GDivInt => with_right (value_op Div lv) | GRem => with_right (value_op Mod lv) | GXor => with_right (value_op Xor lv)
  | GGt => cmpb (fun c => match c with Gt => true | _ => false end) | GGe => cmpb (fun c => match c with Lt => false | _ => true end)
  | GLt => cmpb (fun c => match c with Lt => true | _ => false end) | GLe => cmpb (fun c => match c with Gt => false | _ => true end)
  | GEq => with_right (fun rv => Some (Ok (VBool (veq lv rv)))) | GNe => with_right (fun rv => Some (Ok (VBool (negb (veq lv rv)))))
  | GLeftEmpty => Some (Ok (VBool (is_empty lv))) | GLeftNotEmpty => Some (Ok (VBool (negb (is_empty lv))))
  | GErrRight => match rr with Er e => Some (Er e) | Ok _ => None end
  | GInvalid => Some (Er (InvalidBinary o))
  | _ => None end.
Definition tab_inner (o:op) (lv:value) (rr:res value) : option (res value) :=
  match first_arm gen_binary_inner o rr with Some a => inner_sem a o lv rr | None => None end.
Definition undef_left_sem (neg:bool) (rr:res value) : res value :=
  match rr with Ok rv => Ok (VBool (if neg then negb (is_empty rv) else is_empty rv)) | Er (Undefined _) => Ok (VBool (negb neg)) | Er e => Er e end.
Definition tab_binary (o:op) (rl rr:res value) : option (res value) :=
  match first_arm gen_binary_outer o rl, rl with
  | Some GAndFull, Ok lv => if gen_boolean_as_modelled then Some (boolean_fn true lv rr) else None
  | Some GOrFull, Ok lv => if gen_boolean_as_modelled then Some (boolean_fn false lv rr) else None
  | Some GOrOfRight, _ => if gen_boolean_as_modelled then Some (boolean_fn false (VBool false) rr) else None
  | Some GConstFalse, _ => Some (Ok (VBool false))
  | Some GStrict, Ok lv => tab_inner o lv rr
  | Some GEqUndefLeft, _ => Some (undef_left_sem false rr)
  | Some GNeUndefLeft, _ => Some (undef_left_sem true rr)
  | Some GErrLeft, Er e => Some (Er e)
  | _, _ => None end.
Definition tab_unary (o:op) (r:res value) : option (res value) :=
  match first_arm gen_unary_arms o r, r with
  | Some GNeg, Ok v => value_neg v
  | Some GNot, Ok v => if gen_value_not_is_not_as_bool then Some (Ok (VBool (negb (as_bool v)))) else None
  | Some GErrOperand, Er e => Some (Er e)
  | Some GInvalidU, _ => Some (Er (InvalidUnary o))
  | _, _ => None end.

(* ---- the hand-written model IS the reading of the tables regenerated from the source ---- *)
Theorem binop_is_the_table : forall o lv rv, Some (binop o lv rv) = tab_inner o lv (Ok rv).
Proof. intros o lv rv. destruct o; try reflexivity; destruct lv, rv; reflexivity. Qed.
Theorem un_combine_is_the_table : forall o r, Some (un_combine o r) = tab_unary o r.
Proof. intros o r. destruct r as [v|e]; [|destruct o; reflexivity]. destruct o; try reflexivity; destruct v; reflexivity. Qed.
Theorem bin_combine_is_the_table : forall o rl rr, Some (bin_combine o rl rr) = tab_binary o rl rr.
Proof.
  intros o rl rr. destruct rl as [lv|el].
  - destruct rr as [rv|er].
    + destruct o; try (match goal with |- Some (bin_combine ?o (Ok ?l) (Ok ?r)) = _ => change (Some (binop o l r) = tab_inner o l (Ok r)); apply binop_is_the_table end); cbn; unfold boolean_fn, Generic.boolr; destruct (as_bool lv); reflexivity.
    + destruct o; destruct er; try reflexivity; cbn; unfold boolean_fn, Generic.boolr; destruct (as_bool lv); reflexivity.
  - destruct el; destruct o; try reflexivity; destruct rr as [rv|[]]; reflexivity.
Qed.
Theorem helpers_as_modelled : gen_helpers_as_modelled = true /\ gen_ternary_as_modelled = true /\ gen_boolean_as_modelled = true /\ gen_get_values_as_modelled = true.
Proof. repeat split; reflexivity. Qed.
