(* facts about the case tables regenerated from the toolchain (Gen/GenUnicode.v): finite sweeps over the tables, lifted to every text *)
Require Import ZArith NArith Bool List Arith Lia. Import ListNotations.
Require Import F64 Dec Types Generic Lang GenUnicode CaseModel Builtins Env.

Lemma assoc_sorted_in c l v : assoc_sorted c l = Some v -> In (c, v) l.
Proof.
  induction l as [|[k w] t IH]; cbn [assoc_sorted]; [discriminate|]. destruct (c <? k)%N; [discriminate|]. destruct (c =? k)%N eqn:E.
  - intros H. injection H as <-. apply N.eqb_eq in E. subst k. left. reflexivity.
  - intros H. right. apply IH, H.
Qed.
Definition stable_entry (kv : N * list N) : bool := leqb (flat_map u_lower (snd kv)) (snd kv).
Lemma lower_tab_stable : forallb stable_entry lower_tab = true.
Proof. vm_compute. reflexivity. Qed.
Lemma u_lower_idem c : flat_map u_lower (u_lower c) = u_lower c.
Proof.
  unfold u_lower at 2 3. destruct (assoc_sorted c lower_tab) as [v|] eqn:E.
  - apply assoc_sorted_in in E. pose proof (proj1 (forallb_forall _ _) lower_tab_stable _ E) as S. unfold stable_entry in S. cbn [snd] in S. apply leqb_eq in S. exact S.
  - cbn [flat_map]. rewrite app_nil_r. unfold u_lower. rewrite E. reflexivity.
Qed.
(* lower-casing never produces a capital sigma, and a text without one is lower-cased character by character *)
Definition no_sigma (s:list N) : bool := forallb (fun c => negb (c =? 931)%N) s.
Lemma lower_tab_no_sigma : forallb (fun kv : N * list N => no_sigma (snd kv)) lower_tab = true.
Proof. vm_compute. reflexivity. Qed.
Lemma u_lower_no_sigma c : (c =? 931)%N = false -> no_sigma (u_lower c) = true.
Proof.
  intros Hc. unfold u_lower. destruct (assoc_sorted c lower_tab) as [v|] eqn:E.
  - apply assoc_sorted_in in E. exact (proj1 (forallb_forall _ _) lower_tab_no_sigma _ E).
  - cbn. rewrite Hc. reflexivity.
Qed.
Lemma no_sigma_app a b : no_sigma (a ++ b) = no_sigma a && no_sigma b.
Proof. apply forallb_app. Qed.
Lemma lower_ctx_no_sigma b s : no_sigma (lower_ctx b s) = true.
Proof.
  revert b; induction s as [|c r IH]; intros b; [reflexivity|]. cbn [lower_ctx]. rewrite no_sigma_app, IH, andb_true_r.
  destruct (c =? 931)%N eqn:E; [destruct (first_cased b && negb (first_cased r)); reflexivity | apply u_lower_no_sigma, E].
Qed.
Lemma lower_ctx_plain b s : no_sigma s = true -> lower_ctx b s = flat_map u_lower s.
Proof.
  revert b; induction s as [|c r IH]; intros b H; [reflexivity|]. cbn [no_sigma forallb] in H. apply andb_prop in H as [Hc Hr]. apply negb_true_iff in Hc.
  cbn [lower_ctx flat_map]. rewrite Hc. f_equal. apply IH, Hr.
Qed.
Lemma sigma_fix : u_lower 962 = [962%N] /\ u_lower 963 = [963%N].
Proof. split; vm_compute; reflexivity. Qed.
Lemma lower_ctx_fixed b s : flat_map u_lower (lower_ctx b s) = lower_ctx b s.
Proof.
  revert b; induction s as [|c r IH]; intros b; [reflexivity|]. cbn [lower_ctx]. rewrite flat_map_app, IH. f_equal.
  destruct (c =? 931)%N; [|apply u_lower_idem]. destruct sigma_fix as [F1 F2].
  destruct (first_cased b && negb (first_cased r)); cbn [flat_map]; rewrite ?F1, ?F2; reflexivity.
Qed.
(* lower-casing is idempotent on every text (final-sigma rule included): the key of a key is the key itself *)
Theorem lower_str_idem s : lower_str (lower_str s) = lower_str s.
Proof. unfold lower_str. rewrite (lower_ctx_plain [] (lower_ctx [] s)) by apply lower_ctx_no_sigma. apply lower_ctx_fixed. Qed.
Theorem fold_name_idem n : fold_name (fold_name n) = fold_name n.
Proof. apply lower_str_idem. Qed.
(* on ASCII the tables are the ASCII rule *)
Fixpoint nrange (lo:N) (k:nat) : list N := match k with O => [] | S k' => lo :: nrange (lo + 1)%N k' end.
Lemma nrange_in lo k c : (lo <= c < lo + N.of_nat k)%N -> In c (nrange lo k).
Proof. revert lo; induction k as [|k IH]; intros lo H; [lia|]. cbn [nrange]. destruct (N.eq_dec lo c); [left; assumption|right; apply IH; lia]. Qed.
Lemma ascii_sweep : forallb (fun c => leqb (u_lower c) [lower_ascii c] && leqb (u_upper c) [upper_ascii c]) (nrange 0 128) = true.
Proof. vm_compute. reflexivity. Qed.
Theorem ascii_case c : (c < 128)%N -> u_lower c = [lower_ascii c] /\ u_upper c = [upper_ascii c].
Proof.
  intros H. pose proof (proj1 (forallb_forall _ _) ascii_sweep c (nrange_in 0 128 c ltac:(lia))) as S. cbv beta in S.
  apply andb_prop in S as [A B]. apply leqb_eq in A. apply leqb_eq in B. split; assumption.
Qed.
(* same_text is an equivalence on the texts the model covers (it compares lower-cased texts) *)
Definition same_text_m (a b:list N) : bool := leqb (lower_str a) (lower_str b).
Theorem same_text_equiv : (forall a, same_text_m a a = true) /\ (forall a b, same_text_m a b = same_text_m b a) /\ (forall a b c, same_text_m a b = true -> same_text_m b c = true -> same_text_m a c = true).
Proof.
  unfold same_text_m. split; [|split].
  - intros a. apply leqb_refl.
  - intros a b. destruct (leqb (lower_str a) (lower_str b)) eqn:E; destruct (leqb (lower_str b) (lower_str a)) eqn:F; try reflexivity.
    + apply leqb_eq in E. rewrite E, leqb_refl in F. discriminate.
    + apply leqb_eq in F. rewrite F, leqb_refl in E. discriminate.
  - intros a b c H1 H2. apply leqb_eq in H1. apply leqb_eq in H2. rewrite H1, H2. apply leqb_refl.
Qed.
(* a text and its lower-cased form are the same text; so are the two spellings of a name that differ in letter case only *)
Theorem same_text_lowercase a : same_text_m a (lower_str a) = true.
Proof. unfold same_text_m. rewrite lower_str_idem. apply leqb_refl. Qed.

(* upper-casing is idempotent too (finite sweep over the regenerated table, lifted to every text) *)
Definition stable_upper (kv : N * list N) : bool := leqb (flat_map u_upper (snd kv)) (snd kv).
Lemma upper_tab_stable : forallb stable_upper upper_tab = true.
Proof. vm_compute. reflexivity. Qed.
Lemma u_upper_idem c : flat_map u_upper (u_upper c) = u_upper c.
Proof.
  unfold u_upper at 2 3. destruct (assoc_sorted c upper_tab) as [v|] eqn:E.
  - apply assoc_sorted_in in E. pose proof (proj1 (forallb_forall _ _) upper_tab_stable _ E) as S. unfold stable_upper in S. cbn [snd] in S. apply leqb_eq in S. exact S.
  - cbn [flat_map]. rewrite app_nil_r. unfold u_upper. rewrite E. reflexivity.
Qed.
Theorem upper_str_idem s : upper_str (upper_str s) = upper_str s.
Proof. unfold upper_str. induction s as [|c r IH]; [reflexivity|]. cbn [flat_map]. rewrite flat_map_app, IH, u_upper_idem. reflexivity. Qed.
