(* Extraction of the executable model. ExtrOcamlBasic only: no further Extract Constant / Extract Inductive. *)
Require Import F64 Dec Types Generic Lang Opt IO GenUnicode Front Builtins Time Json Env Regex RegexExpand StdEnv.
Require Extraction. Require Import ExtrOcamlBasic.
Extraction Language OCaml.
Extraction "model.ml" run_case run_opt num_of_digits digits_of_num Front.compile Front.scan_raw Front.conv_tok call_builtin call_time Lang.vcmp Lang.veq roundtrip run_ops empty_env to_bits of_bits GenUnicode.u_alpha GenUnicode.u_num GenUnicode.u_lower GenUnicode.u_upper GenUnicode.u_cased GenUnicode.u_ignorable re_is_match re_find re_capture re_replace re_replace_x run_script eval_static unmodelled_mark has_nullable_loop Builtins.usize_from.
