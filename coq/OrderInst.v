From Flocq Require Import Core BinarySingleNaN.
Require Import ZArith Reals Lia Lra List NArith. Import ListNotations.
Require Import F64 Dec Types Order.
Open Scope R_scope.
Definition nan (x : f64) := fcmp x x = None.
Definition BIG := bpow radix2 emax.
Definition emb (x : f64) : R := match x with B754_infinity false => BIG | B754_infinity true => - BIG | _ => @B2R prec emax x end.
Lemma fin_lt (x:f64) : is_finite x = true -> - BIG < B2R x < BIG.
Proof. intros H. pose proof (abs_B2R_lt_emax prec emax x) as A. unfold BIG. apply Rabs_def2 in A. lra. Qed.
Lemma BIG_pos : 0 < BIG. Proof. apply bpow_gt_0. Qed.
Lemma nan_iff (x:f64) : nan x <-> x = B754_nan.
Proof. unfold nan, fcmp, Bcompare. destruct x as [s|s| |s m e B]; simpl; split; intros H; try discriminate; auto; destruct s; discriminate. Qed.
Lemma fcmp_emb (x y:f64) : x <> B754_nan -> y <> B754_nan -> fcmp x y = Some (Rcompare (emb x) (emb y)).
Proof.
  intros Hx Hy. pose proof BIG_pos as BP.
  destruct (is_finite x) eqn:Fx, (is_finite y) eqn:Fy.
  - unfold fcmp. rewrite (Bcompare_correct prec emax x y Fx Fy). f_equal.
    destruct x as [?|[]| |], y as [?|[]| |]; try discriminate; reflexivity.
  - destruct y as [?|sy| |]; try discriminate; [|congruence]. pose proof (fin_lt x Fx) as L.
    assert (E : emb x = B2R x) by (destruct x as [?|[]| |]; try discriminate; reflexivity). rewrite E.
    destruct sy; simpl emb.
    + rewrite Rcompare_Gt by lra. destruct x as [?|[]| |[]]; try discriminate; reflexivity.
    + rewrite Rcompare_Lt by lra. destruct x as [?|[]| |[]]; try discriminate; reflexivity.
  - destruct x as [?|sx| |]; try discriminate; [|congruence]. pose proof (fin_lt y Fy) as L.
    assert (E : emb y = B2R y) by (destruct y as [?|[]| |]; try discriminate; reflexivity). rewrite E.
    destruct sx; simpl emb.
    + rewrite Rcompare_Lt by lra. destruct y as [?|[]| |[]]; try discriminate; reflexivity.
    + rewrite Rcompare_Gt by lra. destruct y as [?|[]| |[]]; try discriminate; reflexivity.
  - destruct x as [?|sx| |]; try discriminate; [|congruence]. destruct y as [?|sy| |]; try discriminate; [|congruence].
    destruct sx, sy; simpl emb; unfold fcmp, Bcompare; simpl; f_equal; symmetry.
    + apply Rcompare_Eq; reflexivity. + apply Rcompare_Lt; lra. + apply Rcompare_Gt; lra. + apply Rcompare_Eq; reflexivity.
Qed.

Theorem fcmp_swap (x y:f64) : fcmp y x = option_map CompOpp (fcmp x y).
Proof. unfold fcmp. rewrite Bcompare_swap. destruct (Bcompare x y); reflexivity. Qed.
Theorem fcmp_none (x y:f64) : fcmp x y = None <-> nan x \/ nan y.
Proof.
  rewrite !nan_iff. split.
  - intros H. destruct x as [?|?| |]; auto; destruct y as [?|?| |]; auto; unfold fcmp, Bcompare in H; simpl in H; try discriminate; destruct s; try destruct s0; discriminate.
  - intros [->| ->]; unfold fcmp, Bcompare; simpl; auto. destruct x as [?|?| |]; reflexivity.
Qed.
Ltac use_emb x y := rewrite (fcmp_emb x y) in * by (rewrite <- nan_iff; assumption).
Theorem fcmp_refl (x:f64) : ~ nan x -> fcmp x x = Some Eq.
Proof. intros H. rewrite nan_iff in H. rewrite (fcmp_emb x x H H). f_equal. apply Rcompare_Eq; reflexivity. Qed.
Lemma not_nan_of (x y:f64) r : fcmp x y = Some r -> x <> B754_nan /\ y <> B754_nan.
Proof. intros H. split; intros ->; unfold fcmp, Bcompare in H; simpl in H; try discriminate. destruct x as [?|?| |]; discriminate. Qed.
Theorem fcmp_eq_l (x y z:f64) r : fcmp x y = Some Eq -> fcmp y z = Some r -> fcmp x z = Some r.
Proof.
  intros A B. destruct (not_nan_of _ _ _ A) as [Nx Ny]. destruct (not_nan_of _ _ _ B) as [_ Nz].
  rewrite (fcmp_emb x y Nx Ny) in A. rewrite (fcmp_emb y z Ny Nz) in B. rewrite (fcmp_emb x z Nx Nz).
  injection A as A. injection B as B. apply Rcompare_Eq_inv in A. rewrite A. f_equal. exact B.
Qed.
Theorem fcmp_eq_r (x y z:f64) r : fcmp x y = Some r -> fcmp y z = Some Eq -> fcmp x z = Some r.
Proof.
  intros A B. destruct (not_nan_of _ _ _ A) as [Nx Ny]. destruct (not_nan_of _ _ _ B) as [_ Nz].
  rewrite (fcmp_emb x y Nx Ny) in A. rewrite (fcmp_emb y z Ny Nz) in B. rewrite (fcmp_emb x z Nx Nz).
  injection A as A. injection B as B. apply Rcompare_Eq_inv in B. rewrite <- B. f_equal. exact A.
Qed.
Theorem fcmp_lt (x y z:f64) : fcmp x y = Some Lt -> fcmp y z = Some Lt -> fcmp x z = Some Lt.
Proof.
  intros A B. destruct (not_nan_of _ _ _ A) as [Nx Ny]. destruct (not_nan_of _ _ _ B) as [_ Nz].
  rewrite (fcmp_emb x y Nx Ny) in A. rewrite (fcmp_emb y z Ny Nz) in B. rewrite (fcmp_emb x z Nx Nz).
  injection A as A. injection B as B. apply Rcompare_Lt_inv in A. apply Rcompare_Lt_inv in B. f_equal. apply Rcompare_Lt. lra.
Qed.


(* ---- byte-wise string order ---- *)
Close Scope R_scope.
Fixpoint scmp (a b:list N) : comparison := match a, b with [], [] => Eq | [], _ => Lt | _, [] => Gt | x::a', y::b' => match N.compare x y with Eq => scmp a' b' | c => c end end.
Lemma scmp_swap x y : scmp y x = CompOpp (scmp x y).
Proof. revert y. induction x as [|a x IH]; destruct y as [|b y]; simpl; auto. rewrite (N.compare_antisym a b). destruct (N.compare a b); simpl; auto. Qed.
Lemma scmp_refl x : scmp x x = Eq. Proof. induction x; simpl; auto. rewrite N.compare_refl. auto. Qed.
Lemma scmp_eq x y : scmp x y = Eq -> x = y.
Proof. revert y. induction x as [|a x IH]; destruct y as [|b y]; simpl; intros H; try discriminate; auto. destruct (N.compare a b) eqn:E; try discriminate. apply N.compare_eq in E. subst. f_equal. auto. Qed.
Lemma scmp_eq_l x y z r : scmp x y = Eq -> scmp y z = r -> scmp x z = r. Proof. intros H. apply scmp_eq in H. subst. auto. Qed.
Lemma scmp_eq_r x y z r : scmp x y = r -> scmp y z = Eq -> scmp x z = r. Proof. intros H1 H. apply scmp_eq in H. subst. auto. Qed.
Lemma scmp_lt x y z : scmp x y = Lt -> scmp y z = Lt -> scmp x z = Lt.
Proof.
  revert y z. induction x as [|a x IH]; intros y z; destruct y as [|b y]; destruct z as [|c z]; simpl; try discriminate; auto.
  destruct (N.compare a b) eqn:E1; try discriminate; destruct (N.compare b c) eqn:E2; try discriminate; intros H1 H2.
  - apply N.compare_eq in E1. apply N.compare_eq in E2. subst. rewrite N.compare_refl. eauto.
  - apply N.compare_eq in E1. subst. rewrite E2. reflexivity.
  - apply N.compare_eq in E2. subst. rewrite E1. reflexivity.
  - rewrite N.compare_lt_iff in *. assert (L : (a < c)%N) by lia. apply N.compare_lt_iff in L. rewrite L. reflexivity.
Qed.
(* ---- the concrete order and its laws ---- *)
Definition vcmp := Order.vcmp fcmp scmp parse_f64.
Definition vle a b := vcmp a b <> Gt.
Theorem C13_antisym : forall a b, vcmp b a = CompOpp (vcmp a b).
Proof. intros. apply (@Order.vcmp_antisym fcmp scmp parse_f64 fcmp_swap scmp_swap). Qed.
Theorem C13_trans : forall a b c, Order.tame3 fcmp parse_f64 a b c -> vle a b -> vle b c -> vle a c.
Proof. intros a b c. apply (@Order.C13_trans fcmp scmp parse_f64 fcmp_none fcmp_eq_l fcmp_eq_r fcmp_lt scmp_eq_l scmp_eq_r scmp_lt). Qed.
Print Assumptions C13_trans.
