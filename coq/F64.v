From Flocq Require Import Core BinarySingleNaN.
Require Import ZArith Bool List. Import ListNotations.
Open Scope Z_scope.
Definition prec := 53. Definition emax := 1024.
#[export] Instance Hprec : Prec_gt_0 prec. Proof. reflexivity. Qed.
#[export] Instance Hmax : Prec_lt_emax prec emax. Proof. reflexivity. Qed.
Notation f64 := (binary_float prec emax).
Definition of_mant (s:bool) (m e:Z) : f64 := binary_normalize prec emax _ _ mode_NE (if s then - m else m) e s.
(* IEEE bit pattern <-> value *)
Definition of_bits (b:Z) : f64 :=
  let s := Z.testbit b 63 in let ex := Z.land (Z.shiftr b 52) 2047 in let fr := Z.land b (2^52 - 1) in
  if ex =? 2047 then (if fr =? 0 then B754_infinity s else B754_nan)
  else if ex =? 0 then (if fr =? 0 then B754_zero s else of_mant s fr (-1074))
  else of_mant s (fr + 2^52) (ex - 1075).
Definition to_bits (x:f64) : Z :=
  let sb (s:bool) := if s then 2^63 else 0 in
  match x with
  | B754_zero s => sb s
  | B754_infinity s => sb s + 2047 * 2^52
  | B754_nan => 2047 * 2^52 + 2^51
  | B754_finite s m e _ =>
      (* canonical: either e = -1074 (subnormal or smallest binade) or m has 53 bits *)
      if Z.pos m <? 2^52 then sb s + Z.pos m else sb s + (e + 1075) * 2^52 + (Z.pos m - 2^52)
  end.
Definition fadd : f64 -> f64 -> f64 := Bplus mode_NE.
Definition fsub : f64 -> f64 -> f64 := Bminus mode_NE.
Definition fmul : f64 -> f64 -> f64 := Bmult mode_NE.
Definition fdiv : f64 -> f64 -> f64 := Bdiv mode_NE.
Definition fneg : f64 -> f64 := Bopp.
Definition fabs : f64 -> f64 := Babs.
Definition ftrunc : f64 -> f64 := Bnearbyint mode_ZR.
Definition ffloor : f64 -> f64 := Bnearbyint mode_DN.
Definition fround : f64 -> f64 := Bnearbyint mode_NA.
Definition ffract (x:f64) : f64 := fsub x (ftrunc x).
Definition fsqrt : f64 -> f64 := Bsqrt mode_NE.
Definition fcmp : f64 -> f64 -> option comparison := Bcompare.
Definition feq (x y:f64) : bool := match fcmp x y with Some Eq => true | _ => false end.
Definition of_int (z:Z) : f64 := binary_normalize prec emax _ _ mode_NE z 0 false.
(* Rust `%` on f64 = C fmod: exact, sign of the dividend *)
Definition frem (x y:f64) : f64 :=
  match x, y with
  | B754_nan, _ | _, B754_nan => B754_nan
  | B754_infinity _, _ => B754_nan
  | _, B754_zero _ => B754_nan
  | B754_zero s, _ => B754_zero s
  | B754_finite _ _ _ _, B754_infinity _ => x
  | B754_finite sx mx ex _, B754_finite _ my ey _ =>
      let e := Z.min ex ey in
      let X := Z.pos mx * 2 ^ (ex - e) in let Y := Z.pos my * 2 ^ (ey - e) in
      let R := Z.rem X Y in
      binary_normalize prec emax _ _ mode_NE (if sx then - R else R) e sx
  end.
(* saturating casts, NaN -> 0 *)
Definition clamp lo hi z := Z.max lo (Z.min hi z).
Definition to_int_sat (lo hi:Z) (x:f64) : Z :=
  match x with B754_nan => 0 | B754_infinity s => if s then lo else hi | _ => clamp lo hi (Btrunc x) end.
Definition to_i64 := to_int_sat (- 2^63) (2^63 - 1).
Definition to_i32 := to_int_sat (- 2^31) (2^31 - 1).
Definition to_u32 := to_int_sat 0 (2^32 - 1).
Definition to_usize := to_int_sat 0 (2^64 - 1).
Definition to_u8 := to_int_sat 0 255.

(* tests: expected bit patterns computed with rustc *)
Definition b (z:Z) := of_bits z.
Definition t2 (f:f64->f64->f64) x y := to_bits (f (b x) (b y)).
Definition t1 (f:f64->f64) x := to_bits (f (b x)).
