(* bounded memory, at model level: what the text builtins return is bounded by a polynomial in the sizes of their arguments - no builtin can blow a small input up without bound *)
Require Import ZArith NArith Bool List Arith Lia. Import ListNotations.
Require Import F64 Dec Types Generic Lang Builtins SeqLaws.

Lemma flat_map_len {A} (t:list A) (s:list A) : length (flat_map (fun c => c :: t) s) = (length s * S (length t))%nat.
Proof. induction s as [|c r IH]; [reflexivity|]. cbn [flat_map length]. rewrite app_length, IH. cbn [length]. lia. Qed.
Theorem replace_len : forall f n t s, (length (replace_sub f n t s) <= length s + S (length s) * length t)%nat.
Proof.
  induction f as [|f IH]; intros n t s; cbn [replace_sub]; [lia|]. destruct n as [|a n'].
  - rewrite app_length, flat_map_len. lia.
  - set (n := a :: n') in *. destruct (is_prefix n s) eqn:P.
    + rewrite app_length. specialize (IH n t (skipn (length n) s)). pose proof (skipn_shrinks n s ltac:(discriminate) P) as L. nia.
    + destruct s as [|c r]; [cbn; lia|]. cbn [length]. specialize (IH n t r). nia.
Qed.
Theorem count_len : forall f n s, (count_sub f n s <= S (length s))%nat.
Proof.
  induction f as [|f IH]; intros n s; cbn [count_sub]; [lia|]. destruct n as [|a n']; [lia|]. set (n := a :: n') in *.
  destruct (is_prefix n s) eqn:P.
  - specialize (IH n (skipn (length n) s)). pose proof (skipn_shrinks n s ltac:(discriminate) P). lia.
  - destruct s as [|c r]; [lia|]. specialize (IH n r). cbn [length]. lia.
Qed.
Theorem split_pieces : forall s sep, (length (split_str s sep) <= length s + 2)%nat.
Proof.
  intros s sep. destruct sep as [|a sep'].
  - unfold split_str. cbn [length]. rewrite app_length, map_length. cbn. lia.
  - rewrite count_is_cuts by discriminate. pose proof (count_len (S (length s)) (a :: sep') s). lia.
Qed.
Theorem split_total_size : forall s sep, sep <> [] -> (length (concat (split_str s sep)) <= length s)%nat.
Proof.
  intros s sep H. pose proof (split_join s sep H) as J. rewrite <- J at 2. generalize (split_str s sep). intros l.
  induction l as [|x r IH]; [cbn; lia|]. destruct r as [|y r']; [cbn; rewrite app_nil_r; lia|].
  change (join sep (x :: y :: r')) with (x ++ sep ++ join sep (y :: r')). cbn [concat] in *. rewrite !app_length in *. lia.
Qed.
Theorem uniq_len : forall kept l, (length (uniq kept l) <= length l)%nat.
Proof. intros kept l; revert kept; induction l as [|x r IH]; intros kept; cbn; [lia|]. destruct (existsb _ kept); [specialize (IH kept) | specialize (IH (kept ++ [x])); cbn]; lia. Qed.
