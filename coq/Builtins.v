(* models of the collection / string / conversion / maths builtins (repaired code, offset = 1 or 0) *)
From Flocq Require Import Core BinarySingleNaN.
Require Import ZArith NArith Bool List Arith. Import ListNotations.
Require Import F64 Dec Types Generic Lang GenUnicode CaseModel Show.
Inductive bres := BOk (v:value) | BErr (e:nerr) | BUnmodelled.
Section B.
Variable offset : nat.            (* STRING_OFFSET: 1 by default, 0 with zero_based_strings *)
Definition smart_vec (ps:list value) : list value := match ps with [VArr v] => v | _ => ps end.
Definition vnat (k:nat) : value := VNum (of_int (Z.of_nat k)).
Definition vz (k:Z) : value := VNum (of_int k).
(* index helpers *)
Definition ge0 (x:f64) : bool := match fcmp x (of_int 0) with Some Lt | None => false | _ => true end.
(* indices stay in Z: a data-dependent nat would be unary and overflow the stack *)
Definition get_index (x:f64) : Z + nerr := if ge0 x then inl (to_usize x) else inr IndexNegative.
Definition get_string_index (x:f64) : Z + nerr :=
  match get_index x with inl i => if (i <? Z.of_nat offset)%Z then inr (IndexOutOfBounds (Z.to_N i)) else inl (i - Z.of_nat offset)%Z | inr e => inr e end.
Definition usize_from (x:f64) : Z := to_usize (ffloor x).
Definition clampn {A} (k:Z) (l:list A) : nat := Z.to_nat (Z.min k (Z.of_nat (length l))).
Definition nth_z {A} (l:list A) (k:Z) : option A := if (k <? Z.of_nat (length l))%Z then nth_error l (Z.to_nat k) else None.
(* sequences *)
Fixpoint is_prefix (n s:list N) : bool := match n, s with [], _ => true | _, [] => false | a::n', b::s' => (a =? b)%N && is_prefix n' s' end.
Fixpoint find_sub (n s:list N) : option nat := if is_prefix n s then Some 0%nat else match s with [] => None | _ :: r => option_map S (find_sub n r) end.
Fixpoint count_sub (fuel:nat) (n s:list N) : nat :=
  match fuel with O => 0%nat | S f =>
    match n with
    | [] => S (length s)
    | _ => if is_prefix n s then S (count_sub f n (skipn (length n) s)) else match s with [] => 0%nat | _ :: r => count_sub f n r end end end.
Fixpoint replace_sub (fuel:nat) (n t s:list N) : list N :=
  match fuel with O => s | S f =>
    match n with
    | [] => t ++ flat_map (fun c => c :: t) s
    | _ => if is_prefix n s then t ++ replace_sub f n t (skipn (length n) s) else match s with [] => [] | c :: r => c :: replace_sub f n t r end end end.
Fixpoint split_sub (fuel:nat) (sep cur s:list N) : list (list N) :=
  match fuel with O => [rev cur ++ s] | S f =>
    if is_prefix sep s then rev cur :: split_sub f sep [] (skipn (length sep) s)
    else match s with [] => [rev cur] | c :: r => split_sub f sep (c :: cur) r end end.
Definition split_str (s sep:list N) : list (list N) :=
  match sep with [] => [] :: map (fun c => [c]) s ++ [[]] | _ => split_sub (S (length s)) sep [] s end.
Definition is_white (c:N) : bool := ((9 <=? c) && (c <=? 13) || (c =? 32) || (c =? 133) || (c =? 160) || (c =? 5760) || ((8192 <=? c) && (c <=? 8202)) || (c =? 8232) || (c =? 8233) || (c =? 8239) || (c =? 8287) || (c =? 12288))%N.
Fixpoint drop_white (s:list N) := match s with c :: r => if is_white c then drop_white r else s | [] => [] end.
Definition trim_l s := drop_white s. Definition trim_r s := rev (drop_white (rev s)). Definition trim_b s := trim_r (trim_l s).
Definition all_ascii (s:list N) := forallb (fun c => (c <? 128)%N) s.
(* letter case: CaseModel.v (per-character tables and the final-sigma rule) *)
Definition upper_ascii (c:N) : N := if (97 <=? c)%N && (c <=? 122)%N then (c - 32)%N else c.
Fixpoint parse_csv (line:list N) (sep:N) (field:list N) (inq:bool) : list (list N) :=
  match line with [] => [rev field]
  | c :: r => if (c =? sep)%N && negb inq then rev field :: parse_csv r sep [] inq
              else if (c =? 34)%N then parse_csv r sep field (negb inq) else parse_csv r sep (c :: field) inq end.
(* ordering consumers *)
Definition vle a b := match vcmp a b with Gt => false | _ => true end.
Fixpoint insert_sorted (x:value) (l:list value) : list value := match l with [] => [x] | y :: t => if vle y x then y :: insert_sorted x t else x :: l end.
Definition sort_stable (l:list value) : list value := fold_left (fun acc x => insert_sorted x acc) l [].
Definition vmax (l:list value) : option value := match l with [] => None | x :: t => Some (fold_left (fun acc y => match vcmp acc y with Gt => acc | _ => y end) t x) end.
Definition vmin (l:list value) : option value := match l with [] => None | x :: t => Some (fold_left (fun acc y => match vcmp acc y with Gt => y | _ => acc end) t x) end.
Fixpoint uniq (kept l:list value) : list value := match l with [] => [] | x :: r => if existsb (fun k => veq x k) kept then uniq kept r else x :: uniq (kept ++ [x]) r end.
(* hex of a non-negative integer *)
Definition hexdigit (d:Z) : N := if (d <? 10)%Z then Z.to_N (48 + d) else Z.to_N (55 + d).
Fixpoint hex_aux (fuel:nat) (z:Z) (acc:list N) : list N := match fuel with O => acc | S f => if (z <? 16)%Z then hexdigit z :: acc else hex_aux f (z / 16) (hexdigit (z mod 16) :: acc) end.
Definition to_hex (z:Z) : list N := hex_aux 20%nat z [].
Definition str_true : list N := [116;114;117;101]%N. Definition str_false : list N := [102;97;108;115;101]%N.
Definition vstrs (l:list (list N)) : value := VArr (map VStr l).
Definition name_is (n:list N) (s:list N) := leqb n s.
Definition A (s:list Z) : list N := map Z.to_N s.

Definition call_builtin (name:list N) (ps:list value) : bres :=
  let is s := leqb name (A s) in
  let cnt k := BErr (WrongParameterCount k) in
  let ty := BErr WrongParameterType in
  (* all *) if is [97;108;108] then BOk (VBool (forallb (fun v => veq v (VBool true)) (smart_vec ps)))
  (* any *) else if is [97;110;121] then BOk (VBool (existsb (fun v => veq v (VBool true)) (smart_vec ps)))
  (* at *) else if is [97;116] then
    match ps with
    | [VStr s; VNum i] => match get_string_index i with inr e => BErr e | inl k => match nth_z s k with Some c => BOk (VStr [c]) | None => BErr (IndexOutOfBounds (Z.to_N k)) end end
    | [VArr l; VNum i] => match get_index i with inr e => BErr e | inl k => match nth_z l k with Some v => BOk v | None => BErr (IndexOutOfBounds (Z.to_N k)) end end
    | [_; _] => ty | _ => cnt 2%N end
  (* between *) else if is [98;101;116;119;101;101;110] then
    match ps with [v; lo; hi] => BOk (VBool (vle lo v && vle v hi)) | _ => cnt 3%N end
  (* bool *) else if is [98;111;111;108] then match ps with [v] => BOk (VBool (as_bool v)) | _ => cnt 1%N end
  (* contains *) else if is [99;111;110;116;97;105;110;115] then
    match ps with
    | [VStr h; VStr n] => BOk (VBool (match find_sub n h with Some _ => true | None => false end))
    | [VArr h; n] => BOk (VBool (existsb (fun v => veq v n) h))
    | [_; _] => ty | _ => cnt 2%N end
  (* compare *) else if is [99;111;109;112;97;114;101] then
    match ps with [l; r] => BOk (vz (match vcmp l r with Lt => -1 | Eq => 0 | Gt => 1 end)%Z) | _ => cnt 2%N end
  (* copy *) else if is [99;111;112;121] then
    match ps with
    | [VStr s; VNum st; VNum c] => match get_string_index st with inr e => BErr e | inl k => let r := skipn (clampn k s) s in BOk (VStr (firstn (clampn (usize_from c) r) r)) end
    | [VArr l; VNum st; VNum c] => match get_index st with inr e => BErr e | inl k => let r := skipn (clampn k l) l in BOk (VArr (firstn (clampn (usize_from c) r) r)) end
    | [_; _; _] => ty | _ => cnt 3%N end
  (* count *) else if is [99;111;117;110;116] then
    match ps with
    | [VArr h; n] => BOk (vnat (length (filter (fun v => veq v n) h)))
    | [VStr h; VStr n] => BOk (vnat (count_sub (S (length h)) n h))
    | [_; _] => ty | _ => cnt 2%N end
  (* empty *) else if is [101;109;112;116;121] then match ps with [v] => BOk (VBool (is_empty v)) | _ => cnt 1%N end
  (* find *) else if is [102;105;110;100] then
    match ps with
    | [VStr h; VStr n] => BOk (match find_sub n h with Some i => vnat (i + offset) | None => vz (-1 + Z.of_nat offset) end)
    | [VArr h; n] => BOk (match (fix pos (l:list value) (i:nat) := match l with [] => None | v :: t => if veq v n then Some i else pos t (S i) end) h 0%nat with Some i => vnat i | None => vz (-1) end)
    | [_; _] => ty | _ => cnt 2%N end
  (* float *) else if is [102;108;111;97;116] then
    match ps with
    | [VBool b] => BOk (VNum (of_bool b)) | [VStr s] => match parse_f64 s with Some f => BOk (VNum f) | None => BErr CustomError end
    | [VNum f] => BOk (VNum f) | [_] => ty | _ => cnt 1%N end
  (* int *) else if is [105;110;116] then
    match ps with
    | [VBool b] => BOk (VNum (ftrunc (of_bool b))) | [VStr s] => match parse_f64 s with Some f => BOk (VNum (ftrunc f)) | None => BErr CustomError end
    | [VNum f] => BOk (VNum (ftrunc f)) | [_] => ty | _ => cnt 1%N end
  (* if_then (called as a function: eager; the short-circuit form is the optimizer's rewrite) *) else if is [105;102;95;116;104;101;110] then
    match ps with
    | VBool c :: first :: rest => BOk (if c then first else match rest with e :: _ => e | [] => empty_of first end)
    | [_; _] => ty | _ => cnt 2%N end
  (* insert *) else if is [105;110;115;101;114;116] then
    match ps with
    | [VStr t; VStr s; VNum i] => match get_string_index i with inr e => BErr e | inl k => if (Z.of_nat (length t) <? k)%Z then BErr (IndexOutOfBounds (Z.to_N k)) else BOk (VStr (firstn (Z.to_nat k) t ++ s ++ skipn (Z.to_nat k) t)) end
    | [VArr l; el; VNum i] => match get_index i with inr e => BErr e | inl k => if (Z.of_nat (length l) <? k)%Z then BErr (IndexOutOfBounds (Z.to_N k)) else BOk (VArr (firstn (Z.to_nat k) l ++ el :: skipn (Z.to_nat k) l)) end
    | [_; _; _] => ty | _ => cnt 3%N end
  (* length *) else if is [108;101;110;103;116;104] then
    match ps with [VStr s] => BOk (vnat (length s)) | [VArr l] => BOk (vnat (length l)) | [_] => BOk (vnat 0%nat) | _ => cnt 1%N end
  (* max *) else if is [109;97;120] then match vmax (smart_vec ps) with Some v => BOk v | None => cnt 1%N end
  (* min *) else if is [109;105;110] then match vmin (smart_vec ps) with Some v => BOk v | None => cnt 1%N end
  (* replace / remove *) else if is [114;101;112;108;97;99;101] || is [114;101;109;111;118;101] then
    match ps with
    | VStr v :: VStr from :: rest =>
        match rest with
        | [] => BOk (VStr (replace_sub (S (length v)) from [] v))
        | VStr t :: _ => BOk (VStr (replace_sub (S (length v)) from t v))
        | _ :: _ => ty end
    | VArr vs :: from :: rest =>
        BOk (VArr (flat_map (fun x => if veq x from then (match rest with t :: _ => [t] | [] => [] end) else [x]) vs))
    | _ :: _ :: _ => ty | _ => cnt 3%N end
  (* reverse *) else if is [114;101;118;101;114;115;101] then
    match ps with [VArr l] => BOk (VArr (rev l)) | [VStr s] => BOk (VStr (rev s)) | [_] => ty | _ => cnt 1%N end
  (* sort *) else if is [115;111;114;116] then match ps with [VArr l] => BOk (VArr (sort_stable l)) | [_] => ty | _ => cnt 1%N end
  (* str *) else if is [115;116;114] then
    match ps with [VBool b] => BOk (VStr (if b then str_true else str_false)) | [VStr s] => BOk (VStr s)
    | [VNum x] => match show_f64 x with Some t => BOk (VStr t) | None => BUnmodelled end | [_] => BUnmodelled | _ => cnt 1%N end
  (* unique *) else if is [117;110;105;113;117;101] then match ps with [VArr l] => BOk (VArr (uniq [] l)) | [_] => ty | _ => cnt 1%N end
  (* chr *) else if is [99;104;114] then
    match ps with
    | [VNum o] => if ge0 o && (match fcmp o (of_int 128) with Some Lt => true | _ => false end) then BOk (VStr [Z.to_N (to_u32 o)]) else BErr CustomError
    | [_] => ty | _ => cnt 1%N end
  (* ord *) else if is [111;114;100] then
    match ps with
    | [VStr [c]] => if (c <? 128)%N then BOk (VNum (of_int (Z.of_N c))) else BErr CustomError
    | [VStr _] => BErr CustomError | [_] => ty | _ => cnt 1%N end
  (* lowercase *) else if is [108;111;119;101;114;99;97;115;101] then
    match ps with [VStr s] => BOk (VStr (lower_str s)) | [_] => ty | _ => cnt 1%N end
  (* uppercase *) else if is [117;112;112;101;114;99;97;115;101] then
    match ps with [VStr s] => BOk (VStr (upper_str s)) | [_] => ty | _ => cnt 1%N end
  (* same_text *) else if is [115;97;109;101;95;116;101;120;116] then
    match ps with [VStr a; VStr b] => BOk (VBool (leqb (lower_str a) (lower_str b))) | [_; _] => ty | _ => cnt 2%N end
  (* split *) else if is [115;112;108;105;116] then
    match ps with [VStr l; VStr sep] => BOk (vstrs (split_str l sep)) | [_; _] => ty | _ => cnt 1%N end
  (* split_csv *) else if is [115;112;108;105;116;95;99;115;118] then
    let sep := match ps with _ :: VStr [c] :: _ => if (c <? 128)%N then c else 59%N | _ => 59%N end in
    match ps with VStr l :: _ => BOk (vstrs (parse_csv l sep [] false)) | _ :: _ => ty | [] => cnt 1%N end
  (* trim *) else if is [116;114;105;109] then match ps with [VStr s] => BOk (VStr (trim_b s)) | [_] => ty | _ => cnt 1%N end
  (* trim_left *) else if is [116;114;105;109;95;108;101;102;116] then match ps with [VStr s] => BOk (VStr (trim_l s)) | [_] => ty | _ => cnt 1%N end
  (* trim_right *) else if is [116;114;105;109;95;114;105;103;104;116] then match ps with [VStr s] => BOk (VStr (trim_r s)) | [_] => ty | _ => cnt 1%N end
  (* abs frac round sqrt trunc *)
  else if is [97;98;115] then match ps with [VNum v] => BOk (VNum (fabs v)) | [_] => ty | _ => cnt 1%N end
  else if is [102;114;97;99] then match ps with [VNum v] => BOk (VNum (ffract v)) | [_] => ty | _ => cnt 1%N end
  else if is [114;111;117;110;100] then match ps with [VNum v] => BOk (VNum (fround v)) | [_] => ty | _ => cnt 1%N end
  else if is [115;113;114;116] then match ps with [VNum v] => BOk (VNum (fsqrt v)) | [_] => ty | _ => cnt 1%N end
  else if is [116;114;117;110;99] then match ps with [VNum v] => BOk (VNum (ftrunc v)) | [_] => ty | _ => cnt 1%N end
  (* even / odd (repaired) *)
  else if is [101;118;101;110] then match ps with [VNum v] => BOk (VBool (feq (frem (ffloor v) (of_int 2)) (of_int 0))) | [_] => ty | _ => cnt 1%N end
  else if is [111;100;100] then match ps with [VNum v] => BOk (VBool (negb (feq (frem (ffloor v) (of_int 2)) (of_int 0)))) | [_] => ty | _ => cnt 1%N end
  (* int_to_hex *) else if is [105;110;116;95;116;111;95;104;101;120] then
    match ps with [VNum v] => BOk (VStr (to_hex ((to_i64 (ftrunc v)) mod 2^64)%Z)) | [_] => ty | _ => cnt 1%N end
  else BUnmodelled.
End B.
