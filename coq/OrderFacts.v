(* C13: the order laws for the extracted vcmp / veq and for the sort, min, max, between, compare models *)
From Flocq Require Import Core BinarySingleNaN.
Require Import ZArith NArith Bool List Arith Lia Permutation Sorted. Import ListNotations.
Require Import F64 Dec Types Generic Lang Order OrderInst Builtins.

(* the extracted comparison is the one the generic order theorems are instantiated with *)
Lemma scmp_same : forall a b, Lang.scmp a b = OrderInst.scmp a b.
Proof. induction a as [|x a IH]; destruct b as [|y b]; simpl; auto; try (rewrite IH; reflexivity). Qed.
Theorem vcmp_same : forall a b, Lang.vcmp a b = OrderInst.vcmp a b.
Proof. intros a. induction a using Order.value_ind'; intros b0; destruct b0 as [y|y|y|y]; reflexivity. Qed.
Theorem vcmp_antisym : forall a b, Lang.vcmp b a = CompOpp (Lang.vcmp a b).
Proof. intros. rewrite !vcmp_same. apply C13_antisym. Qed.
Definition vle (a b:value) : Prop := Lang.vcmp a b <> Gt.
Definition tame3 := Order.tame3 fcmp parse_f64.
Theorem vle_trans : forall a b c, tame3 a b c -> vle a b -> vle b c -> vle a c.
Proof. unfold vle. intros a b c T. rewrite !vcmp_same. apply (C13_trans a b c T). Qed.
Theorem vle_total : forall a b, vle a b \/ vle b a.
Proof. intros a b. unfold vle. rewrite (vcmp_antisym a b). destruct (Lang.vcmp a b); simpl; [left|left|right]; discriminate. Qed.
(* the boolean vle used by the builtin models is the same relation *)
Lemma vle_bool a b : Builtins.vle a b = true <-> vle a b.
Proof. unfold Builtins.vle, vle. destruct (Lang.vcmp a b); split; intros; try discriminate; try reflexivity; congruence. Qed.

(* operator-level views *)
Definition lt a b := match Lang.vcmp a b with Lt => true | _ => false end.
Definition gt a b := match Lang.vcmp a b with Gt => true | _ => false end.
Theorem lt_gt : forall a b, lt a b = gt b a.
Proof. intros. unfold lt, gt. rewrite (vcmp_antisym a b). destruct (Lang.vcmp a b); reflexivity. Qed.
Theorem operators_consistent : forall a b,
  binop Less a b = Ok (VBool (lt a b)) /\ binop Greater a b = Ok (VBool (gt a b)) /\
  binop LessEqual a b = Ok (VBool (negb (gt a b))) /\ binop GreaterEqual a b = Ok (VBool (negb (lt a b))) /\
  binop NotEqual a b = Ok (VBool (negb (veq a b))) /\ binop Equal a b = Ok (VBool (veq a b)) /\
  binop Less a b = binop Greater b a.
Proof.
  intros. unfold lt, gt. cbn [binop]. rewrite (vcmp_antisym a b). destruct (Lang.vcmp a b); repeat split; reflexivity.
Qed.
(* = is symmetric, for all values *)
Lemma feq_sym x y : feq x y = feq y x.
Proof. unfold feq. rewrite (fcmp_swap x y). destruct (fcmp x y) as [[]|]; reflexivity. Qed.
Lemma vcmp_eq_sym a b : (match Lang.vcmp a b with Eq => true | _ => false end) = (match Lang.vcmp b a with Eq => true | _ => false end).
Proof. rewrite (vcmp_antisym a b). destruct (Lang.vcmp a b); reflexivity. Qed.
Theorem veq_sym : forall a b, veq a b = veq b a.
Proof.
  intros a. induction a using Order.value_ind'; intros b0; destruct b0 as [y|y|y|y]; cbn [veq]; try apply vcmp_eq_sym; try apply feq_sym; try reflexivity.
  - destruct b, y; reflexivity.
  - pose proof (vcmp_eq_sym (VStr s) (VStr y)) as X. cbn [Lang.vcmp] in X. exact X.
  - revert y. induction H as [|p t Hp Ht IH]; destruct y as [|q t2]; auto. rewrite Hp, IH. reflexivity.
Qed.
(* compare, between *)
Theorem compare_model : forall a b, call_builtin 1 (Builtins.A [99;111;109;112;97;114;101]%Z) [a; b] =
  BOk (VNum (of_int (match Lang.vcmp a b with Lt => -1 | Eq => 0 | Gt => 1 end)%Z)).
Proof. reflexivity. Qed.
Theorem between_model : forall v lo hi, call_builtin 1 (Builtins.A [98;101;116;119;101;101;110]%Z) [v; lo; hi] = BOk (VBool (Builtins.vle lo v && Builtins.vle v hi)).
Proof. reflexivity. Qed.

(* sort: a permutation for every array; ordered when the elements are pairwise tame *)
Lemma insert_perm x l : Permutation (insert_sorted x l) (x :: l).
Proof. induction l as [|y t IH]; simpl; auto. destruct (Builtins.vle y x); auto. eapply perm_trans. apply perm_skip, IH. apply perm_swap. Qed.
Lemma fold_insert_perm l acc : Permutation (fold_left (fun acc x => insert_sorted x acc) l acc) (acc ++ l).
Proof.
  revert acc. induction l as [|x t IH]; intros acc; simpl. rewrite app_nil_r. auto.
  eapply perm_trans. apply IH. eapply perm_trans. apply Permutation_app_tail, insert_perm.
  simpl. apply Permutation_middle.
Qed.
Theorem sort_perm : forall l, Permutation (sort_stable l) l.
Proof. intros l. unfold sort_stable. exact (fold_insert_perm l []). Qed.
Definition tame_list (l:list value) : Prop := forall a b c, In a l -> In b l -> In c l -> tame3 a b c.
Definition sorted (l:list value) : Prop := StronglySorted (fun a b => Builtins.vle a b = true) l.
Lemma insert_in x y l : In y (insert_sorted x l) <-> y = x \/ In y l.
Proof. split; intros H. apply (Permutation_in _ (insert_perm x l)) in H. destruct H; auto. apply (Permutation_in _ (Permutation_sym (insert_perm x l))). destruct H; [left|right]; auto. Qed.
Lemma insert_sorted_ok x l : tame_list (x :: l) -> sorted l -> sorted (insert_sorted x l).
Proof.
  intros T S. induction S as [|y t St IH Hy]; simpl. constructor; constructor.
  destruct (Builtins.vle y x) eqn:E.
  - constructor.
    + apply IH. intros a b c Ha Hb Hc. apply T; simpl in *; intuition.
    + apply Forall_forall. intros z Hz. apply insert_in in Hz as [->|Hz]; auto. rewrite Forall_forall in Hy. auto.
  - assert (Hxy : Builtins.vle x y = true).
    { apply vle_bool. destruct (vle_total x y) as [A|A]; auto. apply vle_bool in A. congruence. }
    constructor. constructor; auto. constructor; auto.
    apply Forall_forall. intros z Hz. rewrite Forall_forall in Hy. specialize (Hy z Hz).
    apply vle_bool. apply (vle_trans x y z). apply T; simpl; auto. apply vle_bool; auto. apply vle_bool; auto.
Qed.
Lemma fold_sorted l : forall acc, tame_list (acc ++ l) -> sorted acc -> sorted (fold_left (fun acc x => insert_sorted x acc) l acc).
Proof.
  induction l as [|x t IH]; intros acc T S; simpl; auto.
  apply IH.
  - intros a b c Ha Hb Hc. apply T; apply in_app_iff; [apply in_app_iff in Ha as [Ha|Ha]|apply in_app_iff in Hb as [Hb|Hb]|apply in_app_iff in Hc as [Hc|Hc]];
      try (apply insert_in in Ha as [->|Ha]); try (apply insert_in in Hb as [->|Hb]); try (apply insert_in in Hc as [->|Hc]); simpl; auto.
  - apply insert_sorted_ok; auto. intros a b c Ha Hb Hc. apply T; apply in_app_iff; simpl in *; intuition.
Qed.
Theorem sort_sorted : forall l, tame_list l -> sorted (sort_stable l).
Proof. intros l T. unfold sort_stable. apply fold_sorted; auto. constructor. Qed.

(* max / min: members of their input that bound all others (on tame inputs); sorting a sorted array changes nothing *)
Definition step_max (acc y:value) : value := match Lang.vcmp acc y with Gt => acc | _ => y end.
Definition step_min (acc y:value) : value := match Lang.vcmp acc y with Gt => y | _ => acc end.
Lemma vle_refl_tame a : tame3 a a a -> vle a a.
Proof. intros T. destruct (vle_total a a); auto. Qed.
Lemma fold_max_spec : forall t x, tame_list (x :: t) ->
  In (fold_left step_max t x) (x :: t) /\ (forall z, In z (x :: t) -> vle z (fold_left step_max t x)).
Proof.
  induction t as [|y t IH]; intros x T; cbn [fold_left].
  - split. left; auto. intros z [<-|[]]. apply vle_refl_tame. apply T; left; auto.
  - assert (T' : tame_list (step_max x y :: t)).
    { intros a b c Ha Hb Hc. apply T; cbn [In] in *; unfold step_max in *; destruct (Lang.vcmp x y); intuition. }
    destruct (IH (step_max x y) T') as [M B]. split.
    + destruct M as [M|M]; [|right; right; exact M]. rewrite <- M. unfold step_max. destruct (Lang.vcmp x y); cbn; auto.
    + intros z Hz. assert (Hs : vle x (step_max x y) /\ vle y (step_max x y)).
      { unfold step_max. pose proof (vcmp_antisym x y) as A. unfold vle. destruct (Lang.vcmp x y) eqn:C; split;
          first [ discriminate | rewrite C; discriminate | rewrite A; cbn; discriminate | apply (vle_refl_tame y); apply T; cbn; auto | apply (vle_refl_tame x); apply T; cbn; auto ]. }
      destruct Hs as [Hx Hy]. assert (Bs : vle (step_max x y) (fold_left step_max t (step_max x y))) by (apply B; left; auto).
      assert (In1 : In (step_max x y) (x :: y :: t)) by (unfold step_max; destruct (Lang.vcmp x y); cbn; auto).
      assert (In2 : In (fold_left step_max t (step_max x y)) (x :: y :: t)).
      { destruct M as [M|M]. rewrite <- M. exact In1. right; right; exact M. }
      destruct Hz as [<-|[<-|Hz]].
      * apply (vle_trans x (step_max x y) _); auto. apply T; cbn; auto.
      * apply (vle_trans y (step_max x y) _); auto. apply T; cbn; auto.
      * apply B. right; exact Hz.
Qed.
Theorem vmax_spec : forall l m, tame_list l -> vmax l = Some m -> In m l /\ forall z, In z l -> vle z m.
Proof. intros [|x t] m T H; [discriminate|]. cbn [vmax] in H. injection H as <-. exact (fold_max_spec t x T). Qed.
Lemma fold_min_spec : forall t x, tame_list (x :: t) ->
  In (fold_left step_min t x) (x :: t) /\ (forall z, In z (x :: t) -> vle (fold_left step_min t x) z).
Proof.
  induction t as [|y t IH]; intros x T; cbn [fold_left].
  - split. left; auto. intros z [<-|[]]. apply vle_refl_tame. apply T; left; auto.
  - assert (T' : tame_list (step_min x y :: t)).
    { intros a b c Ha Hb Hc. apply T; cbn [In] in *; unfold step_min in *; destruct (Lang.vcmp x y); intuition. }
    destruct (IH (step_min x y) T') as [M B]. split.
    + destruct M as [M|M]; [|right; right; exact M]. rewrite <- M. unfold step_min. destruct (Lang.vcmp x y); cbn; auto.
    + intros z Hz. assert (Hs : vle (step_min x y) x /\ vle (step_min x y) y).
      { unfold step_min. pose proof (vcmp_antisym x y) as A. unfold vle. destruct (Lang.vcmp x y) eqn:C; split;
          first [ discriminate | rewrite C; discriminate | rewrite A; cbn; discriminate | apply (vle_refl_tame y); apply T; cbn; auto | apply (vle_refl_tame x); apply T; cbn; auto ]. }
      destruct Hs as [Hx Hy]. assert (Bs : vle (fold_left step_min t (step_min x y)) (step_min x y)) by (apply B; left; auto).
      assert (In1 : In (step_min x y) (x :: y :: t)) by (unfold step_min; destruct (Lang.vcmp x y); cbn; auto).
      assert (In2 : In (fold_left step_min t (step_min x y)) (x :: y :: t)).
      { destruct M as [M|M]. rewrite <- M. exact In1. right; right; exact M. }
      destruct Hz as [<-|[<-|Hz]].
      * apply (vle_trans _ (step_min x y) x); auto. apply T; cbn; auto.
      * apply (vle_trans _ (step_min x y) y); auto. apply T; cbn; auto.
      * apply B. right; exact Hz.
Qed.
Theorem vmin_spec : forall l m, tame_list l -> vmin l = Some m -> In m l /\ forall z, In z l -> vle m z.
Proof. intros [|x t] m T H; [discriminate|]. cbn [vmin] in H. injection H as <-. exact (fold_min_spec t x T). Qed.
Lemma insert_at_end x l : Forall (fun y => Builtins.vle y x = true) l -> insert_sorted x l = l ++ [x].
Proof. induction 1 as [|y t Hy Ht IH]; cbn [insert_sorted app]; auto. rewrite Hy, IH. reflexivity. Qed.
Lemma sorted_app_le a x t : sorted (a ++ x :: t) -> Forall (fun y => Builtins.vle y x = true) a.
Proof.
  induction a as [|y a IH]; intros S; constructor.
  - cbn [app] in S. apply StronglySorted_inv in S as [_ F]. rewrite Forall_forall in F. apply F. apply in_or_app. right; left; auto.
  - apply IH. cbn [app] in S. apply StronglySorted_inv in S as [S _]. exact S.
Qed.
Lemma fold_insert_sorted : forall l acc, sorted (acc ++ l) -> fold_left (fun acc x => insert_sorted x acc) l acc = acc ++ l.
Proof.
  induction l as [|x t IH]; intros acc S; cbn [fold_left]. rewrite app_nil_r; auto.
  rewrite (insert_at_end x acc (sorted_app_le acc x t S)). rewrite IH. rewrite <- app_assoc. reflexivity. rewrite <- app_assoc. exact S.
Qed.
Theorem sort_of_sorted : forall l, sorted l -> sort_stable l = l.
Proof. intros l S. unfold sort_stable. rewrite (fold_insert_sorted l [] S). reflexivity. Qed.
Theorem sort_idempotent : forall l, tame_list l -> sort_stable (sort_stable l) = sort_stable l.
Proof. intros l T. apply sort_of_sorted. apply sort_sorted. exact T. Qed.
