(* algebraic laws of the sequence builtins: split / join / replace / count are one decomposition; trim removes exactly the white margin; unique keeps first occurrences; hexadecimal denotes its value *)
Require Import ZArith NArith Bool List Arith Lia. Import ListNotations.
Require Import F64 Dec Types Generic Lang Builtins.

Fixpoint join (sep:list N) (l:list (list N)) : list N := match l with [] => [] | [x] => x | x :: r => x ++ sep ++ join sep r end.

Lemma is_prefix_app n s : is_prefix n s = true -> s = n ++ skipn (length n) s.
Proof. revert s; induction n as [|a n IH]; intros [|b s] H; cbn in *; try reflexivity; try discriminate.
  apply andb_prop in H as [E P]. apply N.eqb_eq in E. subst b. f_equal. apply IH, P. Qed.
Lemma is_prefix_len n s : is_prefix n s = true -> (length n <= length s)%nat.
Proof. intros H. rewrite (is_prefix_app n s H). rewrite app_length. lia. Qed.
Lemma skipn_shrinks n s : n <> [] -> is_prefix n s = true -> (length (skipn (length n) s) < length s)%nat.
Proof. intros Hn H. pose proof (is_prefix_len n s H). rewrite skipn_length. destruct n; [congruence|]. cbn in *. lia. Qed.
Lemma split_sub_nonempty f sep cur s : split_sub f sep cur s <> [].
Proof. revert cur s; induction f as [|f IH]; intros cur s; cbn; [discriminate|]. destruct (is_prefix sep s); [discriminate|]. destruct s; [discriminate|apply IH]. Qed.
Lemma join_cons sep x r : r <> [] -> join sep (x :: r) = x ++ sep ++ join sep r.
Proof. destruct r; [congruence|reflexivity]. Qed.

(* joining the pieces with the separator gives the text back *)
Lemma split_sub_join f sep cur s : sep <> [] -> (length s < f)%nat -> join sep (split_sub f sep cur s) = rev cur ++ s.
Proof.
  intros Hs. revert cur s; induction f as [|f IH]; intros cur s L; [lia|]. cbn [split_sub].
  destruct (is_prefix sep s) eqn:P.
  - rewrite join_cons by apply split_sub_nonempty. rewrite IH by (pose proof (skipn_shrinks sep s Hs P); lia). cbn [rev app]. rewrite (is_prefix_app sep s P) at 2. reflexivity.
  - destruct s as [|c r]; [cbn; rewrite app_nil_r; reflexivity|]. rewrite IH by (cbn in L; lia). cbn [rev]. rewrite <- app_assoc. reflexivity.
Qed.
Theorem split_join s sep : sep <> [] -> join sep (split_str s sep) = s.
Proof. intros H. unfold split_str. destruct sep as [|a sep]; [congruence|]. rewrite split_sub_join by (auto; lia). reflexivity. Qed.

(* replacing is splitting at the needle and joining with the replacement *)
Lemma replace_sub_split f n t cur s : n <> [] -> (length s < f)%nat -> join t (split_sub f n cur s) = rev cur ++ replace_sub f n t s.
Proof.
  intros Hn. revert cur s; induction f as [|f IH]; intros cur s L; [lia|]. cbn [split_sub replace_sub]. destruct n as [|a n']; [congruence|]. set (n := a :: n') in *.
  destruct (is_prefix n s) eqn:P.
  - rewrite join_cons by apply split_sub_nonempty. rewrite IH by (pose proof (skipn_shrinks n s Hn P); lia). reflexivity.
  - destruct s as [|c r]; [cbn; rewrite app_nil_r; reflexivity|]. rewrite IH by (cbn in L; lia). cbn [rev]. rewrite <- app_assoc. reflexivity.
Qed.
Theorem replace_is_join_split n t s : n <> [] -> replace_sub (S (length s)) n t s = join t (split_str s n).
Proof. intros H. unfold split_str. destruct n as [|a n]; [congruence|]. rewrite replace_sub_split by (auto; lia). reflexivity. Qed.
Theorem replace_by_itself n s : n <> [] -> replace_sub (S (length s)) n n s = s.
Proof. intros H. rewrite replace_is_join_split by exact H. apply split_join, H. Qed.

(* the number of occurrences counted is the number of cuts made *)
Lemma count_sub_split f n cur s : n <> [] -> (length s < f)%nat -> length (split_sub f n cur s) = S (count_sub f n s).
Proof.
  intros Hn. revert cur s; induction f as [|f IH]; intros cur s L; [lia|]. cbn [split_sub count_sub]. destruct n as [|a n']; [congruence|]. set (n := a :: n') in *.
  destruct (is_prefix n s) eqn:P.
  - cbn [length]. rewrite IH by (pose proof (skipn_shrinks n s Hn P); lia). reflexivity.
  - destruct s as [|c r]; [reflexivity|]. apply IH. cbn in L; lia.
Qed.
Theorem count_is_cuts n s : n <> [] -> length (split_str s n) = S (count_sub (S (length s)) n s).
Proof. intros H. unfold split_str. destruct n as [|a n]; [congruence|]. apply count_sub_split; auto; lia. Qed.
(* no piece contains the separator ... at its start after a cut is the leftmost-first rule; here: a text without the needle is one piece, untouched by replace *)
Lemma no_occurrence_one_piece f n cur s : n <> [] -> (length s < f)%nat -> find_sub n s = None -> split_sub f n cur s = [rev cur ++ s].
Proof.
  intros Hn. revert cur s; induction f as [|f IH]; intros cur s L F; [lia|]. cbn [split_sub].
  destruct s as [|c r].
  - cbn in F. destruct (is_prefix n []); [discriminate|]. rewrite app_nil_r. reflexivity.
  - cbn [find_sub] in F. destruct (is_prefix n (c :: r)); [discriminate|]. destruct (find_sub n r) eqn:Fr; [discriminate|].
    rewrite IH by (auto; cbn in L; lia). cbn [rev]. rewrite <- app_assoc. reflexivity.
Qed.
Theorem replace_without_occurrence n t s : n <> [] -> find_sub n s = None -> replace_sub (S (length s)) n t s = s /\ count_sub (S (length s)) n s = 0%nat.
Proof.
  intros Hn F. split.
  - rewrite replace_is_join_split by exact Hn. unfold split_str. destruct n as [|a n]; [congruence|]. rewrite no_occurrence_one_piece by (auto; lia). reflexivity.
  - pose proof (count_is_cuts n s Hn) as C. unfold split_str in C. destruct n as [|a n]; [congruence|]. rewrite no_occurrence_one_piece in C by (auto; lia). cbn [length] in C. lia.
Qed.

(* trim: exactly the white margin goes *)
Lemma drop_white_spec s : exists w, s = w ++ drop_white s /\ forallb is_white w = true /\ match drop_white s with c :: _ => is_white c = false | [] => True end.
Proof.
  induction s as [|c r (w & E & W & H)]; [exists []; cbn; auto|]. cbn [drop_white]. destruct (is_white c) eqn:Wc.
  - exists (c :: w). cbn. rewrite Wc, W. rewrite <- E. auto.
  - exists []. cbn. auto.
Qed.
Theorem trim_left_spec s : exists w, s = w ++ trim_l s /\ forallb is_white w = true /\ match trim_l s with c :: _ => is_white c = false | [] => True end.
Proof. apply drop_white_spec. Qed.
Theorem trim_right_spec s : exists w, s = trim_r s ++ w /\ forallb is_white w = true /\ match rev (trim_r s) with c :: _ => is_white c = false | [] => True end.
Proof.
  unfold trim_r. destruct (drop_white_spec (rev s)) as (w & E & W & H). exists (rev w). split; [|split].
  - rewrite <- rev_app_distr, <- E, rev_involutive. reflexivity.
  - rewrite forallb_forall in *. intros x Hx. apply W. apply in_rev. exact Hx.
  - rewrite rev_involutive. exact H.
Qed.
Lemma drop_white_idem s : drop_white (drop_white s) = drop_white s.
Proof. induction s as [|c r IH]; [reflexivity|]. cbn. destruct (is_white c) eqn:W; [exact IH|]. cbn. rewrite W. reflexivity. Qed.
Lemma drop_white_last s : match rev s with c :: _ => is_white c = false | [] => True end -> match rev (drop_white s) with c :: _ => is_white c = false | [] => True end.
Proof.
  induction s as [|c r IH]; [auto|]. cbn [drop_white]. destruct (is_white c); [|auto]. intros H. apply IH. cbn [rev] in H.
  destruct (rev r) as [|d q]; [exact I|]. cbn in H. exact H.
Qed.
Theorem trim_idempotent s : trim_b (trim_b s) = trim_b s /\ trim_l (trim_l s) = trim_l s /\ trim_r (trim_r s) = trim_r s.
Proof.
  assert (R : forall x, trim_r (trim_r x) = trim_r x). { intros x. unfold trim_r. rewrite rev_involutive, drop_white_idem. reflexivity. }
  split; [|split; [apply drop_white_idem | apply R]].
  unfold trim_b, trim_l. set (t := trim_r (drop_white s)).
  assert (D : drop_white t = t).
  { unfold t, trim_r. destruct (drop_white_spec s) as (_ & _ & _ & H). remember (drop_white s) as d. clear Heqd.
    (* the first character of d is not white, and it stays first unless everything is white margin on the right *)
    destruct d as [|c q]; [reflexivity|].
    destruct (rev (drop_white (rev (c :: q)))) as [|c' q'] eqn:E; [reflexivity|].
    assert (c' = c).
    { destruct (drop_white_spec (rev (c :: q))) as (w & Ew & _ & _). apply (f_equal (@rev N)) in Ew. rewrite rev_involutive, rev_app_distr, E in Ew. cbn in Ew. congruence. }
    subst c'. cbn. rewrite H. reflexivity. }
  rewrite D. apply R.
Qed.
(* both ends of a trimmed text are not white *)
Theorem trim_ends s : match trim_b s with c :: _ => is_white c = false | [] => True end /\ match rev (trim_b s) with c :: _ => is_white c = false | [] => True end.
Proof.
  destruct (trim_idempotent s) as [I _]. split.
  - unfold trim_b in I. destruct (trim_left_spec (trim_r (trim_l s))) as (_ & _ & _ & H).
    assert (D : trim_l (trim_r (trim_l s)) = trim_r (trim_l s)).
    { unfold trim_b, trim_l, trim_r in *. set (d := drop_white s) in *.
      destruct (drop_white_spec s) as (_ & _ & _ & Hd). fold d in Hd. destruct d as [|c q]; [reflexivity|].
      destruct (rev (drop_white (rev (c :: q)))) as [|c' q'] eqn:E; [reflexivity|].
      assert (c' = c). { destruct (drop_white_spec (rev (c :: q))) as (w & Ew & _ & _). apply (f_equal (@rev N)) in Ew. rewrite rev_involutive, rev_app_distr, E in Ew. cbn in Ew. congruence. }
      subst c'. cbn. rewrite Hd. reflexivity. }
    rewrite D in H. exact H.
  - unfold trim_b. destruct (trim_right_spec (trim_l s)) as (_ & _ & _ & H). exact H.
Qed.

(* unique keeps, in order, the first member of every class of equal members *)
Lemma uniq_sub kept l x : In x (uniq kept l) -> In x l.
Proof. revert kept; induction l as [|y r IH]; intros kept H; cbn in *; [exact H|]. destruct (existsb (fun k => veq y k) kept); [right; eapply IH, H|]. destruct H as [H|H]; [left; exact H|right; eapply IH, H]. Qed.
Lemma uniq_covers kept l x : In x l -> In x (uniq kept l) \/ existsb (fun k => veq x k) (kept ++ uniq kept l) = true.
Proof.
  revert kept; induction l as [|y r IH]; intros kept H; [destruct H|]. cbn [uniq]. destruct H as [H|H].
  - subst y. destruct (existsb (fun k => veq x k) kept) eqn:E; [right; rewrite existsb_app, E; reflexivity | left; left; reflexivity].
  - destruct (existsb (fun k => veq y k) kept) eqn:E; [apply IH, H|]. destruct (IH (kept ++ [y]) H) as [I|I]; [left; right; exact I|right]. rewrite <- app_assoc in I. exact I.
Qed.
Lemma uniq_first kept l r1 b r2 : uniq kept l = r1 ++ b :: r2 -> existsb (fun k => veq b k) (kept ++ r1) = false.
Proof.
  revert kept r1; induction l as [|y r IH]; intros kept r1 H; cbn [uniq] in H; [destruct r1; discriminate|].
  destruct (existsb (fun k => veq y k) kept) eqn:E; [apply IH, H|].
  destruct r1 as [|a r1]; cbn in H; injection H as Ey Er.
  - subst y. rewrite app_nil_r. exact E.
  - subst a. specialize (IH (kept ++ [y]) r1 Er). rewrite <- app_assoc in IH. exact IH.
Qed.
Theorem unique_spec l : (forall x, In x (uniq [] l) -> In x l) /\ (forall x, In x l -> In x (uniq [] l) \/ existsb (fun k => veq x k) (uniq [] l) = true)
  /\ (forall r1 b r2, uniq [] l = r1 ++ b :: r2 -> existsb (fun k => veq b k) r1 = false).
Proof. split; [|split]. intros x; apply uniq_sub. intros x H; apply (uniq_covers [] l x H). intros r1 b r2 H; apply (uniq_first [] l r1 b r2 H). Qed.
(* order of first occurrences is kept: the result is a subsequence of the input *)
Inductive subseq {A} : list A -> list A -> Prop := sub_nil l : subseq [] l | sub_take x a b : subseq a b -> subseq (x :: a) (x :: b) | sub_skip x a b : subseq a b -> subseq a (x :: b).
Theorem unique_subsequence kept l : subseq (uniq kept l) l.
Proof. revert kept; induction l as [|y r IH]; intros kept; cbn; [constructor|]. destruct (existsb (fun k => veq y k) kept); [apply sub_skip, IH | apply sub_take, IH]. Qed.

(* hexadecimal: the digits denote the value, and only 0-9 A-F occur *)
Definition hexval_digit (c:N) : Z := if (c <? 58)%N then Z.of_N c - 48 else Z.of_N c - 55.
Definition hexval (s:list N) : Z := fold_left (fun acc c => acc * 16 + hexval_digit c)%Z s 0%Z.
Lemma hexdigit_val d : (0 <= d < 16)%Z -> hexval_digit (hexdigit d) = d /\ ((48 <= hexdigit d <= 57)%N \/ (65 <= hexdigit d <= 70)%N).
Proof. intros H. unfold hexval_digit, hexdigit. destruct (d <? 10)%Z eqn:E; [apply Z.ltb_lt in E | apply Z.ltb_ge in E].
  - destruct (N.ltb_spec (Z.to_N (48 + d)) 58); split; lia.
  - destruct (N.ltb_spec (Z.to_N (55 + d)) 58); split; lia. Qed.
Lemma fold_hex_app acc s : fold_left (fun a c => a * 16 + hexval_digit c)%Z s acc = (acc * 16 ^ Z.of_nat (length s) + hexval s)%Z.
Proof. unfold hexval. revert acc; induction s as [|c r IH]; intros acc; cbn [fold_left length]; [lia|]. rewrite IH, (IH (0 * 16 + hexval_digit c)%Z). rewrite Nat2Z.inj_succ, Z.pow_succ_r by lia. lia. Qed.
Lemma hex_aux_val f z acc : (0 <= z < 16 ^ Z.of_nat f)%Z -> hexval (hex_aux f z acc) = (z * 16 ^ Z.of_nat (length acc) + hexval acc)%Z.
Proof.
  revert z acc; induction f as [|f IH]; intros z acc H.
  - cbn [hex_aux]. cbn in H. assert (z = 0)%Z by lia. subst z. lia.
  - cbn [hex_aux]. destruct (z <? 16)%Z eqn:E.
    + apply Z.ltb_lt in E. unfold hexval at 1. cbn [fold_left]. rewrite fold_hex_app. rewrite (proj1 (hexdigit_val z ltac:(lia))). lia.
    + apply Z.ltb_ge in E. rewrite IH.
      2:{ split; [apply Z.div_pos; lia|]. apply Z.div_lt_upper_bound; [lia|]. rewrite Nat2Z.inj_succ, Z.pow_succ_r in H by lia. lia. }
      cbn [length]. unfold hexval at 1. cbn [fold_left]. rewrite fold_hex_app. rewrite (proj1 (hexdigit_val (z mod 16) ltac:(apply Z.mod_pos_bound; lia))).
      rewrite Nat2Z.inj_succ, Z.pow_succ_r by lia. pose proof (Z.div_mod z 16 ltac:(lia)). nia.
Qed.
Theorem hex_denotes z : (0 <= z < 2 ^ 64)%Z -> hexval (to_hex z) = z.
Proof. intros H. unfold to_hex. rewrite hex_aux_val; [cbn; lia|]. split; [lia|]. eapply Z.lt_le_trans; [apply H|]. vm_compute. discriminate. Qed.
Lemma hex_aux_digits f z acc : (0 <= z)%Z -> Forall (fun c => (48 <= c <= 57)%N \/ (65 <= c <= 70)%N) acc -> Forall (fun c => (48 <= c <= 57)%N \/ (65 <= c <= 70)%N) (hex_aux f z acc).
Proof.
  revert z acc; induction f as [|f IH]; intros z acc Hz Ha; cbn [hex_aux]; [exact Ha|]. destruct (z <? 16)%Z eqn:E.
  - apply Z.ltb_lt in E. constructor; [apply hexdigit_val; lia | exact Ha].
  - apply IH; [apply Z.div_pos; lia|]. constructor; [apply hexdigit_val, Z.mod_pos_bound; lia | exact Ha].
Qed.
Theorem hex_upper_case z : (0 <= z)%Z -> Forall (fun c => (48 <= c <= 57)%N \/ (65 <= c <= 70)%N) (to_hex z).
Proof. intros H. apply hex_aux_digits; [exact H | constructor]. Qed.

(* ---- the builtins are these functions ---- *)
From Flocq Require Import Core BinarySingleNaN.
Require Import Reals TimeFacts IndexFacts.
Lemma i64_trunc_of_int k : (Z.abs k <= 2^52)%Z -> to_i64 (ftrunc (of_int k)) = k.
Proof.
  intros Hk. unfold to_i64, to_int_sat, ftrunc. destruct (of_int_correct k Hk) as [Rk Fk].
  destruct (Bnearbyint_correct prec emax Hmax mode_ZR (of_int k)) as (A & B & _). rewrite Fk in B.
  assert (RR : B2R (Bnearbyint mode_ZR (of_int k)) = IZR k).
  { rewrite A, Rk. unfold round, scaled_mantissa, cexp, FIX_exp, F2R. simpl. rewrite Rmult_1_r, Rmult_1_r, Ztrunc_IZR. reflexivity. }
  assert (TT : Btrunc (Bnearbyint mode_ZR (of_int k)) = k).
  { apply eq_IZR. rewrite (Btrunc_correct prec emax Hmax), RR. unfold round, scaled_mantissa, cexp, FIX_exp, F2R. simpl. rewrite Rmult_1_r, Rmult_1_r, Ztrunc_IZR. reflexivity. }
  destruct (Bnearbyint mode_ZR (of_int k)) as [s|s| |s m e H] eqn:En; try discriminate; rewrite TT; unfold clamp; lia.
Qed.
Section B.
Variable off : nat.
Notation call := (call_builtin off).
Definition replace_name := A [114;101;112;108;97;99;101]%Z. Definition split_name := A [115;112;108;105;116]%Z. Definition count_name := A [99;111;117;110;116]%Z.
Definition trim_name := A [116;114;105;109]%Z. Definition unique_name := A [117;110;105;113;117;101]%Z. Definition hex_name := A [105;110;116;95;116;111;95;104;101;120]%Z.
Definition contains_name := A [99;111;110;116;97;105;110;115]%Z.
Theorem split_builtin s sep : call split_name [VStr s; VStr sep] = BOk (vstrs (split_str s sep)).
Proof. reflexivity. Qed.
Theorem replace_builtin s n t : n <> [] -> call replace_name [VStr s; VStr n; VStr t] = BOk (VStr (join t (split_str s n))).
Proof. intros H. rewrite <- replace_is_join_split by exact H. reflexivity. Qed.
Theorem count_builtin s n : n <> [] -> call count_name [VStr s; VStr n] = BOk (vnat (length (split_str s n) - 1)).
Proof. intros H. rewrite count_is_cuts by exact H. cbn [Nat.sub]. rewrite Nat.sub_0_r. reflexivity. Qed.
Theorem contains_builtin s n : call contains_name [VStr s; VStr n] = BOk (VBool (match find_sub n s with Some _ => true | None => false end)).
Proof. reflexivity. Qed.
Theorem trim_builtin s : call trim_name [VStr s] = BOk (VStr (trim_b s)).
Proof. reflexivity. Qed.
Theorem unique_builtin l : call unique_name [VArr l] = BOk (VArr (uniq [] l)).
Proof. reflexivity. Qed.
Theorem hex_builtin z : (0 <= z <= 2^52)%Z -> exists s, call hex_name [VNum (of_int z)] = BOk (VStr s) /\ hexval s = z /\ Forall (fun c => (48 <= c <= 57)%N \/ (65 <= c <= 70)%N) s.
Proof.
  intros H. exists (to_hex z). split; [|split; [apply hex_denotes; lia | apply hex_upper_case; lia]].
  cbn [call_builtin hex_name A map leqb]. cbn. rewrite i64_trunc_of_int by lia. rewrite Z.mod_small by lia. reflexivity.
Qed.
End B.

(* ---- insert, contains, all / any ---- *)
Lemma insert_length {A} (t s:list A) k : (k <= length t)%nat -> length (firstn k t ++ s ++ skipn k t) = (length t + length s)%nat.
Proof. intros H. rewrite !app_length, firstn_length, skipn_length. lia. Qed.
Lemma insert_then_copy {A} (t s:list A) k : (k <= length t)%nat -> firstn (length s) (skipn k (firstn k t ++ s ++ skipn k t)) = s.
Proof.
  intros H. rewrite skipn_app, firstn_length, Nat.min_l by exact H. rewrite Nat.sub_diag. cbn [skipn].
  rewrite skipn_all2 by (rewrite firstn_length; lia). cbn [app]. rewrite firstn_app, Nat.sub_diag, firstn_all. cbn [firstn]. apply app_nil_r.
Qed.
Lemma insert_then_remove {A} (t s:list A) k : (k <= length t)%nat ->
  firstn k (firstn k t ++ s ++ skipn k t) ++ skipn (k + length s) (firstn k t ++ s ++ skipn k t) = t.
Proof.
  intros H. rewrite firstn_app, firstn_length, Nat.min_l by exact H. rewrite Nat.sub_diag. cbn [firstn]. rewrite app_nil_r, firstn_firstn, Nat.min_id.
  rewrite skipn_app, firstn_length, Nat.min_l by exact H. rewrite skipn_all2 by (rewrite firstn_length; lia). cbn [app].
  replace (k + length s - k)%nat with (length s) by lia. rewrite skipn_app, Nat.sub_diag, skipn_all. cbn [skipn app]. apply firstn_skipn.
Qed.
Section B2.
Variable off : nat.
Hypothesis Hoff : (off <= 1)%nat.
Notation call := (call_builtin off).
Definition insert_name := A [105;110;115;101;114;116]%Z. Definition all_name := A [97;108;108]%Z. Definition any_name := A [97;110;121]%Z.
(* insert(t, s, p) at the k-th position (p = k + first): the text with s put in before its k-th character; copy gives s back, the length adds up *)
Theorem insert_builtin (t s:list N) k : (k <= length t)%nat -> (Z.of_nat k + 1 <= 2^52)%Z ->
  call insert_name [VStr t; VStr s; IndexFacts.pos off k] = BOk (VStr (firstn k t ++ s ++ skipn k t)).
Proof.
  intros Hk Hb. unfold IndexFacts.pos. cbn [call_builtin insert_name A map leqb]. cbn. rewrite (IndexFacts.string_index_pos off Hoff k Hb).
  replace (Z.of_nat (length t) <? Z.of_nat k)%Z with false by (symmetry; apply Z.ltb_ge; lia). rewrite Nat2Z.id. reflexivity.
Qed.
Theorem contains_array_builtin h n : call contains_name [VArr h; n] = BOk (VBool (existsb (fun v => veq v n) h)) /\
  (existsb (fun v => veq v n) h = true <-> exists v, In v h /\ veq v n = true).
Proof. split; [reflexivity | apply existsb_exists]. Qed.
Theorem all_any_builtin ps : call all_name ps = BOk (VBool (forallb (fun v => veq v (VBool true)) (smart_vec ps))) /\ call any_name ps = BOk (VBool (existsb (fun v => veq v (VBool true)) (smart_vec ps))).
Proof. split; reflexivity. Qed.
End B2.
