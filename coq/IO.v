(* Glue between the neutral case format and the model: number I/O, scripted environments, the model of
   StaticEnvironment::function_exists, and the run_* wrappers the OCaml driver calls. Definitions only (extracted). *)
Require Import ZArith NArith Bool List Arith. Import ListNotations.
Require Import F64 Dec Types Generic Lang Opt.
Open Scope Z_scope.
Definition z_of_digits (ds:list N) : Z := digits_val 0 ds.
Fixpoint digits_of_z_aux (fuel:nat) (z:Z) (acc:list N) : list N :=
  match fuel with O => acc | S f => if z <? 10 then Z.to_N z :: acc else digits_of_z_aux f (z / 10) (Z.to_N (z mod 10) :: acc) end.
Definition digits_of_z (z:Z) : list N := digits_of_z_aux 40 z [].
Definition num_of_digits (ds:list N) : value := VNum (of_bits (z_of_digits ds)).
Definition digits_of_num (x:f64) : list N := digits_of_z (to_bits x).
Close Scope Z_scope.

(* ---- arity: model of src/function.rs Arity and of the decision in StaticEnvironment::function_exists ---- *)
Inductive arity := Poly (required optional : nat) | Variadic | ANone.
Definition in_arity (a:arity) (k:nat) : bool :=
  match a with
  | Poly r o => Nat.leb r k && Nat.leb k (r + o)
  | Variadic => Nat.ltb 0 k
  | ANone => Nat.eqb k 0
  end.
Definition fn_result (a:arity) (pure:bool) (k:nat) : fres := if in_arity a k then Exists pure else WrongArity.

(* ---- scripted environments ---- *)
Fixpoint lookup {A} (n:list N) (l:list (list N * A)) : option A := match l with [] => None | (k,v) :: t => if leqb k n then Some v else lookup n t end.
(* kinds of scripted native functions *)
Inductive fkind := KConst (v:value) | KFail | KEcho | KIfThen.
Definition std_if_then (n:list N) (vs:list value) : res value :=
  match vs with
  | VBool c :: first :: rest => if c then Ok first else Ok (match rest with x :: _ => x | [] => empty_of first end)
  | [_; _] => Er (NativeFunctionError n WrongParameterType)
  | _ => Er (NativeFunctionError n (WrongParameterCount 2)) end.
Definition call_kind (n:list N) (k:fkind) (vs:list value) : res value :=
  match k with
  | KConst v => Ok v
  | KFail => Er (NativeFunctionError n CustomError)
  | KEcho => Ok (VArr vs)
  | KIfThen => std_if_then n vs end.
(* a scripted environment: variables; functions with kind, arity, purity *)
Definition mk_env (vars:list (list N * value)) (fns:list (list N * (fkind * arity * bool))) : env :=
  {| var := fun n => lookup n vars;
     call := fun n vs => match lookup n fns with
                         | None => Er (NativeFunctionError n (FunctionNotFound n))
                         | Some (k, _, _) => call_kind n k vs end;
     fn_exists := fun n k => match lookup n fns with None => NotFound | Some (_, a, p) => fn_result a p k end;
     var_exists := fun n => match lookup n vars with Some _ => true | None => false end |}.

Fixpoint nodes (e:expr) : nat :=
  match e with ELit _ | EVar _ => 1 | EUn _ r => 1 + nodes r | EBin _ l r => 1 + nodes l + nodes r | ETer _ l m r => 1 + nodes l + nodes m + nodes r
  | EArr es => 1 + list_sum (map nodes es) | ECall _ ps => 1 + list_sum (map nodes ps) end.

Definition is_boolv (v:value) : bool := match v with VBool _ => true | _ => false end.
Definition check_bool : expr -> bool := Generic.check_bool is_boolv.
Definition check_names (E:env) : expr -> option Generic.cerr := Generic.check E.

(* execute + both validators on one tree *)
Definition run_case vars fns (e:expr) : (res value * list event) * bool * option Generic.cerr :=
  let E := mk_env vars fns in (eval_t E e, check_bool e, check_names E e).
(* optimize with the trace of calls it makes, execute before and after, validator before and after *)
Definition opt_fuel (e:expr) : nat := S (Generic.measure e).
Definition run_opt vars fns (e:expr) :=
  let E := mk_env vars fns in
  let '(st, e', tr) := optimize_t E (opt_fuel e) e [] in
  (st, e', tr, fst (eval_t E e), fst (eval_t E e'), check_names E e, check_names E e').

(* bit-level boolean equalities, so that concrete examples can be decided by vm_compute without normalising the proof
   terms carried inside Flocq's binary_float values *)
Fixpoint value_eqb (a b:value) {struct a} : bool :=
  match a, b with
  | VBool x, VBool y => Bool.eqb x y
  | VStr x, VStr y => leqb x y
  | VNum x, VNum y => Z.eqb (to_bits x) (to_bits y)
  | VArr x, VArr y => (fix go (l1 l2:list value) {struct l1} : bool := match l1, l2 with [], [] => true | p::t1, q::t2 => value_eqb p q && go t1 t2 | _, _ => false end) x y
  | _, _ => false end.
Definition op_eqb (a b:op) : bool := match a, b with
  | Plus,Plus|Minus,Minus|Multiply,Multiply|Divide,Divide|Greater,Greater|GreaterEqual,GreaterEqual|Less,Less|LessEqual,LessEqual
  | Equal,Equal|NotEqual,NotEqual|And,And|Or,Or|Xor,Xor|Not,Not|Div,Div|Mod,Mod|TernaryCondition,TernaryCondition => true | _,_ => false end.
Fixpoint expr_eqb (a b:expr) {struct a} : bool :=
  match a, b with
  | EUn o r, EUn o' r' => op_eqb o o' && expr_eqb r r'
  | EBin o l r, EBin o' l' r' => op_eqb o o' && expr_eqb l l' && expr_eqb r r'
  | ETer o l m r, ETer o' l' m' r' => op_eqb o o' && expr_eqb l l' && expr_eqb m m' && expr_eqb r r'
  | EArr x, EArr y => (fix go (l1 l2:list expr) {struct l1} : bool := match l1, l2 with [], [] => true | p::t1, q::t2 => expr_eqb p q && go t1 t2 | _, _ => false end) x y
  | ELit v, ELit w => value_eqb v w
  | EVar n, EVar m => leqb n m
  | ECall n x, ECall m y => leqb n m && (fix go (l1 l2:list expr) {struct l1} : bool := match l1, l2 with [], [] => true | p::t1, q::t2 => expr_eqb p q && go t1 t2 | _, _ => false end) x y
  | _, _ => false end.
Definition res_is (r:res value) (v:value) : bool := match r with Ok w => value_eqb w v | Er _ => false end.
