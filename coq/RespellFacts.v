(* evaluating a tree is unaffected by changing the letter case of the identifiers in it: for every environment that looks names up by their folded spelling (the standard-library
   environment does), a respelled tree evaluates to the same value, or fails with the same kind of error (the names carried by an error are the spelled ones and may differ) *)
From Flocq Require Import Core BinarySingleNaN.
Require Import ZArith NArith Bool List Arith. Import ListNotations.
Require Import F64 Dec Types Generic Lang Opt IO CaseModel Env StdEnv.

Definition nerr_sim (a b:nerr) : Prop := match a, b with FunctionNotFound _, FunctionNotFound _ => True | _, _ => a = b end.
Definition err_sim (a b:err) : Prop :=
  match a, b with
  | Undefined _, Undefined _ => True
  | NativeFunctionError _ x, NativeFunctionError _ y => nerr_sim x y
  | InvalidUnary o, InvalidUnary o' => o = o' | InvalidBinary o, InvalidBinary o' => o = o' | InvalidTernary o, InvalidTernary o' => o = o'
  | _, _ => False end.
Definition res_sim {A} (a b:res A) : Prop := match a, b with Ok v, Ok w => v = w | Er x, Er y => err_sim x y | _, _ => False end.
Lemma nerr_sim_refl a : nerr_sim a a. Proof. destruct a; cbn; auto. Qed.
Lemma err_sim_refl a : err_sim a a. Proof. destruct a; cbn; auto using nerr_sim_refl. Qed.
Lemma res_sim_refl {A} (a:res A) : res_sim a a. Proof. destruct a; cbn; auto using err_sim_refl. Qed.

Fixpoint respell (f:list N -> list N) (e:expr) : expr :=
  match e with
  | EUn o r => EUn o (respell f r) | EBin o l r => EBin o (respell f l) (respell f r) | ETer o l m r => ETer o (respell f l) (respell f m) (respell f r)
  | EArr es => EArr (map (respell f) es) | ELit v => ELit v | EVar n => EVar (f n) | ECall n ps => ECall (f n) (map (respell f) ps) end.

Section Sim.
Variable E : env.
Variable f : list N -> list N.
Hypothesis var_folded : forall n, var E (f n) = var E n.
Hypothesis call_folded : forall n vs, res_sim (call E (f n) vs) (call E n vs).

Lemma boolr_sim a b : res_sim a b -> res_sim (Generic.boolr as_bool a) (Generic.boolr as_bool b).
Proof. destruct a as [v|x], b as [w|y]; cbn; try contradiction; [intros ->; reflexivity|]. destruct x, y; cbn; try contradiction; auto. Qed.
Lemma bin_combine_sim o a b a' b' : res_sim a a' -> res_sim b b' -> res_sim (bin_combine o a b) (bin_combine o a' b').
Proof.
  intros Ha Hb. pose proof (boolr_sim b b' Hb) as Hbr. unfold bin_combine, Generic.bin_combine.
  destruct a as [v|x], a' as [v'|x']; cbn in Ha; try contradiction.
  - subst v'. destruct o; try (destruct (as_bool v); [exact Hbr || reflexivity | exact Hbr || reflexivity]);
      (destruct b as [w|y], b' as [w'|y']; cbn in Hb; try contradiction; [subst w'; apply res_sim_refl | destruct y, y'; cbn in Hb |- *; try contradiction; auto]).
  - destruct x, x'; cbn in Ha; try contradiction; destruct o; cbn; auto;
      try exact Hbr; try (destruct b as [w|y], b' as [w'|y']; cbn in Hb |- *; try contradiction; [subst; reflexivity | destruct y, y'; cbn in Hb |- *; try contradiction; auto]).
Qed.
Lemma un_combine_sim o a b : res_sim a b -> res_sim (un_combine o a) (un_combine o b).
Proof. unfold un_combine, Generic.un_combine. destruct a as [v|x], b as [w|y]; cbn; try contradiction; [intros ->; apply res_sim_refl | auto]. Qed.
Lemma ter_combine_sim o a b c a' b' c' : res_sim a a' -> res_sim b b' -> res_sim c c' ->
  res_sim (Generic.ter_combine as_bool o a b c) (Generic.ter_combine as_bool o a' b' c').
Proof.
  intros Ha Hb Hc. unfold Generic.ter_combine. destruct (Generic.is_cond o); [|cbn; reflexivity].
  destruct a as [v|x], a' as [v'|x']; cbn in Ha; try contradiction; [subst v'; destruct (as_bool v); assumption | exact Ha].
Qed.
Lemma eval_list_sim es : Forall (fun e => res_sim (eval E (respell f e)) (eval E e)) es ->
  res_sim (Generic.eval_list as_bool is_empty un binop E (map (respell f) es)) (Generic.eval_list as_bool is_empty un binop E es).
Proof.
  induction 1 as [|x t Hx Ht IH]; [reflexivity|]. cbn [map Generic.eval_list]. fold (eval E (respell f x)). fold (eval E x).
  destruct (eval E (respell f x)) as [v|a], (eval E x) as [w|b]; cbn in Hx; try contradiction; [subst w|exact Hx].
  destruct (Generic.eval_list _ _ _ _ _ (map (respell f) t)) as [vs|a], (Generic.eval_list _ _ _ _ _ t) as [ws|b]; cbn in IH |- *; try contradiction; [subst; reflexivity | exact IH].
Qed.
Theorem eval_respelled e : res_sim (eval E (respell f e)) (eval E e).
Proof.
  induction e using expr_ind'; cbn [respell].
  - apply un_combine_sim, IHe.
  - apply bin_combine_sim; assumption.
  - apply ter_combine_sim; assumption.
  - unfold eval. rewrite !Generic.eval_arr. pose proof (eval_list_sim es H) as L.
    destruct (Generic.eval_list _ _ _ _ _ (map (respell f) es)) as [vs|a], (Generic.eval_list _ _ _ _ _ es) as [ws|b]; cbn in L |- *; try contradiction; [subst; reflexivity | exact L].
  - reflexivity.
  - unfold eval. cbn [Generic.eval]. rewrite var_folded. destruct (var E n); cbn; auto.
  - unfold eval. rewrite !Generic.eval_call. pose proof (eval_list_sim ps H) as L.
    destruct (Generic.eval_list _ _ _ _ _ (map (respell f) ps)) as [vs|a], (Generic.eval_list _ _ _ _ _ ps) as [ws|b]; cbn in L |- *; try contradiction; [subst; apply call_folded | exact L].
Qed.
End Sim.

(* the standard-library environment looks every name up by its folded spelling *)
Lemma std_call_folded off f : (forall n, fold_name (f n) = fold_name n) -> forall n vs, res_sim (std_call off (f n) vs) (std_call off n vs).
Proof.
  intros Hf n vs. unfold std_call. rewrite Hf. destruct (find_builtin (fold_name n) GenBuiltins.gen_builtins); [|cbn; exact I].
  destruct (Builtins.call_builtin off (fold_name n) vs) as [v|e|]; cbn; [reflexivity | apply nerr_sim_refl |].
  destruct (Time.call_time (fold_name n) vs) as [v|e|]; cbn; [reflexivity | apply nerr_sim_refl | reflexivity].
Qed.
Theorem script_respelled off vars f e : (forall n, fold_name (f n) = fold_name n) -> res_sim (eval (std_env off vars) (respell f e)) (eval (std_env off vars) e).
Proof.
  intros Hf. apply eval_respelled.
  - intros n. cbn [var std_env]. rewrite Hf. reflexivity.
  - intros n vs. cbn [call std_env]. apply std_call_folded, Hf.
Qed.
(* in particular: a value comes out as the same value, whatever the spelling *)
Corollary script_value_respelled off vars f e v : (forall n, fold_name (f n) = fold_name n) -> eval (std_env off vars) e = Ok v -> eval (std_env off vars) (respell f e) = Ok v.
Proof.
  intros Hf H. pose proof (script_respelled off vars f e Hf) as S. rewrite H in S. destruct (eval (std_env off vars) (respell f e)); cbn in S; [subst; reflexivity | contradiction].
Qed.

(* the validator's verdict is unaffected too: accepted stays accepted, and a rejection stays a rejection of the same kind *)
Definition cerr_kind (c:option Generic.cerr) : nat := match c with None => 0 | Some (Generic.MissingVariable _) => 1 | Some (Generic.MissingFunction _) => 2 | Some (Generic.ParamCountMismatch _ _) => 3 end.
Section CheckSim.
Variable E : env.
Variable f : list N -> list N.
Hypothesis var_exists_folded : forall n, var_exists E (f n) = var_exists E n.
Hypothesis fn_exists_folded : forall n k, fn_exists E (f n) k = fn_exists E n k.
Lemma check_list_sim es : Forall (fun e => cerr_kind (check_names E (respell f e)) = cerr_kind (check_names E e)) es ->
  cerr_kind (Generic.check_list E (map (respell f) es)) = cerr_kind (Generic.check_list E es).
Proof.
  induction 1 as [|x t Hx Ht IH]; [reflexivity|]. cbn [map Generic.check_list]. fold (check_names E (respell f x)). fold (check_names E x).
  destruct (check_names E (respell f x)) as [a|], (check_names E x) as [b|]; cbn in Hx |- *; [exact Hx | destruct a; discriminate | destruct b; discriminate | exact IH].
Qed.
Theorem check_respelled e : cerr_kind (check_names E (respell f e)) = cerr_kind (check_names E e).
Proof.
  induction e using expr_ind'; cbn [respell]; unfold check_names in *; cbn [Generic.check].
  - exact IHe.
  - destruct (Generic.check E (respell f e1)) as [a|], (Generic.check E e1) as [b|]; cbn in IHe1 |- *; [exact IHe1 | destruct a; discriminate | destruct b; discriminate | exact IHe2].
  - destruct (Generic.check E (respell f e1)) as [a|], (Generic.check E e1) as [b|]; cbn in IHe1 |- *; [exact IHe1 | destruct a; discriminate | destruct b; discriminate |].
    destruct (Generic.check E (respell f e2)) as [a|], (Generic.check E e2) as [b|]; cbn in IHe2 |- *; [exact IHe2 | destruct a; discriminate | destruct b; discriminate | exact IHe3].
  - rewrite !Generic.check_list_fix. apply check_list_sim, H.
  - reflexivity.
  - rewrite var_exists_folded. destruct (var_exists E n); reflexivity.
  - rewrite fn_exists_folded. rewrite map_length. destruct (fn_exists E n (length ps)); try reflexivity. rewrite !Generic.check_list_fix. apply check_list_sim, H.
Qed.
End CheckSim.
Theorem script_validation_respelled off vars f e : (forall n, fold_name (f n) = fold_name n) ->
  cerr_kind (check_names (std_env off vars) (respell f e)) = cerr_kind (check_names (std_env off vars) e).
Proof. intros Hf. apply check_respelled; intros; cbn [var_exists fn_exists std_env]; rewrite Hf; reflexivity. Qed.
