(* C04: evaluation order, laziness, exactly-once — laws of the traced interpreter that is extracted *)
Require Import ZArith NArith Bool List Arith Lia. Import ListNotations.
Require Import F64 Dec Types Generic Lang.
Section T.
Variable E : env.
Notation res_of e := (fst (eval_t E e)).
Notation tr_of e := (snd (eval_t E e)).
Ltac unf e := cbn [eval_t]; destruct (eval_t E e) as [? ?] eqn:?; cbn [fst snd] in *.
Theorem and_false_skips_right l r lv : res_of l = Ok lv -> as_bool lv = false -> tr_of (EBin And l r) = tr_of l /\ res_of (EBin And l r) = Ok (VBool false).
Proof. intros H1 H2. cbn [eval_t]. destruct (eval_t E l) as [rl tl]. cbn [fst snd] in *. subst rl. cbn [needs_right]. rewrite H2. cbn. unfold bin_combine, Generic.bin_combine. rewrite H2. auto. Qed.
Theorem or_true_skips_right l r lv : res_of l = Ok lv -> as_bool lv = true -> tr_of (EBin Or l r) = tr_of l /\ res_of (EBin Or l r) = Ok (VBool true).
Proof. intros H1 H2. cbn [eval_t]. destruct (eval_t E l) as [rl tl]. cbn [fst snd] in *. subst rl. cbn [needs_right]. rewrite H2. cbn. unfold bin_combine, Generic.bin_combine. rewrite H2. auto. Qed.
Theorem and_undefined_left_skips_right l r n : res_of l = Er (Undefined n) -> tr_of (EBin And l r) = tr_of l /\ res_of (EBin And l r) = Ok (VBool false).
Proof. intros H1. cbn [eval_t]. destruct (eval_t E l) as [rl tl]. cbn [fst snd] in *. subst rl. cbn. auto. Qed.
Theorem needed_right_is_evaluated_once o l r : needs_right o (res_of l) = true -> tr_of (EBin o l r) = tr_of l ++ tr_of r.
Proof. intros H. cbn [eval_t]. destruct (eval_t E l) as [rl tl]. cbn [fst snd] in *. rewrite H. destruct (eval_t E r) as [rr tr]. reflexivity. Qed.
Theorem unneeded_right_is_not_evaluated o l r : needs_right o (res_of l) = false -> tr_of (EBin o l r) = tr_of l.
Proof. intros H. cbn [eval_t]. destruct (eval_t E l) as [rl tl]. cbn [fst snd] in *. rewrite H. reflexivity. Qed.
(* which operands need their right side: exactly the table of the language definition *)
Theorem needs_right_table o rl : needs_right o rl =
  match rl with
  | Ok lv => match o with And => as_bool lv | Or => negb (as_bool lv) | _ => true end
  | Er (Undefined _) => match o with Or | Equal | NotEqual => true | _ => false end
  | Er _ => false end.
Proof. destruct rl as [lv|[]]; destruct o; reflexivity. Qed.
Theorem conditional_evaluates_one_branch c a b cv : res_of c = Ok cv ->
  tr_of (ETer TernaryCondition c a b) = tr_of c ++ tr_of (if as_bool cv then a else b) /\
  res_of (ETer TernaryCondition c a b) = res_of (if as_bool cv then a else b).
Proof. intros H. cbn [eval_t is_cond Generic.is_cond]. destruct (eval_t E c) as [rc tc]. cbn [fst snd] in *. subst rc.
  destruct (as_bool cv). destruct (eval_t E a); auto. destruct (eval_t E b); auto. Qed.
Theorem failing_condition_evaluates_no_branch c a b x : res_of c = Er x -> tr_of (ETer TernaryCondition c a b) = tr_of c /\ res_of (ETer TernaryCondition c a b) = Er x.
Proof. intros H. cbn [eval_t is_cond Generic.is_cond]. destruct (eval_t E c) as [rc tc]. cbn [fst snd] in *. subst rc. auto. Qed.
Theorem invalid_ternary_evaluates_nothing o c a b : Generic.is_cond o = false -> eval_t E (ETer o c a b) = (Er (InvalidTernary o), []).
Proof. intros H. cbn [eval_t]. unfold is_cond. rewrite H. reflexivity. Qed.
Theorem unary_evaluates_operand_once o r : tr_of (EUn o r) = tr_of r.
Proof. cbn [eval_t]. destruct (eval_t E r). reflexivity. Qed.
(* argument lists: left to right, stop at the first failure, the call itself only if every argument succeeded *)
Definition all_ok (xs:list expr) := Forall (fun x => exists v, res_of x = Ok v) xs.
Lemma evals_ok xs : all_ok xs -> exists vs, evals_t E xs = (Ok vs, flat_map (fun x => tr_of x) xs) /\ length vs = length xs.
Proof.
  induction 1 as [|x t [v Hx] Ht IH]; simpl. exists []; auto.
  destruct (eval_t E x) as [rx trx]. cbn [fst snd] in *. subst rx. destruct IH as (vs & -> & L). exists (v :: vs). simpl. auto.
Qed.
Theorem args_stop_at_first_failure xs y zs x0 : all_ok xs -> res_of y = Er x0 ->
  evals_t E (xs ++ y :: zs) = (Er x0, flat_map (fun x => tr_of x) xs ++ tr_of y).
Proof.
  induction 1 as [|x t [v Hx] Ht IH]; intros Hy; simpl.
  - destruct (eval_t E y) as [ry try]. cbn [fst snd] in *. subst ry. reflexivity.
  - destruct (eval_t E x) as [rx trx]. cbn [fst snd] in *. subst rx. rewrite (IH Hy). rewrite app_assoc. reflexivity.
Qed.
Theorem call_after_all_arguments n ps : all_ok ps -> exists vs, tr_of (ECall n ps) = flat_map (fun x => tr_of x) ps ++ [Call n vs] /\ res_of (ECall n ps) = call E n vs /\ length vs = length ps.
Proof. intros H. destruct (evals_ok ps H) as (vs & Ev & L). rewrite eval_t_call, Ev. exists vs. auto. Qed.
Theorem no_call_after_failing_argument n xs y zs x0 : all_ok xs -> res_of y = Er x0 ->
  eval_t E (ECall n (xs ++ y :: zs)) = (Er x0, flat_map (fun x => tr_of x) xs ++ tr_of y).
Proof. intros H Hy. rewrite eval_t_call, (args_stop_at_first_failure xs y zs x0 H Hy). reflexivity. Qed.
Theorem variable_is_one_lookup n : tr_of (EVar n) = [Lookup n]. Proof. reflexivity. Qed.
Theorem literal_is_silent v : tr_of (ELit v) = []. Proof. reflexivity. Qed.
End T.
Print Assumptions conditional_evaluates_one_branch. Print Assumptions no_call_after_failing_argument.
