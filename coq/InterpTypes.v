(* the vocabulary of the tables regenerated from interpreter.rs and value.rs (Gen/GenEvalArms.v, Gen/GenValueOps.v, Gen/GenValueOrd.v) *)
Inductive gpat := POk | PUndef | PErr | PAny.   (* what the operand evaluated to: a value, Err(UndefinedVariable), any other error, anything *)
Inductive gact := GNeg | GNot | GErrOperand | GInvalidU | GAdd | GSub | GMul | GDivide | GDivInt | GRem | GXor | GGt | GGe | GLt | GLe | GEq | GNe | GLeftEmpty | GLeftNotEmpty | GErrRight | GInvalid
  | GAndFull | GConstFalse | GOrFull | GOrOfRight | GStrict | GEqUndefLeft | GNeUndefLeft | GErrLeft
  | RStrConcat | RNumAdd | RArrConcat | RNumSub | RNumMul | RNumDiv | RNumRem | RBoolXor | RNumDivTrunc | RNumNeg
  | CNative | CStrAsNumLeft | CStrAsNumRight | CNone | ENative | EBoolAsNumLeft | EBoolAsNumRight | EByCmp
  | GOther (n:nat).   (* the right-hand side of a match arm, identified by its normalised text; GOther = a text the translator does not know *)
Inductive gkind := KBool | KStr | KNum | KArr.
