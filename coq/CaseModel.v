(* str::to_lowercase / to_uppercase over the tables regenerated from the toolchain (Gen/GenUnicode.v): per-character mappings (one character can become several) and the one
   context rule of to_lowercase - a capital sigma at the end of a word (preceded by a cased letter, not followed by one, case-ignorable characters skipped) becomes the final sigma *)
Require Import NArith Bool List. Import ListNotations.
Require Import GenUnicode.
Fixpoint first_cased (l:list N) : bool := match l with [] => false | c :: r => if u_ignorable c then first_cased r else u_cased c end.
(* before: the characters already passed, nearest first *)
Fixpoint lower_ctx (before s:list N) : list N :=
  match s with [] => [] | c :: r =>
    (if (c =? 931)%N then (if first_cased before && negb (first_cased r) then [962%N] else [963%N]) else u_lower c) ++ lower_ctx (c :: before) r end.
Definition lower_str (s:list N) : list N := lower_ctx [] s.
Definition upper_str (s:list N) : list N := flat_map u_upper s.
