(* the static environment: two maps keyed by the lower-cased name *)
Require Import ZArith NArith Bool List. Import ListNotations.
Require Import F64 Dec Types GenUnicode CaseModel.
(* the key of a name is name.to_lowercase(): CaseModel.v (tables regenerated from the toolchain, final-sigma rule included) *)
Definition fold_name (s:list N) : list N := lower_str s.
Record senv := { svars : list (list N * value); sfns : list (list N * (list N * N)) }.   (* functions: key -> (declared name, tag) *)
Definition empty_env := {| svars := []; sfns := [] |}.
Fixpoint aget {A} (k:list N) (l:list (list N * A)) : option A := match l with [] => None | (k', v) :: t => if leqb k' k then Some v else aget k t end.
Fixpoint adel {A} (k:list N) (l:list (list N * A)) : list (list N * A) := match l with [] => [] | (k', v) :: t => if leqb k' k then adel k t else (k', v) :: adel k t end.
Definition aset {A} (k:list N) (v:A) (l:list (list N * A)) := (k, v) :: adel k l.
Inductive eop := AddV (n:list N) (v:value) | RemV (n:list N) | ClrV | AddF (n:list N) (tag:N) | RemF (n:list N).
Inductive eout := ONone | OVal (v:value) | OFn (declared:list N) (tag:N) | OUnit.
Definition step (s:senv) (o:eop) : senv * eout :=
  match o with
  | AddV n v => ({| svars := aset (fold_name n) v (svars s); sfns := sfns s |}, OUnit)
  | RemV n => ({| svars := adel (fold_name n) (svars s); sfns := sfns s |}, match aget (fold_name n) (svars s) with Some v => OVal v | None => ONone end)
  | ClrV => ({| svars := []; sfns := sfns s |}, OUnit)
  | AddF n tag => ({| svars := svars s; sfns := aset (fold_name n) (n, tag) (sfns s) |}, OUnit)
  | RemF n => ({| svars := svars s; sfns := adel (fold_name n) (sfns s) |}, match aget (fold_name n) (sfns s) with Some (d, t) => OFn d t | None => ONone end)
  end.
Definition q_var (s:senv) (n:list N) : eout := match aget (fold_name n) (svars s) with Some v => OVal v | None => ONone end.
Definition q_fn (s:senv) (n:list N) : eout := match aget (fold_name n) (sfns s) with Some (d, t) => OFn d t | None => ONone end.
Fixpoint run_ops (s:senv) (ops:list eop) (qs:list (list N)) : list (eout * list eout * list eout * list (list N * N)) :=
  match ops with [] => [] | o :: t => let '(s', out) := step s o in (out, map (q_var s') qs, map (q_fn s') qs, map snd (sfns s')) :: run_ops s' t qs end.

(* ---------------- C19: refinement to a map from folded names ---------------- *)
Lemma leqb_sym a b : leqb a b = leqb b a.
Proof. revert b. induction a as [|x a IH]; destruct b as [|y b]; simpl; auto. rewrite N.eqb_sym, IH. reflexivity. Qed.
Lemma leqb_trans_eq a b c : leqb a b = true -> leqb a c = leqb b c.
Proof. intros H. apply leqb_eq in H. subst. reflexivity. Qed.
Lemma aget_adel {A} k k' (l:list (list N * A)) : aget k (adel k' l) = if leqb k' k then None else aget k l.
Proof.
  induction l as [|[k0 v] t IH]; simpl. destruct (leqb k' k); reflexivity.
  destruct (leqb k0 k') eqn:E0.
  - rewrite IH. apply leqb_eq in E0. subst k0. destruct (leqb k' k); reflexivity.
  - simpl. rewrite IH. destruct (leqb k0 k) eqn:E1; auto. destruct (leqb k' k) eqn:E2; auto.
    apply leqb_eq in E1. apply leqb_eq in E2. subst. rewrite leqb_refl in E0. discriminate.
Qed.
Lemma aget_aset {A} k k' (v:A) l : aget k (aset k' v l) = if leqb k' k then Some v else aget k l.
Proof. unfold aset. simpl. destruct (leqb k' k) eqn:E; auto. rewrite aget_adel, E. reflexivity. Qed.
(* the specification: two total maps from folded names *)
Record spec := { mv : list N -> option value; mf : list N -> option (list N * N) }.
Definition abs (s:senv) : spec := {| mv := fun k => aget k (svars s); mf := fun k => aget k (sfns s) |}.
Definition upd {A} (m:list N -> option A) (k:list N) (v:option A) : list N -> option A := fun k' => if leqb k k' then v else m k'.
Definition spec_step (m:spec) (o:eop) : spec * eout :=
  match o with
  | AddV n v => ({| mv := upd (mv m) (fold_name n) (Some v); mf := mf m |}, OUnit)
  | RemV n => ({| mv := upd (mv m) (fold_name n) None; mf := mf m |}, match mv m (fold_name n) with Some v => OVal v | None => ONone end)
  | ClrV => ({| mv := fun _ => None; mf := mf m |}, OUnit)
  | AddF n tag => ({| mv := mv m; mf := upd (mf m) (fold_name n) (Some (n, tag)) |}, OUnit)
  | RemF n => ({| mv := mv m; mf := upd (mf m) (fold_name n) None |}, match mf m (fold_name n) with Some (d, t) => OFn d t | None => ONone end)
  end.
Definition spec_eq (a b:spec) := (forall k, mv a k = mv b k) /\ (forall k, mf a k = mf b k).
Theorem C19_step_refines s o : spec_eq (abs (fst (step s o))) (fst (spec_step (abs s) o)) /\ snd (step s o) = snd (spec_step (abs s) o).
Proof.
  destruct o; simpl; split; try reflexivity; split; intros k; simpl; unfold upd; rewrite ?aget_aset, ?aget_adel; try reflexivity; destruct (leqb (fold_name n) k); reflexivity.
Qed.
Fixpoint run (s:senv) (ops:list eop) : senv * list eout := match ops with [] => (s, []) | o :: t => let '(s', out) := step s o in let '(s'', outs) := run s' t in (s'', out :: outs) end.
Fixpoint spec_run (m:spec) (ops:list eop) : spec * list eout := match ops with [] => (m, []) | o :: t => let '(m', out) := spec_step m o in let '(m'', outs) := spec_run m' t in (m'', out :: outs) end.
Lemma spec_step_ext m m' o : spec_eq m m' -> spec_eq (fst (spec_step m o)) (fst (spec_step m' o)) /\ snd (spec_step m o) = snd (spec_step m' o).
Proof. intros [Hv Hf]. destruct o; simpl; (split; [split; intros k; simpl; unfold upd; rewrite ?Hv, ?Hf; auto | rewrite ?Hv, ?Hf; reflexivity]). Qed.
Theorem C19_refines : forall ops s m, spec_eq (abs s) m -> spec_eq (abs (fst (run s ops))) (fst (spec_run m ops)) /\ snd (run s ops) = snd (spec_run m ops).
Proof.
  induction ops as [|o t IH]; intros s m H; simpl. split; auto.
  destruct (C19_step_refines s o) as [A B]. destruct (spec_step_ext (abs s) m o H) as [C D].
  destruct (step s o) as [s' out]. destruct (spec_step (abs s) o) as [ma outa]. destruct (spec_step m o) as [m' outm]. simpl in *.
  assert (H' : spec_eq (abs s') m'). { destruct A as [A1 A2], C as [C1 C2]. split; intros k; [rewrite A1, C1 | rewrite A2, C2]; reflexivity. }
  specialize (IH s' m' H'). destruct (run s' t) as [s'' outs]. destruct (spec_run m' t) as [m'' outs']. simpl in *. destruct IH as [I1 I2]. split; auto. congruence.
Qed.
(* observations depend on a name only through its folding: any respelling gives the same step *)
Theorem C19_respell s n n' : fold_name n = fold_name n' ->
  step s (RemV n) = step s (RemV n') /\ q_var s n = q_var s n' /\ q_fn s n = q_fn s n' /\ (forall v, fst (step s (AddV n v)) = fst (step s (AddV n' v))).
Proof. intros H. unfold step, q_var, q_fn. rewrite H. repeat split. Qed.
Print Assumptions C19_refines.
