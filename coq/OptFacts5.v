(* C05/C06: the optimizer's output does not depend on the variable bindings, and the optimized tree evaluates like the original under every binding *)
From Flocq Require Import Core BinarySingleNaN.
Require Import ZArith NArith Bool List Arith Lia. Import ListNotations.
Require Import F64 Dec Types Generic Lang Opt IO OptFacts.

(* C05, second sentence at full strength: the tree optimized under one environment evaluates like the original under EVERY variable binding - i.e. under any
   environment that has the same functions. The optimizer never depends on the variables: its output is the same for all such environments. *)
Definition same_functions (E E':env) : Prop := (forall n vs, call E n vs = call E' n vs) /\ (forall n k, fn_exists E n k = fn_exists E' n k).
Notation geval E := (Generic.eval as_bool is_empty un binop E).
Notation gevall E := (Generic.eval_list as_bool is_empty un binop E).
Notation gfold E := (Generic.fold as_bool is_empty un binop E).
Notation gfoldl E := (Generic.fold_list as_bool is_empty un binop E).
Notation gevalfold E := (Generic.evalfold as_bool is_empty un binop E).
Notation gopt E := (Generic.optimize as_bool is_empty un binop E).

Section Two.
Variables E E' : env.
Hypothesis SF : same_functions E E'.
Lemma eval_lit_indep e : Generic.is_lit e = true -> geval E e = geval E' e.
Proof. destruct e; try discriminate. reflexivity. Qed.
Lemma eval_list_lits_indep es : forallb Generic.is_lit es = true -> gevall E es = gevall E' es.
Proof.
  induction es as [|x t IH]; cbn [forallb Generic.eval_list]; [reflexivity|]. intros H. apply andb_prop in H as [Hx Ht].
  rewrite (eval_lit_indep x Hx), (IH Ht). reflexivity.
Qed.
Lemma evalfold_eq e : geval E e = geval E' e -> gevalfold E e = gevalfold E' e.
Proof. intros H. unfold Generic.evalfold. rewrite H. reflexivity. Qed.
Lemma fold_indep : forall e, gfold E e = gfold E' e.
Proof.
  induction e as [o r IH|o l r IHl IHr|o l m r IHl IHm IHr|es IH|v|n|n ps IH] using expr_ind'.
  - cbn [Generic.fold]. destruct (Generic.is_lit r) eqn:L.
    + apply evalfold_eq. cbn [Generic.eval]. rewrite (eval_lit_indep r L). reflexivity.
    + rewrite IH. reflexivity.
  - cbn [Generic.fold]. destruct (Generic.is_lit l && Generic.is_lit r) eqn:L.
    + apply andb_prop in L as [L1 L2]. apply evalfold_eq. cbn [Generic.eval]. rewrite (eval_lit_indep l L1), (eval_lit_indep r L2). reflexivity.
    + rewrite IHl, IHr. reflexivity.
  - cbn [Generic.fold]. rewrite IHl, IHm, IHr. reflexivity.
  - rewrite !Generic.fold_arr. destruct (forallb Generic.is_lit es) eqn:L.
    + apply evalfold_eq. rewrite !Generic.eval_arr, (eval_list_lits_indep es L). reflexivity.
    + assert (G : gfoldl E es = gfoldl E' es). { clear L. induction IH as [|x t Hx Ht IHt]; cbn [Generic.fold_list]; [reflexivity|]. rewrite Hx, IHt. reflexivity. }
      rewrite G. reflexivity.
  - reflexivity.
  - reflexivity.
  - rewrite !Generic.fold_call. destruct SF as [SC SE]. rewrite <- SE. destruct (forallb Generic.is_lit ps) eqn:L.
    + destruct (fn_exists E n (length ps)) as [[]| |]; try reflexivity. apply evalfold_eq. rewrite !Generic.eval_call, (eval_list_lits_indep ps L).
      destruct (gevall E' ps); [apply SC|reflexivity].
    + assert (G : gfoldl E ps = gfoldl E' ps). { clear L. induction IH as [|x t Hx Ht IHt]; cbn [Generic.fold_list]; [reflexivity|]. rewrite Hx, IHt. reflexivity. }
      rewrite G. reflexivity.
Qed.
Lemma optimize_indep : forall k e, gopt E k e = gopt E' k e.
Proof.
  induction k as [|k IH]; intros e; cbn [Generic.optimize]; [reflexivity|]. destruct (Generic.tt e) as [e1 f1]. rewrite fold_indep.
  destruct (gfold E' e1) as [[st e2] f2]. destruct st; [|reflexivity]. destruct (f1 || f2); [apply IH|reflexivity].
Qed.
End Two.

Theorem exact_under_every_binding : forall E E' k e acc st e' tr, same_functions E E' -> no_if3 e = true -> optimize_t E k e acc = (st, e', tr) ->
  fst (eval_t E' e') = fst (eval_t E' e).
Proof.
  intros E E' k e acc st e' tr SF N H.
  pose proof (optimize_erase E k e acc) as A. rewrite H in A. pose proof (optimize_erase E' k e acc) as B.
  rewrite (optimize_indep E E' SF) in A. destruct (optimize_t E' k e acc) as [[st2 e2] tr2] eqn:H2. rewrite <- A in B. injection B as -> ->.
  exact (proj1 (result_preserved E' k e acc st e' tr2 N H2)).
Qed.
(* the optimizer's output does not depend on the variable bindings at all *)
Theorem optimize_ignores_bindings : forall E E' k e acc, same_functions E E' -> fst (optimize_t E k e acc) = fst (optimize_t E' k e acc).
Proof.
  intros E E' k e acc SF. pose proof (optimize_erase E k e acc) as A. pose proof (optimize_erase E' k e acc) as B. rewrite (optimize_indep E E' SF) in A.
  destruct (optimize_t E k e acc) as [[s1 e1] t1]. destruct (optimize_t E' k e acc) as [[s2 e2] t2]. cbn [fst]. rewrite <- B in A. exact A.
Qed.
