(* concrete value operations, the instantiated interpreter, and the traced interpreter that is extracted *)
From Flocq Require Import Core BinarySingleNaN.
Require Import ZArith NArith Bool List Arith Lia. Import ListNotations.
Require Import F64 Dec Types Generic.
(* ---- value operations ---- *)
Definition ordinal v := match v with VBool _ => 0%nat | VStr _ => 1%nat | VNum _ => 2%nat | VArr _ => 3%nat end.
Definition bcmp (x y:bool) : comparison := match x, y with false, true => Lt | true, false => Gt | _, _ => Eq end.
Fixpoint scmp (a b:str) : comparison := match a, b with [], [] => Eq | [], _ => Lt | _, [] => Gt | x::a', y::b' => match N.compare x y with Eq => scmp a' b' | c => c end end.
Definition orElse (o:option comparison) (d:comparison) := match o with Some c => c | None => d end.
Fixpoint vcmp (a b:value) {struct a} : comparison :=
  match a, b with
  | VBool x, VBool y => bcmp x y
  | VStr x, VStr y => scmp x y
  | VNum x, VNum y => orElse (fcmp x y) Eq
  | VArr x, VArr y =>
      (fix lex (l1 l2:list value) {struct l1} : comparison :=
         match l1, l2 with [], [] => Eq | [], _ :: _ => Lt | _ :: _, [] => Gt
         | p :: t1, q :: t2 => match vcmp p q with Eq => lex t1 t2 | c => c end end) x y
  | VStr x, VNum y => match parse_f64 x with Some fx => orElse (fcmp fx y) Lt | None => Lt end
  | VNum x, VStr y => match parse_f64 y with Some fy => orElse (fcmp x fy) Gt | None => Gt end
  | _, _ => Nat.compare (ordinal a) (ordinal b)
  end.
Definition of_bool (b:bool) : f64 := if b then of_int 1 else of_int 0.
Fixpoint veq (a b:value) {struct a} : bool :=
  match a, b with
  | VBool x, VBool y => Bool.eqb x y
  | VStr x, VStr y => match scmp x y with Eq => true | _ => false end
  | VNum x, VNum y => feq x y
  | VArr x, VArr y => (fix alleq (l1 l2:list value) {struct l1} : bool := match l1, l2 with [], [] => true | p::t1, q::t2 => veq p q && alleq t1 t2 | _, _ => false end) x y
  | VBool x, VNum y => feq (of_bool x) y
  | VNum x, VBool y => feq x (of_bool y)
  | _, _ => match vcmp a b with Eq => true | _ => false end
  end.
Definition empty_of v := match v with VBool _ => VBool false | VStr _ => VStr [] | VNum _ => VNum (of_int 0) | VArr _ => VArr [] end.
Definition is_empty v := veq v (empty_of v).
Definition as_bool v := match v with VBool b => b | _ => negb (is_empty v) end.
Definition un (o:op) (v:value) : res value :=
  match o with
  | Minus => match v with VNum x => Ok (VNum (fneg x)) | _ => Er (InvalidUnary Minus) end
  | Not => Ok (VBool (negb (as_bool v)))
  | _ => Er (InvalidUnary o) end.
Definition arith (o:op) (f:f64->f64->f64) (a b:value) : res value := match a, b with VNum x, VNum y => Ok (VNum (f x y)) | _, _ => Er (InvalidBinary o) end.
Definition binop (o:op) (a b:value) : res value :=
  match o with
  | Plus => match a, b with VStr x, VStr y => Ok (VStr (x ++ y)) | VNum x, VNum y => Ok (VNum (fadd x y)) | VArr x, VArr y => Ok (VArr (x ++ y)) | _, _ => Er (InvalidBinary Plus) end
  | Minus => arith Minus fsub a b | Multiply => arith Multiply fmul a b | Divide => arith Divide fdiv a b
  | Div => arith Div (fun x y => ftrunc (fdiv x y)) a b | Mod => arith Mod frem a b
  | Xor => match a, b with VBool x, VBool y => Ok (VBool (xorb x y)) | _, _ => Er (InvalidBinary Xor) end
  | Greater => Ok (VBool (match vcmp a b with Gt => true | _ => false end))
  | GreaterEqual => Ok (VBool (match vcmp a b with Lt => false | _ => true end))
  | Less => Ok (VBool (match vcmp a b with Lt => true | _ => false end))
  | LessEqual => Ok (VBool (match vcmp a b with Gt => false | _ => true end))
  | Equal => Ok (VBool (veq a b)) | NotEqual => Ok (VBool (negb (veq a b)))
  | _ => Er (InvalidBinary o) end.


(* ---- instantiation of the generic development ---- *)
Definition boolr := Generic.boolr as_bool.
Definition bin_combine := Generic.bin_combine as_bool is_empty binop.
Definition ter_combine := Generic.ter_combine as_bool.
Definition un_combine := Generic.un_combine un.
Definition eval (E:env) := Generic.eval as_bool is_empty un binop E.
Definition eval_list (E:env) := Generic.eval_list as_bool is_empty un binop E.
Definition is_cond := Generic.is_cond.
Definition needs_right (o:op) (rl:res value) : bool :=
  match o, rl with
  | And, Ok lv => as_bool lv | And, Er _ => false
  | Or, Ok lv => negb (as_bool lv) | Or, Er (Undefined _) => true | Or, Er _ => false
  | _, Ok _ => true
  | Equal, Er (Undefined _) | NotEqual, Er (Undefined _) => true
  | _, Er _ => false end.
Section Eval.
Variable E : env.
Fixpoint eval_t (e:expr) : res value * list event :=
  match e with
  | ELit v => (Ok v, [])
  | EVar n => (match var E n with Some v => Ok v | None => Er (Undefined n) end, [Lookup n])
  | EArr es =>
      let '(r, tr) := (fix go (l:list expr) : res (list value) * list event :=
                         match l with [] => (Ok [], []) | x :: t =>
                           let '(rx, trx) := eval_t x in
                           match rx with Ok v => let '(rt, trt) := go t in (match rt with Ok vs => Ok (v :: vs) | Er e => Er e end, trx ++ trt) | Er e => (Er e, trx) end end) es in
      (match r with Ok vs => Ok (VArr vs) | Er e => Er e end, tr)
  | ECall n ps =>
      let '(r, tr) := (fix go (l:list expr) : res (list value) * list event :=
                         match l with [] => (Ok [], []) | x :: t =>
                           let '(rx, trx) := eval_t x in
                           match rx with Ok v => let '(rt, trt) := go t in (match rt with Ok vs => Ok (v :: vs) | Er e => Er e end, trx ++ trt) | Er e => (Er e, trx) end end) ps in
      match r with Ok vs => (call E n vs, tr ++ [Call n vs]) | Er e => (Er e, tr) end
  | EUn o r => let '(rr, tr) := eval_t r in (un_combine o rr, tr)
  | EBin o l r =>
      let '(rl, tl) := eval_t l in
      if needs_right o rl then let '(rr, tr) := eval_t r in (bin_combine o rl rr, tl ++ tr)
      else (bin_combine o rl (Er (Undefined [])), tl)
  | ETer o l m r =>
      if is_cond o then
        let '(rl, tl) := eval_t l in
        match rl with
        | Ok lv => if as_bool lv then let '(rm, tm) := eval_t m in (rm, tl ++ tm) else let '(rr, tr) := eval_t r in (rr, tl ++ tr)
        | Er e => (Er e, tl) end
      else (Er (InvalidTernary o), [])
  end.
Fixpoint evals_t (l:list expr) : res (list value) * list event :=
  match l with [] => (Ok [], []) | x :: t =>
    let '(rx, trx) := eval_t x in
    match rx with Ok v => let '(rt, trt) := evals_t t in (match rt with Ok vs => Ok (v :: vs) | Er e => Er e end, trx ++ trt) | Er e => (Er e, trx) end end.
Lemma evals_t_fix : forall l, (fix go (l:list expr) : res (list value) * list event :=
                         match l with [] => (Ok [], []) | x :: t =>
                           let '(rx, trx) := eval_t x in
                           match rx with Ok v => let '(rt, trt) := go t in (match rt with Ok vs => Ok (v :: vs) | Er e => Er e end, trx ++ trt) | Er e => (Er e, trx) end end) l = evals_t l.
Proof. induction l as [|x t IH]; simpl; auto; try (rewrite IH; reflexivity). Qed.
Lemma eval_t_arr es : eval_t (EArr es) = let '(r, tr) := evals_t es in (match r with Ok vs => Ok (VArr vs) | Er e => Er e end, tr).
Proof. cbn [eval_t]. rewrite evals_t_fix. reflexivity. Qed.
Lemma eval_t_call n ps : eval_t (ECall n ps) = let '(r, tr) := evals_t ps in match r with Ok vs => (call E n vs, tr ++ [Call n vs]) | Er e => (Er e, tr) end.
Proof. cbn [eval_t]. rewrite evals_t_fix. reflexivity. Qed.
Lemma needs_right_irrelevant o rl rr rr' : needs_right o rl = false -> bin_combine o rl rr = bin_combine o rl rr'.
Proof. unfold bin_combine, Generic.bin_combine, Generic.boolr. destruct rl as [lv|el]; destruct o; simpl; intros H; try discriminate; try reflexivity;
  try (destruct (as_bool lv); simpl in *; try discriminate; reflexivity);
  destruct el; simpl in *; try discriminate; reflexivity. Qed.
Theorem eval_t_fst : forall e, fst (eval_t e) = eval E e.
Proof.
  unfold eval. induction e using expr_ind'.
  - cbn [eval_t Generic.eval]. destruct (eval_t e) as [rr tr]. simpl in *. rewrite IHe. reflexivity.
  - cbn [eval_t Generic.eval]. destruct (eval_t e1) as [rl tl]. simpl in IHe1. subst rl.
    destruct (needs_right o _) eqn:Nr.
    + destruct (eval_t e2) as [rr tr]. simpl in *. rewrite IHe2. reflexivity.
    + simpl. apply needs_right_irrelevant; auto.
  - cbn [eval_t Generic.eval]. unfold Generic.ter_combine, is_cond. destruct (Generic.is_cond o); [|reflexivity].
    destruct (eval_t e1) as [rl tl]. simpl in IHe1. subst rl. destruct (Generic.eval _ _ _ _ _ e1) as [lv|]; [|reflexivity].
    destruct (as_bool lv).
    + destruct (eval_t e2) as [rm tm]. simpl in *. auto.
    + destruct (eval_t e3) as [rr tr]. simpl in *. auto.
  - rewrite eval_t_arr, Generic.eval_arr.
    assert (G : fst (evals_t es) = Generic.eval_list as_bool is_empty un binop E es).
    { induction H as [|x t Hx Ht IH]; simpl; auto. destruct (eval_t x) as [rx trx]. simpl in Hx. subst rx.
      destruct (Generic.eval _ _ _ _ _ x); [|reflexivity]. destruct (evals_t t) as [rt trt]. simpl in *. rewrite IH. reflexivity. }
    destruct (evals_t es) as [r tr]. simpl in *. rewrite G. reflexivity.
  - reflexivity.
  - reflexivity.
  - rewrite eval_t_call, Generic.eval_call.
    assert (G : fst (evals_t ps) = Generic.eval_list as_bool is_empty un binop E ps).
    { induction H as [|x t Hx Ht IH]; simpl; auto. destruct (eval_t x) as [rx trx]. simpl in Hx. subst rx.
      destruct (Generic.eval _ _ _ _ _ x); [|reflexivity]. destruct (evals_t t) as [rt trt]. simpl in *. rewrite IH. reflexivity. }
    destruct (evals_t ps) as [r tr]. simpl in *. subst r. destruct (Generic.eval_list _ _ _ _ _ ps); reflexivity.
Qed.
End Eval.
(* the hypotheses of the generic development, discharged for the concrete operations *)
Lemma un_no_undef : forall o v n, un o v <> Er (Undefined n).
Proof. intros o v n. destruct o; simpl; try discriminate. destruct v; discriminate. Qed.
Lemma binop_no_undef : forall o a b n, binop o a b <> Er (Undefined n).
Proof. intros o a b n. destruct o; simpl; unfold arith; try discriminate; destruct a, b; discriminate. Qed.
Lemma un_no_fnf : forall o v m m', un o v <> Er (NativeFunctionError m (FunctionNotFound m')).
Proof. intros o v m m'. destruct o; simpl; try discriminate. destruct v; discriminate. Qed.
Lemma binop_no_fnf : forall o a b m m', binop o a b <> Er (NativeFunctionError m (FunctionNotFound m')).
Proof. intros o a b m m'. destruct o; simpl; unfold arith; try discriminate; destruct a, b; discriminate. Qed.
Lemma as_bool_vbool : forall b, as_bool (VBool b) = b. Proof. reflexivity. Qed.
