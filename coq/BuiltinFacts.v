(* C15 / C17 facts about the builtin models *)
From Flocq Require Import Core BinarySingleNaN.
Require Import ZArith NArith Bool List Arith Lia. Import ListNotations.
Require Import F64 Dec Types Generic Lang Builtins.
(* ---- substring search on code-point lists ---- *)
Lemma is_prefix_spec n s : is_prefix n s = true <-> firstn (length n) s = n /\ (length n <= length s)%nat.
Proof.
  revert s. induction n as [|a n IH]; intros s; simpl. split; auto. intros _. split; auto. lia.
  destruct s as [|b s]; simpl. split; [discriminate|intros [H _]; discriminate].
  rewrite andb_true_iff, N.eqb_eq, IH. split.
  - intros [-> [H1 H2]]. rewrite H1. split; auto. lia.
  - intros [H1 H2]. injection H1 as -> H1. repeat split; auto. lia.
Qed.
Theorem find_sub_sound n s i : find_sub n s = Some i -> firstn (length n) (skipn i s) = n /\ (i + length n <= length s)%nat.
Proof.
  revert i. induction s as [|c s IH]; intros i; simpl.
  - destruct (is_prefix n []) eqn:P; [|discriminate]. intros H; injection H as <-. apply is_prefix_spec in P. simpl. exact P.
  - destruct (is_prefix n (c :: s)) eqn:P.
    + intros H; injection H as <-. apply is_prefix_spec in P. simpl skipn. destruct P; split; auto.
    + destruct (find_sub n s) as [j|] eqn:F; [|discriminate]. simpl. intros H; injection H as <-. destruct (IH j eq_refl) as [A B]. simpl. split; auto. lia.
Qed.
Theorem find_sub_least n s i : find_sub n s = Some i -> forall j, (j < i)%nat -> is_prefix n (skipn j s) = false.
Proof.
  revert i. induction s as [|c s IH]; intros i; simpl.
  - destruct (is_prefix n []); [|discriminate]. intros H; injection H as <-. intros j Hj; lia.
  - destruct (is_prefix n (c :: s)) eqn:P. intros H; injection H as <-. intros j Hj; lia.
    destruct (find_sub n s) as [k|] eqn:F; [|discriminate]. simpl. intros H; injection H as <-. intros j Hj.
    destruct j as [|j]; simpl; auto. apply (IH k eq_refl). lia.
Qed.
Theorem find_sub_complete n s : find_sub n s = None -> forall j, is_prefix n (skipn j s) = false.
Proof.
  induction s as [|c s IH]; simpl.
  - destruct (is_prefix n []) eqn:P; [discriminate|]. intros _ j. destruct j; simpl; exact P.
  - destruct (is_prefix n (c :: s)) eqn:P; [discriminate|]. destruct (find_sub n s) eqn:F; [discriminate|]. intros _ j. destruct j as [|j]; simpl; auto.
Qed.
(* copy(s, find(s,x), length(x)) = x at the sequence level *)
Theorem copy_find_seq n s i : find_sub n s = Some i -> firstn (length n) (skipn i s) = n.
Proof. intros H. apply (find_sub_sound n s i H). Qed.
(* at(s, i) for i over the positions enumerates s *)
Theorem at_enumerates {A} (s:list A) : map (nth_error s) (seq 0 (length s)) = map Some s.
Proof.
  induction s as [|c s IH]; simpl; auto. f_equal. rewrite <- seq_shift, map_map. simpl. exact IH.
Qed.
Theorem reverse_involutive {A} (l:list A) : rev (rev l) = l. Proof. apply rev_involutive. Qed.
(* ---- chr / ord: finite sweep over the whole ASCII range and its neighbours ---- *)
Definition chr_name := A [99;104;114]%Z. Definition ord_name := A [111;114;100]%Z.
Definition chr_ord_ok (n:Z) : bool :=
  match call_builtin 1 chr_name [VNum (of_int n)] with
  | BOk (VStr [c]) => (Z.of_N c =? n)%Z && (match call_builtin 1 ord_name [VStr [c]] with BOk (VNum f) => (to_i64 f =? n)%Z | _ => false end)
  | _ => false end.
Definition zrange (lo : Z) (n : nat) : list Z := map (fun k => (lo + Z.of_nat k)%Z) (seq 0 n).
Theorem C17_chr_ord_inverse : forallb chr_ord_ok (zrange 0 128) = true.
Proof. vm_compute. reflexivity. Qed.
Theorem C17_chr_rejects_outside : forallb (fun n => match call_builtin 1 chr_name [VNum (of_int n)] with BErr CustomError => true | _ => false end) (zrange 128 200 ++ zrange (-200) 200) = true.
Proof. vm_compute. reflexivity. Qed.
Print Assumptions find_sub_sound. Print Assumptions C17_chr_ord_inverse.
