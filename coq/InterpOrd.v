(* C13/C03: vcmp and veq of the model are the reading of the arms of impl Ord / impl PartialEq / ordinal regenerated from value.rs (Gen/GenValueOrd.v) *)
From Flocq Require Import Core BinarySingleNaN.
Require Import ZArith NArith Bool List Arith Lia. Import ListNotations.
Require Import F64 Dec Types Generic Lang InterpTypes InterpRead GenValueOrd.

Definition tab_ordinal (v:value) : option N := option_map snd (find (fun row => kind_eqb (fst row) (kind_of v)) gen_ordinal).
Definition lex := (fix lex (l1 l2:list value) {struct l1} : comparison :=
         match l1, l2 with [], [] => Eq | [], _ :: _ => Lt | _ :: _, [] => Gt
         | p :: t1, q :: t2 => match vcmp p q with Eq => lex t1 t2 | c => c end end).
Definition alleq := (fix alleq (l1 l2:list value) {struct l1} : bool := match l1, l2 with [], [] => true | p::t1, q::t2 => veq p q && alleq t1 t2 | _, _ => false end).
(* Ord::cmp: the arm gives an Option<Ordering>; None falls back on the ordinals *)
Definition cmp_arm_sem (r:gact) (a b:value) : option (option comparison) :=
  match r, a, b with
  | CNative, VBool x, VBool y => Some (Some (bcmp x y))
  | CNative, VStr x, VStr y => Some (Some (scmp x y))
  | CNative, VNum x, VNum y => Some (fcmp x y)
  | CNative, VArr x, VArr y => Some (Some (lex x y))
  | CStrAsNumLeft, VStr x, VNum y => Some (match parse_f64 x with Some fx => fcmp fx y | None => None end)
  | CStrAsNumRight, VNum x, VStr y => Some (match parse_f64 y with Some fy => fcmp x fy | None => None end)
  | CNone, _, _ => Some None
  | _, _, _ => None end.
Definition tab_cmp (a b:value) : option comparison :=
  match okinds_arm gen_cmp_arms a b, tab_ordinal a, tab_ordinal b with
  | Some r, Some oa, Some ob =>
      match cmp_arm_sem r a b with
      | Some (Some c) => Some c
      | Some None => if gen_cmp_falls_back_on_ordinal then Some (N.compare oa ob) else None
      | None => None end
  | _, _, _ => None end.
Definition eq_arm_sem (r:gact) (a b:value) : option bool :=
  match r, a, b with
  | ENative, VBool x, VBool y => Some (Bool.eqb x y)
  | ENative, VStr x, VStr y => Some (match scmp x y with Eq => true | _ => false end)
  | ENative, VNum x, VNum y => Some (feq x y)
  | ENative, VArr x, VArr y => Some (alleq x y)
  | EBoolAsNumLeft, VBool x, VNum y => Some (feq (of_bool x) y)
  | EBoolAsNumRight, VNum x, VBool y => Some (feq x (of_bool y))
  | EByCmp, _, _ => Some (match vcmp a b with Eq => true | _ => false end)
  | _, _, _ => None end.
Definition tab_eq (a b:value) : option bool := match okinds_arm gen_eq_arms a b with Some r => eq_arm_sem r a b | None => None end.


Theorem vcmp_is_the_table : forall a b, Some (vcmp a b) = tab_cmp a b.
Proof. intros a b. destruct a, b; try reflexivity; cbn; try (destruct (fcmp _ _) as [[]|]; reflexivity); try (destruct (parse_f64 _); [destruct (fcmp _ _) as [[]|]|]; reflexivity). Qed.
Theorem veq_is_the_table : forall a b, Some (veq a b) = tab_eq a b.
Proof. intros a b. destruct a, b; reflexivity. Qed.
