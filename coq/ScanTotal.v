(* C07, scanner half: the tokenizer never runs out of the fuel `tokenize` gives it (every token consumes a character) *)
Require Import NArith List Bool Arith Lia. Import ListNotations.
Require Import Scan.
Open Scope N_scope.
Section T.
Variables alpha num : N -> bool.
Variable F : Type.
Variable parse_num : list N -> option F.
Variable kw_of : list N -> option kw.
Notation next_token := (Scan.next_token alpha num F parse_num kw_of).
Notation number := (Scan.number num F parse_num).
Notation finish := (Scan.finish F parse_num).
Notation toks := (Scan.toks alpha num F parse_num kw_of).
Notation tokenize := (Scan.tokenize alpha num F parse_num kw_of).

Lemma span_len (p:N -> bool) s : (length (fst (span p s)) + length (snd (span p s)) = length s)%nat.
Proof. induction s as [|c r IH]; cbn [span]; auto. destruct (p c); [|reflexivity]. destruct (span p r) as [a b]. cbn [fst snd length] in *. lia. Qed.
Lemma span_snd_le (p:N -> bool) s : (length (snd (span p s)) <= length s)%nat.
Proof. pose proof (span_len p s). lia. Qed.
Lemma scan_str_len : forall n r s' rest, (length r <= n)%nat -> scan_str r = Some (s', rest) -> (length rest < length r)%nat.
Proof.
  induction n as [|n IH]; intros r s' rest L H.
  - destruct r; [discriminate|cbn in L; lia].
  - destruct r as [|c r']; cbn [scan_str] in H; [discriminate|]. cbn [length] in L.
    destruct (c =? cQ).
    + destruct r' as [|q r'']. { injection H as <- <-. cbn; lia. }
      destruct (q =? cQ).
      * destruct (scan_str r'') as [[s0 rest0]|] eqn:E; [|discriminate]. injection H as <- <-.
        cbn [length] in L. assert (X := IH r'' s0 rest0 ltac:(lia) E). cbn [length]. lia.
      * injection H as <- <-. cbn [length]. lia.
    + destruct (scan_str r') as [[s0 rest0]|] eqn:E; [|discriminate]. injection H as <- <-.
      assert (X := IH r' s0 rest0 ltac:(lia) E). cbn [length]. lia.
Qed.
Lemma finish_len content rest t rest' : finish content rest = Ok (t, rest') -> rest' = rest.
Proof. unfold Scan.finish. destruct (parse_num content); intros H; [injection H as _ <-; reflexivity|discriminate]. Qed.
Lemma number_len c r t rest : number c r = Ok (t, rest) -> (length rest <= length r)%nat.
Proof.
  unfold Scan.number. pose proof (span_len num r) as L1. destruct (span num r) as [ip r1]. cbn [fst snd] in L1.
  destruct r1 as [|d r2].
  - intros H. apply finish_len in H. subst. cbn. lia.
  - destruct (d =? cDOT).
    + destruct r2 as [|e r3].
      * intros H. apply finish_len in H. subst. cbn. lia.
      * destruct (num e).
        -- pose proof (span_len num (e :: r3)) as L2. destruct (span num (e :: r3)) as [fp r4]. cbn [fst snd] in L2.
           intros H. apply finish_len in H. subst. cbn [length] in *. lia.
        -- intros H. apply finish_len in H. subst. cbn [length] in *. lia.
    + intros H. apply finish_len in H. subst. cbn [length] in *. lia.
Qed.
Lemma next_token_len s t rest : next_token s = Ok (t, rest) -> (length rest < length s)%nat.
Proof.
  unfold Scan.next_token. destruct s as [|c r]; [discriminate|].
  destruct (ident_start alpha c).
  { pose proof (span_snd_le (ident_char alpha num) r) as L. destruct (span (ident_char alpha num) r) as [b rest0]. cbn [snd] in L. intros H. injection H as _ <-. cbn [length]. lia. }
  destruct (num c). { intros H. apply number_len in H. cbn [length]. lia. }
  destruct (c =? cQ).
  { destruct (scan_str r) as [[s' rest0]|] eqn:E; [|discriminate]. intros H. injection H as _ <-. pose proof (scan_str_len (length r) r s' rest0 (le_n _) E). cbn [length]. lia. }
  destruct (c =? cDOT). { intros H. apply number_len in H. cbn [length]. lia. }
  repeat match goal with |- context [if ?b then Ok (_, r) else _] => destruct b; [intros H; injection H as _ <-; cbn [length]; lia|] end.
  destruct (c =? cGT).
  { destruct r as [|e r']. intros H; injection H as _ <-; cbn; lia. destruct (e =? cEQ); intros H; injection H as _ <-; cbn [length]; lia. }
  destruct (c =? cLT).
  { destruct r as [|e r']. intros H; injection H as _ <-; cbn; lia. destruct (e =? cEQ); [intros H; injection H as _ <-; cbn [length]; lia|].
    destruct (e =? cGT); intros H; injection H as _ <-; cbn [length]; lia. }
  discriminate.
Qed.
Lemma skip_len : forall s st, (length (skip st s) <= length s)%nat.
Proof.
  induction s as [|c r IH]; intros st; cbn [skip]; auto.
  destruct st as [| |d].
  - destruct (is_ws c). { specialize (IH Normal). cbn [length]. lia. }
    destruct ((c =? cSLASH) && match r with c2 :: _ => c2 =? cSLASH | [] => false end). { specialize (IH InLine). cbn [length]. lia. }
    destruct (c =? cLC). { specialize (IH (InBlock 1)). cbn [length]. lia. } lia.
  - destruct (c =? cLF); [specialize (IH Normal)|specialize (IH InLine)]; cbn [length]; lia.
  - destruct (c =? cLC). { specialize (IH (InBlock (S d))). cbn [length]. lia. }
    destruct (c =? cRC). { destruct d as [|[|d']]; [specialize (IH Normal)|specialize (IH Normal)|specialize (IH (InBlock (S d')))]; cbn [length]; lia. }
    specialize (IH (InBlock d)). cbn [length]. lia.
Qed.
Theorem toks_nofuel : forall n s, (length s < n)%nat -> toks n s <> Er EFuel.
Proof.
  induction n as [|n IH]; intros s L; [lia|]. cbn [Scan.toks].
  pose proof (skip_len s Normal) as Ls. destruct (skip Normal s) as [|c s'] eqn:E; [discriminate|].
  destruct (next_token (c :: s')) as [[t rest]|e] eqn:Nt.
  - apply next_token_len in Nt. specialize (IH rest ltac:(lia)). destruct (toks n rest); [discriminate|]. intros X. apply IH. exact X.
  - unfold Scan.next_token in Nt. intros X. injection X as ->.
    (* next_token itself never reports EFuel *)
    revert Nt. destruct (ident_start alpha c). { destruct (span _ s'); discriminate. }
    assert (Hn : forall c0 r0, number c0 r0 <> Er EFuel).
    { intros c0 r0. unfold Scan.number, Scan.finish. destruct (span num r0) as [ip r1]. destruct r1 as [|d r2]; [destruct (parse_num _); discriminate|].
      destruct (d =? cDOT); [|destruct (parse_num _); discriminate]. destruct r2 as [|e0 r3]; [destruct (parse_num _); discriminate|].
      destruct (num e0); [destruct (span num (e0 :: r3)); destruct (parse_num _); discriminate|destruct (parse_num _); discriminate]. }
    destruct (num c). { intros X. exact (Hn _ _ X). }
    destruct (c =? cQ). { destruct (scan_str s') as [[? ?]|]; discriminate. }
    destruct (c =? cDOT). { intros X. exact (Hn _ _ X). }
    repeat match goal with |- context [if ?b then Ok _ else _] => destruct b; [discriminate|] end.
    destruct (c =? cGT). { destruct s' as [|e0 r']; [discriminate|destruct (e0 =? cEQ); discriminate]. }
    destruct (c =? cLT). { destruct s' as [|e0 r']; [discriminate|destruct (e0 =? cEQ); [discriminate|destruct (e0 =? cGT); discriminate]]. }
    discriminate.
Qed.
Theorem tokenize_nofuel : forall s, tokenize s <> Er EFuel.
Proof. intros s. unfold Scan.tokenize. pose proof (toks_nofuel (S (length s)) s ltac:(lia)) as H. destruct (toks (S (length s)) s) as [[|]|]; try discriminate. exact H. Qed.
(* bounded output: every token consumes at least one character, so a text of n characters has at most n tokens (and a successful scan at least one) *)
Theorem toks_count : forall n s ts, toks n s = Ok ts -> (length ts <= length s)%nat.
Proof.
  induction n as [|n IH]; intros s ts H; [discriminate|]. cbn [Scan.toks] in H.
  pose proof (skip_len s Normal) as Ls. destruct (skip Normal s) as [|c s'] eqn:E; [injection H as <-; cbn; lia|].
  destruct (next_token (c :: s')) as [[t rest]|e] eqn:Nt; [|discriminate]. apply next_token_len in Nt.
  destruct (toks n rest) as [ts'|] eqn:R; [|discriminate]. injection H as <-. apply IH in R. cbn [length] in *. lia.
Qed.
Theorem tokenize_count : forall s ts, tokenize s = Ok ts -> (1 <= length ts <= length s)%nat.
Proof.
  intros s ts H. unfold Scan.tokenize in H. destruct (toks (S (length s)) s) as [[|t l]|] eqn:R; try discriminate. injection H as <-.
  apply toks_count in R. cbn [length] in *. lia.
Qed.
End T.
