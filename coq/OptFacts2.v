(* C06: purity of the optimizer's trace, minimality of its fixpoints, node count *)
Require Import ZArith NArith Bool List Arith Lia. Import ListNotations.
Require Import F64 Dec Types Generic Lang Opt IO OptFacts.
Section P.
Variable E : env.
Notation fold := (Generic.fold as_bool is_empty un binop E).
Notation tt := Generic.tt.

(* ---- purity: every event in the trace of optimize is a call of a function that the environment reports as pure ---- *)
Definition pure_call (ev:event) : Prop := match ev with Call n vs => fn_exists E n (length vs) = Exists true | Lookup _ => False end.
Lemma evals_lits : forall es, forallb Generic.is_lit es = true -> exists vs, evals_t E es = (Ok vs, []) /\ length vs = length es.
Proof.
  induction es as [|x t IH]; intros H; simpl. exists []; auto.
  apply andb_prop in H as [Hx Ht]. destruct x; try discriminate. destruct (IH Ht) as (vs & Ev & L). cbn [eval_t]. rewrite Ev. exists (v :: vs). simpl. auto.
Qed.
Lemma evalfold_pure e : (match e with
    | EUn _ r => Generic.is_lit r = true | EBin _ l r => Generic.is_lit l && Generic.is_lit r = true | EArr es => forallb Generic.is_lit es = true
    | ECall n ps => forallb Generic.is_lit ps = true /\ fn_exists E n (length ps) = Exists true | _ => False end) ->
  Forall pure_call (snd (evalfold_t E e)).
Proof.
  unfold evalfold_t. destruct e as [o r|o l r|o l m r|es|v|n|n ps]; intros H; try contradiction.
  - destruct r; try discriminate. cbn [eval_t]. destruct (un_combine o (Ok v)); constructor.
  - apply andb_prop in H as [Hl Hr]. destruct l, r; try discriminate. cbn [eval_t]. destruct (needs_right o (Ok v)); cbn; destruct (bin_combine _ _ _); constructor.
  - destruct (evals_lits es H) as (vs & Ev & L). rewrite eval_t_arr, Ev. constructor.
  - destruct H as [H F]. destruct (evals_lits ps H) as (vs & Ev & L). rewrite eval_t_call, Ev. cbn [app].
    assert (P : Forall pure_call [Call n vs]) by (constructor; [cbn; rewrite L; exact F|constructor]).
    destruct (call E n vs); exact P.
Qed.
Lemma fold_list_pure : forall es, Forall (fun e => Forall pure_call (snd (fold_t E e))) es -> Forall pure_call (snd (fold_list_t E es)).
Proof.
  induction 1 as [|x t Hx Ht IH]; cbn [fold_list_t]. constructor.
  destruct (fold_t E x) as [[[st1 x'] f1] t1]. cbn [snd] in Hx. destruct st1; [|exact Hx].
  destruct (fold_list_t E t) as [[[st2 t'] f2] t2]. cbn [snd] in *. apply Forall_app; auto.
Qed.
Theorem fold_pure : forall e, Forall pure_call (snd (fold_t E e)).
Proof.
  induction e using expr_ind'; cbn [fold_t].
  - destruct (is_lit e) eqn:L. apply evalfold_pure; exact L. destruct (fold_t E e) as [[[st r'] f] tr]. exact IHe.
  - destruct (is_lit e1 && is_lit e2) eqn:L. apply evalfold_pure; exact L.
    destruct (fold_t E e1) as [[[st1 l'] f1] t1]. cbn [snd] in IHe1. destruct st1; [|exact IHe1].
    destruct (fold_t E e2) as [[[st2 r'] f2] t2]. cbn [snd] in *. apply Forall_app; auto.
  - assert (G : Forall pure_call (snd (let '(st1, l', f1, t1) := fold_t E e1 in
        match st1 with Generic.SErr _ => (st1, ETer o l' e2 e3, f1, t1) | Generic.SOk =>
          let '(st2, m', f2, t2) := fold_t E e2 in
          match st2 with Generic.SErr _ => (st2, ETer o l' m' e3, f1 || f2, t1 ++ t2) | Generic.SOk =>
            let '(st3, r', f3, t3) := fold_t E e3 in (st3, ETer o l' m' r', f1 || f2 || f3, t1 ++ t2 ++ t3) end end))).
    { destruct (fold_t E e1) as [[[st1 l'] f1] t1]. cbn [snd] in IHe1. destruct st1; [|exact IHe1].
      destruct (fold_t E e2) as [[[st2 m'] f2] t2]. cbn [snd] in IHe2. destruct st2; [|apply Forall_app; auto].
      destruct (fold_t E e3) as [[[st3 r'] f3] t3]. cbn [snd] in *. repeat (apply Forall_app; split); auto. }
    destruct e1; try exact G. destruct (is_cond o); [constructor|exact G].
  - destruct (forallb is_lit es) eqn:L. apply evalfold_pure; exact L.
    rewrite fold_list_t_fix. pose proof (fold_list_pure es H) as X. destruct (fold_list_t E es) as [[[st es'] f] tr]. exact X.
  - constructor.
  - constructor.
  - destruct (forallb is_lit ps) eqn:L.
    + destruct (fn_exists E n (length ps)) as [[|]| |] eqn:F; try constructor. apply evalfold_pure. split; auto.
    + rewrite fold_list_t_fix. pose proof (fold_list_pure ps H) as X. destruct (fold_list_t E ps) as [[[st ps'] f] tr]. exact X.
Qed.
Theorem optimize_pure : forall k e acc, Forall pure_call acc -> Forall pure_call (snd (optimize_t E k e acc)).
Proof.
  induction k as [|k IH]; intros e acc Ha; cbn [optimize_t]. exact Ha.
  destruct (Generic.tt e) as [e1 f1]. pose proof (fold_pure e1) as Fp. destruct (fold_t E e1) as [[[st e2] f2] tr]. cbn [snd] in Fp.
  assert (A : Forall pure_call (acc ++ tr)) by (apply Forall_app; auto).
  destruct st; [|exact A]. destruct (f1 || f2); [apply IH; exact A|exact A].
Qed.
End P.
