Require Import List Arith Bool Lia NArith. Import ListNotations.
Require Import F64 Dec Types.
Set Implicit Arguments.
Section Ord.
Notation F := f64 (only parsing).
Notation S := (list N) (only parsing).
Variable fcmp : F -> F -> option comparison.   (* IEEE partial_cmp *)
Variable scmp : S -> S -> comparison.          (* byte-wise string order *)
Variable parse : S -> option F.                (* str::parse::<f64> *)
Definition nan x := fcmp x x = None.
Hypothesis fcmp_swap : forall x y, fcmp y x = option_map CompOpp (fcmp x y).
Hypothesis fcmp_none : forall x y, fcmp x y = None <-> nan x \/ nan y.
Hypothesis fcmp_refl : forall x, ~ nan x -> fcmp x x = Some Eq.
Hypothesis fcmp_eq_l : forall x y z r, fcmp x y = Some Eq -> fcmp y z = Some r -> fcmp x z = Some r.
Hypothesis fcmp_eq_r : forall x y z r, fcmp x y = Some r -> fcmp y z = Some Eq -> fcmp x z = Some r.
Hypothesis fcmp_lt : forall x y z, fcmp x y = Some Lt -> fcmp y z = Some Lt -> fcmp x z = Some Lt.
Hypothesis scmp_swap : forall x y, scmp y x = CompOpp (scmp x y).
Hypothesis scmp_refl : forall x, scmp x x = Eq.
Hypothesis scmp_eq_l : forall x y z r, scmp x y = Eq -> scmp y z = r -> scmp x z = r.
Hypothesis scmp_eq_r : forall x y z r, scmp x y = r -> scmp y z = Eq -> scmp x z = r.
Hypothesis scmp_lt : forall x y z, scmp x y = Lt -> scmp y z = Lt -> scmp x z = Lt.

Section VInd.
  Variable P : value -> Prop.
  Hypothesis Hb : forall b, P (VBool b). Hypothesis Hs : forall s, P (VStr s). Hypothesis Hn : forall f, P (VNum f).
  Hypothesis Ha : forall l, Forall P l -> P (VArr l).
  Fixpoint value_ind' (v:value) : P v :=
    match v with VBool b => Hb b | VStr s => Hs s | VNum f => Hn f
    | VArr l => Ha ((fix go (l:list value) : Forall P l := match l with [] => Forall_nil _ | x::t => Forall_cons _ (value_ind' x) (go t) end) l) end.
End VInd.
Definition ordinal v := match v with VBool _ => 0 | VStr _ => 1 | VNum _ => 2 | VArr _ => 3 end.
Definition bcmp (x y : bool) : comparison := match x, y with false, true => Lt | true, false => Gt | _, _ => Eq end.
Definition orElse (o : option comparison) (d : comparison) := match o with Some c => c | None => d end.

Fixpoint vcmp (a b : value) {struct a} : comparison :=
  match a, b with
  | VBool x, VBool y => bcmp x y
  | VStr x, VStr y => scmp x y
  | VNum x, VNum y => orElse (fcmp x y) Eq
  | VArr x, VArr y =>
      (fix lex (l1 l2 : list value) {struct l1} : comparison :=
         match l1, l2 with
         | [], [] => Eq | [], _ :: _ => Lt | _ :: _, [] => Gt
         | p :: t1, q :: t2 => match vcmp p q with Eq => lex t1 t2 | c => c end end) x y
  | VStr x, VNum y => match parse x with Some fx => orElse (fcmp fx y) Lt | None => Lt end
  | VNum x, VStr y => match parse y with Some fy => orElse (fcmp x fy) Gt | None => Gt end
  | _, _ => Nat.compare (ordinal a) (ordinal b)
  end.
Fixpoint lexc (l1 l2 : list value) : comparison :=
  match l1, l2 with
  | [], [] => Eq | [], _ :: _ => Lt | _ :: _, [] => Gt
  | p :: t1, q :: t2 => match vcmp p q with Eq => lexc t1 t2 | c => c end end.
Lemma vcmp_arr x y : vcmp (VArr x) (VArr y) = lexc x y.
Proof. simpl. revert y. induction x as [|p t IH]; destruct y as [|q t2]; simpl; auto; try (rewrite IH; reflexivity); try (destruct (vcmp p q); auto). Qed.

(* ---- L1: antisymmetry for ALL values ---- *)
Lemma bcmp_swap x y : bcmp y x = CompOpp (bcmp x y). Proof. destruct x, y; reflexivity. Qed.
Theorem vcmp_antisym : forall a b, vcmp b a = CompOpp (vcmp a b).
Proof.
  induction a as [ab|sa|fa|la IHl] using value_ind'; intros y; destruct y as [yb|sy|fy|ly]; try reflexivity.
  - simpl. apply bcmp_swap.
  - simpl. apply scmp_swap.
  - simpl. destruct (parse sa) as [fx|]; auto. rewrite (fcmp_swap fx fy). destruct (fcmp fx fy) as [[]|]; reflexivity.
  - simpl. destruct (parse sy) as [fx|]; auto. rewrite (fcmp_swap fa fx). destruct (fcmp fa fx) as [[]|]; reflexivity.
  - simpl. rewrite (fcmp_swap fa fy). destruct (fcmp fa fy) as [[]|]; reflexivity.
  - rewrite !vcmp_arr. revert ly. induction IHl as [|p t Hp Ht IH]; destruct ly as [|q t2]; simpl; auto.
    rewrite (Hp q). destruct (vcmp p q); simpl; auto.
Qed.

(* ---- tame values ---- *)
Fixpoint has_nan v := match v with VNum f => match fcmp f f with None => true | _ => false end | VArr l => existsb has_nan l | _ => false end.
Fixpoint has_num v := match v with VNum _ => true | VArr l => existsb has_num l | _ => false end.
Fixpoint has_numstr v := match v with VStr s => match parse s with Some f => match fcmp f f with None => false | _ => true end | None => false end | VArr l => existsb has_numstr l | _ => false end.

(* coercion-free order *)
Fixpoint vcmp0 (a b : value) {struct a} : comparison :=
  match a, b with
  | VBool x, VBool y => bcmp x y
  | VStr x, VStr y => scmp x y
  | VNum x, VNum y => orElse (fcmp x y) Eq
  | VArr x, VArr y =>
      (fix lex (l1 l2 : list value) {struct l1} : comparison :=
         match l1, l2 with
         | [], [] => Eq | [], _ :: _ => Lt | _ :: _, [] => Gt
         | p :: t1, q :: t2 => match vcmp0 p q with Eq => lex t1 t2 | c => c end end) x y
  | _, _ => Nat.compare (ordinal a) (ordinal b)
  end.
Fixpoint lexc0 (l1 l2 : list value) : comparison :=
  match l1, l2 with
  | [], [] => Eq | [], _ :: _ => Lt | _ :: _, [] => Gt
  | p :: t1, q :: t2 => match vcmp0 p q with Eq => lexc0 t1 t2 | c => c end end.
Lemma vcmp0_arr x y : vcmp0 (VArr x) (VArr y) = lexc0 x y.
Proof. simpl. revert y. induction x as [|p t IH]; destruct y as [|q t2]; simpl; auto; try (rewrite IH; reflexivity); try (destruct (vcmp0 p q); auto). Qed.

Definition nomix (a b : value) := (has_numstr a || has_numstr b) && (has_num a || has_num b) = false.
Lemma nomix_cons_l p t q t2 : nomix (VArr (p::t)) (VArr (q::t2)) -> nomix p q /\ nomix (VArr t) (VArr t2).
Proof.
  unfold nomix. simpl. intros H. apply andb_false_iff in H.
  split; apply andb_false_iff; destruct H as [H|H]; apply orb_false_iff in H as [H1 H2]; apply orb_false_iff in H1 as [A B]; apply orb_false_iff in H2 as [C D]; rewrite ?A, ?B, ?C, ?D; auto.
Qed.
Theorem vcmp_is_vcmp0 : forall a b, nomix a b -> vcmp a b = vcmp0 a b.
Proof.
  induction a using value_ind'; intros y; destruct y; try reflexivity; intros Hm.
  - (* str, num *) unfold nomix in Hm. simpl in Hm |- *. rewrite andb_true_r, orb_false_r in Hm.
    destruct (parse s) as [fx|]; auto. destruct (fcmp fx fx) eqn:Hx; [discriminate|].
    assert (N : fcmp fx f = None) by (apply fcmp_none; left; exact Hx). rewrite N. reflexivity.
  - (* num, str *) unfold nomix in Hm. simpl in Hm |- *. rewrite andb_true_r in Hm.
    destruct (parse s) as [fy|]; auto. destruct (fcmp fy fy) eqn:Hy; [discriminate|].
    assert (N : fcmp f fy = None) by (apply fcmp_none; right; exact Hy). rewrite N. reflexivity.
  - rewrite vcmp_arr, vcmp0_arr. revert l0 Hm. induction H as [|p t Hp Ht IH]; destruct l0 as [|q t2]; simpl; auto. intros Hm.
    apply nomix_cons_l in Hm as [M1 M2]. rewrite (Hp q M1). destruct (vcmp0 p q); auto.
Qed.

(* ---- vcmp0 is a total preorder on NaN-free values ---- *)
Definition good3 (c : value -> value -> comparison) a b z :=
  (forall r, c a b = Eq -> c b z = r -> c a z = r) /\ (forall r, c a b = r -> c b z = Eq -> c a z = r) /\ (c a b = Lt -> c b z = Lt -> c a z = Lt).
Lemma bcmp_good x y z : (forall r, bcmp x y = Eq -> bcmp y z = r -> bcmp x z = r) /\ (forall r, bcmp x y = r -> bcmp y z = Eq -> bcmp x z = r) /\ (bcmp x y = Lt -> bcmp y z = Lt -> bcmp x z = Lt).
Proof. destruct x, y, z; simpl; repeat split; intros; subst; auto; discriminate. Qed.
Lemma fnum_good x y z : fcmp x x <> None -> fcmp y y <> None -> fcmp z z <> None ->
  let c a b := orElse (fcmp a b) Eq in
  (forall r, c x y = Eq -> c y z = r -> c x z = r) /\ (forall r, c x y = r -> c y z = Eq -> c x z = r) /\ (c x y = Lt -> c y z = Lt -> c x z = Lt).
Proof.
  intros Hx Hy Hz c. unfold c.
  assert (Exy : exists a, fcmp x y = Some a). { destruct (fcmp x y) eqn:E; eauto. apply fcmp_none in E as [E|E]; contradiction. }
  assert (Eyz : exists a, fcmp y z = Some a). { destruct (fcmp y z) eqn:E; eauto. apply fcmp_none in E as [E|E]; contradiction. }
  destruct Exy as [a Ea], Eyz as [b Eb]. rewrite Ea, Eb. simpl. repeat split.
  - intros r -> <-. rewrite (fcmp_eq_l Ea Eb). reflexivity.
  - intros r <- ->. rewrite (fcmp_eq_r Ea Eb). reflexivity.
  - intros -> ->. rewrite (fcmp_lt Ea Eb). reflexivity.
Qed.

Definition nonan v := has_nan v = false.
Lemma nat_cmp_good (x y z : nat) : (forall r, Nat.compare x y = Eq -> Nat.compare y z = r -> Nat.compare x z = r) /\ (forall r, Nat.compare x y = r -> Nat.compare y z = Eq -> Nat.compare x z = r) /\ (Nat.compare x y = Lt -> Nat.compare y z = Lt -> Nat.compare x z = Lt).
Proof. repeat split. intros r H <-. apply Nat.compare_eq in H. subst; auto. intros r <- H. apply Nat.compare_eq in H. subst; auto. rewrite !Nat.compare_lt_iff. lia. Qed.

Theorem vcmp0_good : forall a b z, nonan a -> nonan b -> nonan z -> good3 vcmp0 a b z.
Proof.
  induction a using value_ind'; intros y z Na Ny Nz; unfold good3.
  - destruct y, z; simpl; try (repeat split; intros; subst; try discriminate; auto; fail). apply bcmp_good.
  - destruct y, z; simpl; try (repeat split; intros; subst; try discriminate; auto; fail).
    repeat split. intros r A B; eapply scmp_eq_l; eauto. intros r A B; eapply scmp_eq_r; eauto. apply scmp_lt.
  - destruct y, z; simpl; try (repeat split; intros; subst; try discriminate; auto; fail).
    + (* num num str etc handled above; here num,num,num *)
      unfold nonan in *. simpl in *. apply fnum_good; intros E; rewrite E in *; discriminate.
  - destruct y as [| | |ly], z as [| | |lz]; simpl; try (repeat split; intros; subst; try discriminate; auto; fail).
    change (good3 vcmp0 (VArr l) (VArr ly) (VArr lz)). unfold good3. rewrite !vcmp0_arr.
    unfold nonan in *. simpl in Na, Ny, Nz.
    revert ly lz Ny Nz. induction H as [|p t Hp Ht IH]; intros ly lz Ny Nz.
    + destruct ly, lz; simpl; repeat split; intros; subst; try discriminate; auto.
    + simpl in Na. apply orb_false_iff in Na as [Np Nt].
      destruct ly as [|q ty]; [destruct lz; simpl; repeat split; intros; subst; try discriminate; auto|].
      simpl in Ny. apply orb_false_iff in Ny as [Nq Nty].
      destruct lz as [|w tz].
      { simpl. repeat split; intros; subst; try discriminate; auto. }
      simpl in Nz. apply orb_false_iff in Nz as [Nw Ntz].
      destruct (Hp q w Np Nq Nw) as (G1 & G2 & G3). destruct (IH Nt ty tz Nty Ntz) as (I1 & I2 & I3).
      simpl. repeat split.
      * intros r A B. destruct (vcmp0 p q) eqn:Epq; try discriminate. rewrite (G1 _ eq_refl eq_refl). destruct (vcmp0 q w); auto.
      * intros r A B. destruct (vcmp0 q w) eqn:Eqw; try discriminate. rewrite (G2 _ eq_refl eq_refl). destruct (vcmp0 p q); auto.
      * intros A B. destruct (vcmp0 p q) eqn:Epq; try discriminate.
        -- rewrite (G1 _ eq_refl eq_refl). destruct (vcmp0 q w) eqn:Eqw; try discriminate; auto.
        -- destruct (vcmp0 q w) eqn:Eqw; try discriminate. rewrite (G2 _ eq_refl eq_refl). reflexivity. rewrite (G3 eq_refl eq_refl). reflexivity.
Qed.

Definition vle a b := vcmp a b <> Gt.
Definition tame3 a b c := nonan a /\ nonan b /\ nonan c /\
  (has_numstr a || has_numstr b || has_numstr c) && (has_num a || has_num b || has_num c) = false.
Lemma tame_nomix a b c : tame3 a b c -> nomix a b /\ nomix b c /\ nomix a c.
Proof.
  intros (_ & _ & _ & H). unfold nomix. apply andb_false_iff in H.
  repeat split; apply andb_false_iff; destruct H as [H|H]; apply orb_false_iff in H as [H1 H2]; apply orb_false_iff in H1 as [A B]; rewrite ?A, ?B, ?H2; auto.
Qed.
Theorem C13_trans : forall a b c, tame3 a b c -> vle a b -> vle b c -> vle a c.
Proof.
  intros a b c T. destruct (tame_nomix T) as (M1 & M2 & M3). destruct T as (Na & Nb & Nc & _).
  unfold vle. rewrite (vcmp_is_vcmp0 M1), (vcmp_is_vcmp0 M2), (vcmp_is_vcmp0 M3).
  destruct (vcmp0_good Na Nb Nc) as (G1 & G2 & G3).
  destruct (vcmp0 a b) eqn:Eab; [| |congruence]; destruct (vcmp0 b c) eqn:Ebc; try congruence; intros _ _.
  - rewrite (G1 _ eq_refl eq_refl). discriminate.
  - rewrite (G1 _ eq_refl eq_refl). discriminate.
  - rewrite (G2 _ eq_refl eq_refl). discriminate.
  - rewrite (G3 eq_refl eq_refl). discriminate.
Qed.
End Ord.
Check vcmp_antisym. Print Assumptions vcmp_antisym.
Check C13_trans. Print Assumptions C13_trans.
