(* C03: laws of the value operations and of the interpreter read off the language definition *)
From Flocq Require Import Core BinarySingleNaN.
Require Import ZArith NArith Bool List Arith Lia Reals. Import ListNotations.
Require Import F64 Dec Types Generic Lang.

Definition is_boolv (v:value) : bool := match v with VBool _ => true | _ => false end.
Definition is_num (v:value) : bool := match v with VNum _ => true | _ => false end.
Definition bool_op (o:op) : bool := match o with Greater|GreaterEqual|Less|LessEqual|Equal|NotEqual|And|Or|Xor => true | _ => false end.
Definition arith_op (o:op) : bool := match o with Minus|Multiply|Divide|Div|Mod => true | _ => false end.

(* and, or, xor and all comparisons yield a Boolean whenever they succeed - at the operator level and for whole trees *)
Lemma binop_boolean o a b v : bool_op o = true -> binop o a b = Ok v -> is_boolv v = true.
Proof. destruct o; try discriminate; intros _; cbn [binop]; intros H; try (injection H as <-; reflexivity). destruct a, b; try discriminate; injection H as <-; reflexivity. Qed.
Lemma boolr_boolean r v : boolr r = Ok v -> is_boolv v = true.
Proof. unfold boolr, Generic.boolr. destruct r as [x|[]]; intros H; try discriminate; injection H as <-; reflexivity. Qed.
Lemma bin_combine_boolean o rl rr v : bool_op o = true -> bin_combine o rl rr = Ok v -> is_boolv v = true.
Proof.
  intros Ho H. unfold bin_combine, Generic.bin_combine in H.
  destruct o; try discriminate; destruct rl as [lv|[]]; try discriminate;
  repeat match type of H with
  | context [if ?c then _ else _] => destruct c
  | context [match rr with _ => _ end] => destruct rr as [rv|[]]
  end; try discriminate; try (injection H as <-; reflexivity); try (eapply boolr_boolean; exact H); try (eapply binop_boolean; [|exact H]; reflexivity).
Qed.
Theorem boolean_results : forall E o l r v, bool_op o = true -> fst (eval_t E (EBin o l r)) = Ok v -> is_boolv v = true.
Proof. intros E o l r v Ho H. rewrite eval_t_fst in H. unfold eval in H. cbn [Generic.eval] in H. eapply bin_combine_boolean; eauto. Qed.
Theorem not_result_boolean : forall E r v, fst (eval_t E (EUn Not r)) = Ok v -> is_boolv v = true.
Proof. intros E r v H. rewrite eval_t_fst in H. unfold eval in H. cbn [Generic.eval] in H. unfold Generic.un_combine in H.
  destruct (Generic.eval _ _ _ _ _ r); [|discriminate]. cbn in H. injection H as <-. reflexivity. Qed.

(* arithmetic on mistyped operands is an error, never a coerced value *)
Theorem arith_mistyped_is_error : forall o a b, arith_op o = true -> is_num a && is_num b = false -> binop o a b = Er (InvalidBinary o).
Proof. intros o a b Ho H. destruct o; try discriminate; cbn [binop]; unfold arith; destruct a, b; try discriminate; reflexivity. Qed.
Theorem arith_typed_is_ieee : forall x y,
  binop Minus (VNum x) (VNum y) = Ok (VNum (Bminus mode_NE x y)) /\ binop Multiply (VNum x) (VNum y) = Ok (VNum (Bmult mode_NE x y)) /\
  binop Divide (VNum x) (VNum y) = Ok (VNum (Bdiv mode_NE x y)) /\ binop Plus (VNum x) (VNum y) = Ok (VNum (Bplus mode_NE x y)) /\
  binop Div (VNum x) (VNum y) = Ok (VNum (Bnearbyint mode_ZR (Bdiv mode_NE x y))) /\ binop Mod (VNum x) (VNum y) = Ok (VNum (frem x y)).
Proof. intros; repeat split; reflexivity. Qed.
Theorem plus_table : forall a b, binop Plus a b =
  match a, b with VStr x, VStr y => Ok (VStr (x ++ y)) | VNum x, VNum y => Ok (VNum (fadd x y)) | VArr x, VArr y => Ok (VArr (x ++ y)) | _, _ => Er (InvalidBinary Plus) end.
Proof. reflexivity. Qed.
Theorem xor_bool_only : forall a b, binop Xor a b = match a, b with VBool x, VBool y => Ok (VBool (xorb x y)) | _, _ => Er (InvalidBinary Xor) end.
Proof. reflexivity. Qed.
Theorem unary_table : forall o v, un o v = match o with
  | Minus => match v with VNum x => Ok (VNum (Bopp x)) | _ => Er (InvalidUnary Minus) end
  | Not => Ok (VBool (negb (as_bool v))) | _ => Er (InvalidUnary o) end.
Proof. reflexivity. Qed.
(* operators outside the supported sets yield the specific error in every position (C08's catch-all laws) *)
Theorem unary_other_ops_error : forall o v, match o with Minus | Not => False | _ => True end -> un o v = Er (InvalidUnary o).
Proof. destruct o; intros v H; try contradiction; reflexivity. Qed.
Theorem binary_other_ops_error : forall o a b, match o with Not | TernaryCondition => True | _ => False end -> binop o a b = Er (InvalidBinary o).
Proof. destruct o; intros a b H; try contradiction; reflexivity. Qed.
Theorem ternary_other_ops_error : forall E o l m r, Generic.is_cond o = false -> fst (eval_t E (ETer o l m r)) = Er (InvalidTernary o).
Proof. intros E o l m r H. cbn [eval_t]. unfold is_cond. rewrite H. reflexivity. Qed.

(* div truncates toward zero: on the real line, whenever the quotient is finite *)
Theorem div_truncates : forall x y, is_finite (fdiv x y) = true ->
  B2R (ftrunc (fdiv x y)) = IZR (Ztrunc (B2R (fdiv x y))).
Proof.
  intros x y H. unfold ftrunc. destruct (Bnearbyint_correct prec emax Hmax mode_ZR (fdiv x y)) as [A _].
  rewrite A. apply round_FIX_IZR.
Qed.

(* truthiness is "not empty" *)
Theorem truthiness : forall v, as_bool v = match v with VBool b => b | _ => negb (is_empty v) end.
Proof. reflexivity. Qed.
Lemma is_empty_bool b : is_empty (VBool b) = negb b. Proof. destruct b; reflexivity. Qed.
Theorem truthiness_all_kinds : forall v, as_bool v = negb (is_empty v).
Proof. destruct v; try reflexivity. rewrite is_empty_bool, negb_involutive. reflexivity. Qed.
Theorem empties : is_empty (VBool false) = true /\ is_empty (VStr []) = true /\ is_empty (VArr []) = true /\
  is_empty (VNum (B754_zero false)) = true /\ is_empty (VNum (B754_zero true)) = true.
Proof. repeat split; reflexivity. Qed.
Theorem nonempties : is_empty (VBool true) = false /\ (forall c s, is_empty (VStr (c :: s)) = false) /\ (forall x l, is_empty (VArr (x :: l)) = false) /\
  is_empty (VNum B754_nan) = false /\ (forall s, is_empty (VNum (B754_infinity s)) = false) /\ (forall s m e H, is_empty (VNum (B754_finite s m e H)) = false).
Proof.
  repeat split; try reflexivity.
  - intros s. destruct s; reflexivity.
  - intros s m e H. destruct s; reflexivity.
Qed.

(* undefined variables behave as the empty value under =, <>, and, or - on either side *)
Section Undefined.
Variable E : env.
Notation ev e := (fst (eval_t E e)).
Lemma ev_bin o l r : ev (EBin o l r) = bin_combine o (ev l) (ev r).
Proof. rewrite !eval_t_fst. reflexivity. Qed.
Theorem undefined_left : forall l r n rv, ev l = Er (Undefined n) -> ev r = Ok rv ->
  ev (EBin Equal l r) = Ok (VBool (is_empty rv)) /\ ev (EBin NotEqual l r) = Ok (VBool (negb (is_empty rv))) /\
  ev (EBin And l r) = Ok (VBool false) /\ ev (EBin Or l r) = Ok (VBool (as_bool rv)).
Proof. intros l r n rv Hl Hr. rewrite !ev_bin, Hl, Hr. repeat split; reflexivity. Qed.
Theorem undefined_right : forall l r n lv, ev l = Ok lv -> ev r = Er (Undefined n) ->
  ev (EBin Equal l r) = Ok (VBool (is_empty lv)) /\ ev (EBin NotEqual l r) = Ok (VBool (negb (is_empty lv))) /\
  ev (EBin And l r) = Ok (VBool false) /\ ev (EBin Or l r) = Ok (VBool (as_bool lv)).
Proof. intros l r n lv Hl Hr. rewrite !ev_bin, Hl, Hr. unfold bin_combine, Generic.bin_combine, Generic.boolr. repeat split; try reflexivity; destruct (as_bool lv); reflexivity. Qed.
Theorem undefined_both : forall l r n m, ev l = Er (Undefined n) -> ev r = Er (Undefined m) ->
  ev (EBin Equal l r) = Ok (VBool true) /\ ev (EBin NotEqual l r) = Ok (VBool false) /\ ev (EBin And l r) = Ok (VBool false) /\ ev (EBin Or l r) = Ok (VBool false).
Proof. intros l r n m Hl Hr. rewrite !ev_bin, Hl, Hr. repeat split; reflexivity. Qed.
(* under every other operator an undefined operand is an error: the error of the first failing operand *)
Theorem undefined_is_error_elsewhere : forall o l r n, match o with Equal | NotEqual | And | Or => False | _ => True end ->
  ev l = Er (Undefined n) -> ev (EBin o l r) = Er (Undefined n).
Proof. intros o l r n Ho Hl. rewrite ev_bin, Hl. destruct o; try contradiction; reflexivity. Qed.
(* first failing sub-expression wins *)
Theorem left_error_wins : forall o l r x, (forall n, x <> Undefined n) -> ev l = Er x -> ev (EBin o l r) = Er x.
Proof. intros o l r x Hx Hl. rewrite ev_bin, Hl. destruct x; try (exfalso; eapply Hx; reflexivity); destruct o; reflexivity. Qed.
Theorem right_error_after_left_value : forall o l r lv x, (forall n, x <> Undefined n) -> ev l = Ok lv -> needs_right o (Ok lv) = true -> ev r = Er x -> ev (EBin o l r) = Er x.
Proof.
  intros o l r lv x Hx Hl Hn Hr. rewrite ev_bin, Hl, Hr. unfold bin_combine, Generic.bin_combine, Generic.boolr.
  destruct x; try (exfalso; eapply Hx; reflexivity); destruct o; cbn [needs_right] in Hn; try reflexivity;
  destruct (as_bool lv); try discriminate; reflexivity.
Qed.
Theorem unary_error_propagates : forall o r x, ev r = Er x -> ev (EUn o r) = Er x.
Proof. intros o r x H. rewrite eval_t_fst in *. unfold eval in *. cbn [Generic.eval]. unfold eval in H. rewrite H. reflexivity. Qed.
Theorem conditional_semantics : forall c a b, ev (ETer TernaryCondition c a b) =
  match ev c with Ok cv => if as_bool cv then ev a else ev b | Er x => Er x end.
Proof. intros. rewrite !eval_t_fst. reflexivity. Qed.
End Undefined.

(* equality coercions and the kind order *)
Theorem eq_bool_number : forall b y, veq (VBool b) (VNum y) = feq (if b then of_int 1 else of_int 0) y /\ veq (VNum y) (VBool b) = feq y (if b then of_int 1 else of_int 0).
Proof. intros; split; reflexivity. Qed.
Theorem eq_string_number : forall s y, veq (VStr s) (VNum y) = match parse_f64 s with Some fx => match fcmp fx y with Some Eq => true | _ => false end | None => false end.
Proof. intros s y. cbn [veq vcmp]. destruct (parse_f64 s) as [fx|]; [|reflexivity]. destruct (fcmp fx y) as [[]|]; reflexivity. Qed.
Theorem cmp_string_number : forall s y, vcmp (VStr s) (VNum y) = match parse_f64 s with Some fx => match fcmp fx y with Some c => c | None => Lt end | None => Lt end.
Proof. reflexivity. Qed.
Theorem cmp_kind_order : forall a b, ordinal a <> ordinal b ->
  match a, b with VStr _, VNum _ | VNum _, VStr _ => True | _, _ => vcmp a b = Nat.compare (ordinal a) (ordinal b) end.
Proof. intros a b H. destruct a, b; try exact I; try reflexivity; exfalso; apply H; reflexivity. Qed.
Theorem kind_ordinals : forall b s x l, ordinal (VBool b) = 0%nat /\ ordinal (VStr s) = 1%nat /\ ordinal (VNum x) = 2%nat /\ ordinal (VArr l) = 3%nat.
Proof. intros; repeat split; reflexivity. Qed.
Theorem cmp_arrays_lexicographic : forall p q t1 t2, vcmp (VArr (p :: t1)) (VArr (q :: t2)) = match vcmp p q with Eq => vcmp (VArr t1) (VArr t2) | c => c end
  /\ vcmp (VArr []) (VArr (q :: t2)) = Lt /\ vcmp (VArr (p :: t1)) (VArr []) = Gt /\ vcmp (VArr []) (VArr []) = Eq.
Proof. intros; repeat split; reflexivity. Qed.
Theorem comparison_operators_are_vcmp : forall a b,
  binop Less a b = Ok (VBool (match vcmp a b with Lt => true | _ => false end)) /\ binop Greater a b = Ok (VBool (match vcmp a b with Gt => true | _ => false end)) /\
  binop LessEqual a b = Ok (VBool (match vcmp a b with Gt => false | _ => true end)) /\ binop GreaterEqual a b = Ok (VBool (match vcmp a b with Lt => false | _ => true end)) /\
  binop Equal a b = Ok (VBool (veq a b)) /\ binop NotEqual a b = Ok (VBool (negb (veq a b))).
Proof. intros; repeat split; reflexivity. Qed.
