(* C03 / C17: the remainder operator on doubles (Rust `%` = C fmod) is the truncated-division remainder with the dividend's sign, exactly; even/odd are divisibility by 2 *)
From Flocq Require Import Core BinarySingleNaN.
Require Import ZArith Reals Lia Lra Psatz List Bool. Import ListNotations.
Require Import F64 TimeFacts.
Open Scope R_scope.

Lemma F2R_shift (m:Z) (ex e:Z) : (e <= ex)%Z -> F2R (Float radix2 m ex) = IZR (m * 2 ^ (ex - e)) * bpow radix2 e.
Proof.
  intros H. unfold F2R; simpl. rewrite mult_IZR. change 2%Z with (radix_val radix2). rewrite IZR_Zpower by lia.
  rewrite Rmult_assoc, <- bpow_plus. replace (ex - e + e)%Z with ex by lia. reflexivity.
Qed.
Lemma canon_cexp s m e : SpecFloat.bounded prec emax m e = true -> cexp radix2 fexp (F2R (Float radix2 (cond_Zopp s (Zpos m)) e)) = e.
Proof. intros H. symmetry. apply (canonical_bounded prec emax s m e H). Qed.

Theorem frem_finite_correct sx mx ex Hx sy my ey Hy :
  let x := B754_finite sx mx ex Hx in let y := B754_finite sy my ey Hy in
  is_finite (frem x y) = true /\
  exists q : Z, B2R x = IZR q * B2R y + B2R (frem x y) /\ Rabs (B2R (frem x y)) < Rabs (B2R y) /\ 0 <= B2R (frem x y) * B2R x.
Proof.
  intros x y. set (e := Z.min ex ey). set (X := (Z.pos mx * 2 ^ (ex - e))%Z). set (Y := (Z.pos my * 2 ^ (ey - e))%Z). set (R := Z.rem X Y).
  assert (He1 : (e <= ex)%Z) by (unfold e; lia). assert (He2 : (e <= ey)%Z) by (unfold e; lia).
  assert (HX : (0 < X)%Z) by (unfold X; apply Z.mul_pos_pos; [lia | apply Z.pow_pos_nonneg; lia]).
  assert (HY : (0 < Y)%Z) by (unfold Y; apply Z.mul_pos_pos; [lia | apply Z.pow_pos_nonneg; lia]).
  assert (HR : (0 <= R < Y)%Z) by (unfold R; apply Z.rem_bound_pos; lia).
  assert (HRX : (R <= X)%Z) by (unfold R; apply Z.rem_le; lia).
  assert (Hdiv : (X = Y * Z.quot X Y + R)%Z) by (unfold R; apply Z.quot_rem'; lia).
  set (be := bpow radix2 e). assert (Hbe : 0 < be) by apply bpow_gt_0.
  assert (Ex : B2R x = (if sx then -1 else 1) * IZR X * be).
  { unfold x, B2R. destruct sx; cbn [cond_Zopp]. rewrite F2R_Zopp, (F2R_shift _ ex e He1). fold X be. lra.
    rewrite (F2R_shift _ ex e He1). fold X be. lra. }
  assert (Ey : B2R y = (if sy then -1 else 1) * IZR Y * be).
  { unfold y, B2R. destruct sy; cbn [cond_Zopp]. rewrite F2R_Zopp, (F2R_shift _ ey e He2). fold Y be. lra.
    rewrite (F2R_shift _ ey e He2). fold Y be. lra. }
  set (v := F2R (Float radix2 (if sx then (- R)%Z else R) e)).
  assert (Ev : v = (if sx then -1 else 1) * IZR R * be). { unfold v, F2R; simpl. fold be. destruct sx; [rewrite opp_IZR|]; lra. }
  assert (Rb : 0 <= IZR R < IZR Y) by (split; [apply IZR_le | apply IZR_lt]; lia).
  assert (Rx : IZR R <= IZR X) by (apply IZR_le; lia).
  assert (Av : Rabs v = IZR R * be). { rewrite Ev. destruct sx; [rewrite Rabs_left1 | rewrite Rabs_right]; nra. }
  assert (Ax : Rabs (B2R x) = IZR X * be). { assert (0 < IZR X) by (apply IZR_lt; lia). rewrite Ex. destruct sx; [rewrite Rabs_left1 | rewrite Rabs_right]; nra. }
  assert (Ay : Rabs (B2R y) = IZR Y * be). { assert (0 < IZR Y) by (apply IZR_lt; lia). rewrite Ey. destruct sy; [rewrite Rabs_left1 | rewrite Rabs_right]; nra. }
  assert (G : generic_format radix2 fexp v).
  { unfold v. apply generic_format_F2R. intros NZ. fold v.
    assert (vnz : v <> 0). { unfold v. intro Z0. apply eq_0_F2R in Z0. contradiction. }
    destruct (Z_le_gt_dec ex ey) as [L|L].
    - replace e with ex by (unfold e; lia). rewrite <- (canon_cexp sx mx ex Hx). unfold cexp. apply (@monotone_exp fexp (FLT_exp_monotone emin prec)).
      apply mag_le_abs; [exact vnz|]. change (F2R (Float radix2 (cond_Zopp sx (Z.pos mx)) ex)) with (B2R x). rewrite Av, Ax. nra.
    - replace e with ey by (unfold e; lia). rewrite <- (canon_cexp sy my ey Hy). unfold cexp. apply (@monotone_exp fexp (FLT_exp_monotone emin prec)).
      apply mag_le_abs; [exact vnz|]. change (F2R (Float radix2 (cond_Zopp sy (Z.pos my)) ey)) with (B2R y). rewrite Av, Ay. nra. }
  assert (Hfr : frem x y = binary_normalize prec emax Hprec Hmax mode_NE (if sx then (- R)%Z else R) e sx) by reflexivity.
  generalize (binary_normalize_correct prec emax Hprec Hmax mode_NE (if sx then (- R)%Z else R) e sx). cbv zeta. fold v. rewrite <- Hfr.
  simpl round_mode. rewrite fexp_eq. rewrite round_generic by (try apply valid_rnd_N; exact G).
  rewrite Rlt_bool_true.
  2:{ eapply Rle_lt_trans; [|apply (abs_B2R_lt_emax prec emax x)]. rewrite Av, Ax. nra. }
  intros (Bv & Fv & _). split; [exact Fv|].
  exists ((if xorb sx sy then -1 else 1) * Z.quot X Y)%Z. rewrite Bv. split; [|split].
  - rewrite Ex, Ey, Ev, mult_IZR. assert (IZR X = IZR Y * IZR (Z.quot X Y) + IZR R) by (rewrite <- mult_IZR, <- plus_IZR; f_equal; exact Hdiv).
    destruct sx, sy; cbn [xorb]; nra.
  - rewrite Av, Ay. nra.
  - rewrite Ev, Ex. assert (0 <= IZR X) by (apply IZR_le; lia). assert (P1 : 0 <= IZR R * IZR X) by nra. assert (P2 : 0 <= be * be) by nra.
    destruct sx; [replace (-1 * IZR R * be * (-1 * IZR X * be)) with (IZR R * IZR X * (be * be)) by ring | replace (1 * IZR R * be * (1 * IZR X * be)) with (IZR R * IZR X * (be * be)) by ring]; apply Rmult_le_pos; assumption.
Qed.

(* the complete table of `%` on doubles (Rust / C fmod) *)
Theorem frem_table x y :
  frem x y = match x, y with
             | B754_nan, _ | _, B754_nan | B754_infinity _, _ | _, B754_zero _ => B754_nan
             | B754_zero s, _ => B754_zero s
             | B754_finite _ _ _ _, B754_infinity _ => x
             | B754_finite _ _ _ _, B754_finite _ _ _ _ => frem x y end.
Proof. destruct x, y; reflexivity. Qed.

Lemma ffloor_R x : B2R (ffloor x) = IZR (Zfloor (B2R x)) /\ is_finite (ffloor x) = is_finite x.
Proof.
  unfold ffloor. destruct (Bnearbyint_correct prec emax Hmax mode_DN x) as (A & B & _). split; [|exact B].
  rewrite A. unfold round, scaled_mantissa, cexp, FIX_exp, F2R. simpl. rewrite !Rmult_1_r. reflexivity.
Qed.
Lemma feq_R a b : is_finite a = true -> is_finite b = true -> feq a b = match Rcompare (B2R a) (B2R b) with Eq => true | _ => false end.
Proof. intros Fa Fb. unfold feq, fcmp. rewrite (Bcompare_correct prec emax _ _ Fa Fb). reflexivity. Qed.
(* even(x), as the builtin computes it, is divisibility by 2 of the integer x denotes - for every integer-valued double of either sign and any magnitude *)
Ltac Zify.zify_post_hook ::= Z.div_mod_to_equations.
Theorem even_spec x n : is_finite x = true -> B2R x = IZR n -> feq (frem (ffloor x) (of_int 2)) (of_int 0) = Z.even n.
Proof.
  intros F E. destruct (ffloor_R x) as [Rf Ff]. rewrite F, E, Zfloor_IZR in *. 
  destruct (of_int_correct 2 ltac:(lia)) as [R2 F2]. destruct (of_int_correct 0 ltac:(lia)) as [R0 F0].
  remember (of_int 2) as two eqn:Htwo. remember (ffloor x) as fx eqn:Hfx.
  clear Htwo. destruct two as [s2|s2| |s2 m2 e2 H2]; try discriminate; [cbn [B2R] in R2; lra|].
  destruct fx as [s|s| |s m e H]; try discriminate.
  - cbn [frem]. assert (n = 0%Z) by (apply eq_IZR; rewrite <- Rf; reflexivity). subst n. rewrite feq_R by (auto). rewrite R0. cbn [B2R]. rewrite Rcompare_Eq by reflexivity. reflexivity.
  - destruct (frem_finite_correct s m e H s2 m2 e2 H2) as (Fr & q & Eq & Lt & _). cbv zeta in *.
    rewrite feq_R by auto. rewrite R0. rewrite Rf, R2 in Eq. rewrite R2 in Lt.
    set (r := B2R (frem (B754_finite s m e H) (B754_finite s2 m2 e2 H2))) in *.
    assert (Er : r = IZR (n - q * 2)). { rewrite minus_IZR, mult_IZR. lra. }
    rewrite Er in *. rewrite <- abs_IZR in Lt. replace (Rabs 2) with (IZR 2) in Lt by (rewrite Rabs_right; lra). apply lt_IZR in Lt.
    rewrite Rcompare_IZR. clear - Lt. destruct (Z.even n) eqn:Ev.
    + apply Z.even_spec in Ev. destruct Ev as [k Hk]. destruct (Z.compare_spec (n - q * 2) 0) as [C|C|C]; try reflexivity; exfalso; lia.
    + assert (Od : Z.odd n = true) by (rewrite <- Z.negb_even, Ev; reflexivity). apply Z.odd_spec in Od. destruct Od as [k Hk].
      destruct (Z.compare_spec (n - q * 2) 0) as [C|C|C]; try reflexivity; exfalso; lia.
Qed.
