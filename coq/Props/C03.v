(* C03 — execute computes the value the language definition prescribes. Property theorems only (proofs: LangLaws.v).
   The executable definition is eval_t (extracted; the crate is compared with it case by case); the theorems below are the
   clauses of the property statement, each for all operands / trees / environments. *)
From Flocq Require Import Core BinarySingleNaN.
Require Import ZArith NArith Bool List Arith Reals. Import ListNotations.
Require Import F64 Dec Types Generic Lang LangLaws Spec SpecFacts FremFacts InterpTypes InterpRead GenEvalArms GenValueOps GenValueOrd InterpOrd InterpOps InterpFacts.
Notation ev E e := (fst (eval_t E e)).

(* the language definition as rules (Spec.v: literals, variables, arrays and calls left to right stopping at the first failure, unary,
   strict binary operators, and / or with short circuit and "undefined = empty", = / <> with "undefined = empty of the other side",
   the conditional) - and the extracted interpreter computes exactly the derivable results AND traces, for every tree and environment *)
Theorem C03_eval_refines_spec : forall E e r t, Spec.Ev E e r t <-> eval_t E e = (r, t).
Proof. exact Ev_iff_eval_t. Qed.
Print Assumptions C03_eval_refines_spec.

(* IEEE-754 double arithmetic; div truncates toward zero; mod is the exact C fmod *)
Theorem C03_arith_is_ieee : forall x y,
  binop Minus (VNum x) (VNum y) = Ok (VNum (Bminus mode_NE x y)) /\ binop Multiply (VNum x) (VNum y) = Ok (VNum (Bmult mode_NE x y)) /\
  binop Divide (VNum x) (VNum y) = Ok (VNum (Bdiv mode_NE x y)) /\ binop Plus (VNum x) (VNum y) = Ok (VNum (Bplus mode_NE x y)) /\
  binop Div (VNum x) (VNum y) = Ok (VNum (Bnearbyint mode_ZR (Bdiv mode_NE x y))) /\ binop Mod (VNum x) (VNum y) = Ok (VNum (frem x y)).
Proof. exact arith_typed_is_ieee. Qed.
Theorem C03_div_truncates : forall x y, is_finite (fdiv x y) = true -> B2R (ftrunc (fdiv x y)) = IZR (Ztrunc (B2R (fdiv x y))).
Proof. exact div_truncates. Qed.
(* mod takes the dividend's sign: for finite non-zero operands the result r is the remainder of the division truncated toward zero -
   x = q*y + r for an integer q, |r| < |y|, r zero or of x's sign - computed exactly (no rounding); the other cases are the IEEE table *)
Theorem C03_mod_dividend_sign : forall sx mx ex Hx sy my ey Hy,
  let x := B754_finite sx mx ex Hx in let y := B754_finite sy my ey Hy in
  is_finite (frem x y) = true /\
  exists q : Z, (B2R x = IZR q * B2R y + B2R (frem x y) /\ Rabs (B2R (frem x y)) < Rabs (B2R y) /\ 0 <= B2R (frem x y) * B2R x)%R.
Proof. exact frem_finite_correct. Qed.
Theorem C03_mod_table : forall x y,
  frem x y = match x, y with
             | B754_nan, _ | _, B754_nan | B754_infinity _, _ | _, B754_zero _ => B754_nan
             | B754_zero s, _ => B754_zero s
             | B754_finite _ _ _ _, B754_infinity _ => x
             | B754_finite _ _ _ _, B754_finite _ _ _ _ => frem x y end.
Proof. exact frem_table. Qed.
Print Assumptions C03_mod_dividend_sign.
(* + concatenates strings and arrays; xor on booleans; everything else mistyped is an error, never a coerced value *)
Theorem C03_plus_table : forall a b, binop Plus a b =
  match a, b with VStr x, VStr y => Ok (VStr (x ++ y)) | VNum x, VNum y => Ok (VNum (fadd x y)) | VArr x, VArr y => Ok (VArr (x ++ y)) | _, _ => Er (InvalidBinary Plus) end.
Proof. exact plus_table. Qed.
Theorem C03_xor_bool_only : forall a b, binop Xor a b = match a, b with VBool x, VBool y => Ok (VBool (xorb x y)) | _, _ => Er (InvalidBinary Xor) end.
Proof. exact xor_bool_only. Qed.
Theorem C03_arith_mistyped_is_error : forall o a b, arith_op o = true -> is_num a && is_num b = false -> binop o a b = Er (InvalidBinary o).
Proof. exact arith_mistyped_is_error. Qed.
Theorem C03_unary_table : forall o v, un o v = match o with
  | Minus => match v with VNum x => Ok (VNum (Bopp x)) | _ => Er (InvalidUnary Minus) end
  | Not => Ok (VBool (negb (as_bool v))) | _ => Er (InvalidUnary o) end.
Proof. exact unary_table. Qed.
(* equality coercions, ordering by kind, arrays lexicographically; the six comparison operators are views of vcmp / veq *)
Theorem C03_eq_bool_number : forall b y, veq (VBool b) (VNum y) = feq (if b then of_int 1 else of_int 0) y /\ veq (VNum y) (VBool b) = feq y (if b then of_int 1 else of_int 0).
Proof. exact eq_bool_number. Qed.
Theorem C03_eq_string_number : forall s y, veq (VStr s) (VNum y) = match parse_f64 s with Some fx => match fcmp fx y with Some Eq => true | _ => false end | None => false end.
Proof. exact eq_string_number. Qed.
Theorem C03_cmp_string_number : forall s y, vcmp (VStr s) (VNum y) = match parse_f64 s with Some fx => match fcmp fx y with Some c => c | None => Lt end | None => Lt end.
Proof. exact cmp_string_number. Qed.
Theorem C03_cmp_kind_order : forall a b, ordinal a <> ordinal b ->
  match a, b with VStr _, VNum _ | VNum _, VStr _ => True | _, _ => vcmp a b = Nat.compare (ordinal a) (ordinal b) end.
Proof. exact cmp_kind_order. Qed.
Theorem C03_kind_ordinals : forall b s x l, ordinal (VBool b) = 0%nat /\ ordinal (VStr s) = 1%nat /\ ordinal (VNum x) = 2%nat /\ ordinal (VArr l) = 3%nat.
Proof. exact kind_ordinals. Qed.
Theorem C03_cmp_arrays_lexicographic : forall p q t1 t2, vcmp (VArr (p :: t1)) (VArr (q :: t2)) = match vcmp p q with Eq => vcmp (VArr t1) (VArr t2) | c => c end
  /\ vcmp (VArr []) (VArr (q :: t2)) = Lt /\ vcmp (VArr (p :: t1)) (VArr []) = Gt /\ vcmp (VArr []) (VArr []) = Eq.
Proof. exact cmp_arrays_lexicographic. Qed.
Theorem C03_comparison_operators_are_vcmp : forall a b,
  binop Less a b = Ok (VBool (match vcmp a b with Lt => true | _ => false end)) /\ binop Greater a b = Ok (VBool (match vcmp a b with Gt => true | _ => false end)) /\
  binop LessEqual a b = Ok (VBool (match vcmp a b with Gt => false | _ => true end)) /\ binop GreaterEqual a b = Ok (VBool (match vcmp a b with Lt => false | _ => true end)) /\
  binop Equal a b = Ok (VBool (veq a b)) /\ binop NotEqual a b = Ok (VBool (negb (veq a b))).
Proof. exact comparison_operators_are_vcmp. Qed.
(* truthiness is 'not empty'; the empties are false, 0, -0, '', [] and nothing else *)
Theorem C03_truthiness : forall v, as_bool v = negb (is_empty v).
Proof. exact truthiness_all_kinds. Qed.
Theorem C03_empties : is_empty (VBool false) = true /\ is_empty (VStr []) = true /\ is_empty (VArr []) = true /\
  is_empty (VNum (B754_zero false)) = true /\ is_empty (VNum (B754_zero true)) = true.
Proof. exact empties. Qed.
Theorem C03_nonempties : is_empty (VBool true) = false /\ (forall c s, is_empty (VStr (c :: s)) = false) /\ (forall x l, is_empty (VArr (x :: l)) = false) /\
  is_empty (VNum B754_nan) = false /\ (forall s, is_empty (VNum (B754_infinity s)) = false) /\ (forall s m e H, is_empty (VNum (B754_finite s m e H)) = false).
Proof. exact nonempties. Qed.
(* an undefined variable behaves as the empty value under =, <>, and, or - on either side, and is an error elsewhere *)
Theorem C03_undefined_left : forall E l r n rv, ev E l = Er (Undefined n) -> ev E r = Ok rv ->
  ev E (EBin Equal l r) = Ok (VBool (is_empty rv)) /\ ev E (EBin NotEqual l r) = Ok (VBool (negb (is_empty rv))) /\
  ev E (EBin And l r) = Ok (VBool false) /\ ev E (EBin Or l r) = Ok (VBool (as_bool rv)).
Proof. exact undefined_left. Qed.
Theorem C03_undefined_right : forall E l r n lv, ev E l = Ok lv -> ev E r = Er (Undefined n) ->
  ev E (EBin Equal l r) = Ok (VBool (is_empty lv)) /\ ev E (EBin NotEqual l r) = Ok (VBool (negb (is_empty lv))) /\
  ev E (EBin And l r) = Ok (VBool false) /\ ev E (EBin Or l r) = Ok (VBool (as_bool lv)).
Proof. exact undefined_right. Qed.
Theorem C03_undefined_both : forall E l r n m, ev E l = Er (Undefined n) -> ev E r = Er (Undefined m) ->
  ev E (EBin Equal l r) = Ok (VBool true) /\ ev E (EBin NotEqual l r) = Ok (VBool false) /\ ev E (EBin And l r) = Ok (VBool false) /\ ev E (EBin Or l r) = Ok (VBool false).
Proof. exact undefined_both. Qed.
Theorem C03_undefined_is_error_elsewhere : forall E o l r n, match o with Equal | NotEqual | And | Or => False | _ => True end ->
  ev E l = Er (Undefined n) -> ev E (EBin o l r) = Er (Undefined n).
Proof. exact undefined_is_error_elsewhere. Qed.
(* and, or, not, xor and all comparisons yield a Boolean whenever they succeed *)
Theorem C03_boolean_results : forall E o l r v, bool_op o = true -> ev E (EBin o l r) = Ok v -> is_boolv v = true.
Proof. exact boolean_results. Qed.
Theorem C03_not_result_boolean : forall E r v, ev E (EUn Not r) = Ok v -> is_boolv v = true.
Proof. exact not_result_boolean. Qed.
(* the error of the first failing sub-expression in evaluation order *)
Theorem C03_left_error_wins : forall E o l r x, (forall n, x <> Undefined n) -> ev E l = Er x -> ev E (EBin o l r) = Er x.
Proof. exact left_error_wins. Qed.
Theorem C03_right_error_after_left_value : forall E o l r lv x, (forall n, x <> Undefined n) -> ev E l = Ok lv -> needs_right o (Ok lv) = true -> ev E r = Er x -> ev E (EBin o l r) = Er x.
Proof. exact right_error_after_left_value. Qed.
Theorem C03_unary_error_propagates : forall E o r x, ev E r = Er x -> ev E (EUn o r) = Er x.
Proof. exact unary_error_propagates. Qed.
Theorem C03_conditional_semantics : forall E c a b, ev E (ETer TernaryCondition c a b) = match ev E c with Ok cv => if as_bool cv then ev E a else ev E b | Er x => Er x end.
Proof. exact conditional_semantics. Qed.
Print Assumptions C03_boolean_results. Print Assumptions C03_div_truncates. Print Assumptions C03_undefined_right.

(* ---- tie (a) for the interpreter core: the operator dispatch and the value operations of the model are the reading - first matching arm, in source order - of the
   match tables regenerated on every run from fn unary / fn binary (interpreter.rs) and the operator impls, Ord, PartialEq and ordinal of Value (value.rs).
   tab_* interpret the generated tables; the glossary mapping each right-hand-side text to an f64 / list operation (InterpFacts.v) is the trusted part. A changed arm
   changes a table (an unknown text becomes GOther) and these theorems no longer check. *)
Theorem C03_unary_is_the_table : forall o r, Some (un_combine o r) = tab_unary o r.
Proof. exact un_combine_is_the_table. Qed.
Theorem C03_binary_is_the_table : forall o rl rr, Some (bin_combine o rl rr) = tab_binary o rl rr.
Proof. exact bin_combine_is_the_table. Qed.
Theorem C03_value_ops_are_the_table : forall o lv rv, Some (binop o lv rv) = tab_inner o lv (Ok rv).
Proof. exact binop_is_the_table. Qed.
Theorem C03_order_is_the_table : forall a b, Some (vcmp a b) = tab_cmp a b.
Proof. exact vcmp_is_the_table. Qed.
Theorem C03_equality_is_the_table : forall a b, Some (veq a b) = tab_eq a b.
Proof. exact veq_is_the_table. Qed.
Theorem C03_small_bodies_as_modelled : gen_helpers_as_modelled = true /\ gen_ternary_as_modelled = true /\ gen_boolean_as_modelled = true /\ gen_get_values_as_modelled = true.
Proof. exact helpers_as_modelled. Qed.
Print Assumptions C03_binary_is_the_table.
