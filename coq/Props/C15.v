(* C15 — collection and string builtins match a sequence model; positions are coherent. Property theorems only (proofs: BuiltinFacts.v).
   call_builtin (Builtins.v) is the sequence model itself, extracted and compared with the crate call by call in both index-base
   configurations; the theorems below are the coherence facts of the statement over the model's own search / slicing functions. *)
Require Import ZArith NArith Bool List Arith. Import ListNotations.
Require Import F64 Dec Types Generic Lang Builtins BuiltinFacts TimeFacts IndexFacts SeqLaws CaseModel CaseFacts GenUnicode GenBuiltins.

(* find returns a position where the needle occurs, the first such position, and fails only when there is none - every code point list *)
Theorem C15_find_sound : forall n s i, find_sub n s = Some i -> firstn (length n) (skipn i s) = n /\ (i + length n <= length s)%nat.
Proof. exact find_sub_sound. Qed.
Theorem C15_find_least : forall n s i, find_sub n s = Some i -> forall j, (j < i)%nat -> is_prefix n (skipn j s) = false.
Proof. exact find_sub_least. Qed.
Theorem C15_find_complete : forall n s, find_sub n s = None -> forall j, is_prefix n (skipn j s) = false.
Proof. exact find_sub_complete. Qed.
(* copy(s, find(s,x), length(x)) = x at the sequence level *)
Theorem C15_copy_find : forall n s i, find_sub n s = Some i -> firstn (length n) (skipn i s) = n.
Proof. exact copy_find_seq. Qed.
(* at over the positions enumerates s *)
Theorem C15_at_enumerates : forall (s:list N), map (nth_error s) (seq 0 (length s)) = map Some s.
Proof. exact (@at_enumerates N). Qed.
Theorem C15_reverse_involutive : forall (l:list value), rev (rev l) = l.
Proof. exact (@reverse_involutive value). Qed.
(* ... and through the builtins themselves, with positions as the float-valued arguments the scripts pass, in both index-base
   configurations (off = 1 default, off = 0 zero_based_strings), for every string shorter than 2^52 characters:
   at over first..first+length-1 enumerates s; find returns first+i for the first occurrence and first-1 when there is none;
   copy(s, find(s,x), length(x)) = x for every substring x *)
Theorem C15_at_enumerates_builtin : forall off, (off <= 1)%nat -> forall (s:list N) i c, (Z.of_nat (length s) + 1 <= 2^52)%Z -> nth_error s i = Some c ->
  call_builtin off at_name [VStr s; pos off i] = BOk (VStr [c]).
Proof. exact at_enumerates_builtin. Qed.
Theorem C15_find_builtin : forall off h n, call_builtin off find_name [VStr h; VStr n] =
  BOk (match find_sub n h with Some i => VNum (of_int (Z.of_nat (i + off))) | None => VNum (of_int (-1 + Z.of_nat off)) end).
Proof. exact find_builtin. Qed.
Theorem C15_copy_find_builtin : forall off, (off <= 1)%nat -> forall (s x:list N) i, (Z.of_nat (length s) + 1 <= 2^52)%Z -> find_sub x s = Some i ->
  call_builtin off copy_name [VStr s; VNum (of_int (Z.of_nat (i + off))); VNum (of_int (Z.of_nat (length x)))] = BOk (VStr x).
Proof. exact copy_find_builtin. Qed.
Theorem C15_length_builtin : forall off (s:list N), call_builtin off length_name [VStr s] = BOk (VNum (of_int (Z.of_nat (length s)))).
Proof. exact length_builtin. Qed.
Print Assumptions C15_copy_find_builtin.

(* the two index bases of the model are the two values of STRING_OFFSET in the source (regenerated) *)
Theorem C15_offsets_are_the_codes : gen_string_offset_default = 1%N /\ gen_string_offset_zero_based = 0%N.
Proof. split; reflexivity. Qed.
Print Assumptions C15_find_sound. Print Assumptions C15_at_enumerates.

(* split, replace and count are one decomposition of the text at the leftmost non-overlapping occurrences of a non-empty needle: joining the pieces of split with the separator gives the text back;
   replace is split-then-join with the replacement; count is the number of cuts; a text without the needle is left alone - every text, needle and replacement *)
Theorem C15_split_join : forall s sep, sep <> [] -> join sep (split_str s sep) = s.
Proof. exact split_join. Qed.
Theorem C15_replace_is_split_join : forall n t s, n <> [] -> replace_sub (S (length s)) n t s = join t (split_str s n).
Proof. exact replace_is_join_split. Qed.
Theorem C15_count_is_cuts : forall n s, n <> [] -> length (split_str s n) = S (count_sub (S (length s)) n s).
Proof. exact count_is_cuts. Qed.
Theorem C15_no_occurrence : forall n t s, n <> [] -> find_sub n s = None -> replace_sub (S (length s)) n t s = s /\ count_sub (S (length s)) n s = 0%nat.
Proof. exact replace_without_occurrence. Qed.
Theorem C15_split_replace_count_builtins : forall off s n t, n <> [] ->
  call_builtin off split_name [VStr s; VStr n] = BOk (vstrs (split_str s n)) /\
  call_builtin off replace_name [VStr s; VStr n; VStr t] = BOk (VStr (join t (split_str s n))) /\
  call_builtin off count_name [VStr s; VStr n] = BOk (vnat (length (split_str s n) - 1)).
Proof. intros off s n t H. split; [apply split_builtin | split; [apply replace_builtin, H | apply count_builtin, H]]. Qed.
Example C15_split_example : split_str [97;44;44;98]%N [44]%N = [[97]; []; [98]]%N /\ join [45]%N (split_str [97;44;44;98]%N [44]%N) = [97;45;45;98]%N.
Proof. split; reflexivity. Qed.
(* trim removes exactly the white margins: what goes is white, what stays neither starts nor ends white, and trimming again changes nothing *)
Theorem C15_trim_left_spec : forall s, exists w, s = w ++ trim_l s /\ forallb is_white w = true /\ match trim_l s with c :: _ => is_white c = false | [] => True end.
Proof. exact trim_left_spec. Qed.
Theorem C15_trim_right_spec : forall s, exists w, s = trim_r s ++ w /\ forallb is_white w = true /\ match rev (trim_r s) with c :: _ => is_white c = false | [] => True end.
Proof. exact trim_right_spec. Qed.
Theorem C15_trim_ends : forall s, match trim_b s with c :: _ => is_white c = false | [] => True end /\ match rev (trim_b s) with c :: _ => is_white c = false | [] => True end.
Proof. exact trim_ends. Qed.
Theorem C15_trim_idempotent : forall s, trim_b (trim_b s) = trim_b s /\ trim_l (trim_l s) = trim_l s /\ trim_r (trim_r s) = trim_r s.
Proof. exact trim_idempotent. Qed.
(* unique: a subsequence of its input (first occurrences, in order); every member of the input is in it or equal to a member of it; no kept member is equal to an earlier kept one *)
Theorem C15_unique_spec : forall l, (forall x, In x (uniq [] l) -> In x l) /\ (forall x, In x l -> In x (uniq [] l) \/ existsb (fun k => veq x k) (uniq [] l) = true)
  /\ (forall r1 b r2, uniq [] l = r1 ++ b :: r2 -> existsb (fun k => veq b k) r1 = false).
Proof. exact unique_spec. Qed.
Theorem C15_unique_subsequence : forall l, subseq (uniq [] l) l.
Proof. intros l. apply unique_subsequence. Qed.
Theorem C15_trim_unique_builtins : forall off s l, call_builtin off trim_name [VStr s] = BOk (VStr (trim_b s)) /\ call_builtin off unique_name [VArr l] = BOk (VArr (uniq [] l)).
Proof. intros. split; reflexivity. Qed.
Print Assumptions C15_split_join. Print Assumptions C15_replace_is_split_join. Print Assumptions C15_trim_ends. Print Assumptions C15_unique_spec. Print Assumptions C15_split_replace_count_builtins.

(* letter case beyond ASCII (tables regenerated from the toolchain's char::to_lowercase / to_uppercase, compared with it on the code space in every run): lower-casing is idempotent on every text,
   on ASCII it is the ASCII rule, and same_text - equality of the lower-cased texts - is an equivalence that relates every text to its lower-cased form *)
Theorem C15_lowercase_idempotent : forall s, lower_str (lower_str s) = lower_str s.
Proof. exact lower_str_idem. Qed.
Theorem C15_ascii_case : forall c, (c < 128)%N -> u_lower c = [lower_ascii c] /\ u_upper c = [upper_ascii c].
Proof. exact ascii_case. Qed.
Theorem C15_same_text_equivalence : (forall a, same_text_m a a = true) /\ (forall a b, same_text_m a b = same_text_m b a) /\ (forall a b c, same_text_m a b = true -> same_text_m b c = true -> same_text_m a c = true).
Proof. exact same_text_equiv. Qed.
Theorem C15_case_builtins : forall off a b,
  call_builtin off (A [108;111;119;101;114;99;97;115;101]%Z) [VStr a] = BOk (VStr (lower_str a)) /\ call_builtin off (A [117;112;112;101;114;99;97;115;101]%Z) [VStr a] = BOk (VStr (upper_str a)) /\
  call_builtin off (A [115;97;109;101;95;116;101;120;116]%Z) [VStr a; VStr b] = BOk (VBool (same_text_m a b)).
Proof. intros off a b. repeat split; reflexivity. Qed.
Example C15_case_example : lower_str [304; 8490; 937]%N = [105; 775; 107; 969]%N /\ upper_str [223; 64257]%N = [83; 83; 70; 73]%N /\ same_text_m [8490]%N [107]%N = true /\ same_text_m [223]%N [115;115]%N = false /\
  lower_str [913; 931]%N = [945; 962]%N /\ lower_str [913; 931; 913]%N = [945; 963; 945]%N /\ lower_str [931]%N = [963]%N /\ lower_str [913; 931; 46; 32; 931]%N = [945; 962; 46; 32; 963]%N.
Proof. vm_compute. repeat split; reflexivity. Qed.
Print Assumptions C15_lowercase_idempotent. Print Assumptions C15_case_builtins.

(* insert puts the text in before the k-th character: the length adds up, copy at that position gives the inserted text back, taking it out again gives the original; contains on an array is
   membership up to `=`; all / any are "every / some member equals true" *)
Theorem C15_insert_laws : forall (t s:list N) k, (k <= length t)%nat ->
  length (firstn k t ++ s ++ skipn k t) = (length t + length s)%nat /\ firstn (length s) (skipn k (firstn k t ++ s ++ skipn k t)) = s /\
  firstn k (firstn k t ++ s ++ skipn k t) ++ skipn (k + length s) (firstn k t ++ s ++ skipn k t) = t.
Proof. intros t s k H. split; [apply insert_length, H | split; [apply insert_then_copy, H | apply insert_then_remove, H]]. Qed.
Theorem C15_insert_builtin : forall off, (off <= 1)%nat -> forall (t s:list N) k, (k <= length t)%nat -> (Z.of_nat k + 1 <= 2^52)%Z ->
  call_builtin off insert_name [VStr t; VStr s; IndexFacts.pos off k] = BOk (VStr (firstn k t ++ s ++ skipn k t)).
Proof. exact insert_builtin. Qed.
Theorem C15_contains_array_builtin : forall off h n, call_builtin off contains_name [VArr h; n] = BOk (VBool (existsb (fun v => veq v n) h)) /\
  (existsb (fun v => veq v n) h = true <-> exists v, In v h /\ veq v n = true).
Proof. exact contains_array_builtin. Qed.
Theorem C15_all_any_builtin : forall off ps, call_builtin off all_name ps = BOk (VBool (forallb (fun v => veq v (VBool true)) (smart_vec ps))) /\
  call_builtin off any_name ps = BOk (VBool (existsb (fun v => veq v (VBool true)) (smart_vec ps))).
Proof. exact all_any_builtin. Qed.
Print Assumptions C15_insert_builtin.
Theorem C15_uppercase_idempotent : forall s, upper_str (upper_str s) = upper_str s.
Proof. exact upper_str_idem. Qed.
