(* C15 — collection and string builtins match a sequence model; positions are coherent. Property theorems only (proofs: BuiltinFacts.v).
   call_builtin (Builtins.v) is the sequence model itself, extracted and compared with the crate call by call in both index-base
   configurations; the theorems below are the coherence facts of the statement over the model's own search / slicing functions. *)
Require Import ZArith NArith Bool List Arith. Import ListNotations.
Require Import F64 Dec Types Generic Lang Builtins BuiltinFacts GenBuiltins.

(* find returns a position where the needle occurs, the first such position, and fails only when there is none - every code point list *)
Theorem C15_find_sound : forall n s i, find_sub n s = Some i -> firstn (length n) (skipn i s) = n /\ (i + length n <= length s)%nat.
Proof. exact find_sub_sound. Qed.
Theorem C15_find_least : forall n s i, find_sub n s = Some i -> forall j, (j < i)%nat -> is_prefix n (skipn j s) = false.
Proof. exact find_sub_least. Qed.
Theorem C15_find_complete : forall n s, find_sub n s = None -> forall j, is_prefix n (skipn j s) = false.
Proof. exact find_sub_complete. Qed.
(* copy(s, find(s,x), length(x)) = x at the sequence level *)
Theorem C15_copy_find : forall n s i, find_sub n s = Some i -> firstn (length n) (skipn i s) = n.
Proof. exact copy_find_seq. Qed.
(* at over the positions enumerates s *)
Theorem C15_at_enumerates : forall (s:list N), map (nth_error s) (seq 0 (length s)) = map Some s.
Proof. exact (@at_enumerates N). Qed.
Theorem C15_reverse_involutive : forall (l:list value), rev (rev l) = l.
Proof. exact (@reverse_involutive value). Qed.
(* the two index bases of the model are the two values of STRING_OFFSET in the source (regenerated) *)
Theorem C15_offsets_are_the_codes : gen_string_offset_default = 1%N /\ gen_string_offset_zero_based = 0%N.
Proof. split; reflexivity. Qed.
Print Assumptions C15_find_sound. Print Assumptions C15_at_enumerates.
