(* C15 — collection and string builtins match a sequence model; positions are coherent. Property theorems only (proofs: BuiltinFacts.v).
   call_builtin (Builtins.v) is the sequence model itself, extracted and compared with the crate call by call in both index-base
   configurations; the theorems below are the coherence facts of the statement over the model's own search / slicing functions. *)
Require Import ZArith NArith Bool List Arith. Import ListNotations.
Require Import F64 Dec Types Generic Lang Builtins BuiltinFacts TimeFacts IndexFacts GenBuiltins.

(* find returns a position where the needle occurs, the first such position, and fails only when there is none - every code point list *)
Theorem C15_find_sound : forall n s i, find_sub n s = Some i -> firstn (length n) (skipn i s) = n /\ (i + length n <= length s)%nat.
Proof. exact find_sub_sound. Qed.
Theorem C15_find_least : forall n s i, find_sub n s = Some i -> forall j, (j < i)%nat -> is_prefix n (skipn j s) = false.
Proof. exact find_sub_least. Qed.
Theorem C15_find_complete : forall n s, find_sub n s = None -> forall j, is_prefix n (skipn j s) = false.
Proof. exact find_sub_complete. Qed.
(* copy(s, find(s,x), length(x)) = x at the sequence level *)
Theorem C15_copy_find : forall n s i, find_sub n s = Some i -> firstn (length n) (skipn i s) = n.
Proof. exact copy_find_seq. Qed.
(* at over the positions enumerates s *)
Theorem C15_at_enumerates : forall (s:list N), map (nth_error s) (seq 0 (length s)) = map Some s.
Proof. exact (@at_enumerates N). Qed.
Theorem C15_reverse_involutive : forall (l:list value), rev (rev l) = l.
Proof. exact (@reverse_involutive value). Qed.
(* ... and through the builtins themselves, with positions as the float-valued arguments the scripts pass, in both index-base
   configurations (off = 1 default, off = 0 zero_based_strings), for every string shorter than 2^52 characters:
   at over first..first+length-1 enumerates s; find returns first+i for the first occurrence and first-1 when there is none;
   copy(s, find(s,x), length(x)) = x for every substring x *)
Theorem C15_at_enumerates_builtin : forall off, (off <= 1)%nat -> forall (s:list N) i c, (Z.of_nat (length s) + 1 <= 2^52)%Z -> nth_error s i = Some c ->
  call_builtin off at_name [VStr s; pos off i] = BOk (VStr [c]).
Proof. exact at_enumerates_builtin. Qed.
Theorem C15_find_builtin : forall off h n, call_builtin off find_name [VStr h; VStr n] =
  BOk (match find_sub n h with Some i => VNum (of_int (Z.of_nat (i + off))) | None => VNum (of_int (-1 + Z.of_nat off)) end).
Proof. exact find_builtin. Qed.
Theorem C15_copy_find_builtin : forall off, (off <= 1)%nat -> forall (s x:list N) i, (Z.of_nat (length s) + 1 <= 2^52)%Z -> find_sub x s = Some i ->
  call_builtin off copy_name [VStr s; VNum (of_int (Z.of_nat (i + off))); VNum (of_int (Z.of_nat (length x)))] = BOk (VStr x).
Proof. exact copy_find_builtin. Qed.
Theorem C15_length_builtin : forall off (s:list N), call_builtin off length_name [VStr s] = BOk (VNum (of_int (Z.of_nat (length s)))).
Proof. exact length_builtin. Qed.
Print Assumptions C15_copy_find_builtin.

(* the two index bases of the model are the two values of STRING_OFFSET in the source (regenerated) *)
Theorem C15_offsets_are_the_codes : gen_string_offset_default = 1%N /\ gen_string_offset_zero_based = 0%N.
Proof. split; reflexivity. Qed.
Print Assumptions C15_find_sound. Print Assumptions C15_at_enumerates.
