(* C04 — each needed operand is evaluated once, left to right; unneeded ones never. Property theorems only (proofs: TraceFacts.v).
   eval_t is the extracted interpreter; its second component is the sequence of lookups and native calls with argument values. *)
Require Import ZArith NArith Bool List Arith. Import ListNotations.
Require Import F64 Dec Types Generic Lang TraceFacts Spec SpecFacts InterpTypes GenEvalArms.
Notation res_of E e := (fst (eval_t E e)).
Notation tr_of E e := (snd (eval_t E e)).

(* the sequence of lookups and native calls with their argument values is exactly the one the rules of the language definition derive *)
Theorem C04_trace_is_the_definitions : forall E e r t, Spec.Ev E e r t <-> eval_t E e = (r, t).
Proof. exact Ev_iff_eval_t. Qed.

Theorem C04_and_false_skips_right : forall E l r lv, res_of E l = Ok lv -> as_bool lv = false -> tr_of E (EBin And l r) = tr_of E l /\ res_of E (EBin And l r) = Ok (VBool false).
Proof. exact and_false_skips_right. Qed.
Theorem C04_or_true_skips_right : forall E l r lv, res_of E l = Ok lv -> as_bool lv = true -> tr_of E (EBin Or l r) = tr_of E l /\ res_of E (EBin Or l r) = Ok (VBool true).
Proof. exact or_true_skips_right. Qed.
Theorem C04_and_undefined_left_skips_right : forall E l r n, res_of E l = Er (Undefined n) -> tr_of E (EBin And l r) = tr_of E l /\ res_of E (EBin And l r) = Ok (VBool false).
Proof. exact and_undefined_left_skips_right. Qed.
(* every binary operator: the right operand contributes its trace exactly once, after the left one, iff it is needed *)
Theorem C04_needed_right_once : forall E o l r, needs_right o (res_of E l) = true -> tr_of E (EBin o l r) = tr_of E l ++ tr_of E r.
Proof. exact needed_right_is_evaluated_once. Qed.
Theorem C04_unneeded_right_never : forall E o l r, needs_right o (res_of E l) = false -> tr_of E (EBin o l r) = tr_of E l.
Proof. exact unneeded_right_is_not_evaluated. Qed.
(* "needed" is exactly the table of the language definition *)
Theorem C04_needs_right_table : forall o rl, needs_right o rl =
  match rl with
  | Ok lv => match o with And => as_bool lv | Or => negb (as_bool lv) | _ => true end
  | Er (Undefined _) => match o with Or | Equal | NotEqual => true | _ => false end
  | Er _ => false end.
Proof. exact needs_right_table. Qed.
Theorem C04_conditional_one_branch : forall E c a b cv, res_of E c = Ok cv ->
  tr_of E (ETer TernaryCondition c a b) = tr_of E c ++ tr_of E (if as_bool cv then a else b) /\
  res_of E (ETer TernaryCondition c a b) = res_of E (if as_bool cv then a else b).
Proof. exact conditional_evaluates_one_branch. Qed.
Theorem C04_failing_condition_no_branch : forall E c a b x, res_of E c = Er x -> tr_of E (ETer TernaryCondition c a b) = tr_of E c /\ res_of E (ETer TernaryCondition c a b) = Er x.
Proof. exact failing_condition_evaluates_no_branch. Qed.
Theorem C04_invalid_ternary_evaluates_nothing : forall E o c a b, Generic.is_cond o = false -> eval_t E (ETer o c a b) = (Er (InvalidTernary o), []).
Proof. exact invalid_ternary_evaluates_nothing. Qed.
Theorem C04_unary_operand_once : forall E o r, tr_of E (EUn o r) = tr_of E r.
Proof. exact unary_evaluates_operand_once. Qed.
(* arguments and array elements: left to right, stop at the first failure; the call itself only after all arguments succeeded *)
Theorem C04_args_stop_at_first_failure : forall E xs y zs x0, all_ok E xs -> res_of E y = Er x0 ->
  evals_t E (xs ++ y :: zs) = (Er x0, flat_map (fun x => tr_of E x) xs ++ tr_of E y).
Proof. exact args_stop_at_first_failure. Qed.
Theorem C04_call_after_all_arguments : forall E n ps, all_ok E ps ->
  exists vs, tr_of E (ECall n ps) = flat_map (fun x => tr_of E x) ps ++ [Call n vs] /\ res_of E (ECall n ps) = call E n vs /\ length vs = length ps.
Proof. exact call_after_all_arguments. Qed.
Theorem C04_no_call_after_failing_argument : forall E n xs y zs x0, all_ok E xs -> res_of E y = Er x0 ->
  eval_t E (ECall n (xs ++ y :: zs)) = (Er x0, flat_map (fun x => tr_of E x) xs ++ tr_of E y).
Proof. exact no_call_after_failing_argument. Qed.
Theorem C04_variable_is_one_lookup : forall E n, tr_of E (EVar n) = [Lookup n].
Proof. exact variable_is_one_lookup. Qed.
Theorem C04_literal_is_silent : forall E v, tr_of E (ELit v) = [].
Proof. exact literal_is_silent. Qed.
Print Assumptions C04_needed_right_once. Print Assumptions C04_conditional_one_branch. Print Assumptions C04_no_call_after_failing_argument.

(* tie (a): the evaluation skeleton the trace theorems are about - which operand is evaluated when - is the one in the source today: the outer arms of fn binary
   (and / or decide on the left operand alone; every other operator evaluates the right operand next), fn boolean, fn ternary and get_values, regenerated on every run *)
Theorem C04_evaluation_skeleton_is_the_codes :
  gen_binary_outer = [(Some And, POk, GAndFull); (Some And, PUndef, GConstFalse); (Some Or, POk, GOrFull); (Some Or, PUndef, GOrOfRight); (None, POk, GStrict);
                      (Some Equal, PUndef, GEqUndefLeft); (Some NotEqual, PUndef, GNeUndefLeft); (None, PErr, GErrLeft)] /\
  gen_boolean_as_modelled = true /\ gen_ternary_as_modelled = true /\ gen_get_values_as_modelled = true.
Proof. repeat split; reflexivity. Qed.
