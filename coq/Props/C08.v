(* C08 — execute, optimize, validators and (de)serialization are total on any tree. Property theorems only.
   In the model every entry point is a total Gallina function whose only non-value outcomes are explicit error constructors
   (there is no Panic constructor on this path) and whose only fuel is the optimizer's, proved sufficient for every tree. *)
Require Import ZArith NArith Bool List Arith. Import ListNotations.
Require Import F64 Dec Types Generic Lang Opt IO OptFacts LangLaws Json DepthFacts.

(* operators outside the supported set yield the specific error in unary, binary and ternary position *)
Theorem C08_unary_other_ops_error : forall o v, match o with Minus | Not => False | _ => True end -> un o v = Er (InvalidUnary o).
Proof. exact unary_other_ops_error. Qed.
Theorem C08_binary_other_ops_error : forall o a b, match o with Not | TernaryCondition => True | _ => False end -> binop o a b = Er (InvalidBinary o).
Proof. exact binary_other_ops_error. Qed.
Theorem C08_ternary_other_ops_error : forall E o l m r, Generic.is_cond o = false -> fst (eval_t E (ETer o l m r)) = Er (InvalidTernary o).
Proof. exact ternary_other_ops_error. Qed.
(* optimize never runs out of the fuel run_opt gives it: for every tree (ill-formed or not) and every environment *)
Theorem C08_optimize_total : forall E e acc, fst (fst (optimize_t E (opt_fuel e) e acc)) <> Generic.OOutOfFuel.
Proof. exact terminates_closed_fuel. Qed.
(* serialization is total and, for finite literals, invertible on every tree of every depth *)
Theorem C08_serialize_then_deserialize : forall e fuel, fin_expr e = true -> (depth e <= fuel)%nat -> deser_expr fuel (ser_expr e) = Some e.
Proof. exact C12_roundtrip. Qed.
(* optimize never deepens a tree, in any environment, for any fuel and on every outcome (finished, failed, out of fuel): whatever could walk the tree before can walk the result
   (every consumer - execute, the validators, serialization, comparison - recurses no deeper than the tree it is given) *)
Theorem C08_optimize_never_deepens : forall E k e acc, (depth (snd (fst (optimize_t E k e acc))) <= depth e)%nat.
Proof. exact optimize_depth. Qed.
Example C08_optimize_flattens_example : let e := ECall if_then_name [ELit (VBool true); EBin Plus (EVar [120%N]) (EVar [121%N]); EVar [122%N]] in
  depth e = 3%nat /\ depth (snd (fst (optimize_t (mk_env [] []) (opt_fuel e) e []))) = 2%nat.
Proof. vm_compute. split; reflexivity. Qed.
Print Assumptions C08_optimize_total. Print Assumptions C08_optimize_never_deepens. Print Assumptions C08_serialize_then_deserialize.
