(* C12 — JSON serialization round-trips every expression tree exactly. Property theorems only (proofs: Json.v).
   The data model mirrors what serde's derive produces (internally tagged `type`, camelCase variants and operators) and what the
   hand-written Value visitor accepts; the harness compares it structurally with serde_json::to_value on every case. *)
Require Import ZArith NArith Bool List Arith. Import ListNotations.
From Flocq Require Import Core BinarySingleNaN.
Require Import F64 Dec Types Json GenTokens FrontFacts.

Theorem C12_roundtrip : forall e fuel, fin_expr e = true -> (depth e <= fuel)%nat -> deser_expr fuel (ser_expr e) = Some e.
Proof. exact Json.C12_roundtrip. Qed.
Print Assumptions C12_roundtrip.
Theorem C12_roundtrip_extracted : forall e, fin_expr e = true -> snd (roundtrip e) = Some e.
Proof. intros e H. unfold roundtrip. cbn [snd]. apply Json.C12_roundtrip; auto. Qed.
Theorem C12_value_roundtrip : forall v, fin_value v = true -> deser_value (ser_value v) = Some v.
Proof. exact value_roundtrip. Qed.
Theorem C12_operator_names_roundtrip : forall o, op_of_json (op_json o) = Some o.
Proof. exact op_roundtrip. Qed.
(* the operator names are the ones serde derives from the enum today (regenerated from operator.rs) *)
Theorem C12_operator_names_are_the_codes : forall o, rop_json (ro o) = op_json o.
Proof. destruct o; reflexivity. Qed.
(* the known finding, pinned: a non-finite literal does not survive (JSON null) *)
Theorem C12_refuted_nonfinite : exists e, deser_expr 5 (ser_expr e) = None.
Proof. exists (ELit (VNum B754_nan)). exact Json.C12_refuted_nonfinite. Qed.

(* "Consequently the reloaded tree validates, optimizes and executes exactly like the original": whatever comes back from the round trip of a finite tree IS the tree, so every function of it agrees *)
Require Import Lang Opt IO.
Theorem C12_reloaded_behaves_alike : forall e fuel e', fin_expr e = true -> (depth e <= fuel)%nat -> deser_expr fuel (ser_expr e) = Some e' ->
  forall E, eval_t E e' = eval_t E e /\ check_names E e' = check_names E e /\ check_bool e' = check_bool e /\ (forall k acc, optimize_t E k e' acc = optimize_t E k e acc).
Proof.
  intros e fuel e' Hf Hd H E. rewrite (C12_roundtrip e fuel Hf Hd) in H. injection H as <-. repeat split; reflexivity.
Qed.
Print Assumptions C12_reloaded_behaves_alike.
