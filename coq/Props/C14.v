(* C14 — functions registered as pure are deterministic functions of their arguments. Property theorems only (proofs: UniqFacts.v).
   Every modelled pure builtin is a Gallina function of its arguments, so determinism of the model is trivial; the one place where
   process state (the randomly seeded hasher behind HashSet) can leak into a result is unique, and that is what is proved here. *)
Require Import ZArith NArith Bool List Arith. Import ListNotations.
Require Import F64 Dec Types Generic Lang Builtins OrderFacts GenBuiltins UniqFacts.

(* values that == can equate hash alike (the model of the repaired Hash for Value; compared with the real Hash by the harness) *)
Theorem C14_hash_respects_eq : forall a b, veq a b = true -> hash_class a = hash_class b.
Proof. exact hash_respects_veq. Qed.
(* whatever the seed and the collision history of the hash set, unique returns the model's answer *)
Theorem C14_unique_seed_independent : forall collide l, unique_with value veq hash_class collide l = Builtins.uniq [] l.
Proof. exact unique_model_seed_independent. Qed.
Print Assumptions C14_unique_seed_independent.
(* the regression witness: hashing the kind (the unrepaired code) makes unique([1,'1']) depend on the seed *)
Theorem C14_unrepaired_hash_refuted :
  length (unique_with value veq kind_class (fun _ _ => false) [one; sone]) = 2%nat /\ length (unique_with value veq kind_class (fun _ _ => true) [one; sone]) = 1%nat.
Proof. exact unrepaired_hash_seed_dependent. Qed.
(* exactly random and choice are registered impure (registration table regenerated from the source) *)
Theorem C14_impure_exact : impure_names = [[114;97;110;100;111;109]%N; [99;104;111;105;99;101]%N].
Proof. vm_compute. reflexivity. Qed.

(* "so folding it at optimize time is indistinguishable from calling it at run time": one folding pass never changes what a tree evaluates to, whichever calls it replaced by their
   results (every environment, every tree, also the partially rewritten tree left behind by an error), and the optimizer only ever calls functions registered pure *)
Require Import Opt IO OptFacts OptFacts2 OptFacts3 OptFacts4.
Theorem C14_folding_is_calling : forall E e, fst (eval_t E (snd (fst (fst (fold_t E e))))) = fst (eval_t E e).
Proof. exact fold_preserves_result. Qed.
Theorem C14_only_pure_functions_are_folded : forall E e, Forall (pure_call E) (snd (optimize_t E (opt_fuel e) e [])).
Proof. intros E e. apply optimize_pure. constructor. Qed.
Example C14_fold_example :
  let E := mk_env [] [([107%N], (KEcho, Poly 1 0, true)); ([105%N], (KEcho, Poly 1 0, false))] in
  let e := EArr [ECall [107%N] [ELit (VNum (of_int 7))]; ECall [105%N] [ELit (VNum (of_int 7))]] in
  expr_eqb (snd (fst (optimize_t E (opt_fuel e) e []))) (EArr [ELit (VArr [VNum (of_int 7)]); ECall [105%N] [ELit (VNum (of_int 7))]]) = true.
Proof. vm_compute. reflexivity. Qed.
Print Assumptions C14_folding_is_calling.
