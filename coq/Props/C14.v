(* C14 — functions registered as pure are deterministic functions of their arguments. Property theorems only (proofs: UniqFacts.v).
   Every modelled pure builtin is a Gallina function of its arguments, so determinism of the model is trivial; the one place where
   process state (the randomly seeded hasher behind HashSet) can leak into a result is unique, and that is what is proved here. *)
Require Import ZArith NArith Bool List Arith. Import ListNotations.
Require Import F64 Dec Types Generic Lang Builtins OrderFacts GenBuiltins UniqFacts.

(* values that == can equate hash alike (the model of the repaired Hash for Value; compared with the real Hash by the harness) *)
Theorem C14_hash_respects_eq : forall a b, veq a b = true -> hash_class a = hash_class b.
Proof. exact hash_respects_veq. Qed.
(* whatever the seed and the collision history of the hash set, unique returns the model's answer *)
Theorem C14_unique_seed_independent : forall collide l, unique_with value veq hash_class collide l = Builtins.uniq [] l.
Proof. exact unique_model_seed_independent. Qed.
Print Assumptions C14_unique_seed_independent.
(* the regression witness: hashing the kind (the unrepaired code) makes unique([1,'1']) depend on the seed *)
Theorem C14_unrepaired_hash_refuted :
  length (unique_with value veq kind_class (fun _ _ => false) [one; sone]) = 2%nat /\ length (unique_with value veq kind_class (fun _ _ => true) [one; sone]) = 1%nat.
Proof. exact unrepaired_hash_seed_dependent. Qed.
(* exactly random and choice are registered impure (registration table regenerated from the source) *)
Theorem C14_impure_exact : impure_names = [[114;97;110;100;111;109]%N; [99;104;111;105;99;101]%N].
Proof. vm_compute. reflexivity. Qed.
