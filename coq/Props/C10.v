(* C10 — validated trees never hit unresolved names or arity errors at run time. Property theorems only. *)
Require Import ZArith NArith Bool List Arith Lia. Import ListNotations.
Require Import F64 Dec Types Generic Lang Opt IO OptFacts OptFacts4 ValidFacts GenArity WalkTypes WalkRead GenCheckArms CheckTab.

(* accepted by check_variables_and_functions => execute never fails with UndefinedVariable / FunctionNotFound,
   for every tree and every coherent environment *)
Theorem C10_no_unresolved : forall E e, env_coherent E -> check_names E e = None -> ~ Generic.unresolved (fst (eval_t E e)).
Proof. exact validated_never_unresolved. Qed.
Print Assumptions C10_no_unresolved.

(* the scripted environments of the correspondence check are coherent (non-vacuity, and the tie to what K runs) *)
Theorem C10_scripted_env_coherent : forall vars fns, env_coherent (mk_env vars fns).
Proof. exact mk_env_coherent. Qed.

(* the environment reports Exists exactly within the registered arity, with the registered purity *)
Theorem C10_arity_exact : forall a p k, fn_result a p k = Exists p <-> in_arity a k = true.
Proof. exact arity_exact. Qed.
Theorem C10_arity_purity : forall a p k q, fn_result a p k = Exists q -> q = p.
Proof. exact arity_never_other. Qed.
Theorem C10_in_arity_spelled : forall a k, in_arity a k = true <-> match a with Poly r o => r <= k <= r + o | Variadic => 1 <= k | ANone => k = 0 end.
Proof. exact in_arity_spelled. Qed.
(* ... and that is what the match arms in StaticEnvironment::function_exists (regenerated from the source) decide *)
Theorem C10_arity_table_is_the_codes : forall a k, arms_decide gen_arity_arms a k = Some (in_arity a k).
Proof.
  intros a k. destruct a as [r o| |]; cbn [arms_decide gen_arity_arms kind_of akind_eqb in_arity].
  - f_equal. destruct (Nat.ltb_spec k r), (Nat.ltb_spec (r + o) k), (Nat.leb_spec r k), (Nat.leb_spec k (r + o)); cbn; try reflexivity; lia.
  - destruct (Nat.ltb 0 k); reflexivity.
  - destruct (Nat.eqb k 0); reflexivity.
Qed.
Print Assumptions C10_arity_table_is_the_codes.

(* the tree is still accepted after optimize (also after a partial rewrite that ended in an error), for every fuel *)
Theorem C10_stable_under_optimize : forall E k e acc, check_names E e = None -> check_names E (snd (fst (optimize_t E k e acc))) = None.
Proof. exact optimize_t_keeps_validated. Qed.
Print Assumptions C10_stable_under_optimize.

(* a rejection names a variable / function that occurs in the tree and that the environment does not resolve *)
Theorem C10_names_offender : forall E e, names_offender E e.
Proof. exact rejection_names_offender. Qed.
Print Assumptions C10_names_offender.

Example C10_example : let E := mk_env [([120%N], VBool true)] [([102%N], (KEcho, Poly 1 1, true))] in
  check_names E (ETer TernaryCondition (EVar [120%N]) (ECall [102%N] [EVar [120%N]]) (EArr [ECall [102%N] [ELit (VBool true); EVar [120%N]]])) = None /\
  check_names E (ECall [102%N] []) = Some (Generic.ParamCountMismatch [102%N] 0) /\ check_names E (EUn Not (EVar [121%N])) = Some (Generic.MissingVariable [121%N]).
Proof. vm_compute. auto. Qed.

(* tie (a): the walk of check_variables_and_functions is the one in the source today (arms in source order; every child is visited, in order; a variable must exist;
   a call must exist with its argument count, else the error names it), regenerated on every run *)
Theorem C10_validator_arms_are_the_codes :
  gen_check_names_arms = [(NUnary, GNone, VRecRight); (NBinary, GNone, VRecLeftThenRight); (NTernary, GNone, VRecLeftThenMiddleThenRight); (NArray, GNone, VRecAllInOrder);
                          (NVariable, GNone, VVariableExistsElseMissingVariable); (NCall, GNone, VCallExistsThenParamsElseNamedError); (NLiteral, GNone, VOk)] /\
  gen_check_expressions_as_modelled = true.
Proof. split; reflexivity. Qed.

Theorem C10_validator_is_the_table : forall E e, Some (Generic.check E e) = match arm_for gen_check_names_arms e with Some b => check_body E b e | None => None end.
Proof. exact check_is_the_table. Qed.

(* no call of a standard-library function with a number of arguments inside its registered arity fails with a parameter-count error - for every registration of the table
   regenerated from stdlib/*.rs, every argument list of such a length and whatever the kinds of the arguments (max and min: on at least one value - an empty array spread has none; if_then: with a Boolean condition, its documented kind -
   called as a function with three arguments and a condition of another kind it does answer with a count error, see the example) *)
Require Import Builtins Time GenBuiltins ArityFacts.
Theorem C10_no_count_error_within_arity : forall off name a p ps k, In (name, a, p) gen_builtins -> garity_ok a (length ps) = true ->
  ((name = max_name \/ name = min_name) -> smart_vec ps <> []) -> (name = ArityFacts.if_then_name -> match ps with VBool _ :: _ => True | _ => False end) ->
  call_builtin off name ps <> BErr (WrongParameterCount k).
Proof. exact builtin_no_count_error_within_arity. Qed.
Theorem C10_no_count_error_within_arity_time : forall name a p ps k, In (name, a, p) gen_builtins -> garity_ok a (length ps) = true -> call_time name ps <> BErr (WrongParameterCount k).
Proof. exact time_no_count_error_within_arity. Qed.
(* non-vacuity: outside the arity the count error does come back, and the empty spread is the stated exception *)
Example C10_count_error_outside : call_builtin 1 (A [97;116]%Z) [VBool true] = BErr (WrongParameterCount 2) /\ garity_ok (GPoly 2 0) 1 = false /\
  call_builtin 1 max_name [VArr []] = BErr (WrongParameterCount 1) /\ In (A [97;116]%Z, GPoly 2 0, true) gen_builtins /\
  call_builtin 1 ArityFacts.if_then_name [VNum (of_int 1); VBool true; VBool false] = BErr (WrongParameterCount 2).
Proof. repeat split; try reflexivity. unfold gen_builtins. cbn. auto. Qed.
Print Assumptions C10_no_count_error_within_arity. Print Assumptions C10_no_count_error_within_arity_time.

(* the same for the standard library itself: std_env (StdEnv.v) is the static environment holding the 77 registrations of the regenerated table, with calls going to the builtin models;
   it is coherent, so a script the validator accepts against it never fails with an undefined variable or a function that is not found - every script, every set of variables *)
Require Import StdEnv StdEnvFacts Front.
Theorem C10_standard_library_env_coherent : forall off vars, env_coherent (std_env off vars).
Proof. exact std_env_coherent. Qed.
Theorem C10_validated_script_never_unresolved : forall off vars e, check_names (std_env off vars) e = None -> ~ Generic.unresolved (fst (eval_t (std_env off vars) e)).
Proof. exact validated_script_never_unresolved. Qed.
(* the pipeline as one function: text -> tokens -> tree -> validation, evaluation, optimization - here `max(length('abc'), 2) + 1`, accepted, 4 before and after optimize *)
Example C10_pipeline_example :
  match run_script 1 [] [109;97;120;40;108;101;110;103;116;104;40;39;97;98;99;39;41;44;32;50;41;32;43;32;49]%N with
  | SRan (Ok (VNum a)) None (Ok (VNum b)) Generic.OOk (ELit _) => feq a (of_int 4) && feq b (of_int 4) | _ => false end = true.
Proof. vm_compute. reflexivity. Qed.
Print Assumptions C10_validated_script_never_unresolved.
