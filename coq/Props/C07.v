(* C07 — compile is total: any input yields a tree or an error, never a crash. Property theorems only.
   In the model the only way to "crash or loop" is to run out of fuel; the theorems say this never happens with the
   closed-form fuels the extracted functions use (|chars|+1 for the scanner, 2|tokens|+2 for the parser). *)
Require Import ZArith NArith Bool List Arith. Import ListNotations.
Require Import F64 Dec Types Scan Pratt GenUnicode Front ScanTotal FrontFacts GenTokens GenDispatch.

Theorem C07_scan_total : forall s, scan_raw s <> Scan.Er EFuel.
Proof. exact scan_total. Qed.
Theorem C07_parse_total : forall ts : list (Pratt.token value (list N)), Pratt.compile value (list N) ts <> Pratt.Er Pratt.OutOfFuel.
Proof. exact (Pratt.C07_parse_total value (list N)). Qed.
Theorem C07_compile_total : forall s, Front.compile s <> CScanErr EFuel /\ Front.compile s <> CParseErr Pratt.OutOfFuel.
Proof. exact compile_total. Qed.
Print Assumptions C07_compile_total.

(* the repaired guard is what the proof needs: a prefix operator with nothing after it is Eof, not a recursion *)
Example C07_dangling_prefix_is_eof :
  Front.compile [45%N] = CParseErr Pratt.Eof /\ Front.compile [110;111;116]%N = CParseErr Pratt.Eof /\ Front.compile [49;32;45]%N = CParseErr Pratt.Eof.
Proof. vm_compute. auto. Qed.
