(* C07 — compile is total: any input yields a tree or an error, never a crash. Property theorems only.
   In the model the only way to "crash or loop" is to run out of fuel; the theorems say this never happens with the
   closed-form fuels the extracted functions use (|chars|+1 for the scanner, 2|tokens|+2 for the parser). *)
Require Import ZArith NArith Bool List Arith. Import ListNotations.
Require Import F64 Dec Types Scan Pratt GenUnicode Front ScanTotal FrontFacts GenTokens GenDispatch.

Theorem C07_scan_total : forall s, scan_raw s <> Scan.Er EFuel.
Proof. exact scan_total. Qed.
Theorem C07_parse_total : forall ts : list (Pratt.token value (list N)), Pratt.compile value (list N) ts <> Pratt.Er Pratt.OutOfFuel.
Proof. exact (Pratt.C07_parse_total value (list N)). Qed.
Theorem C07_compile_total : forall s, Front.compile s <> CScanErr EFuel /\ Front.compile s <> CParseErr Pratt.OutOfFuel.
Proof. exact compile_total. Qed.
Print Assumptions C07_compile_total.

(* the repaired guard is what the proof needs: a prefix operator with nothing after it is Eof, not a recursion *)
Example C07_dangling_prefix_is_eof :
  Front.compile [45%N] = CParseErr Pratt.Eof /\ Front.compile [110;111;116]%N = CParseErr Pratt.Eof /\ Front.compile [49;32;45]%N = CParseErr Pratt.Eof.
Proof. vm_compute. auto. Qed.

(* recursion depth - what the stack holds - is bounded by the nesting tokens of the input, not by its length. compile_d is compile with a second budget, decremented exactly where the Rust parser
   makes a nested call (prefix handler -> parse_precedence, binary -> parse_precedence, call / array -> expression) and not where it iterates; it answers None when the budget is exhausted.
   A budget of 10 + 12 * (number of '(' '[' 'not' '-' tokens) is never exhausted, and then compile_d IS compile - every token list, of any length *)
Require Import PrattDepth.
Theorem C07_recursion_depth_bounded : forall (ts : list (Pratt.token value (list N))) d,
  (10 + 12 * Pratt.cnt value (list N) ts <= d)%nat -> compile_d value (list N) d ts = Some (Pratt.compile value (list N) ts).
Proof. exact (depth_bounded_by_nesting_tokens value (list N)). Qed.
Theorem C07_flat_chain_constant_depth : forall (ts : list (Pratt.token value (list N))), Pratt.cnt value (list N) ts = 0%nat -> compile_d value (list N) 10 ts = Some (Pratt.compile value (list N) ts).
Proof. exact (flat_input_constant_depth value (list N)). Qed.
Theorem C07_budgeted_parser_is_the_parser : forall (ts : list (Pratt.token value (list N))) d r, compile_d value (list N) d ts = Some r -> r = Pratt.compile value (list N) ts.
Proof. intros ts d r. apply compile_d_agrees. Qed.
(* non-vacuity: the budget is really consumed by nesting - three parentheses do not fit into two levels, one 'not' does not fit into none - and not by length *)
Example C07_depth_examples :
  compile_d value (list N) 2 [Pratt.LParen; Pratt.LParen; Pratt.LParen; Pratt.TId [120%N]; Pratt.RParen; Pratt.RParen; Pratt.RParen] = None /\
  compile_d value (list N) 0 [Pratt.TNot; Pratt.TId [120%N]] = None /\
  (exists e, compile_d value (list N) 3 [Pratt.LParen; Pratt.LParen; Pratt.LParen; Pratt.TId [120%N]; Pratt.RParen; Pratt.RParen; Pratt.RParen] = Some (Pratt.Ok e)) /\
  (exists e, compile_d value (list N) 1 (Pratt.TId [120%N] :: flat_map (fun _ => [Pratt.TBin Pratt.Plus; Pratt.TId [120%N]]) (seq 0 40)) = Some (Pratt.Ok e)).
Proof. repeat split; try reflexivity; eexists; vm_compute; reflexivity. Qed.
Print Assumptions C07_recursion_depth_bounded.
(* bounded output ("in bounded time" has a size half): a text of n characters scans to at most n tokens, the parser builds at most one node per token, so the tree compile
   returns has at most n nodes - for every text *)
Require Import IO SizeFront.
Theorem C07_token_count_bounded : forall s ts, scan_raw s = Scan.Ok ts -> (1 <= length ts <= length s)%nat.
Proof. exact scan_token_count. Qed.
Theorem C07_tree_no_larger_than_tokens : forall (ts : list (Pratt.token value (list N))) e, Pratt.compile value (list N) ts = Pratt.Ok e -> (Pratt.nodes value (list N) e <= length ts)%nat.
Proof. exact parse_node_count. Qed.
Theorem C07_tree_no_larger_than_text : forall s e, Front.compile s = COk e -> (nodes e <= length s)%nat.
Proof. exact compile_size. Qed.
Example C07_size_example : match Front.compile [40;97;43;98;41;42;120]%N with COk e => Nat.eqb (nodes e) 5 | _ => false end = true.
Proof. vm_compute. reflexivity. Qed.
Print Assumptions C07_tree_no_larger_than_text.
