(* C05 — optimize never changes what a validated expression evaluates to. Property theorems only; proofs in OptFacts.v / Generic.v.
   optimize_t and eval_t are the very constants that are extracted and run against the crate. *)
Require Import ZArith NArith Bool List Arith. Import ListNotations.
Require Import F64 Dec Types Generic Lang Opt IO OptFacts OptFacts5 WalkTypes WalkRead GenOptArms OptTab.

(* value preservation, for every environment, every fuel (success, error midway, even exhaustion), every accumulator *)
Theorem C05_value : forall E, call_no_undef E -> std_if_then_env E ->
  forall k e acc st e' tr v, vars_defined E e = true -> fst (eval_t E e) = Ok v -> optimize_t E k e acc = (st, e', tr) -> fst (eval_t E e') = Ok v.
Proof. exact value_preserved. Qed.
Print Assumptions C05_value.

(* without a three-argument if_then the result is identical, value or error, under every binding *)
Theorem C05_exact : forall E k e acc st e' tr, no_if3 e = true -> optimize_t E k e acc = (st, e', tr) ->
  fst (eval_t E e') = fst (eval_t E e) /\ no_if3 e' = true.
Proof. exact result_preserved. Qed.
Print Assumptions C05_exact.

(* ... at full strength: the tree optimized under ONE environment evaluates like the original under EVERY variable binding, defined or not - under any environment
   with the same functions; indeed the optimizer's output does not depend on the bindings at all *)
Theorem C05_exact_under_every_binding : forall E E' k e acc st e' tr, same_functions E E' -> no_if3 e = true -> optimize_t E k e acc = (st, e', tr) ->
  fst (eval_t E' e') = fst (eval_t E' e).
Proof. exact exact_under_every_binding. Qed.
Theorem C05_optimize_ignores_bindings : forall E E' k e acc, same_functions E E' -> fst (optimize_t E k e acc) = fst (optimize_t E' k e acc).
Proof. exact optimize_ignores_bindings. Qed.
Example C05_same_functions_inhabited : forall vars vars' fns, same_functions (mk_env vars fns) (mk_env vars' fns).
Proof. intros. split; intros; reflexivity. Qed.
Print Assumptions C05_exact_under_every_binding.

(* one folding pass, including the partially rewritten tree it leaves behind on an error, never changes the result *)
Theorem C05_fold_exact : forall E e, fst (eval_t E (snd (fst (fst (fold_t E e))))) = fst (eval_t E e).
Proof. exact fold_preserves_result. Qed.
Print Assumptions C05_fold_exact.

(* the scripted environments used by the correspondence check satisfy the hypotheses (non-vacuity) *)
Definition ex_env := mk_env [([120%N], VNum (of_int 3))] [(if_then_name, (KIfThen, Poly 2 1, true)); ([107%N], (KConst (VNum (of_int 7)), Poly 0 0, true))].
Example C05_hyps_satisfiable : call_no_undef ex_env /\ std_if_then_env ex_env.
Proof.
  split.
  - intros f vs n. unfold ex_env, mk_env; cbn [call]. destruct (lookup f _) as [[[k a] p]|]; [|discriminate].
    destruct k; cbn [call_kind]; try discriminate. unfold std_if_then. destruct vs as [|[] [|? [|? ?]]]; try discriminate; destruct b; discriminate.
  - intros c a b v. unfold ex_env, mk_env; cbn [call]. cbn. destruct c; try discriminate. intros H. exists b0. destruct b0; injection H as <-; auto.
Qed.
Example C05_example : let e := EBin Plus (EVar [120%N]) (ECall if_then_name [EBin Less (ELit (VNum (of_int 1))) (ELit (VNum (of_int 2))); ECall [107%N] []; EVar [120%N]]) in
  vars_defined ex_env e = true /\ res_is (fst (eval_t ex_env e)) (VNum (of_int 10)) = true /\
  expr_eqb (snd (fst (optimize_t ex_env (opt_fuel e) e []))) (EBin Plus (EVar [120%N]) (ELit (VNum (of_int 7)))) = true.
Proof. vm_compute. auto. Qed.

(* the boundary of the first sentence is real: with an unbound variable the value can change (outside C05 as stated) *)
Example C05_unresolved_refuted :
  let E := mk_env [] [(if_then_name, (KIfThen, Poly 2 1, true))] in
  let e := EBin Equal (ECall if_then_name [ELit (VBool false); EVar [121%N]; ELit (VNum (of_int 5))]) (ELit (VNum (of_int 0))) in
  res_is (fst (eval_t E e)) (VBool true) = true /\ res_is (fst (eval_t E (snd (fst (optimize_t E (opt_fuel e) e []))))) (VBool false) = true.
Proof. vm_compute. auto. Qed.

(* tie (a): the tree walks of the optimizer are the ones in the source today - the arms of `match expression` in transform_ternary and fold_constants, in source order
   (node kind, guard, body identified by its normalised text; an unknown text becomes WOther n), the loop of `optimize` and `expressions_are_const`, regenerated on every run.
   Opt.v (tt, fold, optimize_t) was written from exactly these arms. *)
Theorem C05_optimizer_arms_are_the_codes :
  gen_transform_ternary_arms = [(NUnary, GNone, TRecRight); (NBinary, GNone, TRecLeftRight); (NTernary, GNone, TRecLeftMiddleRight); (NArray, GNone, TRecAll);
                                (NCall, GIsIfThen, TRewriteIfExactlyThreeElseRecAll); (NCall, GNone, TRecAll); (NAnyOther, GNone, WNothing)] /\
  gen_fold_constants_arms = [(NUnary, GNone, FEvalIfOperandLiteralElseRec); (NBinary, GNone, FEvalIfBothLiteralElseRecLeftRight); (NTernary, GNone, FSelectBranchIfLiteralConditionElseRecAll);
                             (NArray, GAllLiteral, FEvalWhole); (NArray, GNone, FRecAll); (NCall, GAllLiteral, FEvalWholeIfExistsPure); (NCall, GNone, FRecAll); (NAnyOther, GNone, WNothing)] /\
  gen_fold_constants_ends_ok = true /\ gen_expressions_are_const_as_modelled = true /\ gen_optimize_loop_as_modelled = true.
Proof. repeat split; reflexivity. Qed.

(* ... and the walks of the model ARE the reading of those arms: at every node, `tt` and `fold` satisfy exactly the equation that the first fitting arm prescribes
   (glossary of body texts in OptTab.v), and `optimize` is the transform-fold-repeat loop *)
Theorem C05_transform_is_the_table : forall e, Some (Generic.tt e) = match arm_for gen_transform_ternary_arms e with Some b => tt_body b e | None => None end.
Proof. exact tt_is_the_table. Qed.
Theorem C05_fold_is_the_table : forall E e, Some (Generic.fold as_bool is_empty un binop E e) = match arm_for gen_fold_constants_arms e with Some b => fold_body E b e | None => None end.
Proof. exact fold_is_the_table. Qed.

(* the same for the standard library itself (StdEnv.v: the static environment with the 77 registrations, calls going to the builtin models): its if_then is the standard function and
   no builtin answers "undefined variable", so optimize preserves the value of every script whose variables are defined - every script, every fuel, success or error midway *)
Require Import StdEnv StdEnvFacts.
Theorem C05_value_standard_library : forall off vars k e acc st e' tr v,
  vars_defined (std_env off vars) e = true -> fst (eval_t (std_env off vars) e) = Ok v -> optimize_t (std_env off vars) k e acc = (st, e', tr) -> fst (eval_t (std_env off vars) e') = Ok v.
Proof. exact optimize_preserves_script_value. Qed.
Print Assumptions C05_value_standard_library.
