(* C13 — comparisons, compare, min/max, between and sort share one total preorder. Property theorems only (proofs: Order.v, OrderInst.v, OrderFacts.v).
   Lang.vcmp / Lang.veq are the extracted functions the crate's Value::cmp / == are compared with on every pair of the pool. *)
From Flocq Require Import Core BinarySingleNaN.
Require Import ZArith NArith Bool List Arith Permutation Sorted. Import ListNotations.
Require Import F64 Dec Types Generic Lang Order OrderInst Builtins OrderFacts InterpTypes InterpRead GenValueOrd InterpOrd.

(* for ALL values: a<b iff b>a, a<=b iff not a>b, a<>b iff not a=b, = symmetric, the order is total *)
Theorem C13_antisym : forall a b, Lang.vcmp b a = CompOpp (Lang.vcmp a b).
Proof. exact vcmp_antisym. Qed.
Theorem C13_operators_consistent : forall a b,
  binop Less a b = Ok (VBool (lt a b)) /\ binop Greater a b = Ok (VBool (gt a b)) /\
  binop LessEqual a b = Ok (VBool (negb (gt a b))) /\ binop GreaterEqual a b = Ok (VBool (negb (lt a b))) /\
  binop NotEqual a b = Ok (VBool (negb (veq a b))) /\ binop Equal a b = Ok (VBool (veq a b)) /\
  binop Less a b = binop Greater b a.
Proof. exact operators_consistent. Qed.
Theorem C13_eq_sym : forall a b, veq a b = veq b a.
Proof. exact veq_sym. Qed.
Theorem C13_total : forall a b, vle a b \/ vle b a.
Proof. exact vle_total. Qed.
(* transitivity on tame triples: no NaN leaf, and not (a Number leaf together with a numerically parsable String leaf) *)
Theorem C13_trans : forall a b c, tame3 a b c -> vle a b -> vle b c -> vle a c.
Proof. exact vle_trans. Qed.
Print Assumptions C13_trans.
(* compare and between are views of the same order *)
Theorem C13_compare_model : forall a b, call_builtin 1 (Builtins.A [99;111;109;112;97;114;101]%Z) [a; b] =
  BOk (VNum (of_int (match Lang.vcmp a b with Lt => -1 | Eq => 0 | Gt => 1 end)%Z)).
Proof. exact compare_model. Qed.
Theorem C13_between_model : forall v lo hi, call_builtin 1 (Builtins.A [98;101;116;119;101;101;110]%Z) [v; lo; hi] = BOk (VBool (Builtins.vle lo v && Builtins.vle v hi)).
Proof. exact between_model. Qed.
(* sort: a permutation of its input for EVERY array; no element greater than its successor on tame arrays *)
Theorem C13_sort_perm : forall l, Permutation (sort_stable l) l.
Proof. exact sort_perm. Qed.
Theorem C13_sort_sorted : forall l, tame_list l -> sorted (sort_stable l).
Proof. exact sort_sorted. Qed.
Theorem C13_sort_idempotent : forall l, tame_list l -> sort_stable (sort_stable l) = sort_stable l.
Proof. exact sort_idempotent. Qed.
(* min and max return members of their input that bound all others (tame inputs) *)
Theorem C13_max_spec : forall l m, tame_list l -> vmax l = Some m -> In m l /\ forall z, In z l -> vle z m.
Proof. exact vmax_spec. Qed.
Theorem C13_min_spec : forall l m, tame_list l -> vmin l = Some m -> In m l /\ forall z, In z l -> vle m z.
Proof. exact vmin_spec. Qed.
Print Assumptions C13_sort_sorted.

(* the known finding, pinned: without tameness the order is NOT transitive (witnesses computed inside Coq) *)
Definition s9 : list N := [57%N]. Definition s10 : list N := [49%N; 48%N].
Theorem C13_trans_refuted_numeric_string : vle (VStr s10) (VStr s9) /\ vle (VStr s9) (VNum (of_int 9)) /\ ~ vle (VStr s10) (VNum (of_int 9)).
Proof. unfold vle. repeat split; vm_compute; congruence. Qed.
Theorem C13_trans_refuted_nan : vle (VNum (of_int 1)) (VNum B754_nan) /\ vle (VNum B754_nan) (VNum (of_int 0)) /\ ~ vle (VNum (of_int 1)) (VNum (of_int 0)).
Proof. unfold vle. repeat split; vm_compute; congruence. Qed.
(* non-vacuity: tame triples exist across kinds *)
Example C13_tame_example : tame3 (VArr [VNum (of_int 1); VBool true]) (VNum (of_int 2)) (VArr [VNum (of_int 1); VArr []]).
Proof. unfold tame3, Order.tame3, Order.nonan. repeat split; vm_compute; reflexivity. Qed.

(* tie (a): vcmp / veq of the model are the reading of the arms of `impl Ord for Value`, `impl PartialEq for Value` and `ordinal` regenerated from value.rs on every run *)
Theorem C13_order_is_the_table : forall a b, Some (vcmp a b) = tab_cmp a b.
Proof. exact vcmp_is_the_table. Qed.
Theorem C13_equality_is_the_table : forall a b, Some (veq a b) = tab_eq a b.
Proof. exact veq_is_the_table. Qed.
