(* C09 — every standard-library function is total on arbitrary arguments. Property theorems only.
   The builtin models are total Gallina functions whose only outcomes are values and error values: there is no panic outcome in the
   model of the repaired code. What can be proved beyond that are the range facts the index helpers rely on; the rest of the claim is
   the exploration of the real functions in four builds (see evidence). *)
From Flocq Require Import Core BinarySingleNaN.
Require Import ZArith NArith Bool List Arith Lia. Import ListNotations.
Require Import F64 Dec Types Generic Lang Builtins GenBuiltins.
Open Scope Z_scope.

(* the saturating casts land in their target range for every double, NaN and infinities included *)
Lemma to_int_sat_range lo hi x : lo <= 0 <= hi -> lo <= to_int_sat lo hi x <= hi.
Proof. intros H. unfold to_int_sat, clamp. destruct x as [s|s| |s m e p]; try (destruct s); lia. Qed.
Theorem C09_casts_in_range : forall x, 0 <= to_usize x <= 2^64 - 1 /\ 0 <= to_u32 x <= 2^32 - 1 /\ - 2^63 <= to_i64 x <= 2^63 - 1 /\ - 2^31 <= to_i32 x <= 2^31 - 1.
Proof. intros x. unfold to_usize, to_u32, to_i64, to_i32. repeat split; apply to_int_sat_range; lia. Qed.
(* an accepted index is never negative; with the 1-based convention position 0 is an error value, not an underflow *)
Theorem C09_index_nonneg : forall x k, get_index x = inl k -> 0 <= k <= 2^64 - 1.
Proof. intros x k. unfold get_index. destruct (ge0 x); [|discriminate]. intros H. injection H as <-. apply C09_casts_in_range. Qed.
Theorem C09_string_index_nonneg : forall off x k, get_string_index off x = inl k -> 0 <= k.
Proof.
  intros off x k. unfold get_string_index. destruct (get_index x) as [i|e] eqn:E; [|discriminate].
  destruct (i <? Z.of_nat off) eqn:L; [discriminate|]. intros H. injection H as <-. lia.
Qed.
(* slicing never leaves the sequence *)
Theorem C09_clamp_in_bounds : forall (A:Type) k (l:list A), (clampn k l <= length l)%nat.
Proof. intros A k l. unfold clampn. lia. Qed.
Theorem C09_nth_z_safe : forall (A:Type) (l:list A) k v, nth_z l k = Some v -> k < Z.of_nat (length l).
Proof. intros A l k v. unfold nth_z. destruct (k <? Z.of_nat (length l)) eqn:E; [lia|discriminate]. Qed.
(* exactly the registered functions are the ones explored: the registration table regenerated from the source has 77 entries *)
Theorem C09_registered_count : length gen_builtins = 77%nat.
Proof. reflexivity. Qed.
Print Assumptions C09_casts_in_range. Print Assumptions C09_string_index_nonneg.

(* bounded memory, at model level: what the text and collection builtins return is bounded by a polynomial in the sizes of their arguments - every text, needle and replacement
   (replace with an empty needle is the worst case: the replacement once before, between and after every character) *)
Require Import Builtins SeqLaws SizeFacts.
Theorem C09_replace_bounded : forall f n t s, (length (replace_sub f n t s) <= length s + S (length s) * length t)%nat.
Proof. exact replace_len. Qed.
Theorem C09_count_bounded : forall f n s, (count_sub f n s <= S (length s))%nat.
Proof. exact count_len. Qed.
Theorem C09_split_bounded : forall s sep, (length (split_str s sep) <= length s + 2)%nat /\ (sep <> [] -> (length (concat (split_str s sep)) <= length s)%nat).
Proof. intros s sep. split; [apply split_pieces | apply split_total_size]. Qed.
Theorem C09_unique_bounded : forall l, (length (uniq [] l) <= length l)%nat.
Proof. intros l. apply uniq_len. Qed.
Example C09_replace_worst_case : length (replace_sub 4 [] [120;121]%N [97;98;99]%N) = (3 + 4 * 2)%nat.
Proof. reflexivity. Qed.
(* the regex builtins too, for every pattern AST (over the reference engine of Regex.v): at most length + 1 matches, together no longer than the text; a plain replacement
   grows the text by at most one replacement per match *)
Require Import Regex RegexZero.
Theorem C09_regex_find_bounded : forall k r s, (length (re_find k r s) <= S (length s))%nat /\ (length (concat (re_find k r s)) <= length s)%nat.
Proof. intros k r s. split; [apply find_count_bound | apply find_total_length]. Qed.
Theorem C09_regex_replace_bounded : forall k r s t limit, (length (re_replace k r s t limit) <= length s + S (length s) * length t)%nat.
Proof. exact replace_plain_bounded. Qed.
Example C09_regex_replace_worst_case : length (re_replace 1 (RStar (RChar 122)) [97;98;99]%N [120;121]%N 0) = (3 + 4 * 2)%nat.
Proof. vm_compute. reflexivity. Qed.
Print Assumptions C09_replace_bounded. Print Assumptions C09_regex_replace_bounded.
