(* C11 — a tree accepted by check_boolean_result only ever evaluates to a Boolean. Property theorems only. *)
Require Import List Bool NArith ZArith. Import ListNotations.
Require Import F64 Dec Types Generic Lang Opt IO GenValidate InterpTypes InterpRead GenEvalArms GenValueOps InterpOps InterpFacts.
Definition leaves_bool (E:env) : expr -> Prop := Generic.leaves_bool as_bool is_empty un binop E is_boolv.
Definition op_eqb (a b:op) : bool := match a, b with
  | Plus,Plus|Minus,Minus|Multiply,Multiply|Divide,Divide|Greater,Greater|GreaterEqual,GreaterEqual|Less,Less|LessEqual,LessEqual
  | Equal,Equal|NotEqual,NotEqual|And,And|Or,Or|Xor,Xor|Not,Not|Div,Div|Mod,Mod|TernaryCondition,TernaryCondition => true | _,_ => false end.
Lemma binop_bool : forall o a b v, Generic.cmp_or_xor o = true -> binop o a b = Ok v -> is_boolv v = true.
Proof. intros o a b v Ho H. destruct o; try discriminate; simpl in H; try (injection H as <-; reflexivity). destruct a, b; try discriminate. injection H as <-. reflexivity. Qed.
Lemma un_not_bool : forall a v, un Not a = Ok v -> is_boolv v = true.
Proof. intros a v H. simpl in H. injection H as <-. reflexivity. Qed.

(* the whitelist the code has today (regenerated from validate.rs) is the one the theorem is about *)
Theorem C11_whitelist_is_the_codes : forall o,
  existsb (op_eqb o) gen_bool_unary = Generic.bool_unary_ok o /\
  existsb (op_eqb o) gen_bool_binary = Generic.bool_binary_ok o /\
  existsb (op_eqb o) gen_bool_ternary = Generic.bool_ternary_ok o.
Proof. destruct o; repeat split; reflexivity. Qed.
Check C11_whitelist_is_the_codes.

Theorem C11_sound : forall E e v, check_bool e = true -> leaves_bool E e -> fst (eval_t E e) = Ok v -> is_boolv v = true.
Proof.
  intros E e v Hc Hl He. rewrite eval_t_fst in He. unfold eval in He.
  exact (Generic.C11_sound as_bool is_empty un binop E is_boolv (fun b => eq_refl) binop_bool un_not_bool e Hc Hl He).
Qed.
Check C11_sound : forall E e v, check_bool e = true -> leaves_bool E e -> fst (eval_t E e) = Ok v -> is_boolv v = true.
Print Assumptions C11_sound.

Theorem C11_rejects : forall v es o r l, is_boolv v = false ->
  check_bool (ELit v) = false /\ check_bool (EArr es) = false /\ check_bool (EUn Minus r) = false /\
  (Generic.bool_binary_ok o = false -> check_bool (EBin o l r) = false).
Proof. intros v es o r l Hv. repeat split; auto. Qed.
Print Assumptions C11_rejects.

(* non-vacuity: a non-trivial accepted tree whose result-position leaves are Boolean *)
Example C11_example : check_bool (ETer TernaryCondition (EBin Less (ELit (VNum (of_int 1))) (ELit (VNum (of_int 2)))) (EUn Not (ELit (VStr []))) (EBin Or (EVar [120%N]) (ELit (VNum (of_int 5))))) = true.
Proof. reflexivity. Qed.
(* regression witness for F2: before the repair the model of `x or 5` with x undefined yielded Number(5) *)

(* tie (a) on the interpreter's side: what the whitelisted operators evaluate to is the reading of fn unary / fn binary as they are in the source today *)
Theorem C11_binary_is_the_table : forall o rl rr, Some (bin_combine o rl rr) = tab_binary o rl rr.
Proof. exact bin_combine_is_the_table. Qed.
Theorem C11_unary_is_the_table : forall o r, Some (un_combine o r) = tab_unary o r.
Proof. exact un_combine_is_the_table. Qed.
