(* C19 — the static environment is a case-insensitive map over any add/remove history. Property theorems only (proofs: Env.v). *)
Require Import ZArith NArith Bool List Arith. Import ListNotations.
Require Import F64 Dec Types Env.

(* every history refines the map from folded names: outputs equal, abstraction commutes *)
Theorem C19_step_refines : forall s o, spec_eq (abs (fst (step s o))) (fst (spec_step (abs s) o)) /\ snd (step s o) = snd (spec_step (abs s) o).
Proof. exact Env.C19_step_refines. Qed.
Theorem C19_refines : forall ops s m, spec_eq (abs s) m -> spec_eq (abs (fst (run s ops))) (fst (spec_run m ops)) /\ snd (run s ops) = snd (spec_run m ops).
Proof. exact Env.C19_refines. Qed.
Print Assumptions C19_refines.
(* observations depend on a name only through its case folding *)
Theorem C19_respell : forall s n n', fold_name n = fold_name n' ->
  step s (RemV n) = step s (RemV n') /\ q_var s n = q_var s n' /\ q_fn s n = q_fn s n' /\ (forall v, fst (step s (AddV n v)) = fst (step s (AddV n' v))).
Proof. exact Env.C19_respell. Qed.
(* the specification itself says what the statement says: remove returns what was stored, clearing variables leaves functions,
   variables and functions are separate namespaces *)
Theorem C19_spec_remove_returns_stored : forall m n, snd (spec_step m (RemV n)) = match mv m (fold_name n) with Some v => OVal v | None => ONone end.
Proof. reflexivity. Qed.
Theorem C19_spec_clear_keeps_functions : forall m k, mf (fst (spec_step m ClrV)) k = mf m k /\ mv (fst (spec_step m ClrV)) k = None.
Proof. intros; split; reflexivity. Qed.
Theorem C19_spec_namespaces_disjoint : forall m n v k t, mf (fst (spec_step m (AddV n v))) k = mf m k /\ mv (fst (spec_step m (AddF n t))) k = mv m k.
Proof. intros; split; reflexivity. Qed.
Example C19_example : snd (run empty_env [AddV [97%N] (VBool true); AddF [65%N] 1%N; AddV [65%N] (VBool false); RemV [97%N]; RemF [97%N]]) =
  [OUnit; OUnit; OUnit; OVal (VBool false); OFn [65%N] 1%N].
Proof. reflexivity. Qed.

(* the key: name.to_lowercase() through the case tables regenerated from the toolchain (every script, one-to-many mappings included; the final-sigma rule included).
   Folding is idempotent - a stored key is its own key - so a name and its lower-cased spelling always address the same entry *)
Require Import GenUnicode CaseModel Builtins CaseFacts.
Theorem C19_fold_idempotent : forall n, fold_name (fold_name n) = fold_name n.
Proof. exact fold_name_idem. Qed.
Theorem C19_lowercased_spelling_same_entry : forall s n, q_var s (fold_name n) = q_var s n /\ q_fn s (fold_name n) = q_fn s n.
Proof. intros s n. unfold q_var, q_fn. rewrite fold_name_idem. split; reflexivity. Qed.
Example C19_fold_example : fold_name [937]%N = fold_name [969]%N /\ fold_name [8490]%N = fold_name [75]%N /\ fold_name [304]%N = [105; 775]%N /\ fold_name [223]%N <> fold_name [115;115]%N.
Proof. vm_compute. repeat split; try reflexivity. discriminate. Qed.
Print Assumptions C19_fold_idempotent.

(* "Consequently evaluating a tree is unaffected by changing the letter case of the identifiers in it": for the standard-library environment (StdEnv.v), respelling the variables and function
   names of a script by any map that keeps the folded spelling leaves the value unchanged, an error an error of the same kind (the names an error carries are the spelled ones), and the
   validator's verdict a verdict of the same kind - every script, every set of variables; proved for every environment that looks names up by their folded spelling *)
Require Import Types Generic Lang Opt IO StdEnv RespellFacts.
Theorem C19_script_respelled : forall off vars f e, (forall n, fold_name (f n) = fold_name n) -> res_sim (eval (std_env off vars) (respell f e)) (eval (std_env off vars) e).
Proof. exact script_respelled. Qed.
Theorem C19_script_value_respelled : forall off vars f e v, (forall n, fold_name (f n) = fold_name n) -> eval (std_env off vars) e = Ok v -> eval (std_env off vars) (respell f e) = Ok v.
Proof. exact script_value_respelled. Qed.
Theorem C19_script_validation_respelled : forall off vars f e, (forall n, fold_name (f n) = fold_name n) ->
  cerr_kind (check_names (std_env off vars) (respell f e)) = cerr_kind (check_names (std_env off vars) e).
Proof. exact script_validation_respelled. Qed.
(* a respelling that keeps the folded spelling exists for every name: its lower-cased form *)
Example C19_respelling_inhabited : forall n, fold_name (fold_name n) = fold_name n.
Proof. exact fold_name_idem. Qed.
Print Assumptions C19_script_respelled.
