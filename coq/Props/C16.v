(* C16 — date-time builtins encode and decode the calendar exactly. Property theorems only (proofs: TimeFacts.v).
   days_from_civil / civil_from_days and the float layer below are the definitions call_time (Time.v, extracted) is built from. *)
From Flocq Require Import Core BinarySingleNaN.
Require Import ZArith NArith Bool List Arith Lia Reals. Import ListNotations.
Require Import F64 Dec Types Generic Lang Builtins Time TimeFacts IndexFacts FracFacts CalFacts GenBuiltins.
Open Scope Z_scope.

(* the calendar round trip for EVERY year in Z (a 400-year sweep by vm_compute lifted by periodicity) *)
Theorem C16_civil_roundtrip : forall y m d, valid_date y m d = true -> civil_from_days (days_from_civil y m d) = (y, m, d).
Proof. exact civil_roundtrip. Qed.
(* ... and conversely every day number is the day count of exactly one valid date: civil_from_days and days_from_civil are mutually
   inverse bijections between Z and the valid proleptic-Gregorian dates (sweep over the 146 097 days of one era, lifted by periodicity) *)
Theorem C16_days_roundtrip : forall z, let '(y, m, d) := civil_from_days z in valid_date y m d = true /\ days_from_civil y m d = z.
Proof. exact days_roundtrip. Qed.
Theorem C16_weekday_model : forall d, (d + 7 + 3) mod 7 = (d + 3) mod 7 /\ 0 <= (d + 3) mod 7 < 7.
Proof. exact weekday_model. Qed.
Print Assumptions C16_civil_roundtrip. Print Assumptions C16_days_roundtrip.
(* the millisecond conversion is exact: dividing by 86400000 and multiplying back, rounded, recovers every |M| <= 2^50 ms
   (years 1..9999 need |M| < 2^49) - over Flocq's binary64 *)
Theorem C16_ms_exact : forall M, Z.abs M <= 2^50 -> to_i64 (fround (fmul (fdiv (of_int M) fD) fD)) = M.
Proof. exact TimeFacts.C16_ms_exact. Qed.
Print Assumptions C16_ms_exact.
Theorem C16_epoch : days_from_civil 1970 1 1 = 0 /\ civil_from_days 0 = (1970, 1, 1) /\ days_from_civil 1 1 1 = -719162 /\ days_from_civil 9999 12 31 = 2932896.
Proof. repeat split; vm_compute; reflexivity. Qed.
Theorem C16_leap_rule : forall y, is_leap y = (y mod 4 =? 0) && (negb (y mod 100 =? 0) || (y mod 400 =? 0)).
Proof. reflexivity. Qed.
Theorem C16_ms_per_day_is_the_codes : gen_ms_per_day = Z.to_N MSD.
Proof. reflexivity. Qed.

(* ---- the same facts as a caller of the builtins observes them (call_time is the extracted model the correspondence check runs) ----
   instant y m d h mi s ml = days_from_civil y m d * 86400000 + ((h*60+mi)*60+s)*1000+ml milliseconds; of_ms M = the Number M / 86400000 *)
Theorem C16_components_recovered : forall y m d h mi s ml, valid_date y m d = true -> 1 <= y <= 9999 -> valid_tod h mi s ml ->
  let x := of_ms (instant y m d h mi s ml) in
  call_time year_n [x] = num y /\ call_time month_n [x] = num m /\ call_time day_n [x] = num d /\
  call_time hour_n [x] = num h /\ call_time minute_n [x] = num mi /\ call_time second_n [x] = num s /\ call_time millisecond_n [x] = num ml /\
  call_time day_of_week_n [x] = num ((days_from_civil y m d + 3) mod 7) /\ call_time is_leap_year_n [x] = BOk (VBool (is_leap y)).
Proof. exact components_recovered. Qed.
Print Assumptions C16_components_recovered.
(* the hypotheses are satisfiable, and 1970-01-01 was a Thursday (Monday = 0) *)
Example C16_components_nonvacuous : valid_date 2024 2 29 = true /\ 1 <= 2024 <= 9999 /\ valid_tod 23 59 59 999 /\ (days_from_civil 1970 1 1 + 3) mod 7 = 3.
Proof. unfold valid_tod. repeat split; try lia; reflexivity. Qed.
(* encode_date on whole-number arguments yields exactly the day number for a date that exists and an error for one that does not *)
Theorem C16_encode_date : forall y m d, 1 <= y <= 9999 -> 0 <= m <= 2^31 -> 0 <= d <= 2^31 ->
  call_time encode_date_n [zi y; zi m; zi d] = if valid_date y m d then BOk (of_ms (days_from_civil y m d * MSD)) else BErr CustomError.
Proof. exact encode_date_builtin. Qed.
Theorem C16_nonexistent_dates_rejected : forall y, 1 <= y <= 9999 ->
  call_time encode_date_n [zi y; zi 13; zi 1] = BErr CustomError /\ call_time encode_date_n [zi y; zi 2; zi 30] = BErr CustomError /\
  call_time encode_date_n [zi y; zi 1; zi 0] = BErr CustomError /\ call_time encode_date_n [zi y; zi 0; zi 1] = BErr CustomError /\
  call_time encode_date_n [zi y; zi 4; zi 31] = BErr CustomError /\ (is_leap y = false -> call_time encode_date_n [zi y; zi 2; zi 29] = BErr CustomError).
Proof. exact nonexistent_dates_rejected. Qed.
Theorem C16_encode_time : forall h mi s ml, 0 <= h <= 2^31 -> 0 <= mi <= 2^31 -> 0 <= s <= 2^31 -> 0 <= ml < 1000 ->
  call_time encode_time_n [zi h; zi mi; zi s; zi ml] = if (h <? 24) && (mi <? 60) && (s <? 60) then BOk (of_ms (tod_ms h mi s ml)) else BErr CustomError.
Proof. exact encode_time_builtin. Qed.
Theorem C16_encode_time_default_ms : forall h mi s, 0 <= h <= 2^31 -> 0 <= mi <= 2^31 -> 0 <= s <= 2^31 ->
  call_time encode_time_n [zi h; zi mi; zi s] = if (h <? 24) && (mi <? 60) && (s <? 60) then BOk (of_ms (tod_ms h mi s 0)) else BErr CustomError.
Proof. exact encode_time_default_ms. Qed.
Theorem C16_negative_components_rejected : forall h mi s, ge0 h && ge0 mi && ge0 s = false -> call_time encode_time_n [VNum h; VNum mi; VNum s] = BErr CustomError.
Proof. exact neg_rejected. Qed.
(* the numbers produced: M ms is the double nearest to M / 86400000, a whole number of days exactly (days since 1970-01-01, time of day as the fraction) *)
Theorem C16_number_produced : forall M, Z.abs M <= 2^52 ->
  of_ms M = VNum (fdiv (of_int M) fD) /\ B2R (fdiv (of_int M) fD) = round radix2 (FLT_exp (3 - F64.emax - F64.prec) F64.prec) ZnearestE (IZR M / 86400000)%R /\ is_finite (fdiv (of_int M) fD) = true.
Proof. exact of_ms_R. Qed.
Theorem C16_whole_days_exact : forall k, Z.abs k <= 2^23 -> B2R (fdiv (of_int (k * MSD)) fD) = IZR k.
Proof. exact whole_days_exact. Qed.
(* inc_month: the month index y*12+(m-1) moves by k, the time of day is kept, the day is clamped to the target month's length *)
Theorem C16_inc_month : forall y m d h mi s ml k, valid_date y m d = true -> 1 <= y <= 9999 -> valid_tod h mi s ml -> - 2^31 < k < 2^31 ->
  let t := y * 12 + (m - 1) + k in let y' := t / 12 in let m' := t mod 12 + 1 in
  -262143 <= y' <= 262142 ->
  call_time inc_month_n [of_ms (instant y m d h mi s ml); zi k] = BOk (of_ms (instant y' m' (Z.min d (dim y' m')) h mi s ml)) /\
  valid_date y' m' (Z.min d (dim y' m')) = true /\ y' * 12 + (m' - 1) = y * 12 + (m - 1) + k.
Proof. exact inc_month_builtin. Qed.
Theorem C16_inc_month_default : forall v, call_time inc_month_n [v] = call_time inc_month_n [v; VNum (of_int 1)].
Proof. exact call_inc_month1. Qed.
Example C16_inc_month_clamps : let t := 2023 * 12 + (1 - 1) + 1 in (t / 12, t mod 12 + 1, Z.min 31 (dim (t / 12) (t mod 12 + 1))) = (2023, 2, 28).
Proof. reflexivity. Qed.
(* date(x) + time(x) = x for every finite number *)
Theorem C16_date_plus_time : forall x, is_finite x = true ->
  exists dx tx, call_time date_n [VNum x] = BOk (VNum dx) /\ call_time time_n [VNum x] = BOk (VNum tx) /\ feq (fadd dx tx) x = true.
Proof. exact date_plus_time. Qed.
(* default-format texts *)
Theorem C16_date_to_string : forall y m d h mi s ml, valid_date y m d = true -> 1 <= y <= 9999 -> valid_tod h mi s ml ->
  let x := of_ms (instant y m d h mi s ml) in
  call_time date_to_string_n [VStr fmt_date; x] = BOk (VStr (show_date y m d)) /\
  call_time date_to_string_n [VStr fmt_time; x] = BOk (VStr (show_time h mi s)) /\
  call_time date_to_string_n [VStr fmt_dt; x] = BOk (VStr (show_date y m d ++ [32%N] ++ show_time h mi s)).
Proof. exact date_to_string_builtin. Qed.
Theorem C16_string_to_date : forall y m d, 0 <= y <= 9999 -> 0 <= m <= 99 -> 0 <= d <= 99 ->
  call_time string_to_date_n [VStr (show_date y m d)] = if valid_date y m d then BOk (of_ms (days_from_civil y m d * MSD)) else BErr CustomError.
Proof. exact string_to_date_builtin. Qed.
Theorem C16_string_to_time : forall h mi s, valid_tod h mi s 0 -> call_time string_to_time_n [VStr (show_time h mi s)] = BOk (of_ms (tod_ms h mi s 0)).
Proof. exact string_to_time_builtin. Qed.
Theorem C16_string_to_datetime : forall y m d h mi s, valid_date y m d = true -> 0 <= y <= 9999 -> valid_tod h mi s 0 ->
  call_time string_to_datetime_n [VStr (show_date y m d ++ [32%N] ++ show_time h mi s)] = BOk (of_ms (instant y m d h mi s 0)).
Proof. exact string_to_datetime_builtin. Qed.
Print Assumptions C16_inc_month. Print Assumptions C16_date_plus_time. Print Assumptions C16_string_to_datetime. Print Assumptions C16_number_produced.
