(* C16 — date-time builtins encode and decode the calendar exactly. Property theorems only (proofs: TimeFacts.v).
   days_from_civil / civil_from_days and the float layer below are the definitions call_time (Time.v, extracted) is built from. *)
From Flocq Require Import Core BinarySingleNaN.
Require Import ZArith NArith Bool List Arith. Import ListNotations.
Require Import F64 Dec Types Generic Lang Builtins Time TimeFacts GenBuiltins.
Open Scope Z_scope.

(* the calendar round trip for EVERY year in Z (a 400-year sweep by vm_compute lifted by periodicity) *)
Theorem C16_civil_roundtrip : forall y m d, valid_date y m d = true -> civil_from_days (days_from_civil y m d) = (y, m, d).
Proof. exact civil_roundtrip. Qed.
(* ... and conversely every day number is the day count of exactly one valid date: civil_from_days and days_from_civil are mutually
   inverse bijections between Z and the valid proleptic-Gregorian dates (sweep over the 146 097 days of one era, lifted by periodicity) *)
Theorem C16_days_roundtrip : forall z, let '(y, m, d) := civil_from_days z in valid_date y m d = true /\ days_from_civil y m d = z.
Proof. exact days_roundtrip. Qed.
Theorem C16_weekday_model : forall d, (d + 7 + 3) mod 7 = (d + 3) mod 7 /\ 0 <= (d + 3) mod 7 < 7.
Proof. exact weekday_model. Qed.
Print Assumptions C16_civil_roundtrip. Print Assumptions C16_days_roundtrip.
(* the millisecond conversion is exact: dividing by 86400000 and multiplying back, rounded, recovers every |M| <= 2^50 ms
   (years 1..9999 need |M| < 2^49) - over Flocq's binary64 *)
Theorem C16_ms_exact : forall M, Z.abs M <= 2^50 -> to_i64 (fround (fmul (fdiv (of_int M) fD) fD)) = M.
Proof. exact TimeFacts.C16_ms_exact. Qed.
Print Assumptions C16_ms_exact.
Theorem C16_epoch : days_from_civil 1970 1 1 = 0 /\ civil_from_days 0 = (1970, 1, 1) /\ days_from_civil 1 1 1 = -719162 /\ days_from_civil 9999 12 31 = 2932896.
Proof. repeat split; vm_compute; reflexivity. Qed.
Theorem C16_leap_rule : forall y, is_leap y = (y mod 4 =? 0) && (negb (y mod 100 =? 0) || (y mod 400 =? 0)).
Proof. reflexivity. Qed.
Theorem C16_ms_per_day_is_the_codes : gen_ms_per_day = Z.to_N MSD.
Proof. reflexivity. Qed.
