(* C06 — optimize terminates, respects purity, and reaches a minimal fixpoint. Property theorems only. *)
Require Import ZArith NArith Bool List Arith. Import ListNotations.
Require Import F64 Dec Types Generic Lang Opt IO OptFacts.

(* termination with the closed-form fuel the extracted run_opt uses: never OutOfFuel, for every tree and environment *)
Theorem C06_terminates : forall E e acc, fst (fst (optimize_t E (opt_fuel e) e acc)) <> Generic.OOutOfFuel.
Proof. exact terminates_closed_fuel. Qed.
Print Assumptions C06_terminates.

(* a successful result is a fixpoint of both passes *)
Theorem C06_fixpoint : forall E k e acc e' tr, optimize_t E k e acc = (Generic.OOk, e', tr) ->
  Generic.tt e' = (e', false) /\ erase (fold_t E e') = (Generic.SOk, e', false).
Proof. exact fixpoint. Qed.
Print Assumptions C06_fixpoint.

Theorem C06_idempotent : forall E k e acc e' tr j acc', optimize_t E k e acc = (Generic.OOk, e', tr) -> fst (optimize_t E (S j) e' acc') = (Generic.OOk, e').
Proof. exact idempotent. Qed.
Print Assumptions C06_idempotent.
