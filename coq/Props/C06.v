(* C06 — optimize terminates, respects purity, and reaches a minimal fixpoint. Property theorems only. *)
Require Import ZArith NArith Bool List Arith. Import ListNotations.
Require Import F64 Dec Types Generic Lang Opt IO OptFacts OptFacts2 OptFacts3 OptFacts4 OptFacts5 WalkTypes WalkRead GenOptArms OptTab.

(* termination with the closed-form fuel the extracted run_opt uses: never OutOfFuel, for every tree and environment *)
Theorem C06_terminates : forall E e acc, fst (fst (optimize_t E (opt_fuel e) e acc)) <> Generic.OOutOfFuel.
Proof. exact terminates_closed_fuel. Qed.
Print Assumptions C06_terminates.

(* a successful result is a fixpoint of both passes *)
Theorem C06_fixpoint : forall E k e acc e' tr, optimize_t E k e acc = (Generic.OOk, e', tr) ->
  Generic.tt e' = (e', false) /\ erase (fold_t E e') = (Generic.SOk, e', false).
Proof. exact fixpoint. Qed.
Print Assumptions C06_fixpoint.

Theorem C06_idempotent : forall E k e acc e' tr j acc', optimize_t E k e acc = (Generic.OOk, e', tr) -> fst (optimize_t E (S j) e' acc') = (Generic.OOk, e').
Proof. exact idempotent. Qed.
Print Assumptions C06_idempotent.

(* while running, optimize performs no variable lookup and calls only functions the environment reports as pure (the trace is the
   sequence of lookups and native calls of every evaluation the optimizer performs) - for every tree, environment and fuel *)
Theorem C06_purity : forall E k e acc, Forall (pure_call E) acc -> Forall (pure_call E) (snd (optimize_t E k e acc)).
Proof. exact optimize_pure. Qed.
Theorem C06_purity_from_scratch : forall E e, Forall (pure_call E) (snd (optimize_t E (opt_fuel e) e [])).
Proof. intros E e. apply optimize_pure. constructor. Qed.
Print Assumptions C06_purity.
(* a successful result contains no constant-foldable node - no operator or array whose operands are all literals, no call of a pure
   function within its registered arity whose arguments are all literals, no conditional with a literal condition - and no
   three-argument if_then call *)
Theorem C06_minimal : forall E k e acc e' tr, optimize_t E k e acc = (Generic.OOk, e', tr) -> has_foldable E e' = false /\ Generic.no_if3 e' = true.
Proof. exact optimize_result_minimal. Qed.
Print Assumptions C06_minimal.
(* and has no more nodes than its input (also when optimize stops with an error) *)
Theorem C06_no_more_nodes : forall E k e acc, nodes (snd (fst (optimize_t E k e acc))) <= nodes e.
Proof. exact optimize_t_nodes. Qed.
Example C06_example : let E := mk_env [] [([107%N], (KConst (VNum (of_int 7)), Poly 0 0, true)); ([105%N], (KConst (VNum (of_int 7)), Poly 0 0, false))] in
  let e := EBin Plus (ECall [107%N] []) (EBin Plus (ECall [105%N] []) (EVar [120%N])) in
  expr_eqb (snd (fst (optimize_t E (opt_fuel e) e []))) (EBin Plus (ELit (VNum (of_int 7))) (EBin Plus (ECall [105%N] []) (EVar [120%N]))) = true /\
  length (snd (optimize_t E (opt_fuel e) e [])) = 1%nat.
Proof. vm_compute. auto. Qed.

(* tie (a): the tree walks of the optimizer are the ones in the source today - the arms of `match expression` in transform_ternary and fold_constants, in source order
   (node kind, guard, body identified by its normalised text; an unknown text becomes WOther n), the loop of `optimize` and `expressions_are_const`, regenerated on every run.
   Opt.v (tt, fold, optimize_t) was written from exactly these arms. *)
Theorem C06_optimizer_arms_are_the_codes :
  gen_transform_ternary_arms = [(NUnary, GNone, TRecRight); (NBinary, GNone, TRecLeftRight); (NTernary, GNone, TRecLeftMiddleRight); (NArray, GNone, TRecAll);
                                (NCall, GIsIfThen, TRewriteIfExactlyThreeElseRecAll); (NCall, GNone, TRecAll); (NAnyOther, GNone, WNothing)] /\
  gen_fold_constants_arms = [(NUnary, GNone, FEvalIfOperandLiteralElseRec); (NBinary, GNone, FEvalIfBothLiteralElseRecLeftRight); (NTernary, GNone, FSelectBranchIfLiteralConditionElseRecAll);
                             (NArray, GAllLiteral, FEvalWhole); (NArray, GNone, FRecAll); (NCall, GAllLiteral, FEvalWholeIfExistsPure); (NCall, GNone, FRecAll); (NAnyOther, GNone, WNothing)] /\
  gen_fold_constants_ends_ok = true /\ gen_expressions_are_const_as_modelled = true /\ gen_optimize_loop_as_modelled = true.
Proof. repeat split; reflexivity. Qed.

(* ... and the walks of the model ARE the reading of those arms: at every node, `tt` and `fold` satisfy exactly the equation that the first fitting arm prescribes
   (glossary of body texts in OptTab.v), and `optimize` is the transform-fold-repeat loop *)
Theorem C06_transform_is_the_table : forall e, Some (Generic.tt e) = match arm_for gen_transform_ternary_arms e with Some b => tt_body b e | None => None end.
Proof. exact tt_is_the_table. Qed.
Theorem C06_fold_is_the_table : forall E e, Some (Generic.fold as_bool is_empty un binop E e) = match arm_for gen_fold_constants_arms e with Some b => fold_body E b e | None => None end.
Proof. exact fold_is_the_table. Qed.

(* "never reads a variable", semantically: status and result tree are the same whatever the variables are bound to *)
Theorem C06_optimize_ignores_bindings : forall E E' k e acc, same_functions E E' -> fst (optimize_t E k e acc) = fst (optimize_t E' k e acc).
Proof. exact optimize_ignores_bindings. Qed.
