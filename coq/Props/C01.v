(* C01 — parsing inverts rendering: precedence, associativity, grouping are faithful. Property theorems only. *)
Require Import ZArith NArith Bool List Arith. Import ListNotations.
Require Import F64 Dec Types Scan Pratt GenUnicode Front ScanTotal FrontFacts GenTokens GenDispatch.
Notation ptok := (Pratt.token value (list N)).
Notation pexpr := (Pratt.expr value (list N)).

(* every rendering of every tree - minimal, fully parenthesised and everything in between (R_paren may be applied anywhere, any
   number of times) - compiles back to exactly that tree; closed-form fuel, no bound on size or depth *)
Theorem C01_render_then_compile : forall t (e:pexpr) (ts:list ptok), Pratt.Renders value (list N) t e ts -> Pratt.compile value (list N) ts = Pratt.Ok e.
Proof. exact (Pratt.C01_render_then_compile value (list N)). Qed.
Print Assumptions C01_render_then_compile.

(* every tree has a minimal rendering (only the parentheses that precedence and left-associativity require) and a fully parenthesised
   one, and both compile back to it; conversely whenever compile accepts a token list, re-rendering the tree it produced and compiling
   again reproduces the same tree *)
Theorem C01_render_functions_roundtrip : forall e : pexpr, Pratt.compile value (list N) (Pratt.render_min value (list N) e) = Pratt.Ok e /\
  Pratt.compile value (list N) (Pratt.render_full value (list N) e) = Pratt.Ok e.
Proof. exact (Pratt.C01_render_functions_roundtrip value (list N)). Qed.
Theorem C01_reparse : forall (ts:list ptok) (e:pexpr), Pratt.compile value (list N) ts = Pratt.Ok e ->
  Pratt.compile value (list N) (Pratt.render_min value (list N) e) = Pratt.Ok e /\ Pratt.compile value (list N) (Pratt.render_full value (list N) e) = Pratt.Ok e.
Proof. exact (Pratt.C01_reparse value (list N)). Qed.
Print Assumptions C01_reparse.
(* at the text level: any well-formed layout (whitespace, comments, keyword case, literal spellings) of any rendering compiles to the tree *)
Theorem C01_text : forall (d:Scan.doc) fin lead t (e:pexpr),
  Forall wf_sep lead -> u_ok_doc d fin -> skip Normal fin = [] -> d <> [] ->
  Pratt.Renders value (list N) t e (map (fun x => conv_tok (u_denote (fst x))) d) ->
  Front.compile (print_seps lead ++ print_rest d fin) = COk (conv_expr e).
Proof. exact text_render_then_compile. Qed.
Print Assumptions C01_text.

(* the tables the proof is about are the tables the code has today (regenerated from token.rs / compiler.rs on every run) *)
Theorem C01_token_precedence_is_the_codes : forall t : ptok, rp (Pratt.tprec value (list N) t) = rtoken_prec (rt t).
Proof. intros t. destruct t as [| | | | |b| | |]; try reflexivity. destruct b; reflexivity. Qed.
Theorem C01_precedence_order_is_the_codes : forall p, Pratt.rank p = rprec_rank (rp p) /\ rp (Pratt.pnext p) = rprec_next (rp p).
Proof. intros p. destruct p; split; reflexivity. Qed.
Theorem C01_documented_order : forall a b, Pratt.ple a b = Nat.leb (rprec_rank (rp a)) (rprec_rank (rp b)).
Proof. intros a b. unfold Pratt.ple. rewrite (proj1 (C01_precedence_order_is_the_codes a)), (proj1 (C01_precedence_order_is_the_codes b)). reflexivity. Qed.
Theorem C01_prefix_dispatch_is_the_codes : forall t : ptok, rdo_prefix (rt t) =
  match t with TLit _ => A_literal | Pratt.TId _ => A_variable | LParen => A_grouping | LBracket => A_array | TNot | TBin Pratt.Minus => A_unary | _ => A_error end.
Proof. intros t. destruct t as [| | | | |b| | |]; try reflexivity. destruct b; reflexivity. Qed.
Theorem C01_infix_dispatch_is_the_codes : forall t : ptok, rdo_infix (rt t) = match t with TBin _ => A_binary | LParen => A_call | _ => A_error end.
Proof. intros t. destruct t as [| | | | |b| | |]; try reflexivity. destruct b; reflexivity. Qed.
Theorem C01_operand_levels_are_the_codes :
  rbinary_operand_next = true /\ runary_operand_prec = RpUnary /\ rexpression_prec = RpOr /\ rloop_continues_on_equal = true.
Proof. repeat split; reflexivity. Qed.
Theorem C01_token_operator_is_the_codes : forall b, rtoken_op (rt_bin b) = Some (ro (op_of b)).
Proof. destruct b; reflexivity. Qed.
Theorem C01_not_operator_is_the_codes : rtoken_op RNot = Some RoNot /\ rtoken_op RMinus = Some RoMinus.
Proof. split; reflexivity. Qed.

(* non-vacuity: a nine-level tree with redundant parentheses is a rendering *)
Example C01_example : exists t, Pratt.Renders value (list N) t
  (Pratt.EBin Pratt.Or (Pratt.EVar [97%N]) (Pratt.EBin Pratt.And (Pratt.EVar [98%N]) (Pratt.EUn UNot (Pratt.EBin Pratt.Less (Pratt.EVar [99%N]) (Pratt.EBin Pratt.Plus (Pratt.EVar [100%N]) (Pratt.EBin Pratt.Multiply (Pratt.EUn UNeg (Pratt.EVar [101%N])) (Pratt.ECall [102%N] [Pratt.EVar [103%N]])))))))
  ([Pratt.TId [97%N]; TBin Pratt.Or; Pratt.TId [98%N]; TBin Pratt.And; TNot; LParen; Pratt.TId [99%N]; TBin Pratt.Less; Pratt.TId [100%N]; TBin Pratt.Plus; LParen; TBin Pratt.Minus; Pratt.TId [101%N]; TBin Pratt.Multiply; Pratt.TId [102%N]; LParen; Pratt.TId [103%N]; RParen; RParen; RParen] : list ptok).
Proof.
  eexists.
  apply (R_bin value (list N) Pratt.Or PPrimary PAnd _ _ [Pratt.TId [97%N]]); [reflexivity|reflexivity|constructor|].
  apply (R_bin value (list N) Pratt.And PPrimary PUnary _ _ [Pratt.TId [98%N]]); [reflexivity|reflexivity|constructor|].
  apply (R_un value (list N) UNot PPrimary); [reflexivity|].
  apply (R_paren value (list N) PComparison _ [Pratt.TId [99%N]; TBin Pratt.Less; Pratt.TId [100%N]; TBin Pratt.Plus; LParen; TBin Pratt.Minus; Pratt.TId [101%N]; TBin Pratt.Multiply; Pratt.TId [102%N]; LParen; Pratt.TId [103%N]; RParen; RParen]).
  apply (R_bin value (list N) Pratt.Less PPrimary PTerm _ _ [Pratt.TId [99%N]]); [reflexivity|reflexivity|constructor|].
  apply (R_bin value (list N) Pratt.Plus PPrimary PPrimary _ _ [Pratt.TId [100%N]]); [reflexivity|reflexivity|constructor|].
  apply (R_paren value (list N) PFactor _ [TBin Pratt.Minus; Pratt.TId [101%N]; TBin Pratt.Multiply; Pratt.TId [102%N]; LParen; Pratt.TId [103%N]; RParen]).
  apply (R_bin value (list N) Pratt.Multiply PUnary PPrimary _ _ [TBin Pratt.Minus; Pratt.TId [101%N]]); [reflexivity|reflexivity| |].
  - apply (R_un value (list N) UNeg PPrimary); [reflexivity|constructor].
  - apply (R_call value (list N) [102%N] [Pratt.EVar [103%N]] [Pratt.TId [103%N]]). eapply RL_one. constructor.
Qed.
