(* C18 — regex builtins are mutually consistent and fail cleanly on bad patterns. Property theorems only (proofs: RegexFacts.v).
   The four builtins are modelled as wrappers over a matching engine; the engine here is the executable reference engine of Regex.v
   (regex-lite itself is trusted and compared with it on the generated subset). The theorems hold for every pattern AST, haystack and fuel scale. *)
Require Import ZArith NArith Bool List Arith. Import ListNotations.
Require Import F64 Dec Types Builtins BuiltinFacts Regex RegexFacts RegexLit.

Theorem C18_is_match_iff_find : forall k r s, re_is_match k r s = negb (is_nil (re_find k r s)).
Proof. exact is_match_iff_find. Qed.
Theorem C18_capture_shape : forall k r s, length (re_capture k r s) = S (ngroups r).
Proof. exact capture_shape. Qed.
Theorem C18_capture_all_empty_when_no_match : forall k r s, re_is_match k r s = false -> re_capture k r s = repeat [] (S (ngroups r)).
Proof. exact capture_all_empty_when_no_match. Qed.
Theorem C18_capture_starts_with_first_find : forall k r s x rest, re_find k r s = x :: rest -> exists tl, re_capture k r s = x :: tl.
Proof. exact capture_starts_with_first_find. Qed.
Theorem C18_replace_all_rewrites_find : forall k r s t, re_replace k r s t 0 = splice s 0 (spans k r s) t.
Proof. exact replace_all_rewrites_find. Qed.
Theorem C18_replace_limit_n : forall k r s t n, re_replace k r s t (S n) = splice s 0 (firstn (S n) (spans k r s)) t.
Proof. exact replace_limit_n. Qed.
Theorem C18_find_is_slices_of_spans : forall k r s, re_find k r s = map (fun ab => slice s (fst ab) (snd ab)) (spans k r s).
Proof. exact find_is_slices_of_spans. Qed.
(* a pattern that is an escaped literal behaves like contains (the substring search of C15), and what it finds is the literal *)
Theorem C18_literal_is_match_is_contains : forall k x s, (1 <= k)%nat -> re_is_match k (lit x) s = match find_sub x s with Some _ => true | None => false end.
Proof. exact literal_is_match_is_contains. Qed.
Theorem C18_literal_first_match_is_the_literal : forall k x s y rest, (1 <= k)%nat -> re_find k (lit x) s = y :: rest -> y = x.
Proof. exact literal_first_match_is_the_literal. Qed.
(* ... like count: re_find on an escaped non-empty literal returns exactly count(s, x) matches, each of them the literal; and like replace with plain
   replacement text: re_replace without limit is replace(s, x, t) - for every haystack, literal and replacement (count_sub / replace_sub are the
   models of the count and replace builtins, C15) *)
Theorem C18_literal_find_is_count : forall k, (1 <= k)%nat -> forall x, x <> [] -> forall s,
  length (re_find k (lit x) s) = count_sub (S (length s)) x s /\ Forall (fun y => y = x) (re_find k (lit x) s).
Proof. exact literal_find_is_count. Qed.
Theorem C18_literal_replace_is_replace : forall k, (1 <= k)%nat -> forall x, x <> [] -> forall s t, re_replace k (lit x) s t 0 = replace_sub (S (length s)) x t s.
Proof. exact literal_replace_is_replace. Qed.
Theorem C18_count_replace_builtins : forall off h n t,
  call_builtin off (A [99;111;117;110;116]%Z) [VStr h; VStr n] = BOk (vnat (count_sub (S (length h)) n h)) /\
  call_builtin off (A [114;101;112;108;97;99;101]%Z) [VStr h; VStr n; VStr t] = BOk (VStr (replace_sub (S (length h)) n t h)).
Proof. intros. split; reflexivity. Qed.
Print Assumptions C18_literal_find_is_count. Print Assumptions C18_literal_replace_is_replace.
Print Assumptions C18_is_match_iff_find. Print Assumptions C18_literal_is_match_is_contains.
Example C18_example : re_find 1 (RSeq (RChar 97) (RStar (RGroup 1 (RAlt (RChar 98) (RChar 99))))) [120;97;98;99;97;100]%N = [[97;98;99]%N; [97]%N] /\
  re_capture 1 (RSeq (RChar 97) (RStar (RGroup 1 (RAlt (RChar 98) (RChar 99))))) [120;97;98;99;97;100]%N = [[97;98;99]%N; [99]%N].
Proof. vm_compute. auto. Qed.
