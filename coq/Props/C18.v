(* C18 — regex builtins are mutually consistent and fail cleanly on bad patterns. Property theorems only (proofs: RegexFacts.v).
   The four builtins are modelled as wrappers over a matching engine; the engine here is the executable reference engine of Regex.v
   (regex-lite itself is trusted and compared with it on the generated subset). The theorems hold for every pattern AST, haystack and fuel scale. *)
Require Import ZArith NArith Bool List Arith. Import ListNotations.
Require Import F64 Dec Types Builtins BuiltinFacts Regex RegexFacts RegexLit.

Theorem C18_is_match_iff_find : forall k r s, re_is_match k r s = negb (is_nil (re_find k r s)).
Proof. exact is_match_iff_find. Qed.
Theorem C18_capture_shape : forall k r s, length (re_capture k r s) = S (ngroups r).
Proof. exact capture_shape. Qed.
Theorem C18_capture_all_empty_when_no_match : forall k r s, re_is_match k r s = false -> re_capture k r s = repeat [] (S (ngroups r)).
Proof. exact capture_all_empty_when_no_match. Qed.
Theorem C18_capture_starts_with_first_find : forall k r s x rest, re_find k r s = x :: rest -> exists tl, re_capture k r s = x :: tl.
Proof. exact capture_starts_with_first_find. Qed.
Theorem C18_replace_all_rewrites_find : forall k r s t, re_replace k r s t 0 = splice s 0 (spans k r s) t.
Proof. exact replace_all_rewrites_find. Qed.
Theorem C18_replace_limit_n : forall k r s t n, re_replace k r s t (S n) = splice s 0 (firstn (S n) (spans k r s)) t.
Proof. exact replace_limit_n. Qed.
Theorem C18_find_is_slices_of_spans : forall k r s, re_find k r s = map (fun ab => slice s (fst ab) (snd ab)) (spans k r s).
Proof. exact find_is_slices_of_spans. Qed.
(* a pattern that is an escaped literal behaves like contains (the substring search of C15), and what it finds is the literal *)
Theorem C18_literal_is_match_is_contains : forall k x s, (1 <= k)%nat -> re_is_match k (lit x) s = match find_sub x s with Some _ => true | None => false end.
Proof. exact literal_is_match_is_contains. Qed.
Theorem C18_literal_first_match_is_the_literal : forall k x s y rest, (1 <= k)%nat -> re_find k (lit x) s = y :: rest -> y = x.
Proof. exact literal_first_match_is_the_literal. Qed.
(* ... like count: re_find on an escaped non-empty literal returns exactly count(s, x) matches, each of them the literal; and like replace with plain
   replacement text: re_replace without limit is replace(s, x, t) - for every haystack, literal and replacement (count_sub / replace_sub are the
   models of the count and replace builtins, C15) *)
Theorem C18_literal_find_is_count : forall k, (1 <= k)%nat -> forall x, x <> [] -> forall s,
  length (re_find k (lit x) s) = count_sub (S (length s)) x s /\ Forall (fun y => y = x) (re_find k (lit x) s).
Proof. exact literal_find_is_count. Qed.
Theorem C18_literal_replace_is_replace : forall k, (1 <= k)%nat -> forall x, x <> [] -> forall s t, re_replace k (lit x) s t 0 = replace_sub (S (length s)) x t s.
Proof. exact literal_replace_is_replace. Qed.
Theorem C18_count_replace_builtins : forall off h n t,
  call_builtin off (A [99;111;117;110;116]%Z) [VStr h; VStr n] = BOk (vnat (count_sub (S (length h)) n h)) /\
  call_builtin off (A [114;101;112;108;97;99;101]%Z) [VStr h; VStr n; VStr t] = BOk (VStr (replace_sub (S (length h)) n t h)).
Proof. intros. split; reflexivity. Qed.
Print Assumptions C18_literal_find_is_count. Print Assumptions C18_literal_replace_is_replace.
Print Assumptions C18_is_match_iff_find. Print Assumptions C18_literal_is_match_is_contains.
Example C18_example : re_find 1 (RSeq (RChar 97) (RStar (RGroup 1 (RAlt (RChar 98) (RChar 99))))) [120;97;98;99;97;100]%N = [[97;98;99]%N; [97]%N] /\
  re_capture 1 (RSeq (RChar 97) (RStar (RGroup 1 (RAlt (RChar 98) (RChar 99))))) [120;97;98;99;97;100]%N = [[97;98;99]%N; [99]%N].
Proof. vm_compute. auto. Qed.

(* group references in the replacement text ($N, ${N}, $name, ${name}, $$ - Captures::expand of the regex crates): re_replace_x expands them match by match, over the same matches
   (the capture-keeping iteration finds exactly the spans of the plain one); a replacement text without `$` is used as it is, so there re_replace_x IS re_replace and everything above applies *)
Require Import RegexExpand RegexExpandFacts.
Theorem C18_expanding_replace_same_matches : forall k r s, map span_of (spans_c k r s) = spans k r s.
Proof. exact spans_c_spans. Qed.
Theorem C18_plain_replacement_is_not_expanded : forall k r s t limit, no_dollar t = true -> re_replace_x k r s t limit = re_replace k r s t limit.
Proof. exact replace_x_plain. Qed.
Theorem C18_reference_forms : forall get, expand 3 [36; 36]%N get = [36]%N /\ expand 3 [36; 48]%N get = get 0%nat /\ expand 5 [36; 123; 49; 125]%N get = get 1%nat /\
  expand 2 [36]%N get = [36]%N /\ expand 4 [36; 120; 49]%N get = [] /\ expand 4 [36; 49; 120]%N get = [] /\ expand 4 [36; 123; 49]%N get = [36; 123; 49]%N.
Proof. exact expand_forms. Qed.
Example C18_expand_example : re_replace_x 1 (RSeq (RGroup 1 (RChar 97)) (RGroup 2 (RChar 98))) [120;97;98;121]%N [36;50;36;49;36;36;36;123;48;125]%N 0 = [120;98;97;36;97;98;121]%N.
Proof. vm_compute. reflexivity. Qed.
(* positions: every span the engine reports is ordered and inside the text (invariant of the continuation-passing matcher, by induction on its fuel, for every pattern AST);
   hence replacing each match by `$0` - the match itself - gives the text back, whatever the pattern, the limit and the fuel scale *)
Require Import RegexZero.
Theorem C18_spans_ordered_in_text : forall k r s, ordered 0 (length s) (spans_c k r s) /\ map span_of (spans_c k r s) = spans k r s.
Proof. exact spans_ordered. Qed.
Theorem C18_dollar_zero_is_identity : forall k r s limit, re_replace_x k r s [36; 48]%N limit = s.
Proof. exact replace_x_zero. Qed.
Theorem C18_find_never_longer_than_text : forall k r s, (length (concat (re_find k r s)) <= length s)%nat.
Proof. exact find_total_length. Qed.
(* captured groups lie inside the match (the same invariant carried over the capture list): no entry of re_capture is longer than its first entry, the whole match *)
Require Import RegexCaps.
Theorem C18_capture_groups_inside_match : forall k r s, Forall (fun g => (length g <= length (hd [] (re_capture k r s)))%nat) (re_capture k r s).
Proof. exact capture_groups_inside_match. Qed.
Theorem C18_find_at_most_length_plus_one_matches : forall k r s, (length (re_find k r s) <= S (length s))%nat.
Proof. exact find_count_bound. Qed.
Example C18_dollar_zero_example : spans_c 1 (RStar (RChar 97)) [97;97;98;97]%N <> [] /\ re_replace_x 1 (RStar (RChar 97)) [97;97;98;97]%N [36; 48]%N 2 = [97;97;98;97]%N.
Proof. split; [vm_compute; discriminate | vm_compute; reflexivity]. Qed.
Print Assumptions C18_plain_replacement_is_not_expanded.
Print Assumptions C18_dollar_zero_is_identity.
