(* C17 — conversion and maths builtins agree with their definitions everywhere. Property theorems only (proofs: BuiltinFacts.v).
   abs / round / trunc / frac / sqrt ARE Flocq's Babs / Bnearbyint / Bsqrt in the model (by definition); the transcendental functions and
   shortest-digit printing are oracles compared with Rust std by the harness. *)
From Flocq Require Import Core BinarySingleNaN.
Require Import ZArith NArith Bool List Arith Reals Lia. Import ListNotations.
Require Import F64 Dec Types Generic Lang Builtins BuiltinFacts FracFacts FremFacts SeqLaws Show ShowFacts GenBuiltins.

(* chr and ord are mutually inverse on the whole ASCII range 0..127 and chr rejects the neighbourhood (finite sweeps; bounds in the statements) *)
Theorem C17_chr_ord_inverse : forallb chr_ord_ok (zrange 0 128) = true.
Proof. exact BuiltinFacts.C17_chr_ord_inverse. Qed.
Theorem C17_chr_rejects_outside : forallb (fun n => match call_builtin 1 chr_name [VNum (of_int n)] with BErr CustomError => true | _ => false end) (zrange 128 200 ++ zrange (-200) 200) = true.
Proof. exact BuiltinFacts.C17_chr_rejects_outside. Qed.
(* the maths builtins of the model are the IEEE-754 operations of the same name *)
Theorem C17_math_is_ieee : forall x,
  call_builtin 1 (A [97;98;115]%Z) [VNum x] = BOk (VNum (Babs x)) /\
  call_builtin 1 (A [114;111;117;110;100]%Z) [VNum x] = BOk (VNum (Bnearbyint mode_NA x)) /\
  call_builtin 1 (A [116;114;117;110;99]%Z) [VNum x] = BOk (VNum (Bnearbyint mode_ZR x)) /\
  call_builtin 1 (A [102;114;97;99]%Z) [VNum x] = BOk (VNum (Bminus mode_NE x (Bnearbyint mode_ZR x))) /\
  call_builtin 1 (A [115;113;114;116]%Z) [VNum x] = BOk (VNum (Bsqrt mode_NE x)).
Proof. intros x. repeat split; reflexivity. Qed.
(* odd is the negation of even, for every number *)
Theorem C17_odd_not_even : forall x, exists b, call_builtin 1 (A [101;118;101;110]%Z) [VNum x] = BOk (VBool b) /\ call_builtin 1 (A [111;100;100]%Z) [VNum x] = BOk (VBool (negb b)).
Proof. intros x. eexists. split; reflexivity. Qed.
(* even(n) holds iff n is divisible by 2, odd(n) iff not - for every integer-valued double n of either sign and any magnitude *)
Theorem C17_even_iff_divisible : forall x n, is_finite x = true -> B2R x = IZR n ->
  call_builtin 1 (A [101;118;101;110]%Z) [VNum x] = BOk (VBool (Z.even n)) /\ call_builtin 1 (A [111;100;100]%Z) [VNum x] = BOk (VBool (Z.odd n)).
Proof.
  intros x n F E. pose proof (even_spec x n F E) as H. split.
  - change (call_builtin 1 (A [101;118;101;110]%Z) [VNum x]) with (BOk (VBool (feq (frem (ffloor x) (of_int 2)) (of_int 0)))). rewrite H. reflexivity.
  - change (call_builtin 1 (A [111;100;100]%Z) [VNum x]) with (BOk (VBool (negb (feq (frem (ffloor x) (of_int 2)) (of_int 0))))). rewrite H, Z.negb_even. reflexivity.
Qed.
Example C17_even_nonvacuous : is_finite (of_int (-7)) = true /\ B2R (of_int (-7)) = IZR (-7) /\ Z.even (-7) = false.
Proof. destruct (TimeFacts.of_int_correct (-7) ltac:(cbn; discriminate)) as [R Fi]. repeat split; assumption. Qed.
(* trunc(x) + frac(x) = x for every finite number (as numbers: at -0 the sum is +0); both parts computed exactly *)
Theorem C17_trunc_plus_frac : forall x, is_finite x = true ->
  call_builtin 1 (A [116;114;117;110;99]%Z) [VNum x] = BOk (VNum (ftrunc x)) /\ call_builtin 1 (A [102;114;97;99]%Z) [VNum x] = BOk (VNum (ffract x)) /\
  binop Plus (VNum (ftrunc x)) (VNum (ffract x)) = Ok (VNum (fadd (ftrunc x) (ffract x))) /\ feq (fadd (ftrunc x) (ffract x)) x = true /\
  B2R (ffract x) = (B2R x - IZR (Ztrunc (B2R x)))%R.
Proof. intros x F. repeat split; try reflexivity. apply trunc_plus_frac_eq; exact F. apply (ffract_R x F). Qed.
Print Assumptions C17_even_iff_divisible. Print Assumptions C17_trunc_plus_frac.
(* the name -> f64 method table of the maths macro is the documented one (regenerated from math.rs) *)
Theorem C17_math_macro_is_the_codes : gen_math_macro =
  [(A [97;98;115]%Z, A [97;98;115]%Z); (A [97;114;99;95;116;97;110]%Z, A [97;116;97;110]%Z); (A [99;111;115]%Z, A [99;111;115]%Z); (A [101;120;112]%Z, A [101;120;112]%Z);
   (A [102;114;97;99]%Z, A [102;114;97;99;116]%Z); (A [108;110]%Z, A [108;110]%Z); (A [114;111;117;110;100]%Z, A [114;111;117;110;100]%Z); (A [115;105;110]%Z, A [115;105;110]%Z);
   (A [115;113;114;116]%Z, A [115;113;114;116]%Z); (A [116;114;117;110;99]%Z, A [116;114;117;110;99]%Z)].
Proof. reflexivity. Qed.
Print Assumptions C17_chr_ord_inverse.

(* int_to_hex: the digits denote the value (base 16, most significant first), only 0-9 and A-F occur - every integer 0 .. 2^52 given as a double, and every value below 2^64 at the digit level *)
Theorem C17_hex_denotes : forall z, (0 <= z < 2 ^ 64)%Z -> hexval (to_hex z) = z /\ Forall (fun c => (48 <= c <= 57)%N \/ (65 <= c <= 70)%N) (to_hex z).
Proof. intros z H. split; [apply hex_denotes, H | apply hex_upper_case; lia]. Qed.
Theorem C17_int_to_hex_builtin : forall off z, (0 <= z <= 2^52)%Z ->
  exists s, call_builtin off hex_name [VNum (of_int z)] = BOk (VStr s) /\ hexval s = z /\ Forall (fun c => (48 <= c <= 57)%N \/ (65 <= c <= 70)%N) s.
Proof. exact hex_builtin. Qed.
Example C17_hex_example : to_hex 255 = [70;70]%N /\ to_hex 0 = [48]%N /\ to_hex 4096 = [49;48;48;48]%N.
Proof. repeat split; reflexivity. Qed.
Print Assumptions C17_hex_denotes. Print Assumptions C17_int_to_hex_builtin.

(* float(str(x)) = x for every number: str prints the shortest decimal text that float maps back to x (Show.v; that Rust prints exactly this text is compared call by call), so whatever str answers
   for a number that is not NaN, float of that text is that number bit for bit - every double: signed zeros, subnormals, the largest finite one, infinities *)
Theorem C17_float_str_roundtrip : forall off x s, x <> B754_nan -> call_builtin off (A [115;116;114]%Z) [VNum x] = BOk (VStr s) -> call_builtin off (A [102;108;111;97;116]%Z) [VStr s] = BOk (VNum x).
Proof.
  intros off x s Hn H. cbn [call_builtin A map leqb] in H. cbn in H. destruct (show_f64 x) as [t|] eqn:E; [|discriminate]. injection H as <-.
  cbn [call_builtin A map leqb]. cbn. rewrite (show_roundtrip x t E Hn). reflexivity.
Qed.
(* non-vacuity: str answers on the boundary values (a finite sweep), with the texts Rust prints *)
Example C17_str_examples :
  show_f64 (of_bits 4591870180066957722) = Some [48;46;49]%N /\ show_f64 (of_bits 4890909195324358656) = Some [57;50;50;51;51;55;50;48;51;54;56;53;52;55;55;54;48;48;48]%N /\
  show_f64 (of_bits 4607182418800017409) = Some [49;46;48;48;48;48;48;48;48;48;48;48;48;48;48;48;48;50]%N /\ show_f64 (of_bits 9223372036854775808) = Some [45;48]%N /\
  forallb (fun z => match show_f64 (of_bits z) with Some _ => true | None => false end) [1; 2; 4503599627370495; 4503599627370496; 9218868437227405311; 9218868437227405312; 4602678819172646912; 4613937818241073152; 4841369599423283200; 13835058055282163712; 4503599627370497; 4607182418800017407] = true.
Proof. vm_compute. repeat split; reflexivity. Qed.
Print Assumptions C17_float_str_roundtrip.
(* str of the whole numbers -1000 .. 999 is their decimal numeral (finite sweep, bound in the statement: small_integers lists exactly these 2000 values) *)
Theorem C17_str_of_small_integers : length small_integers = 2000%nat /\ hd 0%Z small_integers = (-1000)%Z /\ last small_integers 0%Z = 999%Z /\ forallb shows_numeral small_integers = true.
Proof. destruct small_integers_shown as [L F]. split; [exact L | split; [vm_compute; reflexivity | split; [vm_compute; reflexivity | exact F]]]. Qed.
