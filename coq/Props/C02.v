(* C02 — layout, comments and keyword case never change tokens; literals are exact. Property theorems only (proofs: Scan.v, FrontFacts.v). *)
Require Import ZArith NArith Bool List Arith. Import ListNotations.
From Flocq Require Import Core BinarySingleNaN.
Require Import Reals.
Require Import F64 Dec DecFacts DecFacts2 Types Scan Pratt GenUnicode Front ScanTotal FrontFacts GenTokens GenDispatch.
Open Scope N_scope.

(* the scanner inverts printing: for every list of well-formed spelled tokens, every well-formed layout before, between and after
   them (whitespace, // comments, nested { } comments; the text may end in an unterminated comment), under the adjacency condition
   `safe`, the tokens are exactly the denotations - with the character classes dumped from Rust's char methods *)
Theorem C02_scan_print : forall (d:Scan.doc) fin lead, Forall wf_sep lead -> u_ok_doc d fin -> skip Normal fin = [] -> d <> [] ->
  scan_raw (print_seps lead ++ print_rest d fin) = Scan.Ok (map (fun x => u_denote (fst x)) d).
Proof. exact scan_print_u. Qed.
Print Assumptions C02_scan_print.
Theorem C02_layout_irrelevant : forall d1 d2 fin1 fin2 lead1 lead2,
  Forall wf_sep lead1 -> Forall wf_sep lead2 -> u_ok_doc d1 fin1 -> u_ok_doc d2 fin2 -> skip Normal fin1 = [] -> skip Normal fin2 = [] -> d1 <> [] ->
  map (fun x => u_denote (fst x)) d1 = map (fun x => u_denote (fst x)) d2 ->
  scan_raw (print_seps lead1 ++ print_rest d1 fin1) = scan_raw (print_seps lead2 ++ print_rest d2 fin2).
Proof. exact layout_irrelevant. Qed.
Theorem C02_keyword_case : forall s s' k, map lower_ascii s = map lower_ascii s' -> kw_of s = Some k -> u_denote (SWord s) = TKw k /\ u_denote (SWord s') = TKw k.
Proof. exact keyword_case_denote. Qed.
Theorem C02_keyword_table : kw_of [97;110;100] = Some KAnd /\ kw_of [111;114] = Some KOr /\ kw_of [120;111;114] = Some KXor /\ kw_of [110;111;116] = Some KNot /\
  kw_of [100;105;118] = Some KDiv /\ kw_of [109;111;100] = Some KMod /\ kw_of [116;114;117;101] = Some KTrue /\ kw_of [102;97;108;115;101] = Some KFalse.
Proof. exact keyword_table. Qed.
Theorem C02_string_exact : forall c : list N, scan_raw (cQ :: Scan.escape c ++ [cQ]) = Scan.Ok [TStr c].
Proof. exact string_exact. Qed.
Theorem C02_ident_exact : forall s, u_wf (SWord s) -> kw_of s = None -> scan_raw s = Scan.Ok [Scan.TId s].
Proof. exact ident_exact. Qed.
Print Assumptions C02_string_exact.

(* a decimal number literal denotes the nearest double: digits.digits (also .digits) is parsed to the value literal_value, which is the
   correct rounding (to nearest, ties to even) of the exact decimal D / 10^k, or +inf when that overflows.
   C02_number_nearest_partial: the integer spellings (digits, digits.) go through of_int = binary_normalize of the exact integer, whose
   correct rounding is Flocq's binary_normalize_correct and is not restated here; literals with more than 400 excess fractional zeros are flushed to 0 *)
Theorem C02_number_parse : forall ip fp, forallb is_digit ip = true -> forallb is_digit fp = true -> (ip <> [] \/ fp <> []) ->
  parse_f64 (ip ++ 46%N :: fp) = Some (literal_value ip fp) /\ (fp = [] -> ip <> [] -> parse_f64 ip = Some (literal_value ip [])).
Proof. intros ip fp Hi Hf Hne. apply parse_decimal_literal; auto. destruct ip; exact I. Qed.
Theorem C02_number_nearest_partial : forall ip fp p, digits_val 0 (ip ++ fp) = Zpos p -> fp <> [] -> (Z.of_nat (length fp) <= Z.of_nat (length (ip ++ fp)) + 400)%Z ->
  let x := (IZR (Zpos p) / IZR (10 ^ Z.of_nat (length fp)))%R in
  if Rlt_bool (Rabs (round radix2 (SpecFloat.fexp F64.prec F64.emax) ZnearestE x)) (bpow radix2 F64.emax)
  then B2R (literal_value ip fp) = round radix2 (SpecFloat.fexp F64.prec F64.emax) ZnearestE x /\ is_finite (literal_value ip fp) = true
  else literal_value ip fp = B754_infinity false.
Proof. exact literal_nearest. Qed.
Print Assumptions C02_number_nearest_partial.
(* ... and the full statement: EVERY decimal literal - also the integer spellings digits / digits. (exact integer, rounded) and literals with more than 400
   excess fractional zeros (exact value below 2^-1076, whose nearest double is 0) - denotes the exact decimal D / 10^k rounded to nearest, ties to even,
   or +inf when that overflows (Rust's parse gives inf there too; the scanner passes it on) *)
Theorem C02_number_nearest : forall ip fp, forallb is_digit (ip ++ fp) = true ->
  let x := (IZR (digits_val 0 (ip ++ fp)) / IZR (10 ^ Z.of_nat (length fp)))%R in
  if Rlt_bool (Rabs (round radix2 (SpecFloat.fexp F64.prec F64.emax) ZnearestE x)) (bpow radix2 F64.emax)
  then B2R (literal_value ip fp) = round radix2 (SpecFloat.fexp F64.prec F64.emax) ZnearestE x /\ is_finite (literal_value ip fp) = true
  else literal_value ip fp = B754_infinity false.
Proof. exact literal_denotes_nearest. Qed.
Print Assumptions C02_number_nearest.

(* the scanner tables of the model are the ones the code has today (regenerated from scanner.rs on every run) *)
Theorem C02_single_char_tokens_are_the_codes : forallb (fun ct => same_target (scans_to [fst ct]) (inl (snd ct))) rsingle_char_tokens = true.
Proof. vm_compute. reflexivity. Qed.
Theorem C02_keywords_are_the_codes : forallb (fun kv => same_target (scans_to (fst kv)) (snd kv)) rkeywords = true /\ length rkeywords = 8%nat.
Proof. split; vm_compute; reflexivity. Qed.
Theorem C02_whitespace_is_the_codes : forall c, is_ws c = existsb (N.eqb c) rwhitespace.
Proof. intros c. unfold is_ws. cbn [existsb rwhitespace]. rewrite orb_false_r, !orb_assoc. reflexivity. Qed.
Theorem C02_special_chars_are_the_codes : rspecial_chars = [(39, S_string); (46, S_number); (62, S_greater); (60, S_lesser)] /\ rcomments_nest = true.
Proof. split; reflexivity. Qed.

(* non-vacuity: `3{ {-} + .14} + 5 // x` is a well-formed document *)
Example C02_example :
  let d := [(SNum [51] None, [Block [32;123;45;125;32;43;32;46;49;52]; Ws 32]); (SPunct PPlus, [Ws 32]); (SNum [53] None, [Ws 32])] in
  u_ok_doc d [47;47;32;120] /\ skip Normal [47;47;32;120] = [] /\ Forall wf_sep ([]:list sepi).
Proof.
  assert (P : parse_f64 [51] <> None /\ parse_f64 [53] <> None) by (split; unfold parse_f64; cbn -[scale10]; discriminate).
  destruct P as [P3 P5]. cbn [Scan.ok_doc Scan.wf Scan.safe num_content app].
  repeat split; try exact P3; try exact P5; try discriminate; try (vm_compute; reflexivity); repeat constructor; try (vm_compute; reflexivity).
Qed.
