(* a standard-library function called with a number of arguments inside its registered arity never answers with a parameter-count error - whatever the kinds of the arguments.
   One case analysis per registration of the regenerated table gen_builtins (77 entries), over the models call_builtin and call_time. *)
From Flocq Require Import Core BinarySingleNaN.
Require Import ZArith NArith Bool List Arith Lia. Import ListNotations.
Require Import F64 Dec Types Generic Lang Builtins Time GenBuiltins.
Definition garity_ok (a:garity) (k:nat) : bool := match a with GPoly r o => Nat.leb r k && Nat.leb k (r + o) | GVariadic => Nat.leb 1 k | GNone => Nat.eqb k 0 end.
Lemma get_index_err x e : get_index x = inr e -> e = IndexNegative.
Proof. unfold get_index. destruct (ge0 x); congruence. Qed.
Lemma get_string_index_err off x e : get_string_index off x = inr e -> e = IndexNegative \/ exists k, e = IndexOutOfBounds k.
Proof. unfold get_string_index. destruct (get_index x) eqn:E; [destruct (_ <? _)%Z; [intros H; injection H as <-; right; eauto | discriminate] | intros H; injection H as <-; left; eapply get_index_err, E]. Qed.
Ltac head :=
  lazymatch goal with
  | |- BOk _ <> _ => discriminate
  | |- BUnmodelled <> _ => discriminate
  | |- BErr WrongParameterType <> _ => discriminate
  | |- BErr CustomError <> _ => discriminate
  | |- BErr IndexNegative <> _ => discriminate
  | |- BErr (IndexOutOfBounds _) <> _ => discriminate
  | |- BErr ?e <> _ =>
      match goal with
      | H : get_index _ = inr e |- _ => rewrite (get_index_err _ _ H); discriminate
      | H : get_string_index _ _ = inr e |- _ => destruct (get_string_index_err _ _ _ H) as [-> | [? ->]]; discriminate
      end
  | |- (match ?x with _ => _ end) <> _ => destruct x eqn:?; head
  end.
Lemma to_ms_err v e : to_ms v = inr e -> e = WrongParameterType \/ e = CustomError.
Proof. unfold to_ms. destruct v; try (intros H; injection H as <-; auto). destruct (in_range _); [discriminate | intros H; injection H as <-; auto]. Qed.
Ltac head2 :=
  lazymatch goal with
  | |- BOk _ <> _ => discriminate
  | |- num _ <> _ => discriminate
  | |- BUnmodelled <> _ => discriminate
  | |- BErr WrongParameterType <> _ => discriminate
  | |- BErr CustomError <> _ => discriminate
  | |- BErr IndexNegative <> _ => discriminate
  | |- BErr (IndexOutOfBounds _) <> _ => discriminate
  | |- BErr ?e <> _ =>
      match goal with
      | H : get_index _ = inr e |- _ => rewrite (get_index_err _ _ H); discriminate
      | H : get_string_index _ _ = inr e |- _ => destruct (get_string_index_err _ _ _ H) as [-> | [? ->]]; discriminate
      | H : to_ms _ = inr e |- _ => destruct (to_ms_err _ _ H) as [-> | ->]; discriminate
      end
  | |- (match ?x with _ => _ end) <> _ => destruct x eqn:?; head2
  end.
Ltac split_ps H ps := destruct ps as [|?v1 [|?v2 [|?v3 [|?v4 [|?v5 [|?v6 ?rest]]]]]]; try discriminate H.
Ltac red_b := cbn [call_builtin leqb A map Z.to_N Pos.to_nat N.eqb Pos.eqb andb orb].
Ltac red_t := cbn [call_time leqb A map Z.to_N Pos.to_nat N.eqb Pos.eqb andb orb].
Definition max_name := A [109;97;120]%Z. Definition min_name := A [109;105;110]%Z. Definition if_then_name := A [105;102;95;116;104;101;110]%Z.
Lemma vmax_some l : l <> [] -> vmax l <> None. Proof. destruct l; [congruence|discriminate]. Qed.
Lemma vmin_some l : l <> [] -> vmin l <> None. Proof. destruct l; [congruence|discriminate]. Qed.

Theorem builtin_no_count_error_within_arity : forall off name a p ps k, In (name, a, p) gen_builtins -> garity_ok a (length ps) = true ->
  ((name = max_name \/ name = min_name) -> smart_vec ps <> []) ->
  (name = if_then_name -> match ps with VBool _ :: _ => True | _ => False end) ->
  call_builtin off name ps <> BErr (WrongParameterCount k).
Proof.
  intros off name a p ps k HIn H Hmm Hif. unfold gen_builtins in HIn.
  repeat (destruct HIn as [E|HIn]; [injection E as <- <- <-; first
    [ (* if_then: the condition is a Boolean (its documented kind); with another kind and three arguments the function answers with a count error *)
      (pose proof (Hif eq_refl) as Hi; split_ps H ps; cbn in Hi; try contradiction; match type of Hi with match ?v with _ => _ end => destruct v; try contradiction end; red_b; head2)
    | (* max / min *) (assert (Hs : smart_vec ps <> []) by (apply Hmm; (left; reflexivity) || (right; reflexivity))); red_b;
      first [ pose proof (vmax_some _ Hs); destruct (vmax (smart_vec ps)); [discriminate|congruence] | pose proof (vmin_some _ Hs); destruct (vmin (smart_vec ps)); [discriminate|congruence] ]
    | split_ps H ps; red_b; head2
    | red_b; head2 ] | ]).
  destruct HIn.
Qed.
Theorem time_no_count_error_within_arity : forall name a p ps k, In (name, a, p) gen_builtins -> garity_ok a (length ps) = true ->
  call_time name ps <> BErr (WrongParameterCount k).
Proof.
  intros name a p ps k HIn H. unfold gen_builtins in HIn.
  repeat (destruct HIn as [E|HIn]; [injection E as <- <- <-; first
    [ split_ps H ps; red_t; head2
    | red_t; head2 ] | ]).
  destruct HIn.
Qed.
