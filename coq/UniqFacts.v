(* C14: unique does not depend on the hasher seed - a hash set modelled with an arbitrary collision oracle *)
Require Import ZArith NArith Bool List Arith. Import ListNotations.
Require Import F64 Dec Types Generic Lang Builtins OrderFacts GenBuiltins.
Section Unique.
Variable V : Type.
Variable veq : V -> V -> bool.        (* Value's PartialEq, kept element on the left *)
Variable hc : V -> nat.               (* what Hash feeds the hasher: the hash class *)
Section WithSeed.
Variable collide : V -> V -> bool.    (* seed- and history-dependent: do two values of different class meet in the probe sequence? *)
Definition hit (kept:list V) (x:V) : bool := existsb (fun k => (Nat.eqb (hc k) (hc x) || collide k x) && veq k x) kept.
Fixpoint uniq_h (kept:list V) (l:list V) : list V :=
  match l with [] => [] | x :: r => if hit kept x then uniq_h kept r else x :: uniq_h (kept ++ [x]) r end.
End WithSeed.
Definition unique_with collide l := uniq_h collide [] l.
Definition hit_spec (kept:list V) (x:V) : bool := existsb (fun k => veq k x) kept.
Fixpoint uniq_spec (kept:list V) (l:list V) : list V :=
  match l with [] => [] | x :: r => if hit_spec kept x then uniq_spec kept r else x :: uniq_spec (kept ++ [x]) r end.
Definition unique_spec l := uniq_spec [] l.
Hypothesis hash_respects_eq : forall a b, veq a b = true -> hc a = hc b.
Lemma hit_eq collide kept x : hit collide kept x = hit_spec kept x.
Proof.
  unfold hit, hit_spec. induction kept as [|k t IH]; simpl; auto. rewrite IH. f_equal.
  destruct (veq k x) eqn:E; [|apply andb_false_r]. rewrite (hash_respects_eq _ _ E), Nat.eqb_refl. reflexivity.
Qed.
Theorem unique_seed_independent : forall collide l, unique_with collide l = unique_spec l.
Proof.
  intros collide l. unfold unique_with, unique_spec. generalize (@nil V) as kept. induction l as [|x r IH]; intros kept; simpl; auto.
  rewrite hit_eq. destruct (hit_spec kept x); [apply IH | f_equal; apply IH].
Qed.
End Unique.

(* the repaired Hash for Value: only Arrays are told apart *)
Definition hash_class (v:value) : nat := match v with VArr _ => 1 | _ => 0 end.
Lemma hash_respects_veq : forall a b, veq a b = true -> hash_class a = hash_class b.
Proof. intros a b H. destruct a, b; try reflexivity; cbn in H; discriminate. Qed.
(* the seed-independent specification is the builtin model of unique *)
Lemma uniq_spec_is_model : forall kept l, uniq_spec value veq kept l = Builtins.uniq kept l.
Proof.
  intros kept l. revert kept. induction l as [|x r IH]; intros kept; simpl; auto.
  assert (E : hit_spec value veq kept x = existsb (fun k => veq x k) kept).
  { unfold hit_spec. induction kept as [|k t IHk]; simpl; auto. rewrite IHk, (veq_sym k x). reflexivity. }
  rewrite E. destruct (existsb _ kept); rewrite IH; reflexivity.
Qed.
Theorem unique_model_seed_independent : forall collide l, unique_with value veq hash_class collide l = Builtins.uniq [] l.
Proof. intros. rewrite (unique_seed_independent value veq hash_class hash_respects_veq). apply uniq_spec_is_model. Qed.
(* the unrepaired Hash (the kind) with cross-kind Eq: two seeds, two answers *)
Definition kind_class (v:value) : nat := match v with VBool _ => 0 | VStr _ => 1 | VNum _ => 2 | VArr _ => 3 end.
Definition one : value := VNum (of_int 1). Definition sone : value := VStr [49%N].
Lemma unrepaired_hash_seed_dependent :
  length (unique_with value veq kind_class (fun _ _ => false) [one; sone]) = 2%nat /\ length (unique_with value veq kind_class (fun _ _ => true) [one; sone]) = 1%nat.
Proof. split; vm_compute; reflexivity. Qed.
(* purity flags in the registration table *)
Definition impure_names : list (list N) := map (fun x => fst (fst x)) (filter (fun x => negb (snd x)) gen_builtins).
