(* Rust's str::parse::<f64> on code-point lists *)
From Flocq Require Import Core BinarySingleNaN.
Require Import ZArith NArith Bool List. Import ListNotations.
Require Import F64.
Open Scope Z_scope.
Definition pow10 (k:Z) : positive := Z.to_pos (10 ^ k).
Definition dec_div (D : positive) (k : Z) : f64 :=
  SF2B _ (proj1 (Bdiv_correct_aux prec emax _ _ mode_NE false D 0 false (pow10 k) 0)).
Definition is_digit (c:N) : bool := (48 <=? c)%N && (c <=? 57)%N.
Fixpoint span_digits (s:list N) : list N * list N :=
  match s with c :: r => if is_digit c then let '(a,b) := span_digits r in (c::a, b) else ([], s) | [] => ([],[]) end.
Fixpoint digits_val (acc:Z) (ds:list N) : Z := match ds with [] => acc | c :: r => digits_val (acc * 10 + (Z.of_N c - 48)) r end.
Definition lower_ascii (c:N) : N := if (65 <=? c)%N && (c <=? 90)%N then (c + 32)%N else c.
Fixpoint leqb (a b:list N) : bool := match a, b with [], [] => true | x::a', y::b' => (x =? y)%N && leqb a' b' | _, _ => false end.
(* magnitude of  D * 10^e10  (D >= 0), correctly rounded; nd = number of digits of D bounds the result *)
Definition scale10 (D:Z) (nd:Z) (e10:Z) : f64 :=
  match D with
  | Zpos p =>
      if 0 <=? e10 then (if 400 <? e10 then B754_infinity false else of_int (D * 10 ^ e10))
      else (if nd + 400 <? - e10 then B754_zero false else dec_div p (- e10))
  | _ => B754_zero false
  end.
Definition apply_sign (neg:bool) (x:f64) : f64 := if neg then Bopp x else x.
Definition parse_exp (s:list N) : option Z :=   (* after 'e' *)
  let '(neg, r) := match s with 43%N :: r => (false, r) | 45%N :: r => (true, r) | _ => (false, s) end in
  let '(ds, rest) := span_digits r in
  match ds, rest with
  | _ :: _, [] => let v := digits_val 0 ds in
                  let v := if 100000 <? v then 100000 else v in   (* saturate: anything beyond is inf / zero anyway *)
                  Some (if neg then - v else v)
  | _, _ => None end.
Definition parse_f64 (s:list N) : option f64 :=
  let '(neg, r) := match s with 43%N :: r => (false, r) | 45%N :: r => (true, r) | _ => (false, s) end in
  let lr := map lower_ascii r in
  if leqb lr [105;110;102]%N || leqb lr [105;110;102;105;110;105;116;121]%N then Some (B754_infinity neg)
  else if leqb lr [110;97;110]%N then Some B754_nan
  else
    let '(ip, r1) := span_digits r in
    let '(fp, r2) := match r1 with 46%N :: r' => span_digits r' | _ => ([], r1) end in
    match ip, fp with
    | [], [] => None
    | _, _ =>
      let e := match r2 with
               | [] => Some 0
               | c :: r3 => if (c =? 101)%N || (c =? 69)%N then parse_exp r3 else None end in
      match e with
      | None => None
      | Some ex =>
          let D := digits_val 0 (ip ++ fp) in
          let nd := Z.of_nat (length (ip ++ fp)) in
          Some (apply_sign neg (scale10 D nd (ex - Z.of_nat (length fp))))
      end
    end.
