(* re_replace with group references in the replacement text: Captures::expand of the regex crates ($N, ${N}, $name, ${name}, $$), applied match by match.
   find_iter_c is find_iter of Regex.v keeping the captures of each match (RegexExpandFacts.v: its spans are exactly those of find_iter). Definitions only (extracted). *)
Require Import ZArith NArith Bool List Arith. Import ListNotations.
Require Import F64 Dec Types Builtins Regex.
Open Scope N_scope.

Definition is_cap_letter (c:N) : bool := ((48 <=? c) && (c <=? 57)) || ((97 <=? c) && (c <=? 122)) || ((65 <=? c) && (c <=? 90)) || (c =? 95).
Fixpoint span_letters (s:list N) : list N * list N := match s with c :: r => if is_cap_letter c then let '(a, b) := span_letters r in (c :: a, b) else ([], s) | [] => ([], []) end.
Fixpoint until_brace (s:list N) : option (list N * list N) := match s with [] => None | c :: r => if c =? 125 then Some ([], r) else match until_brace r with Some (a, b) => Some (c :: a, b) | None => None end end.
(* str::parse::<usize>: digits with an optional leading '+'; None when it is not a number or does not fit 64 bits (then the reference is a name, and no group has a name here) *)
Definition parse_usize (s:list N) : option nat :=
  let ds := match s with 43 :: r => r | _ => s end in
  match ds with [] => None | _ =>
    if forallb is_digit ds then let v := digits_val 0%Z ds in if (v <? 2 ^ 64)%Z then Some (Z.to_nat (if (v <? 100000)%Z then v else 100000%Z)) else None else None end.
(* get i = text of group i of the current match (0 = the whole match; empty for a group that does not exist or did not take part) *)
Fixpoint expand (fuel:nat) (rep:list N) (get:nat -> list N) : list N :=
  match fuel with O => rep | S f =>
  match rep with
  | [] => []
  | 36 :: 36 :: r => 36 :: expand f r get
  | 36 :: 123 :: r =>
      match until_brace r with
      | Some (name, rest) => (match parse_usize name with Some i => get i | None => [] end) ++ expand f rest get
      | None => 36 :: expand f (123 :: r) get end
  | 36 :: r =>
      let '(name, rest) := span_letters r in
      match name with
      | [] => 36 :: expand f r get
      | _ => (match parse_usize name with Some i => get i | None => [] end) ++ expand f rest get end
  | c :: r => c :: expand f r get
  end end.

Section Fuel.
Variable kf : nat.
Fixpoint find_iter_c (n:nat) (r:re) (whole:list N) (start:nat) (last:option nat) : list (nat * nat * caps) :=
  match n with O => [] | S n' =>
    let fuel := fuel_for kf whole in
    match search fuel r (skipn start whole) start with
    | None => []
    | Some (st, en, c) =>
        let abut := Nat.eqb st en && match last with Some l => Nat.eqb en l | None => false end in
        if abut then
          (if Nat.ltb st (length whole) then
            match search fuel r (skipn (S st) whole) (S st) with
            | None => []
            | Some (st2, en2, c2) => (st2, en2, c2) :: find_iter_c n' r whole en2 (Some en2)
            end
          else [])
        else (st, en, c) :: find_iter_c n' r whole en (Some en)
    end end.
Definition spans_c (r:re) (s:list N) : list (nat * nat * caps) := find_iter_c (S (S (length s))) r s 0 None.
Definition group_text (r:re) (s:list N) (st en:nat) (c:caps) (i:nat) : list N :=
  match i with O => slice s st en | S _ => if Nat.leb i (ngroups r) then match cap_get i c with Some (a, b) => slice s a b | None => [] end else [] end.
Fixpoint splice_x (r:re) (s:list N) (pos:nat) (sp:list (nat * nat * caps)) (t:list N) : list N :=
  match sp with [] => skipn pos s
  | (a, b, c) :: rest => slice s pos a ++ expand (S (length t)) t (group_text r s a b c) ++ splice_x r s b rest t end.
Definition re_replace_x (r:re) (s t:list N) (limit:nat) : list N :=
  let sp := spans_c r s in splice_x r s 0 (match limit with O => sp | S _ => firstn limit sp end) t.
End Fuel.
