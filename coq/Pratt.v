Require Import List Arith Bool Lia. Import ListNotations.
Inductive binop := Plus|Minus|Multiply|Divide|Greater|GreaterEqual|Less|LessEqual|Equal|NotEqual|And|Or|Xor|Div|Mod.
Inductive unop := UNeg | UNot.

Section Pratt.
Variables LitT IdT : Type.   (* literal and identifier payloads: the parser never inspects them *)
Inductive token := LParen|RParen|LBracket|RBracket|Comma|TBin (b:binop)|TNot|TLit (n:LitT)|TId (n:IdT).
Inductive expr := EUn (o:unop)(r:expr) | EBin (o:binop)(l r:expr) | EArr (es:list expr) | ELit (n:LitT) | EVar (n:IdT) | ECall (n:IdT)(ps:list expr).
Inductive prec := PNone|POr|PAnd|PXor|PEquality|PComparison|PTerm|PFactor|PUnary|PCall|PPrimary.
Definition rank p := match p with PNone=>0|POr=>1|PAnd=>2|PXor=>3|PEquality=>4|PComparison=>5|PTerm=>6|PFactor=>7|PUnary=>8|PCall=>9|PPrimary=>10 end.
Definition ple a b := Nat.leb (rank a) (rank b).
Definition pnext p := match p with PNone=>POr|POr=>PAnd|PAnd=>PXor|PXor=>PEquality|PEquality=>PComparison|PComparison=>PTerm|PTerm=>PFactor|PFactor=>PUnary|PUnary=>PCall|PCall=>PPrimary|PPrimary=>PNone end.
Definition bprec b := match b with Plus|Minus=>PTerm|Multiply|Divide|Div|Mod=>PFactor|Equal|NotEqual=>PEquality|Greater|GreaterEqual|Less|LessEqual=>PComparison|And=>PAnd|Or=>POr|Xor=>PXor end.
Definition tprec t := match t with TBin b => bprec b | LParen => PCall | _ => PNone end.
Inductive err := Eof | NoPrefix (t:token) | NoInfix | CallNotVar | Invalid (t:token) | Multiple (t:token) | OutOfFuel.
Inductive res (A:Type) := Ok (a:A) | Er (e:err). Arguments Ok {A}. Arguments Er {A}.
Definition bind {A B} (r:res A) (f:A -> res B) : res B := match r with Ok a => f a | Er e => Er e end.
Notation "x <- r ;; k" := (bind r (fun x => k)) (at level 60, right associativity).
Definition is_end (endt t:token) : bool := match endt, t with RParen,RParen | RBracket,RBracket => true | _,_ => false end.
Definition chomp (endt:token) (ts:list token) : res (list token) := match ts with x::r => if is_end endt x then Ok r else Er (Invalid x) | [] => Er Eof end.
Definition untok o := match o with UNeg => TBin Minus | UNot => TNot end.

(* the repaired parser, previous-token free *)
Fixpoint parse_prec (fuel:nat) (p:prec) (ts:list token) {struct fuel} : res (expr * list token) :=
  match fuel with O => Er OutOfFuel | S f =>
  match ts with [] => Er Eof | t :: ts1 =>
    pr <- (match t with
      | TLit n => Ok (ELit n, ts1)
      | TId n => Ok (EVar n, ts1)
      | LParen => match ts1 with [] => Er Eof | _ => r <- parse_prec f POr ts1 ;; s2 <- chomp RParen (snd r) ;; Ok (fst r, s2) end
      | LBracket => r <- elist f RBracket ts1 [] ;; Ok (EArr (fst r), snd r)
      | TNot => r <- parse_prec f PUnary ts1 ;; Ok (EUn UNot (fst r), snd r)
      | TBin Minus => r <- parse_prec f PUnary ts1 ;; Ok (EUn UNeg (fst r), snd r)
      | _ => Er (NoPrefix t) end) ;;
    loop f p (fst pr) (snd pr)
  end end
with loop (fuel:nat) (p:prec) (left:expr) (ts:list token) {struct fuel} : res (expr * list token) :=
  match fuel with O => Er OutOfFuel | S f =>
  match ts with
  | t :: ts1 => if ple p (tprec t) then
       match t with
       | TBin b => r <- parse_prec f (pnext (bprec b)) ts1 ;; loop f p (EBin b left (fst r)) (snd r)
       | LParen => match left with EVar g => r <- elist f RParen ts1 [] ;; loop f p (ECall g (fst r)) (snd r) | _ => Er CallNotVar end
       | _ => Er NoInfix end
     else Ok (left, ts)
  | [] => Ok (left, ts) end end
with elist (fuel:nat) (endt:token) (ts:list token) (acc:list expr) {struct fuel} : res (list expr * list token) :=
  match fuel with O => Er OutOfFuel | S f =>
  match ts with
  | x :: _ => if is_end endt x then (s <- chomp endt ts ;; Ok (rev acc, s))
              else r <- parse_prec f POr ts ;;
                   let s2 := match snd r with Comma :: s' => s' | s' => s' end in
                   elist f endt s2 (fst r :: acc)
  | [] => Er Eof end end.

Definition ev {A} (f : nat -> res A) (x:A) := exists n, f n = Ok x.

(* fuel monotonicity *)
Lemma mono : forall n,
  (forall p ts x, parse_prec n p ts = Ok x -> forall m, n <= m -> parse_prec m p ts = Ok x) /\
  (forall p l ts x, loop n p l ts = Ok x -> forall m, n <= m -> loop m p l ts = Ok x) /\
  (forall e ts acc x, elist n e ts acc = Ok x -> forall m, n <= m -> elist m e ts acc = Ok x).
Proof.
  induction n as [|n [IHp [IHl IHe]]].
  - repeat split; intros; simpl in *; discriminate.
  - repeat split.
    + intros p ts x H m Hm. destruct m as [|m]; [lia|]. assert (Hnm : n <= m) by lia.
      simpl in H |- *. destruct ts as [|t ts1]; [discriminate|].
      destruct t; try discriminate; cbn [bind] in *.
      * (* LParen *) destruct ts1 as [|t2 ts2]; [discriminate|].
        destruct (parse_prec n POr (t2::ts2)) as [r|] eqn:E; [|discriminate].
        rewrite (IHp _ _ _ E m Hnm). cbn [bind] in *.
        destruct (chomp RParen (snd r)); [|discriminate]. cbn [bind] in *. eauto.
      * destruct (elist n RBracket ts1 []) as [r|] eqn:E; [|discriminate].
        rewrite (IHe _ _ _ _ E m Hnm). cbn [bind] in *. eauto.
      * destruct b; try discriminate.
        destruct (parse_prec n PUnary ts1) as [r|] eqn:E; [|discriminate].
        rewrite (IHp _ _ _ E m Hnm). cbn [bind] in *. eauto.
      * destruct (parse_prec n PUnary ts1) as [r|] eqn:E; [|discriminate].
        rewrite (IHp _ _ _ E m Hnm). cbn [bind] in *. eauto.
      * eauto.
      * eauto.
    + intros p l ts x H m Hm. destruct m as [|m]; [lia|]. assert (Hnm : n <= m) by lia.
      simpl in H |- *. destruct ts as [|t ts1]; [assumption|].
      destruct (ple p (tprec t)); [|assumption].
      destruct t; try discriminate.
      * destruct l; try discriminate.
        destruct (elist n RParen ts1 []) as [r|] eqn:E; [|discriminate].
        rewrite (IHe _ _ _ _ E m Hnm). cbn [bind] in *. eauto.
      * destruct (parse_prec n (pnext (bprec b)) ts1) as [r|] eqn:E; [|discriminate].
        rewrite (IHp _ _ _ E m Hnm). cbn [bind] in *. eauto.
    + intros e ts acc x H m Hm. destruct m as [|m]; [lia|]. assert (Hnm : n <= m) by lia.
      simpl in H |- *. destruct ts as [|t ts1]; [discriminate|].
      destruct (is_end e t); [assumption|].
      destruct (parse_prec n POr (t::ts1)) as [r|] eqn:E; [|discriminate].
      rewrite (IHp _ _ _ E m Hnm). cbn [bind] in *. eauto.
Qed.
Lemma mono_p n p ts x m : parse_prec n p ts = Ok x -> n <= m -> parse_prec m p ts = Ok x.
Proof. intros; eapply (proj1 (mono n)); eauto. Qed.
Lemma mono_l n p l ts x m : loop n p l ts = Ok x -> n <= m -> loop m p l ts = Ok x.
Proof. intros; eapply (proj1 (proj2 (mono n))); eauto. Qed.
Lemma mono_e n e ts acc x m : elist n e ts acc = Ok x -> n <= m -> elist m e ts acc = Ok x.
Proof. intros; eapply (proj2 (proj2 (mono n))); eauto. Qed.

(* renderings *)
Inductive Renders : prec -> expr -> list token -> Prop :=
| R_lit n : Renders PPrimary (ELit n) [TLit n]
| R_var n : Renders PPrimary (EVar n) [TId n]
| R_paren t e ts : Renders t e ts -> Renders PPrimary e (LParen :: ts ++ [RParen])
| R_un o t r ts : ple PUnary t = true -> Renders t r ts -> Renders PUnary (EUn o r) (untok o :: ts)
| R_bin b tl tr l r tsl tsr : ple (bprec b) tl = true -> ple (pnext (bprec b)) tr = true ->
    Renders tl l tsl -> Renders tr r tsr -> Renders (bprec b) (EBin b l r) (tsl ++ TBin b :: tsr)
| R_arr es tss : RendersList es tss -> Renders PPrimary (EArr es) (LBracket :: tss ++ [RBracket])
| R_call f es tss : RendersList es tss -> Renders PPrimary (ECall f es) (TId f :: LParen :: tss ++ [RParen])
with RendersList : list expr -> list token -> Prop :=
| RL_nil : RendersList [] []
| RL_one t e ts : Renders t e ts -> RendersList [e] ts
| RL_cons t e ts e2 es tss : Renders t e ts -> RendersList (e2::es) tss -> RendersList (e::e2::es) (ts ++ Comma :: tss).
Scheme Renders_ind2 := Induction for Renders Sort Prop
  with RendersList_ind2 := Induction for RendersList Sort Prop.
Combined Scheme Renders_mutind from Renders_ind2, RendersList_ind2.

Definition is_follow x := match x with TBin _ | RParen | RBracket | Comma => true | _ => false end.
Definition follow_ok (t:prec) (rest:list token) := match rest with [] => True | x :: _ => is_follow x = true /\ ple (tprec x) t = true end.

Lemma render_nonempty_head : forall t e ts, Renders t e ts -> exists x r, ts = x :: r /\ is_end RParen x = false /\ is_end RBracket x = false.
Proof.
  induction 1; try (eexists; eexists; split; [reflexivity| split; reflexivity]).
  - destruct o; eexists; eexists; (split; [reflexivity| split; reflexivity]).
  - destruct IHRenders1 as (x & r0 & -> & ? & ?). exists x, (r0 ++ TBin b :: tsr). auto.
Qed.

Lemma top_ge_or t e ts : Renders t e ts -> ple POr t = true.
Proof. destruct 1; try reflexivity. destruct b; reflexivity. Qed.
Lemma ple_refl p : ple p p = true. Proof. unfold ple. apply Nat.leb_refl. Qed.
Lemma ple_trans a b c : ple a b = true -> ple b c = true -> ple a c = true.
Proof. unfold ple. rewrite !Nat.leb_le. lia. Qed.


Lemma loop_stop n p e rest : (match rest with [] => True | x :: _ => ple p (tprec x) = false end) -> loop (S n) p e rest = Ok (e, rest).
Proof. destruct rest; simpl; auto. intros ->. reflexivity. Qed.

Definition P1 (t:prec) (e:expr) (ts:list token) (_:Renders t e ts) :=
  forall p rest x, ple POr p = true -> ple p PUnary = true -> ple p t = true -> follow_ok t rest ->
    ev (fun n => loop n p e rest) x -> ev (fun n => parse_prec n p (ts ++ rest)) x.
Definition P2 (es:list expr) (tss:list token) (_:RendersList es tss) :=
  forall endt acc rest, (endt = RParen \/ endt = RBracket) ->
    ev (fun n => elist n endt (tss ++ endt :: rest) acc) (rev acc ++ es, rest).

Lemma chomp_end endt rest : (endt = RParen \/ endt = RBracket) -> chomp endt (endt :: rest) = Ok rest.
Proof. intros [->| ->]; reflexivity. Qed.
Lemma is_end_self endt : (endt = RParen \/ endt = RBracket) -> is_end endt endt = true.
Proof. intros [->| ->]; reflexivity. Qed.
Lemma is_end_weak endt x : is_end RParen x = false -> is_end RBracket x = false -> is_end endt x = false.
Proof. destruct endt, x; simpl; auto. Qed.
Lemma pnext_gt b : ple (pnext (bprec b)) (bprec b) = false. Proof. destruct b; reflexivity. Qed.
Lemma bprec_ge_or b : ple POr (bprec b) = true. Proof. destruct b; reflexivity. Qed.
Lemma pnext_le_un b : ple (pnext (bprec b)) PUnary = true. Proof. destruct b; reflexivity. Qed.
Lemma pnext_ge_or b : ple POr (pnext (bprec b)) = true. Proof. destruct b; reflexivity. Qed.
Lemma ple_false_trans p q x : ple p q = false -> ple x q = true -> ple p x = false.
Proof. unfold ple. rewrite !Nat.leb_gt, Nat.leb_le. lia. Qed.

Theorem parse_render_all : (forall t e ts r, P1 t e ts r) /\ (forall es tss r, P2 es tss r).
Proof.
  apply Renders_mutind; unfold P1, P2.
  - (* lit *) intros n p rest x _ _ _ _ [k Hk]. exists (S k). simpl. exact Hk.
  - (* var *) intros n p rest x _ _ _ _ [k Hk]. exists (S k). simpl. exact Hk.
  - (* paren *) intros t e ts R IH p rest x Hp Hpu' _ Hf [k Hk].
    destruct (IH POr (RParen :: rest) (e, RParen :: rest)) as [m Hm]; auto using ple_refl.
    { eapply top_ge_or; eauto. }
    { simpl. split; [reflexivity|]. reflexivity. }
    { exists 1. reflexivity. }
    destruct (render_nonempty_head _ _ _ R) as (x0 & r0 & E0 & _ & _).
    exists (S (max m k)).
    replace ((LParen :: ts ++ [RParen]) ++ rest) with (LParen :: ts ++ RParen :: rest) by (simpl; rewrite <- app_assoc; reflexivity).
    cbn [parse_prec].
    assert (Hne : ts ++ RParen :: rest = x0 :: (r0 ++ RParen :: rest)) by (rewrite E0; reflexivity).
    rewrite Hne. rewrite <- Hne.
    erewrite mono_p; [| exact Hm | lia]. cbn [bind fst snd chomp is_end].
    eapply mono_l; [exact Hk | lia].
  - (* unary *) intros o t r ts Ht R IH p rest x Hp Hpu' Hpu Hf [k Hk].
    destruct (IH PUnary rest (r, rest)) as [m Hm]; auto.
    { destruct rest as [|y rest']; simpl in *; auto. destruct Hf as [Hf1 Hf2]. split; auto. eapply ple_trans; eauto. }
    { exists 1. apply loop_stop. destruct rest as [|y rest']; auto. destruct Hf as [Hf1 _]. destruct y; try discriminate; try reflexivity. destruct b; reflexivity. }
    exists (S (max m k)). destruct o; simpl.
    + erewrite mono_p; [| exact Hm | lia]. cbn [bind fst snd]. eapply mono_l; [exact Hk|lia].
    + erewrite mono_p; [| exact Hm | lia]. cbn [bind fst snd]. eapply mono_l; [exact Hk|lia].
  - (* binary *) intros b tl tr l r tsl tsr Hl Hr Rl IHl Rr IHr p rest x Hp Hpu' Hpb Hf [k Hk].
    (* right operand parses to r and stops *)
    destruct (IHr (pnext (bprec b)) rest (r, rest)) as [mr Hmr]; auto using pnext_ge_or, pnext_le_un.
    { destruct rest as [|y rest']; simpl in *; auto. destruct Hf as [Hf1 Hf2]. split; auto.
      eapply ple_trans; [exact Hf2|]. eapply ple_trans; [|exact Hr]. destruct b; reflexivity. }
    { exists 1. apply loop_stop. destruct rest as [|y rest']; auto. destruct Hf as [_ Hf2].
      eapply ple_false_trans; [apply pnext_gt | exact Hf2]. }
    rewrite <- app_assoc. simpl.
    apply (IHl p (TBin b :: tsr ++ rest) x Hp Hpu').
    { eapply ple_trans; eauto. }
    { simpl. split; auto. }
    exists (S (max mr k)). simpl. rewrite Hpb.
    erewrite mono_p; [| exact Hmr | lia]. cbn [bind fst snd]. eapply mono_l; [exact Hk|lia].
  - (* array *) intros es tss RL IH p rest x Hp Hpu' _ Hf [k Hk].
    destruct (IH RBracket [] rest (or_intror eq_refl)) as [m Hm]. simpl in Hm.
    exists (S (max m k)). simpl. rewrite <- app_assoc. simpl.
    erewrite mono_e; [| exact Hm | lia]. cbn [bind fst snd]. eapply mono_l; [exact Hk|lia].
  - (* call *) intros f es tss RL IH p rest x Hp Hpu' _ Hf [k Hk].
    destruct (IH RParen [] rest (or_introl eq_refl)) as [m Hm]. simpl in Hm.
    exists (S (S (max m k))).
    replace ((TId f :: LParen :: tss ++ [RParen]) ++ rest) with (TId f :: LParen :: tss ++ RParen :: rest) by (simpl; rewrite <- app_assoc; reflexivity).
    assert (Hc : ple p PCall = true). { destruct p; try reflexivity; discriminate. }
    change (parse_prec (S (S (max m k))) p (TId f :: LParen :: tss ++ RParen :: rest))
      with (loop (S (max m k)) p (EVar f) (LParen :: tss ++ RParen :: rest)).
    change (loop (S (max m k)) p (EVar f) (LParen :: tss ++ RParen :: rest))
      with (if ple p PCall then r <- elist (max m k) RParen (tss ++ RParen :: rest) [] ;; loop (max m k) p (ECall f (fst r)) (snd r) else Ok (EVar f, LParen :: tss ++ RParen :: rest)).
    rewrite Hc.
    erewrite mono_e; [| exact Hm | lia]. cbn [bind fst snd]. eapply mono_l; [exact Hk|lia].
  - (* nil *) intros endt acc rest He. exists 1. destruct He as [->| ->]; simpl; rewrite app_nil_r; reflexivity.
  - (* one *) intros t e ts R IH endt acc rest He.
    destruct (IH POr (endt :: rest) (e, endt :: rest)) as [m Hm]; auto using ple_refl.
    { eapply top_ge_or; eauto. }
    { simpl. destruct He as [->| ->]; split; reflexivity. }
    { exists 1. apply loop_stop. destruct He as [->| ->]; reflexivity. }
    destruct (render_nonempty_head _ _ _ R) as (x0 & r0 & E0 & N1 & N2).
    exists (S (S m)).
    assert (Hne : ts ++ endt :: rest = x0 :: (r0 ++ endt :: rest)) by (rewrite E0; reflexivity).
    rewrite Hne. cbn [elist]. rewrite (is_end_weak endt _ N1 N2). rewrite <- Hne.
    erewrite mono_p; [| exact Hm | lia]. cbn [bind fst snd].
    assert (Hs : (match endt :: rest with Comma :: s' => s' | s' => s' end) = endt :: rest) by (destruct He as [->| ->]; reflexivity).
    rewrite Hs. destruct He as [->| ->]; reflexivity.
  - (* cons *) intros t e ts e2 es tss R IH RL IHL endt acc rest He.
    destruct (IH POr (Comma :: tss ++ endt :: rest) (e, Comma :: tss ++ endt :: rest)) as [m Hm]; auto using ple_refl.
    { eapply top_ge_or; eauto. }
    { simpl. split; reflexivity. }
    { exists 1. apply loop_stop. reflexivity. }
    destruct (IHL endt (e :: acc) rest He) as [m2 Hm2].
    destruct (render_nonempty_head _ _ _ R) as (x0 & r0 & E0 & N1 & N2).
    exists (S (max m m2)).
    replace ((ts ++ Comma :: tss) ++ endt :: rest) with (ts ++ Comma :: tss ++ endt :: rest) by (rewrite <- app_assoc; reflexivity).
    assert (Hne : ts ++ Comma :: tss ++ endt :: rest = x0 :: (r0 ++ Comma :: tss ++ endt :: rest)) by (rewrite E0; reflexivity).
    rewrite Hne. cbn [elist]. rewrite (is_end_weak endt _ N1 N2). rewrite <- Hne.
    erewrite mono_p; [| exact Hm | lia]. cbn [bind fst snd].
    erewrite mono_e; [| exact Hm2 | lia]. simpl. rewrite <- app_assoc. reflexivity.
Qed.

(* ---------- C07: the repaired parser never runs out of fuel 2|ts|+2; results are suffixes ---------- *)
Definition nofuel {A} (r : res A) := r <> Er OutOfFuel.
Lemma bind_nofuel {A B} (r : res A) (f : A -> res B) : nofuel r -> (forall a, r = Ok a -> nofuel (f a)) -> nofuel (bind r f).
Proof. destruct r; simpl; intros H1 H2. apply H2; auto. intros E; injection E as ->. apply H1; reflexivity. Qed.
Lemma chomp_len e ts r : chomp e ts = Ok r -> S (length r) = length ts.
Proof. destruct ts as [|x t]; simpl; [discriminate|]. destruct (is_end e x); [|discriminate]. intros H; injection H as ->. reflexivity. Qed.
Lemma chomp_nofuel e ts : nofuel (chomp e ts).
Proof. destruct ts as [|x t]; simpl; [discriminate|]. destruct (is_end e x); discriminate. Qed.

Lemma total : forall n,
  (forall p ts, (forall x, parse_prec n p ts = Ok x -> length (snd x) < length ts) /\ (2 * length ts + 1 <= n -> nofuel (parse_prec n p ts))) /\
  (forall p l ts, (forall x, loop n p l ts = Ok x -> length (snd x) <= length ts) /\ (2 * length ts + 1 <= n -> nofuel (loop n p l ts))) /\
  (forall e ts acc, (forall x, elist n e ts acc = Ok x -> length (snd x) < length ts) /\ (2 * length ts + 2 <= n -> nofuel (elist n e ts acc))).
Proof.
  induction n as [|n (IHp & IHl & IHe)].
  - repeat split; intros; simpl in *; try discriminate; lia.
  - assert (Pl : forall p ts x, parse_prec n p ts = Ok x -> length (snd x) < length ts) by (intros p ts; apply (IHp p ts)).
    assert (Pn : forall p ts, 2 * length ts + 1 <= n -> nofuel (parse_prec n p ts)) by (intros p ts; apply (IHp p ts)).
    assert (Ll : forall p l ts x, loop n p l ts = Ok x -> length (snd x) <= length ts) by (intros p l ts; apply (IHl p l ts)).
    assert (Ln : forall p l ts, 2 * length ts + 1 <= n -> nofuel (loop n p l ts)) by (intros p l ts; apply (IHl p l ts)).
    assert (El : forall e ts acc x, elist n e ts acc = Ok x -> length (snd x) < length ts) by (intros e ts acc; apply (IHe e ts acc)).
    assert (En : forall e ts acc, 2 * length ts + 2 <= n -> nofuel (elist n e ts acc)) by (intros e ts acc; apply (IHe e ts acc)).
    clear IHp IHl IHe.
    (* prefix part, shared *)
    assert (Pre : forall t ts1,
       let pr := (match t with
        | TLit k => Ok (ELit k, ts1) | TId k => Ok (EVar k, ts1)
        | LParen => match ts1 with [] => Er Eof | _ => r <- parse_prec n POr ts1 ;; s2 <- chomp RParen (snd r) ;; Ok (fst r, s2) end
        | LBracket => r <- elist n RBracket ts1 [] ;; Ok (EArr (fst r), snd r)
        | TNot => r <- parse_prec n PUnary ts1 ;; Ok (EUn UNot (fst r), snd r)
        | TBin Minus => r <- parse_prec n PUnary ts1 ;; Ok (EUn UNeg (fst r), snd r)
        | _ => Er (NoPrefix t) end) in
       (forall x, pr = Ok x -> length (snd x) <= length ts1) /\ (2 * length ts1 + 3 <= S n -> nofuel pr)).
    { intros t ts1. destruct t; cbv zeta; try (split; [intros x H; discriminate | intros _; discriminate]).
      - (* LParen *) destruct ts1 as [|t2 ts2]; [split; [intros x H; discriminate|intros _; discriminate]|]. split.
        + intros x H. destruct (parse_prec n POr (t2::ts2)) as [r|] eqn:E; [|discriminate]. cbn [bind] in H.
          destruct (chomp RParen (snd r)) as [s2|] eqn:C; [|discriminate]. cbn [bind] in H. injection H as <-. cbn [snd].
          apply Pl in E. apply chomp_len in C. lia.
        + intros Hn. apply bind_nofuel. apply Pn; simpl in *; lia. intros r E. apply bind_nofuel. apply chomp_nofuel. intros; discriminate.
      - (* LBracket *) split.
        + intros x H. destruct (elist n RBracket ts1 []) as [r|] eqn:E; [|discriminate]. cbn [bind] in H. injection H as <-. cbn [snd]. apply El in E. lia.
        + intros Hn. apply bind_nofuel. apply En; lia. intros; discriminate.
      - (* TBin *) destruct b; try (split; [intros x H; discriminate | intros _; discriminate]). split.
        + intros x H. destruct (parse_prec n PUnary ts1) as [r|] eqn:E; [|discriminate]. cbn [bind] in H. injection H as <-. cbn [snd]. apply Pl in E. lia.
        + intros Hn. apply bind_nofuel. apply Pn; lia. intros; discriminate.
      - (* TNot *) split.
        + intros x H. destruct (parse_prec n PUnary ts1) as [r|] eqn:E; [|discriminate]. cbn [bind] in H. injection H as <-. cbn [snd]. apply Pl in E. lia.
        + intros Hn. apply bind_nofuel. apply Pn; lia. intros; discriminate.
      - split; [intros x H; injection H as <-; simpl; lia | intros _; discriminate].
      - split; [intros x H; injection H as <-; simpl; lia | intros _; discriminate]. }
    repeat split.
    + (* parse_prec length *) intros x H. cbn [parse_prec] in H. destruct ts as [|t ts1]; [discriminate|].
      destruct (Pre t ts1) as [A _]. cbv zeta in A.
      match type of H with bind ?pr _ = _ => destruct pr as [pr0|] eqn:E; [|discriminate] end.
      cbn [bind] in H. specialize (A _ eq_refl). apply Ll in H. simpl. lia.
    + (* parse_prec fuel *) intros Hn. cbn [parse_prec]. destruct ts as [|t ts1]; [discriminate|].
      destruct (Pre t ts1) as [A B]. cbv zeta in A, B. simpl length in Hn.
      apply bind_nofuel. apply B; lia. intros pr0 E. specialize (A _ E). apply Ln. lia.
    + (* loop length *) intros x H. cbn [loop] in H. destruct ts as [|t ts1]; [injection H as <-; simpl; lia|].
      destruct (ple p (tprec t)); [|injection H as <-; simpl; lia].
      destruct t; try discriminate.
      * destruct l; try discriminate. destruct (elist n RParen ts1 []) as [r|] eqn:E; [|discriminate]. cbn [bind] in H. apply El in E. apply Ll in H. simpl. lia.
      * destruct (parse_prec n (pnext (bprec b)) ts1) as [r|] eqn:E; [|discriminate]. cbn [bind] in H. apply Pl in E. apply Ll in H. simpl. lia.
    + (* loop fuel *) intros Hn. cbn [loop]. destruct ts as [|t ts1]; [discriminate|]. simpl length in Hn.
      destruct (ple p (tprec t)); [|discriminate].
      destruct t; try discriminate.
      * destruct l; try discriminate. apply bind_nofuel. apply En; lia. intros r E. apply El in E. apply Ln. lia.
      * apply bind_nofuel. apply Pn; lia. intros r E. apply Pl in E. apply Ln. lia.
    + (* elist length *) intros x H. cbn [elist] in H. destruct ts as [|t ts1]; [discriminate|].
      destruct (is_end e t).
      * destruct (chomp e (t::ts1)) as [s|] eqn:C; [|discriminate]. cbn [bind] in H. injection H as <-. cbn [snd]. apply chomp_len in C. lia.
      * destruct (parse_prec n POr (t::ts1)) as [r|] eqn:E; [|discriminate]. cbn [bind] in H. apply Pl in E. apply El in H.
        destruct (snd r) as [|c s']; simpl in *; try lia. destruct c; simpl in *; lia.
    + (* elist fuel *) intros Hn. cbn [elist]. destruct ts as [|t ts1]; [discriminate|]. simpl length in Hn.
      destruct (is_end e t).
      * apply bind_nofuel. apply chomp_nofuel. intros; discriminate.
      * apply bind_nofuel. apply Pn; simpl; lia. intros r E. apply Pl in E. apply En.
        destruct (snd r) as [|c s']; simpl in *; try lia. destruct c; simpl in *; lia.
Qed.

(* ---------- fuel stability for every non-OutOfFuel answer ---------- *)
Definition le_res {A} (r r' : res A) := r = Er OutOfFuel \/ r = r'.
Lemma le_res_refl {A} (r : res A) : le_res r r. Proof. right; reflexivity. Qed.
Lemma bind_le {A B} (r r' : res A) (f f' : A -> res B) : le_res r r' -> (forall a, le_res (f a) (f' a)) -> le_res (bind r f) (bind r' f').
Proof. intros [->| ->] H. left; reflexivity. destruct r'; simpl; auto. right; reflexivity. Qed.
Lemma stable : forall n,
  (forall p ts m, n <= m -> le_res (parse_prec n p ts) (parse_prec m p ts)) /\
  (forall p l ts m, n <= m -> le_res (loop n p l ts) (loop m p l ts)) /\
  (forall e ts acc m, n <= m -> le_res (elist n e ts acc) (elist m e ts acc)).
Proof.
  induction n as [|n (IHp & IHl & IHe)].
  - repeat split; intros; left; reflexivity.
  - repeat split.
    + intros p ts m Hm. destruct m as [|m]; [lia|]. assert (Hnm : n <= m) by lia. cbn [parse_prec].
      destruct ts as [|t ts1]; [apply le_res_refl|].
      apply bind_le; [|intros; apply IHl; auto].
      destruct t; try apply le_res_refl.
      * destruct ts1; [apply le_res_refl|]. apply bind_le; [apply IHp; auto|intros; apply le_res_refl].
      * apply bind_le; [apply IHe; auto|intros; apply le_res_refl].
      * destruct b; try apply le_res_refl. apply bind_le; [apply IHp; auto|intros; apply le_res_refl].
      * apply bind_le; [apply IHp; auto|intros; apply le_res_refl].
    + intros p l ts m Hm. destruct m as [|m]; [lia|]. assert (Hnm : n <= m) by lia. cbn [loop].
      destruct ts as [|t ts1]; [apply le_res_refl|]. destruct (ple p (tprec t)); [|apply le_res_refl].
      destruct t; try apply le_res_refl.
      * destruct l; try apply le_res_refl. apply bind_le; [apply IHe; auto|intros; apply IHl; auto].
      * apply bind_le; [apply IHp; auto|intros; apply IHl; auto].
    + intros e ts acc m Hm. destruct m as [|m]; [lia|]. assert (Hnm : n <= m) by lia. cbn [elist].
      destruct ts as [|t ts1]; [apply le_res_refl|]. destruct (is_end e t); [apply le_res_refl|].
      apply bind_le; [apply IHp; auto|intros; apply IHe; auto].
Qed.

Definition compile (ts:list token) : res expr :=
  r <- parse_prec (2 * length ts + 2) POr ts ;; match snd r with [] => Ok (fst r) | t :: _ => Er (Multiple t) end.
Theorem render_then_parse_ev t e ts : Renders t e ts -> ev (fun n => parse_prec n POr ts) (e, []).
Proof.
  intros R. destruct parse_render_all as [H _]. specialize (H t e ts R POr [] (e, [])).
  rewrite app_nil_r in H. apply H; auto using ple_refl. { eapply top_ge_or; eauto. } { simpl; auto. } { exists 1. reflexivity. }
Qed.
Print Assumptions render_then_parse_ev.
Theorem C07_parse_total ts : nofuel (compile ts).
Proof. unfold compile. apply bind_nofuel. apply (proj1 (total _)). lia. intros r _. destruct (snd r); discriminate. Qed.
(* stability: a non-OutOfFuel answer is the answer for every larger fuel; with C07 this gives the closed-form fuel for C01 *)
Theorem C01_render_then_compile t e ts : Renders t e ts -> compile ts = Ok e.
Proof.
  intros R. destruct (render_then_parse_ev t e ts R) as [n Hn]. unfold compile.
  set (N := 2 * length ts + 2).
  pose proof (proj2 (proj1 (total N) POr ts) ltac:(unfold N; lia)) as NF.
  assert (E : parse_prec N POr ts = Ok (e, [])).
  { destruct (Nat.le_ge_cases n N) as [Lle|Lle].
    - eapply mono_p; eauto.
    - destruct (proj1 (stable N) POr ts n Lle) as [F|F]. contradiction. rewrite F. exact Hn. }
  rewrite E. reflexivity.
Qed.
Print Assumptions C01_render_then_compile.
Print Assumptions C07_parse_total.

(* =================== rendering functions: every tree has a minimal and a fully parenthesised rendering =================== *)
Section EInd.
  Variable P : expr -> Prop.
  Hypothesis Hun : forall o r, P r -> P (EUn o r).
  Hypothesis Hbin : forall o l r, P l -> P r -> P (EBin o l r).
  Hypothesis Harr : forall es, Forall P es -> P (EArr es).
  Hypothesis Hlit : forall v, P (ELit v).
  Hypothesis Hvar : forall n, P (EVar n).
  Hypothesis Hcall : forall n ps, Forall P ps -> P (ECall n ps).
  Fixpoint pexpr_ind' (e:expr) : P e :=
    match e with
    | EUn o r => Hun o r (pexpr_ind' r)
    | EBin o l r => Hbin o l r (pexpr_ind' l) (pexpr_ind' r)
    | EArr es => Harr es ((fix go (l:list expr) : Forall P l := match l with [] => Forall_nil _ | x::t => Forall_cons x (pexpr_ind' x) (go t) end) es)
    | ELit v => Hlit v | EVar n => Hvar n
    | ECall n ps => Hcall n ps ((fix go (l:list expr) : Forall P l := match l with [] => Forall_nil _ | x::t => Forall_cons x (pexpr_ind' x) (go t) end) ps)
    end.
End EInd.
Definition eprec (e:expr) : prec := match e with EBin b _ _ => bprec b | EUn _ _ => PUnary | _ => PPrimary end.
Definition paren_if (b:bool) (ts:list token) : list token := if b then LParen :: ts ++ [RParen] else ts.
Fixpoint commas (tss:list (list token)) : list token :=
  match tss with [] => [] | [x] => x | x :: rest => x ++ Comma :: commas rest end.
(* only the parentheses the documented precedence order and left-associativity require *)
Fixpoint render_min (e:expr) : list token :=
  match e with
  | ELit n => [TLit n] | EVar n => [TId n]
  | EUn o r => untok o :: paren_if (negb (ple PUnary (eprec r))) (render_min r)
  | EBin b l r => paren_if (negb (ple (bprec b) (eprec l))) (render_min l) ++ TBin b :: paren_if (negb (ple (pnext (bprec b)) (eprec r))) (render_min r)
  | EArr es => LBracket :: commas (map render_min es) ++ [RBracket]
  | ECall f es => TId f :: LParen :: commas (map render_min es) ++ [RParen]
  end.
(* every operator application parenthesised *)
Fixpoint render_full (e:expr) : list token :=
  match e with
  | ELit n => [TLit n] | EVar n => [TId n]
  | EUn o r => LParen :: (untok o :: render_full r) ++ [RParen]
  | EBin b l r => LParen :: (render_full l ++ TBin b :: render_full r) ++ [RParen]
  | EArr es => LBracket :: commas (map render_full es) ++ [RBracket]
  | ECall f es => TId f :: LParen :: commas (map render_full es) ++ [RParen]
  end.
Lemma paren_renders t e ts q : Renders t e ts -> exists t', Renders t' e (paren_if (negb (ple q t)) ts) /\ ple q t' = true.
Proof.
  intros R. unfold paren_if. destruct (ple q t) eqn:E; cbn [negb].
  - exists t. auto.
  - exists PPrimary. split. apply R_paren with t. exact R. destruct q; reflexivity.
Qed.
Lemma renders_list (f:expr -> list token) es : Forall (fun e => exists t, Renders t e (f e)) es -> RendersList es (commas (map f es)).
Proof.
  induction 1 as [|x t [tx Hx] Ht IH]; cbn [map commas]. constructor.
  destruct t as [|y t']. cbn [map]. eapply RL_one; eauto.
  cbn [map] in *. eapply RL_cons; eauto.
Qed.
Theorem render_min_renders : forall e, Renders (eprec e) e (render_min e).
Proof.
  induction e using pexpr_ind'; cbn [render_min eprec].
  - destruct (paren_renders _ _ _ PUnary IHe) as (t' & R & L). eapply R_un; eauto.
  - destruct (paren_renders _ _ _ (bprec o) IHe1) as (tl & Rl & Ll). destruct (paren_renders _ _ _ (pnext (bprec o)) IHe2) as (tr & Rr & Lr). eapply R_bin; eauto.
  - apply R_arr. apply renders_list. eapply Forall_impl; [|exact H]. intros a Ha. eexists; exact Ha.
  - constructor.
  - constructor.
  - apply R_call. apply renders_list. eapply Forall_impl; [|exact H]. intros a Ha. eexists; exact Ha.
Qed.
Theorem render_full_renders : forall e, Renders PPrimary e (render_full e).
Proof.
  induction e using pexpr_ind'; cbn [render_full].
  - apply R_paren with PUnary. apply R_un with PPrimary; [reflexivity|exact IHe].
  - apply R_paren with (bprec o). apply R_bin with PPrimary PPrimary; auto; destruct o; reflexivity.
  - apply R_arr. apply renders_list. eapply Forall_impl; [|exact H]. intros a Ha. eexists; exact Ha.
  - constructor.
  - constructor.
  - apply R_call. apply renders_list. eapply Forall_impl; [|exact H]. intros a Ha. eexists; exact Ha.
Qed.
(* both directions of C01 at the token level: every tree, rendered either way, compiles back to itself; hence whenever compile
   accepts a token list, re-rendering its tree and compiling again reproduces the same tree *)
Theorem C01_render_functions_roundtrip : forall e, compile (render_min e) = Ok e /\ compile (render_full e) = Ok e.
Proof.
  intros e. split. eapply C01_render_then_compile. apply render_min_renders.
  eapply C01_render_then_compile. apply render_full_renders.
Qed.
Corollary C01_reparse : forall ts e, compile ts = Ok e -> compile (render_min e) = Ok e /\ compile (render_full e) = Ok e.
Proof. intros ts e _. apply C01_render_functions_roundtrip. Qed.
(* ---- the tokens that open a nested call ---- *)
Definition cntt (t:token) : nat := match t with LParen | LBracket | TNot | TBin Minus => 1 | _ => 0 end.
Fixpoint cnt (ts:list token) : nat := match ts with [] => 0 | t :: r => cntt t + cnt r end.
Lemma chomp_cnt e ts r : chomp e ts = Ok r -> cnt r <= cnt ts.
Proof. destruct ts as [|x t]; cbn; [discriminate|]. destruct (is_end e x); [|discriminate]. intros H; injection H as ->. lia. Qed.
Lemma comma_cnt (s:list token) : cnt (match s with Comma :: s' => s' | s' => s' end) <= cnt s.
Proof. destruct s as [|c s']; [cbn; lia|]. destruct c; cbn; lia. Qed.

Lemma cnt_mono : forall n,
  (forall p ts x, parse_prec n p ts = Ok x -> cnt (snd x) <= cnt ts) /\
  (forall p l ts x, loop n p l ts = Ok x -> cnt (snd x) <= cnt ts) /\
  (forall e ts acc x, elist n e ts acc = Ok x -> cnt (snd x) <= cnt ts).
Proof.
  induction n as [|n (IHp & IHl & IHe)].
  - repeat split; intros; cbn in *; discriminate.
  - repeat split.
    + intros p ts x H. cbn [parse_prec] in H. destruct ts as [|t ts1]; [discriminate|].
      match type of H with bind ?pr _ = _ => destruct pr as [pr0|] eqn:E; [|discriminate] end. cbn [bind] in H. apply IHl in H.
      assert (cnt (snd pr0) <= cnt ts1).
      { destruct t; try discriminate.
        - destruct ts1 as [|t2 ts2]; [discriminate|]. destruct (parse_prec n POr (t2 :: ts2)) as [r|] eqn:E1; cbn [bind] in E; [|discriminate].
          destruct (chomp RParen (snd r)) as [s2|] eqn:C; [|discriminate]. cbn [bind] in E. injection E as <-. cbn [snd]. apply IHp in E1. apply chomp_cnt in C. lia.
        - destruct (elist n RBracket ts1 []) as [r|] eqn:E1; cbn [bind] in E; [|discriminate]. injection E as <-. cbn [snd]. apply IHe in E1. exact E1.
        - destruct b; try discriminate. destruct (parse_prec n PUnary ts1) as [r|] eqn:E1; cbn [bind] in E; [|discriminate]. injection E as <-. cbn [snd]. apply IHp in E1. exact E1.
        - destruct (parse_prec n PUnary ts1) as [r|] eqn:E1; cbn [bind] in E; [|discriminate]. injection E as <-. cbn [snd]. apply IHp in E1. exact E1.
        - injection E as <-. cbn [snd]. lia.
        - injection E as <-. cbn [snd]. lia. }
      cbn [cnt]. lia.
    + intros p l ts x H. cbn [loop] in H. destruct ts as [|t ts1]; [injection H as <-; cbn; lia|].
      destruct (ple p (tprec t)); [|injection H as <-; cbn [snd]; lia]. destruct t; try discriminate.
      * destruct l; try discriminate. destruct (elist n RParen ts1 []) as [r|] eqn:E; [|discriminate]. cbn [bind] in H. apply IHe in E. apply IHl in H. cbn [cnt]. lia.
      * destruct (parse_prec n (pnext (bprec b)) ts1) as [r|] eqn:E; [|discriminate]. cbn [bind] in H. apply IHp in E. apply IHl in H. cbn [cnt]. lia.
    + intros e ts acc x H. cbn [elist] in H. destruct ts as [|t ts1]; [discriminate|]. destruct (is_end e t).
      * destruct (chomp e (t :: ts1)) as [s|] eqn:C; [|discriminate]. cbn [bind] in H. injection H as <-. cbn [snd]. apply chomp_cnt in C. exact C.
      * destruct (parse_prec n POr (t :: ts1)) as [r|] eqn:E; [|discriminate]. cbn [bind] in H. apply IHp in E. apply IHe in H. destruct (snd r) as [|c s']; [cbn [cnt] in *; lia|]. destruct c; cbn [cnt cntt] in *; lia.
Qed.
(* the tree is no larger than the token list: every node is paid for by a token of its own *)
Fixpoint nodes (e:expr) : nat :=
  match e with ELit _ | EVar _ => 1 | EUn _ r => S (nodes r) | EBin _ l r => S (nodes l + nodes r)
  | EArr es => S ((fix go (l:list expr) : nat := match l with [] => 0 | x :: t => nodes x + go t end) es)
  | ECall _ ps => S ((fix go (l:list expr) : nat := match l with [] => 0 | x :: t => nodes x + go t end) ps) end.
Fixpoint nodes_l (l:list expr) : nat := match l with [] => 0 | x :: t => nodes x + nodes_l t end.
Lemma nodes_fix es : (fix go (l:list expr) : nat := match l with [] => 0 | x :: t => nodes x + go t end) es = nodes_l es.
Proof. induction es as [|x t IH]; [reflexivity|]. cbn [nodes_l]. rewrite <- IH. reflexivity. Qed.
Lemma nodes_arr es : nodes (EArr es) = S (nodes_l es). Proof. cbn [nodes]. rewrite nodes_fix. reflexivity. Qed.
Lemma nodes_call g ps : nodes (ECall g ps) = S (nodes_l ps). Proof. cbn [nodes]. rewrite nodes_fix. reflexivity. Qed.
Lemma nodes_l_app a b : nodes_l (a ++ b) = nodes_l a + nodes_l b. Proof. induction a as [|x t IH]; [reflexivity|]. cbn [app nodes_l]. rewrite IH. lia. Qed.
Lemma nodes_l_rev l : nodes_l (rev l) = nodes_l l. Proof. induction l as [|x t IH]; [reflexivity|]. cbn [rev]. rewrite nodes_l_app, IH. cbn [nodes_l]. lia. Qed.
Lemma comma_len (s:list token) : length (match s with Comma :: s' => s' | s' => s' end) <= length s.
Proof. destruct s as [|c s']; [cbn; lia|]. destruct c; cbn; lia. Qed.
Lemma nodes_bound : forall n,
  (forall p ts x, parse_prec n p ts = Ok x -> nodes (fst x) + length (snd x) <= length ts) /\
  (forall p l ts x, loop n p l ts = Ok x -> nodes (fst x) + length (snd x) <= nodes l + length ts) /\
  (forall e ts acc x, elist n e ts acc = Ok x -> nodes_l (fst x) + length (snd x) <= nodes_l acc + length ts).
Proof.
  induction n as [|n (IHp & IHl & IHe)].
  - repeat split; intros; cbn in *; discriminate.
  - repeat split.
    + intros p ts x H. cbn [parse_prec] in H. destruct ts as [|t ts1]; [discriminate|].
      match type of H with bind ?pr _ = _ => destruct pr as [pr0|] eqn:E; [|discriminate] end. cbn [bind] in H. apply IHl in H.
      assert (nodes (fst pr0) + length (snd pr0) <= S (length ts1)).
      { destruct t; try discriminate.
        - destruct ts1 as [|t2 ts2]; [discriminate|]. destruct (parse_prec n POr (t2 :: ts2)) as [r|] eqn:E1; cbn [bind] in E; [|discriminate].
          destruct (chomp RParen (snd r)) as [s2|] eqn:C; [|discriminate]. cbn [bind] in E. injection E as <-. cbn [fst snd]. apply IHp in E1. apply chomp_len in C. lia.
        - destruct (elist n RBracket ts1 []) as [r|] eqn:E1; cbn [bind] in E; [|discriminate]. injection E as <-. cbn [fst snd]. rewrite nodes_arr. apply IHe in E1. cbn [nodes_l] in E1. lia.
        - destruct b; try discriminate. destruct (parse_prec n PUnary ts1) as [r|] eqn:E1; cbn [bind] in E; [|discriminate]. injection E as <-. cbn [fst snd nodes]. apply IHp in E1. lia.
        - destruct (parse_prec n PUnary ts1) as [r|] eqn:E1; cbn [bind] in E; [|discriminate]. injection E as <-. cbn [fst snd nodes]. apply IHp in E1. lia.
        - injection E as <-. cbn [fst snd nodes]. lia.
        - injection E as <-. cbn [fst snd nodes]. lia. }
      cbn [length]. lia.
    + intros p l ts x H. cbn [loop] in H. destruct ts as [|t ts1]; [injection H as <-; cbn [fst snd]; lia|].
      destruct (ple p (tprec t)); [|injection H as <-; cbn [fst snd]; lia]. destruct t; try discriminate.
      * destruct l; try discriminate. destruct (elist n RParen ts1 []) as [r|] eqn:E; [|discriminate]. cbn [bind] in H. apply IHe in E. apply IHl in H. rewrite nodes_call in H. cbn [nodes_l nodes length] in *. lia.
      * destruct (parse_prec n (pnext (bprec b)) ts1) as [r|] eqn:E; [|discriminate]. cbn [bind] in H. apply IHp in E. apply IHl in H. cbn [nodes length] in *. lia.
    + intros e ts acc x H. cbn [elist] in H. destruct ts as [|t ts1]; [discriminate|]. destruct (is_end e t).
      * destruct (chomp e (t :: ts1)) as [s|] eqn:C; [|discriminate]. cbn [bind] in H. injection H as <-. cbn [fst snd]. rewrite nodes_l_rev. apply chomp_len in C. lia.
      * destruct (parse_prec n POr (t :: ts1)) as [r|] eqn:E; [|discriminate]. cbn [bind] in H. apply IHp in E. apply IHe in H. cbn [nodes_l] in H. destruct (snd r) as [|c s']; [cbn [length] in *; lia|]. destruct c; cbn [length] in *; lia.
Qed.
End Pratt.
Arguments LParen {LitT IdT}. Arguments RParen {LitT IdT}. Arguments LBracket {LitT IdT}. Arguments RBracket {LitT IdT}. Arguments Comma {LitT IdT}.
Arguments TBin {LitT IdT}. Arguments TNot {LitT IdT}. Arguments TLit {LitT IdT}. Arguments TId {LitT IdT}.
Arguments EUn {LitT IdT}. Arguments EBin {LitT IdT}. Arguments EArr {LitT IdT}. Arguments ELit {LitT IdT}. Arguments EVar {LitT IdT}. Arguments ECall {LitT IdT}.
Arguments Ok {LitT IdT A}. Arguments Er {LitT IdT A}.
Arguments Eof {LitT IdT}. Arguments NoPrefix {LitT IdT}. Arguments NoInfix {LitT IdT}. Arguments CallNotVar {LitT IdT}. Arguments Invalid {LitT IdT}. Arguments Multiple {LitT IdT}. Arguments OutOfFuel {LitT IdT}.
