(* Recursion depth of the parser. parse_d / loop_d / elist_d are parse_prec / loop / elist of Pratt.v with a second budget that is decremented exactly where the Rust parser makes a
   nested call (prefix handler -> parse_precedence, binary -> parse_precedence, call/array -> expression) and NOT where it iterates (the infix loop, the element loop).
   They answer None when the budget is exhausted. Two theorems: whenever they answer, it is the answer of the plain parser; and a budget of 10 + 12 * (number of '(' '[' 'not' '-' tokens)
   is never exhausted - whatever the length of the input. *)
Require Import List Arith Bool Lia. Import ListNotations.
Require Import Pratt.
Section Depth.
Variables LitT IdT : Type.
Notation token := (token LitT IdT).
Notation expr := (expr LitT IdT).
Notation res := (res LitT IdT).
Notation parse_prec := (parse_prec LitT IdT).
Notation loop := (loop LitT IdT).
Notation elist := (elist LitT IdT).
Notation chomp := (chomp LitT IdT).
Notation is_end := (is_end LitT IdT).
Notation tprec := (tprec LitT IdT).
Notation cnt := (Pratt.cnt LitT IdT).
Notation cntt := (Pratt.cntt LitT IdT).
Notation bind := (@Pratt.bind LitT IdT _ _).

Definition dres (A:Type) := option (res A).
Definition dbind {A B} (r:dres A) (f:A -> dres B) : dres B := match r with None => None | Some (Ok a) => f a | Some (Er e) => Some (Er e) end.

Fixpoint parse_d (fuel d:nat) (p:prec) (ts:list token) {struct fuel} : dres (expr * list token) :=
  match fuel with O => Some (Er OutOfFuel) | S f =>
  match ts with [] => Some (Er Eof) | t :: ts1 =>
    dbind (match t with
      | TLit n => Some (Ok (ELit n, ts1))
      | TId n => Some (Ok (EVar n, ts1))
      | LParen => match ts1 with [] => Some (Er Eof) | _ => match d with O => None | S d' => dbind (parse_d f d' POr ts1) (fun r => dbind (Some (chomp RParen (snd r))) (fun s2 => Some (Ok (fst r, s2)))) end end
      | LBracket => match d with O => None | S d' => dbind (elist_d f d' RBracket ts1 []) (fun r => Some (Ok (EArr (fst r), snd r))) end
      | TNot => match d with O => None | S d' => dbind (parse_d f d' PUnary ts1) (fun r => Some (Ok (EUn UNot (fst r), snd r))) end
      | TBin Minus => match d with O => None | S d' => dbind (parse_d f d' PUnary ts1) (fun r => Some (Ok (EUn UNeg (fst r), snd r))) end
      | _ => Some (Er (NoPrefix t)) end)
    (fun pr => loop_d f d p (fst pr) (snd pr))
  end end
with loop_d (fuel d:nat) (p:prec) (left:expr) (ts:list token) {struct fuel} : dres (expr * list token) :=
  match fuel with O => Some (Er OutOfFuel) | S f =>
  match ts with
  | t :: ts1 => if ple p (tprec t) then
       match t with
       | TBin b => match d with O => None | S d' => dbind (parse_d f d' (pnext (bprec b)) ts1) (fun r => loop_d f d p (EBin b left (fst r)) (snd r)) end
       | LParen => match left with EVar g => match d with O => None | S d' => dbind (elist_d f d' RParen ts1 []) (fun r => loop_d f d p (ECall g (fst r)) (snd r)) end | _ => Some (Er CallNotVar) end
       | _ => Some (Er NoInfix) end
     else Some (Ok (left, ts))
  | [] => Some (Ok (left, ts)) end end
with elist_d (fuel d:nat) (endt:token) (ts:list token) (acc:list expr) {struct fuel} : dres (list expr * list token) :=
  match fuel with O => Some (Er OutOfFuel) | S f =>
  match ts with
  | x :: _ => if is_end endt x then dbind (Some (chomp endt ts)) (fun s => Some (Ok (rev acc, s)))
              else match d with O => None | S d' =>
                   dbind (parse_d f d' POr ts) (fun r =>
                   let s2 := match snd r with Comma :: s' => s' | s' => s' end in
                   elist_d f d endt s2 (fst r :: acc)) end
  | [] => Some (Er Eof) end end.

Definition compile_d (d:nat) (ts:list token) : dres expr :=
  dbind (parse_d (2 * length ts + 2) d POr ts) (fun r => match snd r with [] => Some (Ok (fst r)) | t :: _ => Some (Er (Multiple t)) end).

(* ---- whenever the budgeted parser answers, it is the answer of the parser ---- *)
Lemma dbind_agree {A B} (rd:dres A) (r:res A) (fd:A -> dres B) (f:A -> res B) x :
  (forall y, rd = Some y -> y = r) -> (forall a y, fd a = Some y -> y = f a) -> dbind rd fd = Some x -> x = bind r f.
Proof.
  intros H1 H2 H. destruct rd as [[a|e]|]; cbn [dbind] in H; [|injection H as <-|discriminate].
  - rewrite <- (H1 _ eq_refl). cbn [Pratt.bind]. apply H2, H.
  - rewrite <- (H1 _ eq_refl). reflexivity.
Qed.
Lemma some_agree {A} (r y:res A) : Some r = Some y -> y = r. Proof. congruence. Qed.

Lemma agree : forall n,
  (forall d p ts r, parse_d n d p ts = Some r -> r = parse_prec n p ts) /\
  (forall d p l ts r, loop_d n d p l ts = Some r -> r = loop n p l ts) /\
  (forall d e ts acc r, elist_d n d e ts acc = Some r -> r = elist n e ts acc).
Proof.
  induction n as [|n (IHp & IHl & IHe)].
  - repeat split; intros; cbn in *; congruence.
  - repeat split.
    + intros d p ts r H. cbn [parse_d] in H. cbn [Pratt.parse_prec]. destruct ts as [|t ts1]; [congruence|].
      eapply dbind_agree; [| |exact H]; [|intros a y Hy; eapply IHl, Hy].
      intros y Hy. destruct t; try (apply some_agree; exact Hy).
      * destruct ts1 as [|t2 ts2]; [apply some_agree; exact Hy|]. destruct d as [|d']; [discriminate|].
        eapply dbind_agree; [| |exact Hy]; [intros z Hz; eapply IHp, Hz|]. intros a z Hz.
        eapply dbind_agree; [| |exact Hz]; [apply some_agree|]. intros a0 z0 Hz0. apply some_agree in Hz0. exact Hz0.
      * destruct d as [|d']; [discriminate|]. eapply dbind_agree; [| |exact Hy]; [intros z Hz; eapply IHe, Hz|]. intros a z Hz. apply some_agree in Hz. exact Hz.
      * destruct b; try (apply some_agree; exact Hy). destruct d as [|d']; [discriminate|].
        eapply dbind_agree; [| |exact Hy]; [intros z Hz; eapply IHp, Hz|]. intros a z Hz. apply some_agree in Hz. exact Hz.
      * destruct d as [|d']; [discriminate|]. eapply dbind_agree; [| |exact Hy]; [intros z Hz; eapply IHp, Hz|]. intros a z Hz. apply some_agree in Hz. exact Hz.
    + intros d p l ts r H. cbn [loop_d] in H. cbn [Pratt.loop]. destruct ts as [|t ts1]; [congruence|].
      destruct (ple p (tprec t)); [|congruence]. destruct t; try congruence.
      * destruct l; try congruence. destruct d as [|d']; [discriminate|].
        eapply dbind_agree; [| |exact H]; [intros z Hz; eapply IHe, Hz|]. intros a z Hz. eapply IHl, Hz.
      * destruct d as [|d']; [discriminate|]. eapply dbind_agree; [| |exact H]; [intros z Hz; eapply IHp, Hz|]. intros a z Hz. eapply IHl, Hz.
    + intros d e ts acc r H. cbn [elist_d] in H. cbn [Pratt.elist]. destruct ts as [|t ts1]; [congruence|].
      destruct (is_end e t).
      * eapply dbind_agree; [| |exact H]; [apply some_agree|]. intros a z Hz. apply some_agree in Hz. exact Hz.
      * destruct d as [|d']; [discriminate|]. eapply dbind_agree; [| |exact H]; [intros z Hz; eapply IHp, Hz|]. intros a z Hz. eapply IHe, Hz.
Qed.
Theorem compile_d_agrees d ts r : compile_d d ts = Some r -> r = compile LitT IdT ts.
Proof.
  unfold compile_d, compile. intros H. eapply dbind_agree; [| |exact H]; [intros y Hy; eapply (proj1 (agree _)), Hy|].
  intros a y Hy. cbv beta in Hy |- *. destruct (snd a); apply some_agree in Hy; exact Hy.
Qed.

Lemma parse_d_cnt n d p ts x : parse_d n d p ts = Some (Ok x) -> cnt (snd x) <= cnt ts.
Proof. intros H. apply (proj1 (agree n)) in H. symmetry in H. apply (proj1 (cnt_mono LitT IdT n)) in H. exact H. Qed.
Lemma elist_d_cnt n d e ts acc x : elist_d n d e ts acc = Some (Ok x) -> cnt (snd x) <= cnt ts.
Proof. intros H. apply (proj2 (proj2 (agree n))) in H. symmetry in H. apply (proj2 (proj2 (cnt_mono LitT IdT n))) in H. exact H. Qed.

(* ---- the budget that is never exhausted ---- *)
Lemma dbind_some {A B} (rd:dres A) (fd:A -> dres B) : rd <> None -> (forall a, rd = Some (Ok a) -> fd a <> None) -> dbind rd fd <> None.
Proof. intros H1 H2. destruct rd as [[a|e]|]; cbn [dbind]; [apply H2; reflexivity | discriminate | congruence]. Qed.
Lemma rank_le p : rank p <= 10. Proof. destruct p; cbn; lia. Qed.
Lemma rank_next b : rank (pnext (bprec b)) = S (rank (bprec b)). Proof. destruct b; reflexivity. Qed.

Lemma deep_enough : forall n,
  (forall d p ts, 11 - rank p + 12 * cnt ts <= d -> parse_d n d p ts <> None) /\
  (forall d p l ts, 11 - rank p + 12 * cnt ts <= d -> loop_d n d p l ts <> None) /\
  (forall d e ts acc, 12 + 12 * cnt ts <= d -> elist_d n d e ts acc <> None).
Proof.
  induction n as [|n (IHp & IHl & IHe)].
  - repeat split; intros; cbn; discriminate.
  - repeat split.
    + intros d p ts Hd. cbn [parse_d]. destruct ts as [|t ts1]; [discriminate|]. pose proof (rank_le p) as Rp. cbn [cnt] in Hd.
      apply dbind_some.
      * destruct t; try discriminate.
        -- destruct ts1 as [|t2 ts2]; [discriminate|]. cbn [cntt] in Hd. destruct d as [|d']; [lia|].
           apply dbind_some; [apply IHp; cbn [rank]; lia|]. intros a _. apply dbind_some; [discriminate|]. intros; discriminate.
        -- cbn [cntt] in Hd. destruct d as [|d']; [lia|]. apply dbind_some; [apply IHe; lia|]. intros; discriminate.
        -- destruct b; try discriminate. cbn [cntt] in Hd. destruct d as [|d']; [lia|]. apply dbind_some; [apply IHp; cbn [rank]; lia|]. intros; discriminate.
        -- cbn [cntt] in Hd. destruct d as [|d']; [lia|]. apply dbind_some; [apply IHp; cbn [rank]; lia|]. intros; discriminate.
      * intros pr E. apply IHl.
        assert (cnt (snd pr) <= cnt ts1).
        { destruct t; try discriminate.
          - destruct ts1 as [|t2 ts2]; [discriminate|]. destruct d as [|d']; [discriminate|].
            destruct (parse_d n d' POr (t2 :: ts2)) as [[r|]|] eqn:E1; cbn [dbind] in E; try discriminate.
            destruct (chomp RParen (snd r)) as [s2|] eqn:C; cbn [dbind] in E; [|discriminate]. injection E as <-. cbn [snd]. apply parse_d_cnt in E1. apply (chomp_cnt LitT IdT) in C. lia.
          - destruct d as [|d']; [discriminate|]. destruct (elist_d n d' RBracket ts1 []) as [[r|]|] eqn:E1; cbn [dbind] in E; try discriminate. injection E as <-. cbn [snd]. apply elist_d_cnt in E1. exact E1.
          - destruct b; try discriminate. destruct d as [|d']; [discriminate|]. destruct (parse_d n d' PUnary ts1) as [[r|]|] eqn:E1; cbn [dbind] in E; try discriminate. injection E as <-. cbn [snd]. apply parse_d_cnt in E1. exact E1.
          - destruct d as [|d']; [discriminate|]. destruct (parse_d n d' PUnary ts1) as [[r|]|] eqn:E1; cbn [dbind] in E; try discriminate. injection E as <-. cbn [snd]. apply parse_d_cnt in E1. exact E1.
          - injection E as <-. cbn [snd]. lia.
          - injection E as <-. cbn [snd]. lia. }
        lia.
    + intros d p l ts Hd. cbn [loop_d]. destruct ts as [|t ts1]; [discriminate|]. pose proof (rank_le p) as Rp. cbn [cnt] in Hd.
      destruct (ple p (tprec t)) eqn:Pl; [|discriminate]. destruct t; try discriminate.
      * (* call *) destruct l; try discriminate. cbn [cntt] in Hd. unfold ple in Pl. cbn [Pratt.tprec rank] in Pl. apply Nat.leb_le in Pl.
        destruct d as [|d']; [lia|]. apply dbind_some; [apply IHe; lia|]. intros a E. apply IHl. apply elist_d_cnt in E. lia.
      * (* binary *) unfold ple in Pl. cbn [Pratt.tprec] in Pl. apply Nat.leb_le in Pl. destruct d as [|d']; [lia|].
        apply dbind_some; [apply IHp; rewrite rank_next; lia|]. intros a E. apply IHl. apply parse_d_cnt in E. lia.
    + intros d e ts acc Hd. cbn [elist_d]. destruct ts as [|t ts1]; [discriminate|]. destruct (is_end e t).
      * apply dbind_some; [discriminate|]. intros; discriminate.
      * destruct d as [|d']; [lia|]. apply dbind_some; [apply IHp; cbn [rank]; lia|]. intros a E. apply IHe. apply parse_d_cnt in E. cbv zeta. destruct (snd a) as [|c s']; [cbn [Pratt.cnt] in *; lia|]. destruct c; cbn [Pratt.cnt Pratt.cntt] in *; lia.
Qed.

(* a budget of 10 + 12 * (number of '(' '[' 'not' '-' tokens) nested calls is enough for every token list, of any length; and then the budgeted parser IS the parser *)
Theorem depth_bounded_by_nesting_tokens ts d : 10 + 12 * cnt ts <= d -> compile_d d ts = Some (compile LitT IdT ts).
Proof.
  intros Hd. destruct (compile_d d ts) as [r|] eqn:E; [f_equal; eapply compile_d_agrees, E|]. exfalso. revert E. unfold compile_d.
  apply dbind_some; [apply (proj1 (deep_enough _)); cbn [rank]; lia|]. intros a _. destruct (snd a); discriminate.
Qed.
(* in particular: a flat chain of operands and binary operators, however long, is parsed within 10 nested calls *)
Corollary flat_input_constant_depth ts : cnt ts = 0 -> compile_d 10 ts = Some (compile LitT IdT ts).
Proof. intros H. apply depth_bounded_by_nesting_tokens. lia. Qed.
End Depth.
