(* C05 / C06: the generic optimizer theorems transported to the extracted, traced optimizer optimize_t *)
Require Import ZArith NArith Bool List Arith Lia. Import ListNotations.
Require Import F64 Dec Types Generic Lang Opt IO.
Definition call_no_undef (E:env) := forall f vs n, call E f vs <> Er (Undefined n).
Definition std_if_then_env (E:env) := forall c a b v, call E if_then_name [c;a;b] = Ok v -> exists cb, c = VBool cb /\ v = if cb then a else b.
Definition vars_defined (E:env) := Generic.vars_def E.
Definition no_if3 := Generic.no_if3.
Notation OOutOfFuel := Generic.OOutOfFuel.
Notation OOk := Generic.OOk.

Lemma value_preserved : forall E, call_no_undef E -> std_if_then_env E ->
  forall k e acc st e' tr v, vars_defined E e = true -> fst (eval_t E e) = Ok v -> optimize_t E k e acc = (st, e', tr) -> fst (eval_t E e') = Ok v.
Proof.
  intros E Hc Hi k e acc st e' tr v Hv He Ho. rewrite eval_t_fst in *. unfold eval in *.
  pose proof (optimize_erase E k e acc) as X. rewrite Ho in X.
  eapply (Generic.C05_value as_bool is_empty un binop E un_no_undef binop_no_undef Hc as_bool_vbool Hi k e Hv He). symmetry. exact X.
Qed.
Lemma result_preserved : forall E k e acc st e' tr, no_if3 e = true -> optimize_t E k e acc = (st, e', tr) -> fst (eval_t E e') = fst (eval_t E e) /\ no_if3 e' = true.
Proof.
  intros E k e acc st e' tr Hn Ho. rewrite !eval_t_fst. unfold eval.
  pose proof (optimize_erase E k e acc) as X. rewrite Ho in X.
  symmetry in X. exact (Generic.C05_exact as_bool is_empty un binop E k e Hn X).
Qed.
Lemma fold_preserves_result : forall E e, fst (eval_t E (snd (fst (fst (fold_t E e))))) = fst (eval_t E e).
Proof.
  intros E e. rewrite !eval_t_fst. unfold eval. pose proof (fold_erase E e) as X. unfold erase in X.
  destruct (fold_t E e) as [[[st e'] f] tr]. cbn [fst snd]. unfold fold_g in X.
  pose proof (Generic.fold_exact as_bool is_empty un binop E e) as Y. rewrite <- X in Y. exact Y.
Qed.
Lemma terminates : forall E k e acc, (Generic.measure e < k)%nat -> fst (fst (optimize_t E k e acc)) <> OOutOfFuel.
Proof.
  intros E k e acc Hm. pose proof (optimize_erase E k e acc) as X. destruct (optimize_t E k e acc) as [[st e'] tr]. simpl.
  pose proof (Generic.C06_terminates as_bool is_empty un binop E e Hm) as T. rewrite <- X in T. exact T.
Qed.
Lemma terminates_closed_fuel : forall E e acc, fst (fst (optimize_t E (opt_fuel e) e acc)) <> OOutOfFuel.
Proof. intros. apply terminates. unfold opt_fuel. lia. Qed.
Lemma fixpoint : forall E k e acc e' tr, optimize_t E k e acc = (OOk, e', tr) ->
  Generic.tt e' = (e', false) /\ erase (fold_t E e') = (Generic.SOk, e', false).
Proof.
  intros E k e acc e' tr Ho. pose proof (optimize_erase E k e acc) as X. rewrite Ho in X. symmetry in X.
  destruct (Generic.C06_fixpoint as_bool is_empty un binop E k e X) as [A B]. split; auto. rewrite fold_erase. exact B.
Qed.
Lemma idempotent : forall E k e acc e' tr j acc', optimize_t E k e acc = (OOk, e', tr) -> fst (optimize_t E (S j) e' acc') = (OOk, e').
Proof.
  intros E k e acc e' tr j acc' Ho. destruct (fixpoint _ _ _ _ _ _ Ho) as [A B].
  cbn [optimize_t]. rewrite A. unfold erase in B. destruct (fold_t E e') as [[[st e2] f2] t2]. injection B as -> -> ->. reflexivity.
Qed.
