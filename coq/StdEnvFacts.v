(* the standard-library environment of the model is coherent: what the validator is told (var_exists, fn_exists) is what execution finds, and no builtin model ever answers
   "function not found" or "undefined variable". Hence C10's first clause holds for scripts validated against the standard library itself. *)
From Flocq Require Import Core BinarySingleNaN.
Require Import ZArith NArith Bool List Arith Lia. Import ListNotations.
Require Import F64 Dec Types Generic Lang Opt IO GenBuiltins Builtins Time Env Front ValidFacts ArityFacts StdEnv.

Ltac head3 :=
  lazymatch goal with
  | |- BOk _ <> _ => discriminate
  | |- num _ <> _ => discriminate
  | |- BUnmodelled <> _ => discriminate
  | |- BErr WrongParameterType <> _ => discriminate
  | |- BErr (WrongParameterCount _) <> _ => discriminate
  | |- BErr CustomError <> _ => discriminate
  | |- BErr IndexNegative <> _ => discriminate
  | |- BErr (IndexOutOfBounds _) <> _ => discriminate
  | |- BErr ?e <> _ =>
      match goal with
      | H : get_index _ = inr e |- _ => rewrite (get_index_err _ _ H); discriminate
      | H : get_string_index _ _ = inr e |- _ => destruct (get_string_index_err _ _ _ H) as [-> | [? ->]]; discriminate
      | H : to_ms _ = inr e |- _ => destruct (to_ms_err _ _ H) as [-> | ->]; discriminate
      end
  | |- (match ?x with _ => _ end) <> _ => destruct x eqn:?; head3
  end.
Lemma call_builtin_no_fnf off key vs m : call_builtin off key vs <> BErr (FunctionNotFound m).
Proof. unfold call_builtin. cbv zeta. Time head3. Qed.
Lemma call_time_no_fnf key vs m : call_time key vs <> BErr (FunctionNotFound m).
Proof. unfold call_time. cbv zeta. head3. Qed.
Theorem std_env_coherent off vars : env_coherent (std_env off vars).
Proof.
  split; [|split].
  - intros n H. cbn [var_exists var std_env] in *. destruct (lookup (fold_name n) vars); [discriminate|discriminate].
  - intros n k p vs m m' H _. cbn [fn_exists call std_env] in *. unfold std_call. destruct (find_builtin (fold_name n) gen_builtins) as [[a q]|]; [|discriminate].
    destruct (call_builtin off (fold_name n) vs) as [v|e|] eqn:B; [discriminate| |].
    + intros E. injection E as _ Ee. subst e. exact (call_builtin_no_fnf _ _ _ _ B).
    + destruct (call_time (fold_name n) vs) as [v|e|] eqn:T; [discriminate| |discriminate].
      intros E. injection E as _ Ee. subst e. exact (call_time_no_fnf _ _ _ T).
  - intros f vs n. cbn [call std_env]. unfold std_call. destruct (find_builtin _ _); [|discriminate].
    destruct (call_builtin off _ vs); try discriminate. destruct (call_time _ vs); discriminate.
Qed.
(* C10 for the standard library itself: a script the validator accepts against it never fails with an undefined variable or a function that is not found *)
Theorem validated_script_never_unresolved off vars e : check_names (std_env off vars) e = None -> ~ Generic.unresolved (fst (eval_t (std_env off vars) e)).
Proof. apply validated_never_unresolved, std_env_coherent. Qed.

(* C05 for the standard library itself: its if_then is the standard one and no builtin answers "undefined variable", so optimize preserves the value of every script whose variables are defined *)
Require Import OptFacts.
Lemma std_env_call_no_undef off vars : call_no_undef (std_env off vars).
Proof. exact (proj2 (proj2 (std_env_coherent off vars))). Qed.
Lemma std_env_if_then off vars : std_if_then_env (std_env off vars).
Proof.
  intros c a b v. cbn [call std_env]. unfold std_call.
  replace (find_builtin (fold_name if_then_name) gen_builtins) with (Some (GPoly 2 1, true)) by (vm_compute; reflexivity).
  replace (fold_name if_then_name) with if_then_name by (vm_compute; reflexivity).
  cbn [call_builtin leqb A map Z.to_N Pos.to_nat N.eqb Pos.eqb andb orb if_then_name].
  destruct c as [cb| | |]; try discriminate. intros H. injection H as <-. exists cb. split; [reflexivity|]. destruct cb; reflexivity.
Qed.
Theorem optimize_preserves_script_value off vars k e acc st e' tr v :
  vars_defined (std_env off vars) e = true -> fst (eval_t (std_env off vars) e) = Ok v -> optimize_t (std_env off vars) k e acc = (st, e', tr) -> fst (eval_t (std_env off vars) e') = Ok v.
Proof. apply value_preserved; [apply std_env_call_no_undef | apply std_env_if_then]. Qed.
