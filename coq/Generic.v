(* interpreter, optimizer and validators over abstract value operations; all theorems proved once here *)
Require Import List Arith Bool Lia NArith. Import ListNotations.
Require Import F64 Dec Types.
Set Implicit Arguments.
Section Lang.
Variable as_bool : value -> bool.
Variable is_empty : value -> bool.
Variable un : op -> value -> res value.
Variable binop : op -> value -> value -> res value.
Variable E : env.
Notation vbool := VBool (only parsing).
Notation varr := VArr (only parsing).
Notation name := (list N) (only parsing).
Notation if_then := if_then_name (only parsing).
Definition boolr (r : res value) : res value :=
  match r with Ok v => Ok (vbool (as_bool v)) | Er (Undefined _) => Ok (vbool false) | Er e => Er e end.
Definition is_cond o := match o with TernaryCondition => true | _ => false end.

Definition bin_combine (o:op) (rl rr : res value) : res value :=
      match o, rl with
      | And, Ok lv => if as_bool lv then boolr rr else Ok (vbool false)
      | And, Er (Undefined _) => Ok (vbool false)
      | Or, Ok lv => if as_bool lv then Ok (vbool true) else boolr rr
      | Or, Er (Undefined _) => boolr rr
      | _, Ok lv => match rr with
                    | Ok rv => binop o lv rv
                    | Er (Undefined n) => match o with Equal => Ok (vbool (is_empty lv)) | NotEqual => Ok (vbool (negb (is_empty lv))) | _ => Er (Undefined n) end
                    | Er e => Er e end
      | Equal, Er (Undefined _) => match rr with Ok rv => Ok (vbool (is_empty rv)) | Er (Undefined _) => Ok (vbool true) | Er e => Er e end
      | NotEqual, Er (Undefined _) => match rr with Ok rv => Ok (vbool (negb (is_empty rv))) | Er (Undefined _) => Ok (vbool false) | Er e => Er e end
      | _, Er e => Er e
      end.
Definition ter_combine (o:op) (rl rm rr : res value) : res value :=
  if is_cond o then match rl with Ok lv => if as_bool lv then rm else rr | Er e => Er e end else Er (InvalidTernary o).
Definition un_combine (o:op) (r : res value) : res value := match r with Ok v => un o v | Er e => Er e end.
Fixpoint eval (e:expr) : res value :=
  match e with
  | ELit v => Ok v
  | EVar n => match var E n with Some v => Ok v | None => Er (Undefined n) end
  | EArr es => match (fix go (l:list expr) : res (list value) := match l with [] => Ok [] | x::t => match eval x with Ok v => match go t with Ok vs => Ok (v::vs) | Er e => Er e end | Er e => Er e end end) es with Ok vs => Ok (varr vs) | Er e => Er e end
  | ECall n ps => match (fix go (l:list expr) : res (list value) := match l with [] => Ok [] | x::t => match eval x with Ok v => match go t with Ok vs => Ok (v::vs) | Er e => Er e end | Er e => Er e end end) ps with Ok vs => call E n vs | Er e => Er e end
  | EUn o r => un_combine o (eval r)
  | EBin o l r => bin_combine o (eval l) (eval r)
  | ETer o l m r => ter_combine o (eval l) (eval m) (eval r)
  end.
Fixpoint eval_list (l:list expr) : res (list value) :=
  match l with [] => Ok [] | x::t => match eval x with Ok v => match eval_list t with Ok vs => Ok (v::vs) | Er e => Er e end | Er e => Er e end end.
Lemma eval_arr es : eval (EArr es) = match eval_list es with Ok vs => Ok (varr vs) | Er e => Er e end.
Proof. simpl. match goal with |- match ?f es with _ => _ end = _ => assert (H: forall l, f l = eval_list l) by (induction l as [|x t IH]; simpl; [reflexivity | rewrite IH; reflexivity]); rewrite H end. reflexivity. Qed.
Lemma eval_call n ps : eval (ECall n ps) = match eval_list ps with Ok vs => call E n vs | Er e => Er e end.
Proof. simpl. match goal with |- match ?f ps with _ => _ end = _ => assert (H: forall l, f l = eval_list l) by (induction l as [|x t IH]; simpl; [reflexivity | rewrite IH; reflexivity]); rewrite H end. reflexivity. Qed.

(* ---------- optimizer ---------- *)
Definition is_lit e := match e with ELit _ => true | _ => false end.
Inductive status := SOk | SErr (e:err).

Fixpoint tt (e:expr) : expr * bool :=
  match e with
  | EUn o r => let '(r',f) := tt r in (EUn o r', f)
  | EBin o l r => let '(l',f1) := tt l in let '(r',f2) := tt r in (EBin o l' r', f1 || f2)
  | ETer o l m r => let '(l',f1) := tt l in let '(m',f2) := tt m in let '(r',f3) := tt r in (ETer o l' m' r', f1 || f2 || f3)
  | EArr es => let r := (fix go (l:list expr) : list expr * bool := match l with [] => ([],false) | x::t => let '(x',f1) := tt x in let '(t',f2) := go t in (x'::t', f1||f2) end) es in (EArr (fst r), snd r)
  | ECall n ps =>
      match leqb n if_then_name, ps with
      | true, [a;b;c] => (ETer TernaryCondition a b c, true)
      | _, _ => let r := (fix go (l:list expr) : list expr * bool := match l with [] => ([],false) | x::t => let '(x',f1) := tt x in let '(t',f2) := go t in (x'::t', f1||f2) end) ps in (ECall n (fst r), snd r)
      end
  | _ => (e,false)
  end.
Fixpoint tt_list (l:list expr) : list expr * bool := match l with [] => ([],false) | x::t => let '(x',f1) := tt x in let '(t',f2) := tt_list t in (x'::t', f1||f2) end.

Definition evalfold (e:expr) : status * expr * bool :=
  match eval e with Ok v => (SOk, ELit v, true) | Er x => (SErr x, e, true) end.

Fixpoint fold (e:expr) : status * expr * bool :=
  match e with
  | EUn o r => if is_lit r then evalfold e else let '(st, r', f) := fold r in (st, EUn o r', f)
  | EBin o l r => if is_lit l && is_lit r then evalfold e else
      let '(st1, l', f1) := fold l in
      match st1 with SErr _ => (st1, EBin o l' r, f1) | SOk =>
        let '(st2, r', f2) := fold r in (st2, EBin o l' r', f1 || f2) end
  | ETer o l m r =>
      match l, is_cond o with
      | ELit c, true => (SOk, if as_bool c then m else r, true)
      | _, _ =>
        let '(st1, l', f1) := fold l in
        match st1 with SErr _ => (st1, ETer o l' m r, f1) | SOk =>
          let '(st2, m', f2) := fold m in
          match st2 with SErr _ => (st2, ETer o l' m' r, f1 || f2) | SOk =>
            let '(st3, r', f3) := fold r in (st3, ETer o l' m' r', f1 || f2 || f3) end end
      end
  | EArr es => if forallb is_lit es then evalfold e else
      let r := (fix go (l:list expr) : status * list expr * bool := match l with [] => (SOk, [], false) | x::t =>
                 let '(st1, x', f1) := fold x in
                 match st1 with SErr _ => (st1, x'::t, f1) | SOk => let '(st2, t', f2) := go t in (st2, x'::t', f1||f2) end end) es in
      (fst (fst r), EArr (snd (fst r)), snd r)
  | ECall n ps => if forallb is_lit ps then
        match fn_exists E n (length ps) with Exists true => evalfold e | _ => (SOk, e, false) end
      else
      let r := (fix go (l:list expr) : status * list expr * bool := match l with [] => (SOk, [], false) | x::t =>
                 let '(st1, x', f1) := fold x in
                 match st1 with SErr _ => (st1, x'::t, f1) | SOk => let '(st2, t', f2) := go t in (st2, x'::t', f1||f2) end end) ps in
      (fst (fst r), ECall n (snd (fst r)), snd r)
  | _ => (SOk, e, false)
  end.
Fixpoint fold_list (l:list expr) : status * list expr * bool :=
  match l with [] => (SOk, [], false) | x::t =>
    let '(st1, x', f1) := fold x in
    match st1 with SErr _ => (st1, x'::t, f1) | SOk => let '(st2, t', f2) := fold_list t in (st2, x'::t', f1||f2) end end.

Inductive ostatus := OOk | OErr (e:err) | OOutOfFuel.
Fixpoint optimize (fuel:nat) (e:expr) : ostatus * expr :=
  match fuel with O => (OOutOfFuel, e) | S k =>
    let '(e1, f1) := tt e in
    let '(st, e2, f2) := fold e1 in
    match st with SErr x => (OErr x, e2) | SOk => if f1 || f2 then optimize k e2 else (OOk, e2) end end.

(* ---------- C05: fold is exact ---------- *)
Lemma fold_list_fix : forall l, (fix go (l:list expr) : status * list expr * bool := match l with [] => (SOk, [], false) | x::t =>
                 let '(st1, x', f1) := fold x in
                 match st1 with SErr _ => (st1, x'::t, f1) | SOk => let '(st2, t', f2) := go t in (st2, x'::t', f1||f2) end end) l = fold_list l.
Proof. induction l as [|x t IH]; simpl; [reflexivity|]. rewrite IH. reflexivity. Qed.
Lemma fold_arr es : fold (EArr es) = if forallb is_lit es then evalfold (EArr es) else let r := fold_list es in (fst (fst r), EArr (snd (fst r)), snd r).
Proof. cbn [fold]. rewrite fold_list_fix. reflexivity. Qed.
Lemma fold_call n ps : fold (ECall n ps) = if forallb is_lit ps then match fn_exists E n (length ps) with Exists true => evalfold (ECall n ps) | _ => (SOk, ECall n ps, false) end else let r := fold_list ps in (fst (fst r), ECall n (snd (fst r)), snd r).
Proof. cbn [fold]. rewrite fold_list_fix. reflexivity. Qed.

Lemma evalfold_exact e : eval (snd (fst (evalfold e))) = eval e.
Proof. unfold evalfold. destruct (eval e) eqn:H; simpl; auto. Qed.

Lemma eval_bin_congr o l l' r r' : eval l' = eval l -> eval r' = eval r -> eval (EBin o l' r') = eval (EBin o l r).
Proof. intros H1 H2. simpl. rewrite H1, H2. reflexivity. Qed.

Theorem fold_exact : forall e, eval (snd (fst (fold e))) = eval e.
Proof.
  induction e using expr_ind'.
  - (* un *) cbn [fold]. destruct (is_lit e). apply evalfold_exact. destruct (fold e) as [[st r'] f]. simpl in *. rewrite IHe. reflexivity.
  - (* bin *) cbn [fold]. destruct (is_lit e1 && is_lit e2). apply evalfold_exact.
    destruct (fold e1) as [[st1 l'] f1]. destruct st1.
    + destruct (fold e2) as [[st2 r'] f2]. cbn [fst snd] in *. apply eval_bin_congr; auto.
    + cbn [fst snd] in *. apply eval_bin_congr; auto.
  - (* ter *) cbn [fold].
    assert (G : eval (snd (fst (let '(st1, l', f1) := fold e1 in
        match st1 with SErr _ => (st1, ETer o l' e2 e3, f1) | SOk =>
          let '(st2, m', f2) := fold e2 in
          match st2 with SErr _ => (st2, ETer o l' m' e3, f1 || f2) | SOk =>
            let '(st3, r', f3) := fold e3 in (st3, ETer o l' m' r', f1 || f2 || f3) end end))) = eval (ETer o e1 e2 e3)).
    { destruct (fold e1) as [[st1 l'] f1]. destruct st1.
      - destruct (fold e2) as [[st2 m'] f2]. destruct st2.
        + destruct (fold e3) as [[st3 r'] f3]. cbn [fst snd] in *. simpl. rewrite IHe1, IHe2, IHe3. reflexivity.
        + cbn [fst snd] in *. simpl. rewrite IHe1, IHe2. reflexivity.
      - cbn [fst snd] in *. simpl. rewrite IHe1. reflexivity. }
    destruct e1; try exact G. destruct (is_cond o) eqn:Hc; try exact G.
    cbn [fst snd]. simpl. unfold ter_combine. rewrite Hc. destruct (as_bool v); reflexivity.
  - (* arr *) rewrite fold_arr. destruct (forallb is_lit es). apply evalfold_exact.
    cbn [fst snd]. rewrite !eval_arr.
    assert (G : eval_list (snd (fst (fold_list es))) = eval_list es).
    { induction H as [|x t Hx Ht IH]; simpl; auto. destruct (fold x) as [[st1 x'] f1]. cbn [fst snd] in Hx. destruct st1.
      - destruct (fold_list t) as [[st2 t'] f2]. cbn [fst snd] in *. simpl. rewrite Hx, IH. reflexivity.
      - cbn [fst snd]. simpl. rewrite Hx. reflexivity. }
    rewrite G. reflexivity.
  - reflexivity.
  - reflexivity.
  - (* call *) rewrite fold_call. destruct (forallb is_lit ps).
    + destruct (fn_exists E n (length ps)) as [[|]| |]; try reflexivity. apply evalfold_exact.
    + cbn [fst snd]. rewrite !eval_call.
      assert (G : eval_list (snd (fst (fold_list ps))) = eval_list ps).
      { induction H as [|x t Hx Ht IH]; simpl; auto. destruct (fold x) as [[st1 x'] f1]. cbn [fst snd] in Hx. destruct st1.
        - destruct (fold_list t) as [[st2 t'] f2]. cbn [fst snd] in *. simpl. rewrite Hx, IH. reflexivity.
        - cbn [fst snd]. simpl. rewrite Hx. reflexivity. }
      rewrite G. reflexivity.
Qed.

(* ---------- C05: transform_ternary is value preserving on resolved trees ---------- *)
Hypothesis un_no_undef : forall o v n, un o v <> Er (Undefined n).
Hypothesis binop_no_undef : forall o a b n, binop o a b <> Er (Undefined n).
Hypothesis call_no_undef : forall f vs n, call E f vs <> Er (Undefined n).
Hypothesis as_bool_vbool : forall b, as_bool (vbool b) = b.
Hypothesis std_if_then : forall c a b v, call E if_then [c;a;b] = Ok v -> exists cb, c = vbool cb /\ v = if cb then a else b.

Fixpoint vars_def (e:expr) : bool :=
  match e with
  | EUn _ r => vars_def r | EBin _ l r => vars_def l && vars_def r | ETer _ l m r => vars_def l && vars_def m && vars_def r
  | EArr es => forallb vars_def es | ELit _ => true
  | EVar n => match var E n with Some _ => true | None => false end
  | ECall _ ps => forallb vars_def ps end.

Definition undef (r : res value) : Prop := exists n, r = Er (Undefined n).
Definition lesub (a b : res value) : Prop := ~ undef a /\ forall v, a = Ok v -> b = Ok v.

Lemma boolr_no_undef r : ~ undef (boolr r).
Proof. intros [n H]. destruct r as [v|[]]; simpl in H; discriminate. Qed.
Lemma bin_no_undef o rl rr : ~ undef rl -> ~ undef rr -> ~ undef (bin_combine o rl rr).
Proof.
  intros Hl Hr [n H].
  destruct rl as [lv|el]; [| destruct el; try (exfalso; apply Hl; eexists; reflexivity); destruct o; simpl in H; discriminate].
  destruct rr as [rv|er].
  - destruct o; simpl in H; try (eapply binop_no_undef; eassumption); destruct (as_bool lv); simpl in H; try discriminate.
  - destruct er; try (exfalso; apply Hr; eexists; reflexivity); destruct o; simpl in H; try discriminate; destruct (as_bool lv); simpl in H; discriminate.
Qed.
Lemma ter_no_undef o rl rm rr : ~ undef rl -> ~ undef rm -> ~ undef rr -> ~ undef (ter_combine o rl rm rr).
Proof. intros Hl Hm Hr [n H]. unfold ter_combine in H. destruct (is_cond o); [|discriminate]. destruct rl as [lv|el]. destruct (as_bool lv); [apply Hm|apply Hr]; eexists; eauto. apply Hl. eexists; eauto. Qed.
Lemma un_no_undef' o r : ~ undef r -> ~ undef (un_combine o r).
Proof. intros Hr [n H]. destruct r; simpl in H. eapply un_no_undef; eauto. apply Hr; eexists; eauto. Qed.
Lemma list_no_undef es : Forall (fun e => ~ undef (eval e)) es -> forall n, eval_list es <> Er (Undefined n).
Proof. induction 1 as [|x t Hx Ht IH]; simpl; intros n; [discriminate|]. destruct (eval x) as [v|e] eqn:Ex. destruct (eval_list t) eqn:Et; [discriminate|]. intros H; injection H as ->. eapply IH; eauto. intros H; injection H as ->. apply Hx; eexists; eauto. Qed.

Theorem no_undef : forall e, vars_def e = true -> ~ undef (eval e).
Proof.
  induction e using expr_ind'; simpl vars_def; intros Hv.
  - simpl. apply un_no_undef'; auto.
  - apply andb_prop in Hv as [H1 H2]. simpl. apply bin_no_undef; auto.
  - apply andb_prop in Hv as [H12 H3]. apply andb_prop in H12 as [H1 H2]. simpl. apply ter_no_undef; auto.
  - rewrite eval_arr. intros [n Hn]. destruct (eval_list es) eqn:El; [discriminate|]. injection Hn as ->.
    eapply list_no_undef; [|exact El]. rewrite forallb_forall in Hv. rewrite Forall_forall in *. intros x Hx. apply H; auto.
  - intros [n Hn]; discriminate.
  - simpl. destruct (var E n); [|discriminate]. intros [m Hm]; discriminate.
  - rewrite eval_call. intros [m Hn]. destruct (eval_list ps) eqn:El. eapply call_no_undef; eauto. injection Hn as ->.
    eapply list_no_undef; [|exact El]. rewrite forallb_forall in Hv. rewrite Forall_forall in *. intros x Hx. apply H; auto.
Qed.

Lemma bin_mono o rl rl' rr rr' : lesub rl rl' -> lesub rr rr' -> forall v, bin_combine o rl rr = Ok v -> bin_combine o rl' rr' = Ok v.
Proof.
  intros [Ul Hl] [Ur Hr] v H.
  destruct rl as [lv|el].
  - rewrite (Hl lv eq_refl). destruct rr as [rv|er].
    + rewrite (Hr rv eq_refl). exact H.
    + destruct er; try (exfalso; apply Ur; eexists; reflexivity); destruct o; simpl in H |- *; try discriminate; destruct (as_bool lv); simpl in H |- *; try discriminate; auto.
  - destruct el; try (exfalso; apply Ul; eexists; reflexivity); destruct o; simpl in H; discriminate.
Qed.
Lemma ter_mono o rl rl' rm rm' rr rr' : lesub rl rl' -> lesub rm rm' -> lesub rr rr' -> forall v, ter_combine o rl rm rr = Ok v -> ter_combine o rl' rm' rr' = Ok v.
Proof. intros [Ul Hl] [Um Hm] [Ur Hr] v H. unfold ter_combine in *. destruct (is_cond o); [|discriminate]. destruct rl as [lv|]; [|discriminate]. rewrite (Hl lv eq_refl). destruct (as_bool lv); auto. Qed.
Lemma un_mono o r r' : lesub r r' -> forall v, un_combine o r = Ok v -> un_combine o r' = Ok v.
Proof. intros [U H] v Hv. destruct r as [x|]; [|discriminate]. rewrite (H x eq_refl). exact Hv. Qed.

Lemma tt_list_fix : forall l, (fix go (l:list expr) : list expr * bool := match l with [] => ([],false) | x::t => let '(x',f1) := tt x in let '(t',f2) := go t in (x'::t', f1||f2) end) l = tt_list l.
Proof. induction l as [|x t IH]; simpl; [reflexivity|]. rewrite IH. reflexivity. Qed.
Lemma tt_arr es : tt (EArr es) = (EArr (fst (tt_list es)), snd (tt_list es)).
Proof. cbn [tt]. rewrite tt_list_fix. reflexivity. Qed.
Definition is_if3 n (ps:list expr) := leqb n if_then_name && Nat.eqb (length ps) 3.
Lemma tt_call n ps : tt (ECall n ps) = if is_if3 n ps then match ps with [a;b;c] => (ETer TernaryCondition a b c, true) | _ => (ECall n ps, false) end else (ECall n (fst (tt_list ps)), snd (tt_list ps)).
Proof. cbn [tt]. rewrite tt_list_fix. unfold is_if3. destruct (leqb n if_then_name); simpl; [|reflexivity].
  destruct ps as [|a [|b [|c [|d t]]]]; reflexivity. Qed.

Definition P_tt e := vars_def e = true -> (forall v, eval e = Ok v -> eval (fst (tt e)) = Ok v) /\ vars_def (fst (tt e)) = true.
Lemma tt_list_sound es : Forall P_tt es -> forallb vars_def es = true ->
  (forall vs, eval_list es = Ok vs -> eval_list (fst (tt_list es)) = Ok vs) /\ forallb vars_def (fst (tt_list es)) = true.
Proof.
  induction 1 as [|x t Hx Ht IH]; simpl; intros Hv; [split; auto|].
  apply andb_prop in Hv as [Hvx Hvt]. destruct (Hx Hvx) as [Ex Vx]. destruct (IH Hvt) as [Et Vt].
  destruct (tt x) as [x' f1]. destruct (tt_list t) as [t' f2]. simpl in *. split.
  - intros vs H. destruct (eval x) as [v|] eqn:E1; [|discriminate]. rewrite (Ex v eq_refl). destruct (eval_list t) as [ws|] eqn:E2; [|discriminate]. rewrite (Et ws eq_refl). exact H.
  - rewrite Vx, Vt. reflexivity.
Qed.
Lemma lesub_of e : vars_def e = true -> (forall v, eval e = Ok v -> eval (fst (tt e)) = Ok v) -> lesub (eval e) (eval (fst (tt e))).
Proof. intros Hv H. split; auto. apply no_undef; auto. Qed.

Theorem tt_sound : forall e, P_tt e.
Proof.
  induction e using expr_ind'; unfold P_tt in *; intros Hv; cbn [vars_def] in Hv.
  - destruct (IHe Hv) as [E1 V1]. cbn [tt]. destruct (tt e) as [r' f] eqn:T. simpl in *. split; auto.
    intros v H. eapply un_mono; [|exact H]. replace r' with (fst (tt e)) by (rewrite T; reflexivity). apply lesub_of; auto. rewrite T; auto.
  - apply andb_prop in Hv as [H1 H2]. destruct (IHe1 H1) as [E1 V1]. destruct (IHe2 H2) as [E2 V2].
    cbn [tt]. destruct (tt e1) as [l' f1] eqn:T1. destruct (tt e2) as [r' f2] eqn:T2. simpl in *. split; [|rewrite V1, V2; reflexivity].
    intros v H. eapply bin_mono; [| |exact H].
    + replace l' with (fst (tt e1)) by (rewrite T1; reflexivity). apply lesub_of; auto. rewrite T1; auto.
    + replace r' with (fst (tt e2)) by (rewrite T2; reflexivity). apply lesub_of; auto. rewrite T2; auto.
  - apply andb_prop in Hv as [H12 H3]. apply andb_prop in H12 as [H1 H2].
    destruct (IHe1 H1) as [E1 V1]. destruct (IHe2 H2) as [E2 V2]. destruct (IHe3 H3) as [E3 V3].
    cbn [tt]. destruct (tt e1) as [l' f1] eqn:T1. destruct (tt e2) as [m' f2] eqn:T2. destruct (tt e3) as [r' f3] eqn:T3. simpl in *. split; [|rewrite V1, V2, V3; reflexivity].
    intros v H. eapply ter_mono; [| | |exact H].
    + replace l' with (fst (tt e1)) by (rewrite T1; reflexivity). apply lesub_of; auto. rewrite T1; auto.
    + replace m' with (fst (tt e2)) by (rewrite T2; reflexivity). apply lesub_of; auto. rewrite T2; auto.
    + replace r' with (fst (tt e3)) by (rewrite T3; reflexivity). apply lesub_of; auto. rewrite T3; auto.
  - rewrite tt_arr. cbn [fst]. destruct (tt_list_sound H Hv) as [El Vl]. split; [|exact Vl].
    intros v Hev. rewrite eval_arr in *. destruct (eval_list es) as [vs|] eqn:E0; [|discriminate]. rewrite (El vs eq_refl). exact Hev.
  - split; auto.
  - split; auto.
  - rewrite tt_call. destruct (is_if3 n ps) eqn:I3.
    + unfold is_if3 in I3. apply andb_prop in I3 as [In Il]. apply leqb_eq in In. subst n.
      destruct ps as [|a [|b [|c [|d t]]]]; try discriminate. cbn [fst]. split.
      * intros v Hev. rewrite eval_call in Hev. simpl in Hev.
        destruct (eval a) as [va|] eqn:Ea; [|discriminate]. destruct (eval b) as [vb|] eqn:Eb; [|discriminate]. destruct (eval c) as [vc|] eqn:Ec; [|discriminate].
        destruct (std_if_then _ _ _ Hev) as (cb & -> & ->).
        simpl. unfold ter_combine. simpl. rewrite Ea, as_bool_vbool. destruct cb; auto.
      * simpl in Hv |- *. rewrite andb_true_r in Hv. rewrite <- andb_assoc. exact Hv.
    + cbn [fst]. destruct (tt_list_sound H Hv) as [El Vl]. split; [|exact Vl].
      intros v Hev. rewrite eval_call in *. destruct (eval_list ps) as [vs|] eqn:E0; [|discriminate]. rewrite (El vs eq_refl). exact Hev.
Qed.

(* fold keeps variables defined *)
Lemma evalfold_vars e : vars_def e = true -> vars_def (snd (fst (evalfold e))) = true.
Proof. unfold evalfold. destruct (eval e); simpl; auto. Qed.
Theorem fold_vars : forall e, vars_def e = true -> vars_def (snd (fst (fold e))) = true.
Proof.
  induction e using expr_ind'; intros Hv; cbn [vars_def] in Hv.
  - cbn [fold]. destruct (is_lit e). apply evalfold_vars; auto. destruct (fold e) as [[st r'] f]. simpl in *. auto.
  - apply andb_prop in Hv as [H1 H2]. cbn [fold]. destruct (is_lit e1 && is_lit e2). apply evalfold_vars; simpl; rewrite H1, H2; auto.
    destruct (fold e1) as [[st1 l'] f1]. destruct st1.
    + destruct (fold e2) as [[st2 r'] f2]. cbn [fst snd] in *. simpl. rewrite IHe1, IHe2; auto.
    + cbn [fst snd] in *. simpl. rewrite IHe1, H2; auto.
  - apply andb_prop in Hv as [H12 H3]. apply andb_prop in H12 as [H1 H2]. cbn [fold].
    assert (G : vars_def (snd (fst (let '(st1, l', f1) := fold e1 in
        match st1 with SErr _ => (st1, ETer o l' e2 e3, f1) | SOk =>
          let '(st2, m', f2) := fold e2 in
          match st2 with SErr _ => (st2, ETer o l' m' e3, f1 || f2) | SOk =>
            let '(st3, r', f3) := fold e3 in (st3, ETer o l' m' r', f1 || f2 || f3) end end))) = true).
    { destruct (fold e1) as [[st1 l'] f1]. destruct st1.
      - destruct (fold e2) as [[st2 m'] f2]. destruct st2.
        + destruct (fold e3) as [[st3 r'] f3]. cbn [fst snd] in *. simpl. rewrite IHe1, IHe2, IHe3; auto.
        + cbn [fst snd] in *. simpl. rewrite IHe1, IHe2, H3; auto.
      - cbn [fst snd] in *. simpl. rewrite IHe1, H2, H3; auto. }
    destruct e1; try exact G. destruct (is_cond o); try exact G. cbn [fst snd]. destruct (as_bool v); auto.
  - rewrite fold_arr. destruct (forallb is_lit es). apply evalfold_vars; auto. cbn [fst snd]. simpl.
    induction H as [|x t Hx Ht IH]; simpl in *; auto. apply andb_prop in Hv as [Hvx Hvt].
    destruct (fold x) as [[st1 x'] f1]. cbn [fst snd] in Hx. destruct st1.
    + destruct (fold_list t) as [[st2 t'] f2]. cbn [fst snd] in *. simpl. rewrite Hx, IH; auto.
    + cbn [fst snd]. simpl. rewrite Hx, Hvt; auto.
  - reflexivity.
  - simpl. exact Hv.
  - rewrite fold_call. destruct (forallb is_lit ps).
    + destruct (fn_exists E n (length ps)) as [[|]| |]; try exact Hv. apply evalfold_vars; auto.
    + cbn [fst snd]. simpl.
      induction H as [|x t Hx Ht IH]; simpl in *; auto. apply andb_prop in Hv as [Hvx Hvt].
      destruct (fold x) as [[st1 x'] f1]. cbn [fst snd] in Hx. destruct st1.
      * destruct (fold_list t) as [[st2 t'] f2]. cbn [fst snd] in *. simpl. rewrite Hx, IH; auto.
      * cbn [fst snd]. simpl. rewrite Hx, Hvt; auto.
Qed.

Theorem C05_value : forall fuel e st e' v, vars_def e = true -> eval e = Ok v -> optimize fuel e = (st, e') -> eval e' = Ok v.
Proof.
  induction fuel as [|k IH]; intros e st e' v Hv He Ho; simpl in Ho.
  - injection Ho as <- <-. exact He.
  - destruct (tt_sound e Hv) as [E1 V1]. destruct (tt e) as [e1 f1]. simpl in *.
    pose proof (fold_exact e1) as X. pose proof (fold_vars e1 V1) as V2.
    destruct (fold e1) as [[s2 e2] f2]. simpl in *.
    assert (He2 : eval e2 = Ok v) by (rewrite X; auto).
    destruct s2.
    + destruct (f1 || f2). eapply IH; eauto. injection Ho as <- <-. exact He2.
    + injection Ho as <- <-. exact He2.
Qed.

(* ---------- C05 exact on trees without if_then/3 ---------- *)
Fixpoint no_if3 (e:expr) : bool :=
  match e with
  | EUn _ r => no_if3 r | EBin _ l r => no_if3 l && no_if3 r | ETer _ l m r => no_if3 l && no_if3 m && no_if3 r
  | EArr es => forallb no_if3 es | ELit _ => true | EVar _ => true
  | ECall n ps => negb (is_if3 n ps) && forallb no_if3 ps end.

Lemma tt_list_id es : Forall (fun e => no_if3 e = true -> tt e = (e,false)) es -> forallb no_if3 es = true -> tt_list es = (es,false).
Proof. induction 1 as [|x t Hx Ht IH]; simpl; intros Hv; auto. apply andb_prop in Hv as [H1 H2]. rewrite (Hx H1), (IH H2). reflexivity. Qed.
Theorem tt_id : forall e, no_if3 e = true -> tt e = (e,false).
Proof.
  induction e using expr_ind'; intros Hv; cbn [no_if3] in Hv.
  - cbn [tt]. rewrite (IHe Hv). reflexivity.
  - apply andb_prop in Hv as [H1 H2]. cbn [tt]. rewrite (IHe1 H1), (IHe2 H2). reflexivity.
  - apply andb_prop in Hv as [H12 H3]. apply andb_prop in H12 as [H1 H2]. cbn [tt]. rewrite (IHe1 H1), (IHe2 H2), (IHe3 H3). reflexivity.
  - rewrite tt_arr, (tt_list_id H Hv). reflexivity.
  - reflexivity.
  - reflexivity.
  - apply andb_prop in Hv as [H1 H2]. rewrite tt_call. apply negb_true_iff in H1. rewrite H1, (tt_list_id H H2). reflexivity.
Qed.

Lemma evalfold_noif3 e : no_if3 e = true -> no_if3 (snd (fst (evalfold e))) = true.
Proof. unfold evalfold. destruct (eval e); simpl; auto. Qed.
Lemma fold_list_length es : length (snd (fst (fold_list es))) = length es.
Proof. induction es as [|x t IH]; simpl; auto. destruct (fold x) as [[st1 x'] f1]. destruct st1; simpl; auto. destruct (fold_list t) as [[st2 t'] f2]. simpl in *. auto. Qed.
Theorem fold_noif3 : forall e, no_if3 e = true -> no_if3 (snd (fst (fold e))) = true.
Proof.
  induction e using expr_ind'; intros Hv; cbn [no_if3] in Hv.
  - cbn [fold]. destruct (is_lit e). apply evalfold_noif3; auto. destruct (fold e) as [[st r'] f]. simpl in *. auto.
  - apply andb_prop in Hv as [H1 H2]. cbn [fold]. destruct (is_lit e1 && is_lit e2). apply evalfold_noif3; simpl; rewrite H1, H2; auto.
    destruct (fold e1) as [[st1 l'] f1]. destruct st1.
    + destruct (fold e2) as [[st2 r'] f2]. cbn [fst snd] in *. simpl. rewrite IHe1, IHe2; auto.
    + cbn [fst snd] in *. simpl. rewrite IHe1, H2; auto.
  - apply andb_prop in Hv as [H12 H3]. apply andb_prop in H12 as [H1 H2]. cbn [fold].
    assert (G : no_if3 (snd (fst (let '(st1, l', f1) := fold e1 in
        match st1 with SErr _ => (st1, ETer o l' e2 e3, f1) | SOk =>
          let '(st2, m', f2) := fold e2 in
          match st2 with SErr _ => (st2, ETer o l' m' e3, f1 || f2) | SOk =>
            let '(st3, r', f3) := fold e3 in (st3, ETer o l' m' r', f1 || f2 || f3) end end))) = true).
    { destruct (fold e1) as [[st1 l'] f1]. destruct st1.
      - destruct (fold e2) as [[st2 m'] f2]. destruct st2.
        + destruct (fold e3) as [[st3 r'] f3]. cbn [fst snd] in *. simpl. rewrite IHe1, IHe2, IHe3; auto.
        + cbn [fst snd] in *. simpl. rewrite IHe1, IHe2, H3; auto.
      - cbn [fst snd] in *. simpl. rewrite IHe1, H2, H3; auto. }
    destruct e1; try exact G. destruct (is_cond o); try exact G. cbn [fst snd]. destruct (as_bool v); auto.
  - rewrite fold_arr. destruct (forallb is_lit es). apply evalfold_noif3; auto. cbn [fst snd]. simpl.
    induction H as [|x t Hx Ht IH]; simpl in *; auto. apply andb_prop in Hv as [Hvx Hvt].
    destruct (fold x) as [[st1 x'] f1]. cbn [fst snd] in Hx. destruct st1.
    + destruct (fold_list t) as [[st2 t'] f2]. cbn [fst snd] in *. simpl. rewrite Hx, IH; auto.
    + cbn [fst snd]. simpl. rewrite Hx, Hvt; auto.
  - reflexivity.
  - reflexivity.
  - apply andb_prop in Hv as [Hn Hps]. rewrite fold_call. destruct (forallb is_lit ps).
    + destruct (fn_exists E n (length ps)) as [[|]| |]; try (simpl; rewrite Hn, Hps; reflexivity). apply evalfold_noif3. simpl. rewrite Hn, Hps; reflexivity.
    + cbn [fst snd]. cbn [no_if3]. unfold is_if3 in *. rewrite fold_list_length. rewrite Hn. simpl.
      clear Hn. induction H as [|x t Hx Ht IH]; simpl in *; auto. apply andb_prop in Hps as [Hvx Hvt].
      destruct (fold x) as [[st1 x'] f1]. cbn [fst snd] in Hx. destruct st1.
      * destruct (fold_list t) as [[st2 t'] f2]. cbn [fst snd] in *. simpl. rewrite Hx, IH; auto.
      * cbn [fst snd]. simpl. rewrite Hx, Hvt; auto.
Qed.

Theorem C05_exact : forall fuel e st e', no_if3 e = true -> optimize fuel e = (st, e') -> eval e' = eval e /\ no_if3 e' = true.
Proof.
  induction fuel as [|k IH]; intros e st e' Hn Ho; simpl in Ho.
  - injection Ho as <- <-. auto.
  - rewrite (tt_id e Hn) in Ho. pose proof (fold_exact e) as X. pose proof (fold_noif3 e Hn) as N.
    destruct (fold e) as [[s2 e2] f2]. simpl in *. destruct s2.
    + destruct f2. destruct (IH _ _ _ N Ho) as [A B]. rewrite A. auto. injection Ho as <- <-. auto.
    + injection Ho as <- <-. auto.
Qed.

(* ---------- C06: termination measure, fixpoint ---------- *)
Fixpoint nonlit (e:expr) : nat :=
  match e with
  | ELit _ => 0 | EVar _ => 1
  | EUn _ r => 1 + nonlit r | EBin _ l r => 1 + nonlit l + nonlit r | ETer _ l m r => 1 + nonlit l + nonlit m + nonlit r
  | EArr es => 1 + list_sum (map nonlit es) | ECall _ ps => 1 + list_sum (map nonlit ps) end.
Fixpoint if3s (e:expr) : nat :=
  match e with
  | ELit _ => 0 | EVar _ => 0
  | EUn _ r => if3s r | EBin _ l r => if3s l + if3s r | ETer _ l m r => if3s l + if3s m + if3s r
  | EArr es => list_sum (map if3s es) | ECall n ps => (if is_if3 n ps then 1 else 0) + list_sum (map if3s ps) end.
Definition measure e := nonlit e + if3s e.

(* transform_ternary: unchanged when flag false; measure strictly smaller when flag true *)
Definition P_ttm e := (snd (tt e) = false -> fst (tt e) = e) /\ (nonlit (fst (tt e)) = nonlit e) /\ (if3s (fst (tt e)) <= if3s e) /\ (snd (tt e) = true -> if3s (fst (tt e)) < if3s e).
Lemma tt_list_m es : Forall P_ttm es ->
  (snd (tt_list es) = false -> fst (tt_list es) = es) /\ list_sum (map nonlit (fst (tt_list es))) = list_sum (map nonlit es) /\
  list_sum (map if3s (fst (tt_list es))) <= list_sum (map if3s es) /\ (snd (tt_list es) = true -> list_sum (map if3s (fst (tt_list es))) < list_sum (map if3s es)) /\ length (fst (tt_list es)) = length es.
Proof.
  induction 1 as [|x t Hx Ht IH]; simpl. repeat split; auto; discriminate.
  destruct Hx as (A1 & A2 & A3 & A4). destruct IH as (B1 & B2 & B3 & B4 & B5).
  destruct (tt x) as [x' f1]. destruct (tt_list t) as [t' f2]. simpl in *. repeat split.
  - intros H. apply orb_false_iff in H as [-> ->]. rewrite A1, B1; auto.
  - lia.
  - lia.
  - intros H. apply orb_true_iff in H as [->| ->]. specialize (A4 eq_refl). lia. specialize (B4 eq_refl). lia.
  - lia.
Qed.
Theorem tt_m : forall e, P_ttm e.
Proof.
  induction e using expr_ind'; unfold P_ttm in *.
  - cbn [tt]. destruct IHe as (A1 & A2 & A3 & A4). destruct (tt e) as [r' f]. simpl in *. repeat split; auto. intros H; rewrite A1; auto.
  - cbn [tt]. destruct IHe1 as (A1 & A2 & A3 & A4). destruct IHe2 as (B1 & B2 & B3 & B4). destruct (tt e1) as [l' f1]. destruct (tt e2) as [r' f2]. simpl in *. repeat split; try lia.
    + intros H. apply orb_false_iff in H as [-> ->]. rewrite A1, B1; auto.
    + intros H. apply orb_true_iff in H as [->| ->]. specialize (A4 eq_refl). lia. specialize (B4 eq_refl). lia.
  - cbn [tt]. destruct IHe1 as (A1 & A2 & A3 & A4). destruct IHe2 as (B1 & B2 & B3 & B4). destruct IHe3 as (C1 & C2 & C3 & C4).
    destruct (tt e1) as [l' f1]. destruct (tt e2) as [m' f2]. destruct (tt e3) as [r' f3]. simpl in *. repeat split; try lia.
    + intros H. apply orb_false_iff in H as [H ->]. apply orb_false_iff in H as [-> ->]. rewrite A1, B1, C1; auto.
    + intros H. apply orb_true_iff in H as [H| ->]. apply orb_true_iff in H as [->| ->]. specialize (A4 eq_refl). lia. specialize (B4 eq_refl). lia. specialize (C4 eq_refl). lia.
  - rewrite tt_arr. destruct (tt_list_m H) as (B1 & B2 & B3 & B4 & B5). simpl. repeat split; try lia; intros Hf; [rewrite B1; auto | specialize (B4 Hf); lia].
  - simpl. repeat split; auto; discriminate.
  - simpl. repeat split; auto; discriminate.
  - rewrite tt_call. destruct (is_if3 n ps) eqn:I3.
    + pose proof I3 as I3'. unfold is_if3 in I3'. apply andb_prop in I3' as [In Il]. destruct ps as [|a [|b [|c [|d t]]]]; try discriminate.
      cbn [fst snd nonlit if3s map list_sum]. unfold is_if3. rewrite In. simpl. repeat split; try discriminate; intros; lia.
    + destruct (tt_list_m H) as (B1 & B2 & B3 & B4 & B5). cbn [fst snd nonlit if3s]. unfold is_if3 in *. rewrite B5, I3. repeat split; try lia; intros Hf; [rewrite B1; auto | specialize (B4 Hf); lia].
Qed.

(* fold: status ok & flag false -> unchanged; measure never grows; ok & flag true -> strictly smaller *)
Definition P_fm e := let '(st, e', f) := fold e in
   nonlit e' <= nonlit e /\ if3s e' <= if3s e /\ (st = SOk -> f = false -> e' = e) /\ (st = SOk -> f = true -> nonlit e' < nonlit e).
Lemma evalfold_m e : 1 <= nonlit e -> let '(st, e', f) := evalfold e in nonlit e' <= nonlit e /\ if3s e' <= if3s e /\ (st = SOk -> f = false -> e' = e) /\ (st = SOk -> f = true -> nonlit e' < nonlit e).
Proof. intros H. unfold evalfold. destruct (eval e); simpl; repeat split; try lia; try discriminate. Qed.
Lemma fold_list_m es : Forall P_fm es -> let '(st, es', f) := fold_list es in
   list_sum (map nonlit es') <= list_sum (map nonlit es) /\ list_sum (map if3s es') <= list_sum (map if3s es) /\ (st = SOk -> f = false -> es' = es) /\ (st = SOk -> f = true -> list_sum (map nonlit es') < list_sum (map nonlit es)) /\ length es' = length es.
Proof.
  induction 1 as [|x t Hx Ht IH]; simpl. repeat split; auto; discriminate.
  unfold P_fm in Hx. destruct (fold x) as [[st1 x'] f1]. destruct Hx as (A1 & A2 & A3 & A4).
  destruct st1.
  - destruct (fold_list t) as [[st2 t'] f2]. destruct IH as (B1 & B2 & B3 & B4 & B5). simpl. repeat split; try lia.
    + intros S F. apply orb_false_iff in F as [-> ->]. rewrite A3, B3; auto.
    + intros S F. apply orb_true_iff in F as [->| ->]. specialize (A4 eq_refl eq_refl). lia. specialize (B4 S eq_refl). lia.
  - simpl. repeat split; try lia; try discriminate.
Qed.
Theorem fold_m : forall e, P_fm e.
Proof.
  induction e using expr_ind'; unfold P_fm in *.
  - cbn [fold]. destruct (is_lit e). apply evalfold_m; simpl; lia. destruct (fold e) as [[st r'] f]. destruct IHe as (A1 & A2 & A3 & A4). simpl. repeat split; try lia. intros S F; rewrite A3; auto. intros S F; specialize (A4 S F); lia.
  - cbn [fold]. destruct (is_lit e1 && is_lit e2). apply evalfold_m; simpl; lia.
    destruct (fold e1) as [[st1 l'] f1]. destruct IHe1 as (A1 & A2 & A3 & A4). destruct st1.
    + destruct (fold e2) as [[st2 r'] f2]. destruct IHe2 as (B1 & B2 & B3 & B4). simpl. repeat split; try lia.
      * intros S F. apply orb_false_iff in F as [-> ->]. rewrite A3, B3; auto.
      * intros S F. apply orb_true_iff in F as [->| ->]. specialize (A4 eq_refl eq_refl). lia. specialize (B4 S eq_refl). lia.
    + simpl. repeat split; try lia; discriminate.
  - cbn [fold].
    assert (G : let '(st, e', f) := (let '(st1, l', f1) := fold e1 in
        match st1 with SErr _ => (st1, ETer o l' e2 e3, f1) | SOk =>
          let '(st2, m', f2) := fold e2 in
          match st2 with SErr _ => (st2, ETer o l' m' e3, f1 || f2) | SOk =>
            let '(st3, r', f3) := fold e3 in (st3, ETer o l' m' r', f1 || f2 || f3) end end) in
        nonlit e' <= nonlit (ETer o e1 e2 e3) /\ if3s e' <= if3s (ETer o e1 e2 e3) /\ (st = SOk -> f = false -> e' = ETer o e1 e2 e3) /\ (st = SOk -> f = true -> nonlit e' < nonlit (ETer o e1 e2 e3))).
    { destruct (fold e1) as [[st1 l'] f1]. destruct IHe1 as (A1 & A2 & A3 & A4). destruct st1.
      - destruct (fold e2) as [[st2 m'] f2]. destruct IHe2 as (B1 & B2 & B3 & B4). destruct st2.
        + destruct (fold e3) as [[st3 r'] f3]. destruct IHe3 as (C1 & C2 & C3 & C4). simpl. repeat split; try lia.
          * intros S F. apply orb_false_iff in F as [F ->]. apply orb_false_iff in F as [-> ->]. rewrite A3, B3, C3; auto.
          * intros S F. apply orb_true_iff in F as [F| ->]. apply orb_true_iff in F as [->| ->]. specialize (A4 eq_refl eq_refl). lia. specialize (B4 eq_refl eq_refl). lia. specialize (C4 S eq_refl). lia.
        + simpl. repeat split; try lia; discriminate.
      - simpl. repeat split; try lia; discriminate. }
    destruct e1; try exact G. destruct (is_cond o); try exact G.
    destruct (as_bool v); simpl; repeat split; try lia; discriminate.
  - rewrite fold_arr. destruct (forallb is_lit es). apply evalfold_m; simpl; lia.
    pose proof (fold_list_m H) as G. destruct (fold_list es) as [[st es'] f]. destruct G as (B1 & B2 & B3 & B4 & B5). simpl. repeat split; try lia. intros S F; rewrite B3; auto. intros S F; specialize (B4 S F); lia.
  - simpl. repeat split; auto; discriminate.
  - simpl. repeat split; auto; discriminate.
  - rewrite fold_call. destruct (forallb is_lit ps).
    + destruct (fn_exists E n (length ps)) as [[|]| |]; try (repeat split; auto; discriminate). apply evalfold_m; simpl; lia.
    + pose proof (fold_list_m H) as G. destruct (fold_list ps) as [[st ps'] f]. destruct G as (B1 & B2 & B3 & B4 & B5). cbn [fst snd nonlit if3s]. unfold is_if3. rewrite B5. repeat split; try lia. intros S F; rewrite B3; auto. intros S F; specialize (B4 S F); lia.
Qed.

Theorem C06_terminates : forall k e, measure e < k -> fst (optimize k e) <> OOutOfFuel.
Proof.
  induction k as [|k IH]; intros e Hm; [lia|]. simpl.
  pose proof (tt_m e) as T. unfold P_ttm in T. destruct (tt e) as [e1 f1]. simpl in T. destruct T as (T1 & T2 & T3 & T4).
  pose proof (fold_m e1) as F. unfold P_fm in F. destruct (fold e1) as [[st e2] f2]. destruct F as (F1 & F2 & F3 & F4).
  destruct st; [|simpl; discriminate].
  destruct (f1 || f2) eqn:Hf; [|simpl; discriminate].
  apply IH. unfold measure in *. apply orb_true_iff in Hf as [->| ->].
  - specialize (T4 eq_refl). lia.
  - specialize (F4 eq_refl eq_refl). lia.
Qed.
Theorem C06_fixpoint : forall k e e', optimize k e = (OOk, e') -> tt e' = (e', false) /\ fold e' = (SOk, e', false).
Proof.
  induction k as [|k IH]; intros e e' Ho; simpl in Ho; [discriminate|].
  pose proof (tt_m e) as T. unfold P_ttm in T. destruct (tt e) as [e1 f1] eqn:Te. simpl in T. destruct T as (T1 & _).
  pose proof (fold_m e1) as F. unfold P_fm in F. destruct (fold e1) as [[st e2] f2] eqn:Fe. destruct F as (_ & _ & F3 & _).
  destruct st; [|discriminate]. destruct (f1 || f2) eqn:Hf. eapply IH; eauto.
  injection Ho as <-. apply orb_false_iff in Hf as [-> ->]. rewrite (T1 eq_refl) in *. rewrite (F3 eq_refl eq_refl) in *. auto.
Qed.
Corollary C06_idempotent : forall k e e' j, optimize k e = (OOk, e') -> optimize (S j) e' = (OOk, e').
Proof. intros k e e' j H. destruct (C06_fixpoint _ _ H) as [A B]. simpl. rewrite A, B. reflexivity. Qed.

(* =================== validators: C10 and C11 =================== *)
Inductive cerr := MissingVariable (n:name) | MissingFunction (n:name) | ParamCountMismatch (n:name) (k:nat).
Fixpoint check (e:expr) : option cerr :=
  match e with
  | EUn _ r => check r
  | EBin _ l r => match check l with None => check r | x => x end
  | ETer _ l m r => match check l with None => (match check m with None => check r | x => x end) | x => x end
  | EArr es => (fix go (l:list expr) : option cerr := match l with [] => None | x :: t => match check x with None => go t | y => y end end) es
  | ELit _ => None
  | EVar n => if var_exists E n then None else Some (MissingVariable n)
  | ECall n ps => match fn_exists E n (length ps) with
                  | Exists _ => (fix go (l:list expr) : option cerr := match l with [] => None | x :: t => match check x with None => go t | y => y end end) ps
                  | NotFound => Some (MissingFunction n)
                  | WrongArity => Some (ParamCountMismatch n (length ps)) end
  end.
Fixpoint check_list (l:list expr) : option cerr := match l with [] => None | x :: t => match check x with None => check_list t | y => y end end.
Lemma check_list_fix : forall l, (fix go (l:list expr) : option cerr := match l with [] => None | x :: t => match check x with None => go t | y => y end end) l = check_list l.
Proof. induction l as [|x t IH]; simpl; auto; try (rewrite IH; reflexivity). Qed.

(* the environment answers consistently *)
Hypothesis var_coherent : forall n, var_exists E n = true -> var E n <> None.
Hypothesis fn_coherent : forall n k p vs m m', fn_exists E n k = Exists p -> length vs = k -> call E n vs <> Er (NativeFunctionError m (FunctionNotFound m')).
Hypothesis un_no_fnf : forall o v m m', un o v <> Er (NativeFunctionError m (FunctionNotFound m')).
Hypothesis binop_no_fnf : forall o a b m m', binop o a b <> Er (NativeFunctionError m (FunctionNotFound m')).

Definition unresolved (r : res value) : Prop := (exists n, r = Er (Undefined n)) \/ (exists m m', r = Er (NativeFunctionError m (FunctionNotFound m'))).
Lemma eval_list_length es vs : eval_list es = Ok vs -> length vs = length es.
Proof. revert vs. induction es as [|x t IH]; simpl; intros vs H. injection H as <-; reflexivity. destruct (eval x); [|discriminate]. destruct (eval_list t) eqn:Et; [|discriminate]. injection H as <-. simpl. f_equal. apply IH; reflexivity. Qed.

Lemma bin_unres o rl rr : ~ unresolved rl -> ~ unresolved rr -> ~ unresolved (bin_combine o rl rr).
Proof.
  intros Hl Hr [[n H]|[m [m' H]]].
  - apply (@bin_no_undef o rl rr); [intros [k ->]; apply Hl; left; eauto | intros [k ->]; apply Hr; left; eauto | eexists; eauto].
  - destruct rl as [lv|el].
    + destruct rr as [rv|er].
      * destruct o; simpl in H; try (eapply binop_no_fnf; eassumption); destruct (as_bool lv); simpl in H; try discriminate.
      * destruct er; try (exfalso; apply Hr; left; eexists; reflexivity); destruct o; simpl in H; try discriminate; try (apply Hr; right; eexists; eexists; eassumption); destruct (as_bool lv); simpl in H; try discriminate; try (apply Hr; right; eexists; eexists; eassumption).
    + destruct el; try (exfalso; apply Hl; left; eexists; reflexivity); destruct o; simpl in H; try discriminate; apply Hl; right; eexists; eexists; eassumption.
Qed.
Lemma ter_unres o rl rm rr : ~ unresolved rl -> ~ unresolved rm -> ~ unresolved rr -> ~ unresolved (ter_combine o rl rm rr).
Proof.
  intros Hl Hm Hr H. unfold ter_combine in H. destruct (is_cond o).
  - destruct rl as [lv|el]. destruct (as_bool lv); auto. apply Hl. exact H.
  - destruct H as [[n H]|[m [m' H]]]; discriminate.
Qed.
Lemma un_unres o r : ~ unresolved r -> ~ unresolved (un_combine o r).
Proof. intros Hr H. destruct r as [v|e]; simpl in H; auto. destruct H as [[n H]|[m [m' H]]]. eapply un_no_undef; eauto. eapply un_no_fnf; eauto. Qed.
Lemma list_unres es : Forall (fun e => ~ unresolved (eval e)) es -> ~ unresolved (match eval_list es with Ok _ => Ok (varr []) | Er e => Er e end).
Proof.
  induction 1 as [|x t Hx Ht IH]; simpl. intros [[n H]|[m [m' H]]]; discriminate.
  destruct (eval x) as [v|e] eqn:Ex.
  - destruct (eval_list t) eqn:Et; auto; intros [[n H]|[m [m' H]]]; discriminate.
  - exact Hx.
Qed.

Theorem C10_no_unresolved : forall e, check e = None -> ~ unresolved (eval e).
Proof.
  induction e using expr_ind'; cbn [check]; intros Hc.
  - simpl. apply un_unres; auto.
  - destruct (check e1) eqn:C1; [discriminate|]. simpl. apply bin_unres; auto.
  - destruct (check e1) eqn:C1; [discriminate|]. destruct (check e2) eqn:C2; [discriminate|]. simpl. apply ter_unres; auto.
  - rewrite check_list_fix in Hc. rewrite eval_arr.
    assert (F : Forall (fun e => ~ unresolved (eval e)) es).
    { clear -H Hc. induction H as [|x t Hx Ht IH]; constructor; simpl in Hc; destruct (check x) eqn:Cx; try discriminate; auto. }
    pose proof (list_unres F) as L. destruct (eval_list es); auto. intros [[n Hn]|[m [m' Hm]]]; discriminate.
  - intros [[n H]|[m [m' H]]]; discriminate.
  - simpl. destruct (var_exists E n) eqn:V; [|discriminate]. pose proof (@var_coherent n V) as W. destruct (var E n); [|congruence]. intros [[k H]|[m [m' H]]]; discriminate.
  - rewrite check_list_fix in Hc. rewrite eval_call. destruct (fn_exists E n (length ps)) as [p| |] eqn:Fx; try discriminate.
    assert (F : Forall (fun e => ~ unresolved (eval e)) ps).
    { clear -H Hc. induction H as [|x t Hx Ht IH]; constructor; simpl in Hc; destruct (check x) eqn:Cx; try discriminate; auto. }
    pose proof (list_unres F) as L. destruct (eval_list ps) as [vs|er] eqn:El; auto.
    intros [[k Hk]|[m [m' Hm]]]. eapply call_no_undef; eauto. eapply fn_coherent; eauto. apply eval_list_length; auto.
Qed.

(* C11 *)
Variable is_boolv : value -> bool.
Hypothesis vbool_is_bool : forall b, is_boolv (vbool b) = true.
Definition cmp_or_xor o := match o with Greater|GreaterEqual|Less|LessEqual|Equal|NotEqual|Xor => true | _ => false end.
Hypothesis binop_bool : forall o a b v, cmp_or_xor o = true -> binop o a b = Ok v -> is_boolv v = true.
Hypothesis un_not_bool : forall a v, un Not a = Ok v -> is_boolv v = true.
Definition bool_unary_ok (o:op) : bool := match o with Not => true | _ => false end.
Definition bool_binary_ok (o:op) : bool := match o with Greater|GreaterEqual|Less|LessEqual|Equal|NotEqual|And|Or|Xor => true | _ => false end.
Definition bool_ternary_ok (o:op) : bool := match o with TernaryCondition => true | _ => false end.
Fixpoint check_bool (e:expr) : bool :=
  match e with
  | EUn o _ => bool_unary_ok o
  | EBin o _ _ => bool_binary_ok o
  | ETer o l m r => if bool_ternary_ok o then check_bool l && check_bool m && check_bool r else false
  | EArr _ => false
  | ELit v => is_boolv v
  | EVar _ | ECall _ _ => true
  end.
(* variables and calls in result position yield booleans *)
Fixpoint leaves_bool (e:expr) : Prop :=
  match e with
  | ETer _ _ m r => leaves_bool m /\ leaves_bool r
  | EVar _ | ECall _ _ => forall v, eval e = Ok v -> is_boolv v = true
  | _ => True end.
Lemma boolr_bool r v : boolr r = Ok v -> is_boolv v = true.
Proof. destruct r as [x|[]]; simpl; intros H; try discriminate; injection H as <-; apply vbool_is_bool. Qed.
Lemma bin_bool o rl rr w :
  (match o with Greater|GreaterEqual|Less|LessEqual|Equal|NotEqual|And|Or|Xor => true | _ => false end) = true ->
  bin_combine o rl rr = Ok w -> is_boolv w = true.
Proof.
  intros Ho H. destruct rl as [lv|el]; destruct rr as [rv|er]; destruct o; try discriminate; simpl in H;
  repeat match goal with
   | H : context [as_bool ?x] |- _ => destruct (as_bool x); simpl in H
   | H : context [match ?e with Undefined _ => _ | _ => _ end] |- _ => destruct e; simpl in H
   end; try discriminate; try (injection H as <-; apply vbool_is_bool); try (eapply binop_bool; [|eassumption]; reflexivity).
Qed.
Theorem C11_sound : forall e v, check_bool e = true -> leaves_bool e -> eval e = Ok v -> is_boolv v = true.
Proof.
  induction e using expr_ind'; intros w Hc Hl He; cbn [check_bool] in Hc.
  - destruct o; try discriminate. simpl in He. destruct (eval e) as [x|]; simpl in He; [|discriminate]. eapply un_not_bool; eauto.
  - simpl in He. eapply bin_bool; eauto.
  - destruct o; try discriminate. apply andb_prop in Hc as [Hc12 Hc3]. apply andb_prop in Hc12 as [Hc1 Hc2].
    simpl in Hl. destruct Hl as [Hl2 Hl3]. simpl in He. unfold ter_combine in He. simpl in He.
    destruct (eval e1) as [lv|]; [|discriminate]. destruct (as_bool lv); eauto.
  - discriminate.
  - simpl in He. injection He as <-. exact Hc.
  - apply Hl. exact He.
  - apply Hl. exact He.
Qed.
End Lang.
Check C05_value. Print Assumptions C05_value.
Check C05_exact. Print Assumptions C05_exact.
Check C06_terminates. Print Assumptions C06_terminates.
Check C06_idempotent. Print Assumptions C06_idempotent.
Check C10_no_unresolved. Print Assumptions C10_no_unresolved.
Check C11_sound. Print Assumptions C11_sound.


