(* C16: the calendar, millisecond and text facts composed through the builtin models (call_time, Time.v, extracted): what a caller of the
   date-time builtins observes, for every valid date in years 1..9999 and every time of day at millisecond resolution *)
From Flocq Require Import Core BinarySingleNaN.
Require Import ZArith NArith Bool List Arith Lia Reals Lra. Import ListNotations.
Require Import F64 Dec Types Generic Lang Builtins Time TimeFacts IndexFacts FracFacts.
Open Scope Z_scope.
Ltac Zify.zify_post_hook ::= Z.div_mod_to_equations.

Lemma to_int_sat_of_int lo hi k : lo <= k <= hi -> Z.abs k <= 2^52 -> to_int_sat lo hi (of_int k) = k.
Proof.
  intros Hk Ha. unfold to_int_sat. destruct (of_int_correct k Ha) as [_ F].
  pose proof (trunc_of_int k Ha) as T. destruct (of_int k) as [s|s| |s m e H]; try discriminate; rewrite T; unfold clamp; lia.
Qed.
Lemma to_i32_of_int k : - 2^31 <= k <= 2^31 - 1 -> to_i32 (of_int k) = k.
Proof. intros. apply to_int_sat_of_int; lia. Qed.
Lemma to_u32_of_int k : 0 <= k <= 2^32 - 1 -> to_u32 (of_int k) = k.
Proof. intros. apply to_int_sat_of_int; lia. Qed.

Lemma to_ms_of_ms M : Z.abs M <= 2^50 -> in_range M = true -> to_ms (of_ms M) = inl M.
Proof. intros A R. unfold to_ms, of_ms. rewrite (C16_ms_exact M A), R. reflexivity. Qed.

Definition tod_ms (h mi s ml:Z) : Z := ((h * 60 + mi) * 60 + s) * 1000 + ml.
Definition instant (y m d h mi s ml:Z) : Z := days_from_civil y m d * MSD + tod_ms h mi s ml.
Definition valid_tod (h mi s ml:Z) : Prop := 0 <= h < 24 /\ 0 <= mi < 60 /\ 0 <= s < 60 /\ 0 <= ml < 1000.
Lemma valid_date_bounds y m d : valid_date y m d = true -> 1 <= m <= 12 /\ 1 <= d <= 31.
Proof. unfold valid_date. intros H. apply andb_prop in H as [H H4]. apply andb_prop in H as [H H3]. apply andb_prop in H as [H1 H2]. pose proof (dim_le_31 y m). lia. Qed.
Lemma days_bounds y m d : 1 <= y <= 9999 -> 1 <= m <= 12 -> 1 <= d <= 31 -> -719468 <= days_from_civil y m d <= 3000000.
Proof.
  intros Hy Hm Hd. unfold days_from_civil, doe_of. destruct (m <=? 2) eqn:E1; destruct (2 <? m) eqn:E2; lia.
Qed.
Lemma min_max_days : min_days < -719468 /\ 3000000 < max_days. Proof. vm_compute. split; reflexivity. Qed.
Lemma instant_ok y m d h mi s ml : valid_date y m d = true -> 1 <= y <= 9999 -> valid_tod h mi s ml ->
  let M := instant y m d h mi s ml in Z.abs M <= 2^50 /\ in_range M = true /\ M / MSD = days_from_civil y m d /\ M mod MSD = tod_ms h mi s ml.
Proof.
  intros V Hy (Hh & Hmi & Hs & Hml) M. destruct (valid_date_bounds y m d V) as [Bm Bd]. pose proof (days_bounds y m d Hy Bm Bd) as Bdays.
  assert (Bt : 0 <= tod_ms h mi s ml < MSD) by (unfold tod_ms, MSD; lia).
  assert (Ed : M / MSD = days_from_civil y m d). { unfold M, instant. rewrite Z.div_add_l by (unfold MSD; lia). rewrite Z.div_small by exact Bt. lia. }
  assert (Em : M mod MSD = tod_ms h mi s ml). { unfold M, instant. rewrite Z.add_comm, Z.mod_add by (unfold MSD; lia). apply Z.mod_small. exact Bt. }
  repeat split; try assumption.
  - unfold M, instant. unfold MSD in *. lia.
  - unfold in_range. rewrite Ed. pose proof min_max_days. apply andb_true_intro. split; apply Z.leb_le; lia.
Qed.

Definition year_n := A [121;101;97;114]. Definition month_n := A [109;111;110;116;104]. Definition day_n := A [100;97;121].
Definition hour_n := A [104;111;117;114]. Definition minute_n := A [109;105;110;117;116;101]. Definition second_n := A [115;101;99;111;110;100].
Definition millisecond_n := A [109;105;108;108;105;115;101;99;111;110;100]. Definition day_of_week_n := A [100;97;121;95;111;102;95;119;101;101;107].
Definition is_leap_year_n := A [105;115;95;108;101;97;112;95;121;101;97;114].
Definition with_dt (v:value) (k : Z -> Z -> Z -> Z -> bres) : bres :=
  match to_ms v with inr e => BErr e | inl ms => let days := ms / MSD in let tod := ms mod MSD in let '(y,m,d) := civil_from_days days in k y m d tod end.
Lemma call_year v : call_time year_n [v] = with_dt v (fun y _ _ _ => num y). Proof. reflexivity. Qed.
Lemma call_month v : call_time month_n [v] = with_dt v (fun _ m _ _ => num m). Proof. reflexivity. Qed.
Lemma call_day v : call_time day_n [v] = with_dt v (fun _ _ d _ => num d). Proof. reflexivity. Qed.
Lemma call_hour v : call_time hour_n [v] = with_dt v (fun _ _ _ t => num (t / 3600000)). Proof. reflexivity. Qed.
Lemma call_minute v : call_time minute_n [v] = with_dt v (fun _ _ _ t => num ((t / 60000) mod 60)). Proof. reflexivity. Qed.
Lemma call_second v : call_time second_n [v] = with_dt v (fun _ _ _ t => num ((t / 1000) mod 60)). Proof. reflexivity. Qed.
Lemma call_millisecond v : call_time millisecond_n [v] = with_dt v (fun _ _ _ t => num (t mod 1000)). Proof. reflexivity. Qed.
Lemma call_dow v : call_time day_of_week_n [v] = match to_ms v with inr e => BErr e | inl ms => num ((ms / MSD + 3) mod 7) end. Proof. reflexivity. Qed.
Lemma call_leap v : call_time is_leap_year_n [v] = with_dt v (fun y _ _ _ => BOk (VBool (is_leap y))). Proof. reflexivity. Qed.

Lemma with_dt_instant y m d h mi s ml k : valid_date y m d = true -> 1 <= y <= 9999 -> valid_tod h mi s ml ->
  with_dt (of_ms (instant y m d h mi s ml)) k = k y m d (tod_ms h mi s ml).
Proof.
  intros V Hy Ht. destruct (instant_ok y m d h mi s ml V Hy Ht) as (A1 & A2 & A3 & A4). unfold with_dt.
  rewrite (to_ms_of_ms _ A1 A2). cbv zeta. rewrite A3, A4, (civil_roundtrip y m d V). reflexivity.
Qed.
(* every component that was encoded is recovered, for every valid date in years 1..9999 and every time of day at millisecond resolution *)
Theorem components_recovered y m d h mi s ml : valid_date y m d = true -> 1 <= y <= 9999 -> valid_tod h mi s ml ->
  let x := of_ms (instant y m d h mi s ml) in
  call_time year_n [x] = num y /\ call_time month_n [x] = num m /\ call_time day_n [x] = num d /\
  call_time hour_n [x] = num h /\ call_time minute_n [x] = num mi /\ call_time second_n [x] = num s /\ call_time millisecond_n [x] = num ml /\
  call_time day_of_week_n [x] = num ((days_from_civil y m d + 3) mod 7) /\ call_time is_leap_year_n [x] = BOk (VBool (is_leap y)).
Proof.
  intros V Hy Ht x. pose proof Ht as (Hh & Hmi & Hs & Hml).
  rewrite call_year, call_month, call_day, call_hour, call_minute, call_second, call_millisecond, call_dow, call_leap. unfold x.
  rewrite !(with_dt_instant y m d h mi s ml _ V Hy Ht).
  destruct (instant_ok y m d h mi s ml V Hy Ht) as (A1 & A2 & A3 & A4). rewrite (to_ms_of_ms _ A1 A2), A3.
  repeat split; f_equal; f_equal; f_equal; unfold tod_ms; lia.
Qed.

Definition encode_date_n := A [101;110;99;111;100;101;95;100;97;116;101]. Definition encode_time_n := A [101;110;99;111;100;101;95;116;105;109;101].
Definition inc_month_n := A [105;110;99;95;109;111;110;116;104]. Definition date_n := A [100;97;116;101]. Definition time_n := A [116;105;109;101].
Definition zi (z:Z) : value := VNum (of_int z).
Lemma call_encode_date y m d : call_time encode_date_n [VNum y; VNum m; VNum d] =
  (let y := to_i32 y in let m := to_u32 m in let d := to_u32 d in
   if valid_date y m d && (-262143 <=? y) && (y <=? 262142) then BOk (of_ms (days_from_civil y m d * MSD)) else BErr CustomError).
Proof. reflexivity. Qed.
(* encode_date on integer arguments: exactly the day number of the date, and an error for every date that does not exist *)
Theorem encode_date_builtin y m d : 1 <= y <= 9999 -> 0 <= m <= 2^31 -> 0 <= d <= 2^31 ->
  call_time encode_date_n [zi y; zi m; zi d] = if valid_date y m d then BOk (of_ms (days_from_civil y m d * MSD)) else BErr CustomError.
Proof.
  intros Hy Hm Hd. unfold zi. rewrite call_encode_date. cbv zeta. rewrite to_i32_of_int, !to_u32_of_int by lia.
  replace (-262143 <=? y) with true by (symmetry; apply Z.leb_le; lia). replace (y <=? 262142) with true by (symmetry; apply Z.leb_le; lia).
  rewrite !andb_true_r. reflexivity.
Qed.
Corollary nonexistent_dates_rejected y : 1 <= y <= 9999 ->
  call_time encode_date_n [zi y; zi 13; zi 1] = BErr CustomError /\ call_time encode_date_n [zi y; zi 2; zi 30] = BErr CustomError /\
  call_time encode_date_n [zi y; zi 1; zi 0] = BErr CustomError /\ call_time encode_date_n [zi y; zi 0; zi 1] = BErr CustomError /\
  call_time encode_date_n [zi y; zi 4; zi 31] = BErr CustomError /\ (is_leap y = false -> call_time encode_date_n [zi y; zi 2; zi 29] = BErr CustomError).
Proof.
  intros Hy. rewrite !encode_date_builtin by lia. unfold valid_date, dim. cbn [Z.eqb Z.leb Z.compare Pos.compare Pos.compare_cont andb orb].
  repeat split; try reflexivity; try (destruct (is_leap y); reflexivity). intros ->. reflexivity.
Qed.

Lemma call_encode_time4 h mi s ml : call_time encode_time_n [VNum h; VNum mi; VNum s; VNum ml] =
  (let h' := to_u32 h in let mi' := to_u32 mi in let s' := to_u32 s in let ml' := to_u32 ml in
   if negb (ge0 h && ge0 mi && ge0 s && ge0 ml) then BErr CustomError else
   if (h' <? 24) && (mi' <? 60) && (s' <? 60) && (ml' <? 4294968) && ((ml' <? 1000) || ((s' =? 59) && (ml' <? 2000))) then BOk (of_ms (((h' * 60 + mi') * 60 + s') * 1000 + ml')) else BErr CustomError).
Proof. reflexivity. Qed.
Lemma call_encode_time3 h mi s : call_time encode_time_n [VNum h; VNum mi; VNum s] = call_time encode_time_n [VNum h; VNum mi; VNum s; VNum (of_int 0)].
Proof. reflexivity. Qed.
(* encode_time on integer arguments: exactly the millisecond count of the time of day; hours, minutes or seconds out of range are rejected *)
Theorem encode_time_builtin h mi s ml : 0 <= h <= 2^31 -> 0 <= mi <= 2^31 -> 0 <= s <= 2^31 -> 0 <= ml < 1000 ->
  call_time encode_time_n [zi h; zi mi; zi s; zi ml] = if (h <? 24) && (mi <? 60) && (s <? 60) then BOk (of_ms (tod_ms h mi s ml)) else BErr CustomError.
Proof.
  intros Hh Hmi Hs Hml. unfold zi. rewrite call_encode_time4. cbv zeta. rewrite !ge0_of_int by lia. rewrite !to_u32_of_int by lia. cbn [andb negb].
  replace (ml <? 4294968) with true by (symmetry; apply Z.ltb_lt; lia). replace (ml <? 1000) with true by (symmetry; apply Z.ltb_lt; lia).
  rewrite orb_true_l, !andb_true_r. reflexivity.
Qed.
Corollary encode_time_default_ms h mi s : 0 <= h <= 2^31 -> 0 <= mi <= 2^31 -> 0 <= s <= 2^31 ->
  call_time encode_time_n [zi h; zi mi; zi s] = if (h <? 24) && (mi <? 60) && (s <? 60) then BOk (of_ms (tod_ms h mi s 0)) else BErr CustomError.
Proof. intros. unfold zi. rewrite call_encode_time3. apply encode_time_builtin; lia. Qed.
Corollary out_of_range_times_rejected : call_time encode_time_n [zi 24; zi 0; zi 0] = BErr CustomError /\ call_time encode_time_n [zi 0; zi 60; zi 0] = BErr CustomError /\
  call_time encode_time_n [zi 0; zi 0; zi 60] = BErr CustomError.
Proof. rewrite !encode_time_default_ms by lia. repeat split; reflexivity. Qed.
Lemma neg_rejected h mi s : ge0 h && ge0 mi && ge0 s = false -> call_time encode_time_n [VNum h; VNum mi; VNum s] = BErr CustomError.
Proof. intros H. rewrite call_encode_time3, call_encode_time4. cbv zeta. rewrite H. reflexivity. Qed.

(* inc_month *)
Lemma add_months_spec y m d k y' m' d' : 1 <= m <= 12 -> add_months y m d k = Some (y', m', d') ->
  y' * 12 + (m' - 1) = y * 12 + (m - 1) + k /\ 1 <= m' <= 12 /\ d' = Z.min d (dim y' m').
Proof.
  unfold add_months. intros Hm. cbv zeta. destruct ((-262143 <=? (y * 12 + (m - 1) + k) / 12) && ((y * 12 + (m - 1) + k) / 12 <=? 262142)); [|discriminate].
  intros E. injection E as <- <- <-. repeat split; lia.
Qed.
Lemma dim_ge_28 y m : 28 <= dim y m. Proof. unfold dim. destruct (m =? 2); [destruct (is_leap y); lia|]. destruct ((m =? 4) || (m =? 6) || (m =? 9) || (m =? 11)); lia. Qed.
Lemma clamped_valid y m d : 1 <= m <= 12 -> 1 <= d -> valid_date y m (Z.min d (dim y m)) = true.
Proof. intros Hm Hd. pose proof (dim_ge_28 y m). unfold valid_date. apply andb_true_intro; split; [apply andb_true_intro; split; [apply andb_true_intro; split|]|]; apply Z.leb_le; lia. Qed.
Lemma fcmp_of_int k : Z.abs k <= 2^52 -> fcmp (of_int k) (of_int 0) = Some (k ?= 0).
Proof.
  intros Hk. unfold fcmp. destruct (of_int_correct k Hk) as [Rk Fk]. destruct (of_int_correct 0 ltac:(lia)) as [R0 F0].
  rewrite (Bcompare_correct prec emax _ _ Fk F0), Rk, R0. f_equal. apply Rcompare_IZR.
Qed.
Lemma call_inc_month v inc : call_time inc_month_n [v; VNum inc] = with_dt v (fun y m d tod =>
          let k := to_i32 inc in
          let pos := match fcmp inc (of_int 0) with Some Gt => true | _ => false end in
          let neg := match fcmp inc (of_int 0) with Some Lt => true | _ => false end in
          if pos || neg then
            match add_months y m d (if pos then Z.abs k else - Z.abs k) with
            | Some (y', m', d') => BOk (of_ms (days_from_civil y' m' d' * MSD + tod)) | None => BErr CustomError end
          else BOk (of_ms (days_from_civil y m d * MSD + tod))).
Proof. reflexivity. Qed.
Lemma call_inc_month1 v : call_time inc_month_n [v] = call_time inc_month_n [v; VNum (of_int 1)]. Proof. reflexivity. Qed.
(* inc_month moves by whole calendar months (month index y*12+m-1 shifted by k), keeps the time of day, and clamps the day to the target month's length *)
Theorem inc_month_builtin y m d h mi s ml k : valid_date y m d = true -> 1 <= y <= 9999 -> valid_tod h mi s ml -> - 2^31 < k < 2^31 ->
  let t := y * 12 + (m - 1) + k in let y' := t / 12 in let m' := t mod 12 + 1 in
  -262143 <= y' <= 262142 ->
  call_time inc_month_n [of_ms (instant y m d h mi s ml); zi k] = BOk (of_ms (instant y' m' (Z.min d (dim y' m')) h mi s ml)) /\
  valid_date y' m' (Z.min d (dim y' m')) = true /\ y' * 12 + (m' - 1) = y * 12 + (m - 1) + k.
Proof.
  intros V Hy Ht Hk t y' m' Hr. destruct (valid_date_bounds y m d V) as [Bm Bd].
  split; [|split; [apply clamped_valid; unfold m'; lia | unfold y', m'; lia]].
  unfold zi. rewrite call_inc_month, (with_dt_instant y m d h mi s ml _ V Hy Ht). cbv zeta.
  rewrite to_i32_of_int by lia. rewrite (fcmp_of_int k) by lia.
  assert (Eam : add_months y m d k = Some (y', m', Z.min d (dim y' m'))).
  { unfold add_months. cbv zeta. fold t. fold y'. replace ((-262143 <=? y') && (y' <=? 262142)) with true by (symmetry; apply andb_true_intro; split; apply Z.leb_le; lia). reflexivity. }
  destruct (Z.compare_spec k 0) as [E|L|G].
  - subst k. cbn [orb]. unfold instant. do 3 f_equal. f_equal. unfold y', m', t. replace (y * 12 + (m - 1) + 0) with (m - 1 + y * 12) by lia.
    rewrite Z.div_add, Z.mod_add by lia. rewrite Z.div_small, Z.mod_small by lia. replace (0 + y) with y by lia. replace (m - 1 + 1) with m by lia.
    apply andb_prop in V as [_ V]. apply Z.leb_le in V. rewrite Z.min_l by lia. reflexivity.
  - cbn [orb]. replace (- Z.abs k) with k by lia. rewrite Eam. reflexivity.
  - cbn [orb]. replace (Z.abs k) with k by lia. rewrite Eam. reflexivity.
Qed.

(* date(x) + time(x) = x *)
Lemma call_date x : call_time date_n [VNum x] = BOk (VNum (ftrunc x)). Proof. reflexivity. Qed.
Lemma call_time_of x : call_time time_n [VNum x] = BOk (VNum (ffract x)). Proof. reflexivity. Qed.
Theorem date_plus_time x : is_finite x = true ->
  exists dx tx, call_time date_n [VNum x] = BOk (VNum dx) /\ call_time time_n [VNum x] = BOk (VNum tx) /\ feq (fadd dx tx) x = true.
Proof. intros F. exists (ftrunc x), (ffract x). rewrite call_date, call_time_of. repeat split. apply trunc_plus_frac_eq. exact F. Qed.

(* the number produced: of_ms M is the double nearest to M / 86400000; a whole number of days is produced exactly *)
Open Scope R_scope.
Lemma of_ms_R (M:Z) : (Z.abs M <= 2^52)%Z -> of_ms M = VNum (fdiv (of_int M) fD) /\ B2R (fdiv (of_int M) fD) = rnd (IZR M / 86400000) /\ is_finite (fdiv (of_int M) fD) = true.
Proof.
  intros HM. split; [reflexivity|].
  destruct (of_int_correct M HM) as [Rx Fx]. destruct (of_int_correct MSD ltac:(unfold MSD; lia)) as [Rd Fd]. fold fD in Rd, Fd.
  assert (HD : IZR MSD = 86400000) by (unfold MSD; reflexivity).
  unfold fdiv. generalize (Bdiv_correct prec emax _ _ mode_NE (of_int M) fD ltac:(rewrite Rd, HD; lra)).
  rewrite Rx, Rd, fexp_eq, HD. simpl round_mode. rewrite Rlt_bool_true.
  - intros (A & B & _). rewrite B, Fx. auto.
  - apply bpow_emax_big. apply (abs_round_le_generic radix2 fexp ZnearestE); [apply int_format; lia |].
    unfold Rdiv. rewrite Rabs_mult. rewrite (Rabs_right (/ 86400000)) by lra.
    assert (Rabs (IZR M) <= IZR (2^52)) by (rewrite <- abs_IZR; apply IZR_le; lia). assert (0 <= Rabs (IZR M)) by apply Rabs_pos. nra.
Qed.
Lemma whole_days_exact (k:Z) : (Z.abs k <= 2^23)%Z -> B2R (fdiv (of_int (k * MSD)) fD) = IZR k.
Proof.
  intros Hk. destruct (of_ms_R (k * MSD) ltac:(unfold MSD; lia)) as (_ & R & _). rewrite R.
  replace (IZR (k * MSD) / 86400000) with (IZR k) by (rewrite mult_IZR; unfold MSD; field).
  apply round_generic; [apply valid_rnd_N | apply int_format; lia].
Qed.
Close Scope R_scope.

(* default-format strings *)
Definition string_to_date_n := A [115;116;114;105;110;103;95;116;111;95;100;97;116;101]. Definition string_to_time_n := A [115;116;114;105;110;103;95;116;111;95;116;105;109;101].
Definition date_to_string_n := A [100;97;116;101;95;116;111;95;115;116;114;105;110;103].
Lemma digv_dig q : 0 <= q <= 9 -> digv (Z.to_N (48 + q)) = Some q.
Proof.
  intros Hq. unfold digv. replace ((48 <=? Z.to_N (48 + q))%N && (Z.to_N (48 + q) <=? 57)%N) with true.
  - f_equal. rewrite Z2N.id by lia. lia.
  - symmetry. apply andb_true_intro. split; apply N.leb_le; lia.
Qed.
Lemma num_of_dig2 z : 0 <= z <= 99 -> num_of (dig2 z) = Some z.
Proof. intros Hz. unfold num_of, dig2. cbn [fold_left]. rewrite !digv_dig by lia. f_equal. lia. Qed.
Lemma num_of_dig4 z : 0 <= z <= 9999 -> num_of (dig4 z) = Some z.
Proof. intros Hz. unfold num_of, dig4. cbn [fold_left]. rewrite !digv_dig by lia. f_equal. lia. Qed.
Lemma parse_show_date y m d : 0 <= y <= 9999 -> 0 <= m <= 99 -> 0 <= d <= 99 -> parse_date (show_date y m d) = Some (y, m, d).
Proof.
  intros Hy Hm Hd. unfold show_date. unfold dig4 at 1, dig2 at 1 2. cbn [app]. unfold parse_date. cbn [N.eqb Pos.eqb andb].
  fold (dig4 y). fold (dig2 m). fold (dig2 d). rewrite num_of_dig4, !num_of_dig2 by lia. reflexivity.
Qed.
Lemma parse_show_time h mi s : 0 <= h <= 99 -> 0 <= mi <= 99 -> 0 <= s <= 99 -> parse_time (show_time h mi s) = Some (h, mi, s).
Proof.
  intros Hh Hm Hs. unfold show_time. unfold dig2 at 1 2 3. cbn [app]. unfold parse_time. cbn [N.eqb Pos.eqb andb].
  fold (dig2 h). fold (dig2 mi). fold (dig2 s). rewrite !num_of_dig2 by lia. reflexivity.
Qed.
Lemma call_string_to_date s : call_time string_to_date_n [VStr s] =
  match parse_date s with Some (y,m,d) => if valid_date y m d then BOk (of_ms (days_from_civil y m d * MSD)) else BErr CustomError | None => BUnmodelled end.
Proof. reflexivity. Qed.
Lemma call_string_to_time s : call_time string_to_time_n [VStr s] =
  match parse_time s with Some (h,mi,ss) => if (h <? 24) && (mi <? 60) && (ss <? 60) then BOk (of_ms (((h * 60 + mi) * 60 + ss) * 1000)) else BUnmodelled | None => BUnmodelled end.
Proof. reflexivity. Qed.
(* string_to_date / string_to_time on the default-format spelling produce exactly the number encode_date / encode_time produce *)
Theorem string_to_date_builtin y m d : 0 <= y <= 9999 -> 0 <= m <= 99 -> 0 <= d <= 99 ->
  call_time string_to_date_n [VStr (show_date y m d)] = if valid_date y m d then BOk (of_ms (days_from_civil y m d * MSD)) else BErr CustomError.
Proof. intros. rewrite call_string_to_date, parse_show_date by lia. reflexivity. Qed.
Theorem string_to_time_builtin h mi s : valid_tod h mi s 0 -> call_time string_to_time_n [VStr (show_time h mi s)] = BOk (of_ms (tod_ms h mi s 0)).
Proof.
  intros (Hh & Hm & Hs & _). rewrite call_string_to_time, parse_show_time by lia.
  replace ((h <? 24) && (mi <? 60) && (s <? 60)) with true by (symmetry; repeat (apply andb_true_intro; split); apply Z.ltb_lt; lia).
  unfold tod_ms. do 2 f_equal. lia.
Qed.
Lemma call_date_to_string f v : call_time date_to_string_n [VStr f; v] =
        match to_ms v with inr e => BErr e | inl ms =>
          let days := ms / MSD in let tod := ms mod MSD in let '(y,m,d) := civil_from_days days in
          let h := tod / 3600000 in let mi := (tod / 60000) mod 60 in let s := (tod / 1000) mod 60 in
          if negb ((0 <=? y) && (y <=? 9999)) then BUnmodelled
          else if leqb f fmt_date then BOk (VStr (show_date y m d)) else if leqb f fmt_time then BOk (VStr (show_time h mi s))
          else if leqb f fmt_dt then BOk (VStr (show_date y m d ++ [32%N] ++ show_time h mi s)) else BUnmodelled end.
Proof. reflexivity. Qed.
(* date_to_string with the default formats spells exactly the components that were encoded *)
Theorem date_to_string_builtin y m d h mi s ml : valid_date y m d = true -> 1 <= y <= 9999 -> valid_tod h mi s ml ->
  let x := of_ms (instant y m d h mi s ml) in
  call_time date_to_string_n [VStr fmt_date; x] = BOk (VStr (show_date y m d)) /\
  call_time date_to_string_n [VStr fmt_time; x] = BOk (VStr (show_time h mi s)) /\
  call_time date_to_string_n [VStr fmt_dt; x] = BOk (VStr (show_date y m d ++ [32%N] ++ show_time h mi s)).
Proof.
  intros V Hy Ht x. pose proof Ht as (Hh & Hmi & Hs & Hml). destruct (instant_ok y m d h mi s ml V Hy Ht) as (A1 & A2 & A3 & A4).
  unfold x. rewrite !call_date_to_string, (to_ms_of_ms _ A1 A2). cbv zeta. rewrite A3, A4, (civil_roundtrip y m d V).
  replace ((0 <=? y) && (y <=? 9999)) with true by (symmetry; apply andb_true_intro; split; apply Z.leb_le; lia). cbn [negb].
  replace (tod_ms h mi s ml / 3600000) with h by (unfold tod_ms; lia). replace ((tod_ms h mi s ml / 60000) mod 60) with mi by (unfold tod_ms; lia).
  replace ((tod_ms h mi s ml / 1000) mod 60) with s by (unfold tod_ms; lia).
  repeat split; reflexivity.
Qed.
(* so the text round trip holds: string_to_date (date_to_string x) is the date part of x *)
Corollary date_text_roundtrip y m d h mi s ml : valid_date y m d = true -> 1 <= y <= 9999 -> valid_tod h mi s ml ->
  exists txt, call_time date_to_string_n [VStr fmt_date; of_ms (instant y m d h mi s ml)] = BOk (VStr txt) /\
              call_time string_to_date_n [VStr txt] = BOk (of_ms (instant y m d 0 0 0 0)).
Proof.
  intros V Hy Ht. exists (show_date y m d). destruct (date_to_string_builtin y m d h mi s ml V Hy Ht) as (E & _). split; [exact E|].
  destruct (valid_date_bounds y m d V). rewrite string_to_date_builtin by lia. rewrite V. unfold instant, tod_ms. do 2 f_equal. lia.
Qed.

Definition string_to_datetime_n := A [115;116;114;105;110;103;95;116;111;95;100;97;116;101;116;105;109;101].
Lemma call_string_to_datetime s : call_time string_to_datetime_n [VStr s] =
        if Nat.eqb (length s) 19 && (nth 10 s 0%N =? 32)%N then
          match parse_date (firstn 10 s), parse_time (skipn 11 s) with
          | Some (y,m,d), Some (h,mi,ss) =>
              if negb (valid_date y m d) then BErr CustomError
              else if (h <? 24) && (mi <? 60) && (ss <? 60) then BOk (of_ms (days_from_civil y m d * MSD + ((h * 60 + mi) * 60 + ss) * 1000)) else BUnmodelled
          | _, _ => BUnmodelled end
        else BUnmodelled.
Proof. reflexivity. Qed.
Theorem string_to_datetime_builtin y m d h mi s : valid_date y m d = true -> 0 <= y <= 9999 -> valid_tod h mi s 0 ->
  call_time string_to_datetime_n [VStr (show_date y m d ++ [32%N] ++ show_time h mi s)] = BOk (of_ms (instant y m d h mi s 0)).
Proof.
  intros V Hy (Hh & Hm & Hs & _). destruct (valid_date_bounds y m d V). rewrite call_string_to_datetime.
  assert (L : length (show_date y m d) = 10%nat) by reflexivity.
  assert (E1 : firstn 10 (show_date y m d ++ [32%N] ++ show_time h mi s) = show_date y m d) by (rewrite <- L, firstn_app, Nat.sub_diag, firstn_all; cbn [firstn]; apply app_nil_r).
  assert (E2 : skipn 11 (show_date y m d ++ [32%N] ++ show_time h mi s) = show_time h mi s) by reflexivity.
  rewrite E1, E2. replace (Nat.eqb _ 19 && _) with true by reflexivity.
  rewrite parse_show_date, parse_show_time by lia. rewrite V. cbn [negb].
  replace ((h <? 24) && (mi <? 60) && (s <? 60)) with true by (symmetry; repeat (apply andb_true_intro; split); apply Z.ltb_lt; lia).
  unfold instant, tod_ms. do 3 f_equal. lia.
Qed.
