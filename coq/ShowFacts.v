(* float(str(x)) = x: whatever text the printing model produces for a number that is not NaN, the parsing model maps it back to exactly that number (bit for bit) *)
From Flocq Require Import Core BinarySingleNaN.
Require Import ZArith NArith Bool List. Import ListNotations.
Require Import F64 Dec Show.
Open Scope Z_scope.
Lemma fsame_eq x y : fsame x y = true -> x = y.
Proof.
  intros H. apply B2SF_inj. destruct x as [s|s| |s m e Hx], y as [s'|s'| |s' m' e' Hy]; cbn in H; try discriminate; cbn [B2SF].
  - apply Bool.eqb_prop in H. subst. reflexivity.
  - apply Bool.eqb_prop in H. subst. reflexivity.
  - reflexivity.
  - apply andb_prop in H as [H He]. apply andb_prop in H as [Hs Hm]. apply Bool.eqb_prop in Hs. apply Pos.eqb_eq in Hm. apply Z.eqb_eq in He. subst. reflexivity.
Qed.
Lemma try_cand_roundtrip x neg D q t : try_cand x neg D q = Some t -> parse_f64 t = Some x.
Proof.
  unfold try_cand. destruct (D <=? 0); [discriminate|]. cbv zeta. destruct (parse_f64 _) as [y|] eqn:P; [|discriminate]. destruct (fsame y x) eqn:F; [|discriminate].
  intros H. injection H as <-. rewrite P. f_equal. apply fsame_eq, F.
Qed.
Lemma cand_roundtrip x neg num den k n t : cand x neg num den k n = Some t -> parse_f64 t = Some x.
Proof.
  unfold cand. cbv zeta. destruct (_ =? 0); [apply try_cand_roundtrip|]. destruct (match _ ?= _ with Gt => true | Lt => false | Eq => _ end).
  - destruct (try_cand x neg (_ + 1) _) as [t'|] eqn:R1; [intros H; injection H as <-; eapply try_cand_roundtrip, R1 | apply try_cand_roundtrip].
  - destruct (try_cand x neg (_ / _) _) as [t'|] eqn:R1; [intros H; injection H as <-; eapply try_cand_roundtrip, R1 | apply try_cand_roundtrip].
Qed.
Lemma bisect_roundtrip x neg num den k fuel : forall lo hi best, parse_f64 best = Some x -> parse_f64 (bisect x neg num den k fuel lo hi best) = Some x.
Proof.
  induction fuel as [|f IH]; intros lo hi best Hb; cbn [bisect]; [exact Hb|]. destruct (hi <=? lo); [exact Hb|]. cbv zeta.
  destruct (cand x neg num den k ((lo + hi) / 2)) as [t|] eqn:C; apply IH; [eapply cand_roundtrip, C | exact Hb].
Qed.
Lemma show_mag_roundtrip x neg m e s : show_mag x neg m e = Some s -> parse_f64 s = Some x.
Proof.
  unfold show_mag. cbv zeta. destruct (cand x neg _ _ _ 17) as [s17|] eqn:C; [|discriminate]. intros H.
  assert (E : s = bisect x neg (Z.pos m * 2 ^ Z.max e 0) (2 ^ Z.max (- e) 0) (log10_floor (Z.pos m * 2 ^ Z.max e 0) (2 ^ Z.max (- e) 0)) 6%nat 1 17 s17) by congruence.
  rewrite E. apply bisect_roundtrip. eapply cand_roundtrip, C.
Qed.
Theorem show_roundtrip x s : show_f64 x = Some s -> x <> B754_nan -> parse_f64 s = Some x.
Proof.
  destruct x as [sg|sg| |sg m e Hx]; cbn [show_f64]; intros H Hn.
  - injection H as <-. destruct sg; vm_compute; reflexivity.
  - injection H as <-. destruct sg; vm_compute; reflexivity.
  - congruence.
  - eapply show_mag_roundtrip, H.
Qed.

(* str of a small whole number is its decimal numeral (finite sweep; the bound is in the statement) *)
Fixpoint zr (lo:Z) (k:nat) : list Z := match k with O => [] | S k' => lo :: zr (lo + 1)%Z k' end.
Definition numeral (z:Z) : list N := if (z <? 0)%Z then 45%N :: zdigits (- z) else zdigits z.
Definition shows_numeral (z:Z) : bool := match show_f64 (of_int z) with Some t => leqb t (numeral z) | None => false end.
Definition small_integers : list Z := flat_map (fun h => map (fun l => (h * 100 + l)%Z) (zr 0 100)) (zr (-10) 20).
Lemma small_integers_shown : length small_integers = 2000%nat /\ forallb shows_numeral small_integers = true.
Proof. vm_compute. split; reflexivity. Qed.
