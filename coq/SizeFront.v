(* Bounded output of the front end: a text of n characters scans to at most n tokens (each token consumes a character) and the parser builds a tree with at most one node
   per token (each node is paid for by a token of its own), so compile returns a tree with at most n nodes. *)
Require Import ZArith NArith Bool List Arith Lia. Import ListNotations.
Require Import F64 Dec Types Scan Pratt GenUnicode Front ScanTotal IO.

Theorem scan_token_count : forall s ts, scan_raw s = Scan.Ok ts -> (1 <= length ts <= length s)%nat.
Proof. intros s ts H. exact (tokenize_count u_alpha u_num f64 parse_f64 kw_of s ts H). Qed.

Theorem parse_node_count : forall (ts:list ptok) (e:pexpr), Pratt.compile value (list N) ts = Pratt.Ok e -> (Pratt.nodes value (list N) e <= length ts)%nat.
Proof.
  intros ts e H. unfold Pratt.compile in H.
  destruct (Pratt.parse_prec value (list N) (2 * length ts + 2) Pratt.POr ts) as [r|] eqn:E; [|discriminate]. cbn [Pratt.bind] in H.
  destruct (proj1 (Pratt.nodes_bound value (list N) _) _ _ _ E). { destruct (snd r); [injection H as <-; lia | discriminate]. }
  destruct (snd r); [injection H as <-|discriminate]. lia.
Qed.

Lemma conv_nodes_l (es:list pexpr) : Forall (fun e => nodes (conv_expr e) = Pratt.nodes value (list N) e) es -> list_sum (map nodes (map conv_expr es)) = Pratt.nodes_l value (list N) es.
Proof. induction 1 as [|x t Hx Ht IH]; [reflexivity|]. rewrite !map_cons. change (list_sum (nodes (conv_expr x) :: map nodes (map conv_expr t))) with (nodes (conv_expr x) + list_sum (map nodes (map conv_expr t)))%nat. rewrite Hx, IH. reflexivity. Qed.
Lemma conv_nodes : forall e : pexpr, nodes (conv_expr e) = Pratt.nodes value (list N) e.
Proof.
  induction e using (Pratt.pexpr_ind' value (list N)).
  - destruct o; cbn [conv_expr nodes Pratt.nodes]; lia.
  - cbn [conv_expr nodes Pratt.nodes]. lia.
  - rewrite Pratt.nodes_arr. change (conv_expr (Pratt.EArr es)) with (Types.EArr (map conv_expr es)). cbn [nodes]. rewrite (conv_nodes_l es H). reflexivity.
  - reflexivity.
  - reflexivity.
  - rewrite Pratt.nodes_call. change (conv_expr (Pratt.ECall n ps)) with (Types.ECall n (map conv_expr ps)). cbn [nodes]. rewrite (conv_nodes_l ps H). reflexivity.
Qed.

Theorem compile_size : forall s e, Front.compile s = COk e -> (nodes e <= length s)%nat.
Proof.
  intros s e H. unfold Front.compile in H. destruct (scan_raw s) as [ts|] eqn:S; [|discriminate].
  destruct (Pratt.compile value (list N) (map conv_tok ts)) as [pe|] eqn:P; [|discriminate]. injection H as <-.
  apply scan_token_count in S. apply parse_node_count in P. rewrite map_length in P. rewrite conv_nodes. lia.
Qed.
