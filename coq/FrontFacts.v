(* Front end: the ties between the hand-written scanner/parser and the tables regenerated from the source,
   the Unicode instance of the scanner hypotheses, and totality of the composed compile *)
From Flocq Require Import Core BinarySingleNaN.
Require Import ZArith NArith Bool List Arith Lia. Import ListNotations.
Require Import F64 Dec Types Scan Pratt GenUnicode Front ScanTotal GenTokens GenDispatch.

(* ---- Rust names of the model's tokens, precedences and operators ---- *)
Definition rt_bin (b:Pratt.binop) : rtoken := match b with
  | Pratt.Plus => RPlus | Pratt.Minus => RMinus | Pratt.Multiply => RStar | Pratt.Divide => RSlash | Pratt.Greater => RGreater | Pratt.GreaterEqual => RGreaterEqual
  | Pratt.Less => RLess | Pratt.LessEqual => RLessEqual | Pratt.Equal => REqual | Pratt.NotEqual => RNotEqual | Pratt.And => RAnd | Pratt.Or => ROr | Pratt.Xor => RXor
  | Pratt.Div => RDiv | Pratt.Mod => RMod end.
Definition rt {L I} (t:Pratt.token L I) : rtoken := match t with
  | LParen => RLeftParen | RParen => RRightParen | LBracket => RLeftBracket | RBracket => RRightBracket | Comma => RComma | TNot => RNot
  | TLit _ => RLiteral | Pratt.TId _ => RIdentifier | TBin b => rt_bin b end.
Definition rp (p:Pratt.prec) : rprec := match p with
  | PNone => RpNone | POr => RpOr | PAnd => RpAnd | PXor => RpXor | PEquality => RpEquality | PComparison => RpComparison | PTerm => RpTerm | PFactor => RpFactor
  | PUnary => RpUnary | PCall => RpCall | PPrimary => RpPrimary end.
Definition ro (o:Types.op) : roperator := match o with
  | Types.Plus => RoPlus | Types.Minus => RoMinus | Types.Multiply => RoMultiply | Types.Divide => RoDivide | Types.Greater => RoGreater | Types.GreaterEqual => RoGreaterEqual
  | Types.Less => RoLess | Types.LessEqual => RoLessEqual | Types.Equal => RoEqual | Types.NotEqual => RoNotEqual | Types.And => RoAnd | Types.Or => RoOr | Types.Xor => RoXor
  | Types.Not => RoNot | Types.Div => RoDiv | Types.Mod => RoMod | Types.TernaryCondition => RoTernaryCondition end.
Definition rtoken_eqb (a b:rtoken) : bool := match a, b with
  | RLeftParen,RLeftParen|RRightParen,RRightParen|RLeftBracket,RLeftBracket|RRightBracket,RRightBracket|RPlus,RPlus|RMinus,RMinus|RStar,RStar|RSlash,RSlash|RComma,RComma
  | RGreater,RGreater|RGreaterEqual,RGreaterEqual|RLess,RLess|RLessEqual,RLessEqual|REqual,REqual|RNotEqual,RNotEqual|RAnd,RAnd|ROr,ROr|RXor,RXor|RNot,RNot|RDiv,RDiv|RMod,RMod
  | RLiteral,RLiteral|RIdentifier,RIdentifier => true | _, _ => false end.
(* what one character / one word scans to, as a Rust token name (or a boolean literal) *)
Definition scans_to (s:list N) : option (rtoken + bool) :=
  match scan_raw s with
  | Scan.Ok [Scan.TKw KTrue] => Some (inr true) | Scan.Ok [Scan.TKw KFalse] => Some (inr false)
  | Scan.Ok [tk] => Some (inl (rt (conv_tok tk)))
  | _ => None end.
Definition same_target (a:option (rtoken + bool)) (b:rtoken + bool) : bool :=
  match a, b with Some (inl x), inl y => rtoken_eqb x y | Some (inr x), inr y => Bool.eqb x y | _, _ => false end.

(* ---- the Unicode classification (dumped from Rust's char methods) satisfies the scanner's hypotheses ---- *)
Lemma u_special_not_alnum : forall c, Scan.special c = true -> u_alpha c = false /\ u_num c = false.
Proof.
  intros c H. unfold Scan.special in H. apply orb_prop in H as [H|H].
  - unfold is_ws in H. repeat (apply orb_prop in H as [H|H]); apply N.eqb_eq in H; subst c; vm_compute; auto.
  - cbn [existsb] in H. repeat (apply orb_prop in H as [H|H]; [apply N.eqb_eq in H; subst c; vm_compute; auto|]). discriminate.
Qed.
Lemma u_us_not_num : u_num cUS = false. Proof. vm_compute. reflexivity. Qed.

(* ---- totality of the composed front end ---- *)
Theorem scan_total : forall s, scan_raw s <> Scan.Er EFuel.
Proof. intros s. apply tokenize_nofuel. Qed.
Theorem compile_total : forall s, Front.compile s <> CScanErr EFuel /\ Front.compile s <> CParseErr Pratt.OutOfFuel.
Proof.
  intros s. unfold Front.compile. pose proof (scan_total s) as S. destruct (scan_raw s) as [ts|e].
  - pose proof (C07_parse_total value (list N) (map conv_tok ts)) as P. unfold nofuel in P.
    destruct (Pratt.compile value (list N) (map conv_tok ts)) as [e|e]; split; try discriminate. intros X. injection X as ->. apply P. reflexivity.
  - split; [|discriminate]. intros X. injection X as ->. apply S. reflexivity.
Qed.

(* ---- C02: the scanner inverts printing, instantiated with the Unicode classification ---- *)
Notation u_wf := (Scan.wf u_alpha u_num f64 parse_f64).
Notation u_safe := (Scan.safe u_alpha u_num).
Notation u_ok_doc := (Scan.ok_doc u_alpha u_num f64 parse_f64).
Notation u_denote := (Scan.denote f64 parse_f64 kw_of).
Theorem scan_print_u : forall (d:Scan.doc) fin lead, Forall wf_sep lead -> u_ok_doc d fin -> skip Normal fin = [] -> d <> [] ->
  scan_raw (print_seps lead ++ print_rest d fin) = Scan.Ok (map (fun x => u_denote (fst x)) d).
Proof.
  intros d fin lead Hl Hd Hf Hne. unfold scan_raw, Scan.tokenize.
  rewrite (Scan.scan_print u_alpha u_num f64 parse_f64 kw_of u_special_not_alnum d fin lead _ Hl Hd Hf (Nat.lt_succ_diag_r _)).
  destruct d; [congruence|reflexivity].
Qed.
(* layout, comments and keyword case never change the tokens: any two well-formed layouts of token lists with the same denotations *)
Corollary layout_irrelevant : forall d1 d2 fin1 fin2 lead1 lead2,
  Forall wf_sep lead1 -> Forall wf_sep lead2 -> u_ok_doc d1 fin1 -> u_ok_doc d2 fin2 -> skip Normal fin1 = [] -> skip Normal fin2 = [] -> d1 <> [] ->
  map (fun x => u_denote (fst x)) d1 = map (fun x => u_denote (fst x)) d2 ->
  scan_raw (print_seps lead1 ++ print_rest d1 fin1) = scan_raw (print_seps lead2 ++ print_rest d2 fin2).
Proof.
  intros d1 d2 fin1 fin2 lead1 lead2 L1 L2 O1 O2 F1 F2 N1 E.
  assert (N2 : d2 <> []) by (destruct d2; [destruct d1; [congruence|discriminate]|discriminate]).
  rewrite (scan_print_u d1 fin1 lead1 L1 O1 F1 N1), (scan_print_u d2 fin2 lead2 L2 O2 F2 N2), E. reflexivity.
Qed.
Lemma keyword_case : forall s s', map lower_ascii s = map lower_ascii s' -> kw_of s = kw_of s'.
Proof. intros s s' H. unfold kw_of. rewrite H. reflexivity. Qed.
Lemma keyword_case_denote : forall s s' k, map lower_ascii s = map lower_ascii s' -> kw_of s = Some k -> u_denote (SWord s) = TKw k /\ u_denote (SWord s') = TKw k.
Proof. intros s s' k H K. cbn [Scan.denote]. unfold Scan.ident_tok. rewrite <- (keyword_case s s' H), K. auto. Qed.
Lemma keyword_table : kw_of [97;110;100] = Some KAnd /\ kw_of [111;114] = Some KOr /\ kw_of [120;111;114] = Some KXor /\ kw_of [110;111;116] = Some KNot /\
  kw_of [100;105;118] = Some KDiv /\ kw_of [109;111;100] = Some KMod /\ kw_of [116;114;117;101] = Some KTrue /\ kw_of [102;97;108;115;101] = Some KFalse.
Proof. repeat split; reflexivity. Qed.
(* a string literal denotes exactly its contents, for every content *)
Theorem string_exact : forall c : list N, scan_raw (cQ :: Scan.escape c ++ [cQ]) = Scan.Ok [TStr c].
Proof.
  intros c. pose proof (scan_print_u [(SStr c, [])] [] []) as H. cbn [print_seps flat_map print_rest Scan.print app map fst Scan.denote] in H.
  rewrite app_nil_r in H. apply H; auto.
  - cbn [Scan.ok_doc Scan.wf Scan.safe print_seps flat_map print_rest app hd_error nxt_is]. auto.
  - discriminate.
Qed.
(* an identifier keeps its exact spelling *)
Theorem ident_exact : forall s, u_wf (SWord s) -> kw_of s = None -> scan_raw s = Scan.Ok [Scan.TId s].
Proof.
  intros s W K. pose proof (scan_print_u [(SWord s, [])] [] []) as H. cbn [print_seps flat_map print_rest Scan.print app map fst Scan.denote] in H.
  rewrite app_nil_r in H. unfold Scan.ident_tok in H. rewrite K in H. apply H; auto.
  - cbn [Scan.ok_doc Scan.safe print_seps flat_map print_rest app hd_error nxt_is]. auto.
  - discriminate.
Qed.

(* ---- C01 at the text level: any well-formed layout of any rendering compiles to the tree ---- *)
Theorem text_render_then_compile : forall (d:Scan.doc) fin lead t (e:Pratt.expr value (list N)),
  Forall wf_sep lead -> u_ok_doc d fin -> skip Normal fin = [] -> d <> [] ->
  Pratt.Renders value (list N) t e (map (fun x => conv_tok (u_denote (fst x))) d) ->
  Front.compile (print_seps lead ++ print_rest d fin) = COk (conv_expr e).
Proof.
  intros d fin lead t e Hl Hd Hf Hne R. unfold Front.compile. rewrite (scan_print_u d fin lead Hl Hd Hf Hne). rewrite map_map.
  rewrite (Pratt.C01_render_then_compile value (list N) t e _ R). reflexivity.
Qed.
