(* C15: the float-valued index and count arguments of at / copy / find decode to the intended positions, so the coherence facts hold
   at the level of the builtins themselves (in both index-base configurations) *)
From Flocq Require Import Core BinarySingleNaN.
Require Import ZArith NArith Bool List Arith Lia Reals Lra. Import ListNotations.
Require Import F64 Dec Types Generic Lang Builtins BuiltinFacts TimeFacts.
Open Scope Z_scope.

Lemma trunc_of_int k : Z.abs k <= 2^52 -> Btrunc (of_int k) = k.
Proof.
  intros Hk. destruct (of_int_correct k Hk) as [R _]. apply eq_IZR. rewrite (Btrunc_correct prec emax Hmax), R.
  unfold round, scaled_mantissa, cexp, FIX_exp, F2R. simpl. rewrite Rmult_1_r, Rmult_1_r, Ztrunc_IZR. reflexivity.
Qed.
Lemma to_usize_of_int k : 0 <= k <= 2^52 -> to_usize (of_int k) = k.
Proof.
  intros Hk. unfold to_usize, to_int_sat. destruct (of_int_correct k ltac:(lia)) as [_ F].
  pose proof (trunc_of_int k ltac:(lia)) as T. destruct (of_int k) as [s|s| |s m e H]; try discriminate; rewrite T; unfold clamp; lia.
Qed.
Lemma ge0_of_int k : 0 <= k <= 2^52 -> ge0 (of_int k) = true.
Proof.
  intros Hk. unfold ge0, fcmp. destruct (of_int_correct k ltac:(lia)) as [Rk Fk]. destruct (of_int_correct 0 ltac:(lia)) as [R0 F0].
  rewrite (Bcompare_correct prec emax _ _ Fk F0), Rk, R0. destruct (Rcompare_spec (IZR k) (IZR 0)) as [L| |]; auto. apply lt_IZR in L. lia.
Qed.
Lemma floor_of_int k : Z.abs k <= 2^52 -> to_usize (ffloor (of_int k)) = to_usize (of_int k).
Proof.
  intros Hk. unfold to_usize, to_int_sat, ffloor. destruct (of_int_correct k Hk) as [Rk Fk].
  destruct (Bnearbyint_correct prec emax Hmax mode_DN (of_int k)) as (A & B & _). rewrite Fk in B.
  assert (RR : B2R (Bnearbyint mode_DN (of_int k)) = IZR k).
  { rewrite A, Rk. unfold round, scaled_mantissa, cexp, FIX_exp, F2R. simpl. rewrite Rmult_1_r, Rmult_1_r, Zfloor_IZR. reflexivity. }
  assert (TT : Btrunc (Bnearbyint mode_DN (of_int k)) = k).
  { apply eq_IZR. rewrite (Btrunc_correct prec emax Hmax), RR. unfold round, scaled_mantissa, cexp, FIX_exp, F2R. simpl. rewrite Rmult_1_r, Rmult_1_r, Ztrunc_IZR. reflexivity. }
  rewrite (trunc_of_int k Hk). destruct (Bnearbyint mode_DN (of_int k)) as [s|s| |s m e H] eqn:En; try discriminate;
    destruct (of_int k) as [s'|s'| |s' m' e' H'] eqn:Eo; try discriminate; rewrite ?TT; try reflexivity;
    cbn in TT; try (rewrite <- TT; reflexivity).
Qed.
Section B.
Variable off : nat.
Hypothesis off01 : (off <= 1)%nat.
Notation call := (call_builtin off).
Definition at_name := A [97;116]. Definition copy_name := A [99;111;112;121]. Definition find_name := A [102;105;110;100]. Definition length_name := A [108;101;110;103;116;104].
Definition pos (i:nat) : value := VNum (of_int (Z.of_nat i + Z.of_nat off)).    (* the i-th position (0-based i) in this configuration *)
Lemma string_index_pos i : Z.of_nat i + 1 <= 2^52 -> get_string_index off (of_int (Z.of_nat i + Z.of_nat off)) = inl (Z.of_nat i).
Proof.
  intros Hi. unfold get_string_index, get_index. rewrite ge0_of_int, to_usize_of_int by lia.
  replace (Z.of_nat i + Z.of_nat off <? Z.of_nat off) with false by (symmetry; apply Z.ltb_ge; lia). f_equal. lia.
Qed.
(* at over first .. first+length-1 enumerates s *)
Theorem at_enumerates_builtin : forall (s:list N) i c, Z.of_nat (length s) + 1 <= 2^52 -> nth_error s i = Some c ->
  call at_name [VStr s; pos i] = BOk (VStr [c]).
Proof.
  intros s i c Hl Hn. assert (Hi : (i < length s)%nat) by (apply nth_error_Some; congruence).
  unfold pos. cbn [call_builtin at_name A map leqb]. cbn. rewrite string_index_pos by lia. unfold nth_z.
  replace (Z.of_nat i <? Z.of_nat (length s)) with true by (symmetry; apply Z.ltb_lt; lia). rewrite Nat2Z.id, Hn. reflexivity.
Qed.
(* find returns the position of the first occurrence, or first-1 *)
Theorem find_builtin : forall h n, call find_name [VStr h; VStr n] =
  BOk (match find_sub n h with Some i => VNum (of_int (Z.of_nat (i + off))) | None => VNum (of_int (-1 + Z.of_nat off)) end).
Proof. intros. cbn. destruct (find_sub n h); reflexivity. Qed.
(* copy(s, find(s,x), length(x)) = x for every substring x of s *)
Theorem copy_find_builtin : forall (s x:list N) i, Z.of_nat (length s) + 1 <= 2^52 -> find_sub x s = Some i ->
  call copy_name [VStr s; VNum (of_int (Z.of_nat (i + off))); VNum (of_int (Z.of_nat (length x)))] = BOk (VStr x).
Proof.
  intros s x i Hl F. destruct (find_sub_sound x s i F) as [Eq Le].
  assert (B1 : Z.of_nat i + 1 <= 2^52) by lia. assert (B2 : 0 <= Z.of_nat (length x) <= 2^52) by lia.
  cbn [call_builtin copy_name A map leqb]. cbn. rewrite Nat2Z.inj_add, (string_index_pos i B1).
  unfold usize_from. rewrite floor_of_int by lia. rewrite (to_usize_of_int _ B2). unfold clampn.
  rewrite (Z.min_l (Z.of_nat i) (Z.of_nat (length s))) by lia. rewrite Nat2Z.id. rewrite skipn_length. rewrite (Z.min_l (Z.of_nat (length x))) by lia. rewrite Nat2Z.id. rewrite Eq. reflexivity.
Qed.
Theorem length_builtin : forall s : list N, call length_name [VStr s] = BOk (VNum (of_int (Z.of_nat (length s)))).
Proof. reflexivity. Qed.
End B.
