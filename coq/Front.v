(* front end = generic scanner (Scan.v) + generic Pratt parser (Pratt.v), glued over the concrete syntax *)
From Flocq Require Import Core BinarySingleNaN.
Require Import ZArith NArith Bool List Arith. Import ListNotations.
Require Import F64 Dec Types Scan Pratt GenUnicode.
Open Scope N_scope.
(* classification instance: the tables dumped from Rust's char methods (Gen/GenUnicode.v); a_alpha/a_num are their ASCII restriction *)
Definition a_alpha (c:N) := ((65 <=? c) && (c <=? 90)) || ((97 <=? c) && (c <=? 122)).
Definition a_num (c:N) := (48 <=? c) && (c <=? 57).
Definition kw_table (l:list N) : option Scan.kw :=
  if leqb l [116;114;117;101] then Some KTrue else if leqb l [102;97;108;115;101] then Some KFalse
  else if leqb l [97;110;100] then Some KAnd else if leqb l [111;114] then Some KOr else if leqb l [120;111;114] then Some KXor
  else if leqb l [110;111;116] then Some KNot else if leqb l [100;105;118] then Some KDiv else if leqb l [109;111;100] then Some KMod else None.
Definition kw_of (s:list N) : option Scan.kw := kw_table (map lower_ascii s).
Definition scan_raw (s:list N) := Scan.tokenize u_alpha u_num f64 parse_f64 kw_of s.
Notation stok := (Scan.token f64).
Notation ptok := (Pratt.token value (list N)).
Notation pexpr := (Pratt.expr value (list N)).
Definition conv_tok (t:stok) : ptok :=
  match t with
  | Scan.TLParen => Pratt.LParen | Scan.TRParen => Pratt.RParen | Scan.TLBracket => Pratt.LBracket | Scan.TRBracket => Pratt.RBracket
  | Scan.TPlus => Pratt.TBin Pratt.Plus | Scan.TMinus => Pratt.TBin Pratt.Minus | Scan.TStar => Pratt.TBin Pratt.Multiply | Scan.TSlash => Pratt.TBin Pratt.Divide
  | Scan.TComma => Pratt.Comma
  | Scan.TGreater => Pratt.TBin Pratt.Greater | Scan.TGreaterEqual => Pratt.TBin Pratt.GreaterEqual | Scan.TLess => Pratt.TBin Pratt.Less | Scan.TLessEqual => Pratt.TBin Pratt.LessEqual
  | Scan.TEqual => Pratt.TBin Pratt.Equal | Scan.TNotEqual => Pratt.TBin Pratt.NotEqual
  | Scan.TKw KAnd => Pratt.TBin Pratt.And | Scan.TKw KOr => Pratt.TBin Pratt.Or | Scan.TKw KXor => Pratt.TBin Pratt.Xor | Scan.TKw KNot => Pratt.TNot
  | Scan.TKw KDiv => Pratt.TBin Pratt.Div | Scan.TKw KMod => Pratt.TBin Pratt.Mod
  | Scan.TKw KTrue => Pratt.TLit (VBool true) | Scan.TKw KFalse => Pratt.TLit (VBool false)
  | Scan.TNum f => Pratt.TLit (VNum f) | Scan.TStr s => Pratt.TLit (VStr s) | Scan.TId s => Pratt.TId s
  end.
Definition op_of (b:Pratt.binop) : op :=
  match b with Pratt.Plus => Types.Plus | Pratt.Minus => Types.Minus | Pratt.Multiply => Types.Multiply | Pratt.Divide => Types.Divide | Pratt.Greater => Types.Greater
  | Pratt.GreaterEqual => Types.GreaterEqual | Pratt.Less => Types.Less | Pratt.LessEqual => Types.LessEqual | Pratt.Equal => Types.Equal | Pratt.NotEqual => Types.NotEqual
  | Pratt.And => Types.And | Pratt.Or => Types.Or | Pratt.Xor => Types.Xor | Pratt.Div => Types.Div | Pratt.Mod => Types.Mod end.
Fixpoint conv_expr (e:pexpr) : Types.expr :=
  match e with
  | Pratt.EUn UNeg r => Types.EUn Types.Minus (conv_expr r) | Pratt.EUn UNot r => Types.EUn Types.Not (conv_expr r)
  | Pratt.EBin b l r => Types.EBin (op_of b) (conv_expr l) (conv_expr r)
  | Pratt.EArr es => Types.EArr (map conv_expr es) | Pratt.ELit v => Types.ELit v | Pratt.EVar n => Types.EVar n
  | Pratt.ECall n ps => Types.ECall n (map conv_expr ps) end.
Inductive cres := COk (e:Types.expr) | CScanErr (e:Scan.serr) | CParseErr (e:Pratt.err value (list N)).
Definition compile (s:list N) : cres :=
  match scan_raw s with
  | Scan.Er e => CScanErr e
  | Scan.Ok ts => match Pratt.compile value (list N) (map conv_tok ts) with Pratt.Ok e => COk (conv_expr e) | Pratt.Er e => CParseErr e end end.
