(* C18: facts about the regex wrappers over the reference engine *)
Require Import ZArith NArith Bool List Arith Lia. Import ListNotations.
Require Import F64 Dec Types Builtins BuiltinFacts Regex.

Definition is_nil {A} (l:list A) : bool := match l with [] => true | _ => false end.
(* the first step of the match iteration is the search that is_match and capture perform *)
Lemma spans_first k r s : spans k r s = match search (fuel_for k s) r s 0 with None => [] | Some (st, en, _) => (st, en) :: find_iter k (S (length s)) r s en (Some en) end.
Proof.
  unfold spans. cbn [find_iter skipn]. destruct (search (fuel_for k s) r s 0) as [[[st en] c]|]; [|reflexivity].
  cbn [andb]. rewrite andb_false_r. reflexivity.
Qed.
Theorem is_match_iff_find : forall k r s, re_is_match k r s = negb (is_nil (re_find k r s)).
Proof. intros k r s. unfold re_is_match, re_find. rewrite spans_first. destruct (search (fuel_for k s) r s 0) as [[[st en] c]|]; reflexivity. Qed.
Theorem capture_shape : forall k r s, length (re_capture k r s) = S (ngroups r).
Proof. intros k r s. unfold re_capture. destruct (search (fuel_for k s) r s 0) as [[[st en] c]|]; cbn [length]. rewrite map_length, seq_length. reflexivity. rewrite repeat_length. reflexivity. Qed.
Theorem capture_all_empty_when_no_match : forall k r s, re_is_match k r s = false -> re_capture k r s = repeat [] (S (ngroups r)).
Proof. intros k r s. unfold re_is_match, re_capture. destruct (search (fuel_for k s) r s 0) as [[[st en] c]|]; [discriminate|reflexivity]. Qed.
Theorem capture_starts_with_first_find : forall k r s x rest, re_find k r s = x :: rest -> exists tl, re_capture k r s = x :: tl.
Proof.
  intros k r s x rest. unfold re_find, re_capture. rewrite spans_first. destruct (search (fuel_for k s) r s 0) as [[[st en] c]|]; [|discriminate].
  cbn [map fst snd]. intros H. injection H as <- _. eexists. reflexivity.
Qed.
Theorem replace_all_rewrites_find : forall k r s t, re_replace k r s t 0 = splice s 0 (spans k r s) t.
Proof. reflexivity. Qed.
Theorem replace_limit_n : forall k r s t n, re_replace k r s t (S n) = splice s 0 (firstn (S n) (spans k r s)) t.
Proof. reflexivity. Qed.
Theorem find_is_slices_of_spans : forall k r s, re_find k r s = map (fun ab => slice s (fst ab) (snd ab)) (spans k r s).
Proof. reflexivity. Qed.

(* an escaped literal: one match attempt is a prefix test, the leftmost search is the substring search of C15 *)
Lemma m_seq f a b s p c k : m (S f) (RSeq a b) s p c k = m f a s p c (fun s' p' c' => m f b s' p' c' k).
Proof. reflexivity. Qed.
Lemma m_char f x y t p c k : m (S f) (RChar x) (y :: t) p c k = if (y =? x)%N then k t (S p) c else None.
Proof. reflexivity. Qed.
Lemma m_lit : forall x fuel s p c k, (length s < fuel)%nat ->
  m fuel (lit x) s p c k = if is_prefix x s then k (skipn (length x) s) (p + length x)%nat c else None.
Proof.
  induction x as [|a t IH]; intros fuel s p c k L.
  - destruct fuel; [lia|]. cbn. rewrite Nat.add_0_r. reflexivity.
  - destruct fuel as [|f]; [lia|]. cbn [lit]. destruct s as [|y s'].
    + rewrite m_seq. destruct f; reflexivity.
    + cbn [length] in L. destruct f as [|f']; [lia|]. rewrite m_seq, m_char. cbn [is_prefix]. rewrite (N.eqb_sym a y). destruct (y =? a)%N; [|reflexivity].
      cbn [andb]. rewrite (IH (S f') s' (S p) c k ltac:(lia)). cbn [length skipn]. replace (S p + length t)%nat with (p + S (length t))%nat by lia. reflexivity.
Qed.
Lemma search_lit : forall x s fuel p, (length s < fuel)%nat ->
  search fuel (lit x) s p = option_map (fun i => (p + i, p + i + length x, [])%nat) (find_sub x s).
Proof.
  intros x s. induction s as [|y t IH]; intros fuel p L; cbn [search find_sub].
  - rewrite m_lit by exact L. destruct (is_prefix x []); cbn; [rewrite Nat.add_0_r|]; reflexivity.
  - rewrite m_lit by exact L. destruct (is_prefix x (y :: t)); cbn [option_map]. rewrite Nat.add_0_r. reflexivity.
    cbn [length] in L. rewrite (IH fuel (S p) ltac:(lia)). destruct (find_sub x t); cbn [option_map]; [|reflexivity].
    f_equal. f_equal. f_equal; lia.
Qed.
Lemma fuel_enough k s : (1 <= k)%nat -> (length s < fuel_for k s)%nat.
Proof. intros H. unfold fuel_for. nia. Qed.
Theorem literal_is_match_is_contains : forall k x s, (1 <= k)%nat -> re_is_match k (lit x) s = match find_sub x s with Some _ => true | None => false end.
Proof. intros k x s H. unfold re_is_match. rewrite search_lit by (apply fuel_enough; exact H). destruct (find_sub x s); reflexivity. Qed.
Theorem literal_first_match_is_the_literal : forall k x s y rest, (1 <= k)%nat -> re_find k (lit x) s = y :: rest -> y = x.
Proof.
  intros k x s y rest H. unfold re_find. rewrite spans_first, search_lit by (apply fuel_enough; exact H).
  destruct (find_sub x s) as [i|] eqn:F; cbn [option_map]; [|discriminate]. cbn [map fst snd]. intros E. injection E as <- _.
  unfold slice. cbn [Nat.add]. replace (i + length x - i)%nat with (length x) by lia.
  exact (proj1 (BuiltinFacts.find_sub_sound x s i F)).
Qed.
