(* Display for f64 (what str(number) prints): the shortest decimal digit string that str::parse::<f64> maps back to the number - the one closest to it if several of that length do -
   in positional notation without exponent. Specified through the model's own (correctly rounded, Dec.v) parser, so that the round trip float(str(x)) = x holds by construction;
   that Rust prints exactly this string is what the correspondence compares. *)
From Flocq Require Import Core BinarySingleNaN.
Require Import ZArith NArith Bool List. Import ListNotations.
Require Import F64 Dec.
Open Scope Z_scope.

Definition fsame (x y:f64) : bool :=
  match x, y with
  | B754_zero s, B754_zero s' => Bool.eqb s s'
  | B754_infinity s, B754_infinity s' => Bool.eqb s s'
  | B754_nan, B754_nan => true
  | B754_finite s m e _, B754_finite s' m' e' _ => Bool.eqb s s' && Pos.eqb m m' && Z.eqb e e'
  | _, _ => false end.

(* decimal digits of a non-negative integer, most significant first *)
Fixpoint zdigits_aux (fuel:nat) (z:Z) (acc:list N) : list N :=
  match fuel with O => acc | S f => if z <? 10 then Z.to_N (48 + z) :: acc else zdigits_aux f (z / 10) (Z.to_N (48 + z mod 10) :: acc) end.
Definition zdigits (z:Z) : list N := zdigits_aux 400 z [].
(* drop trailing zeros of a digit list (given reversed), counting them *)
Fixpoint strip0 (rev_ds:list N) (q:Z) : list N * Z :=
  match rev_ds with 48%N :: (_ :: _) as r => strip0 r (q + 1) | _ => (rev_ds, q) end.
Definition zeros (k:Z) : list N := repeat 48%N (Z.to_nat k).
(* positional notation of  D * 10^q  (D > 0) *)
Definition positional (D q:Z) : list N :=
  let '(rds, q') := strip0 (rev (zdigits D)) q in
  let ds := rev rds in
  let len := Z.of_nat (length ds) in
  let ex := len + q' in
  if ex <=? 0 then [48%N; 46%N] ++ zeros (- ex) ++ ds
  else if 0 <=? q' then ds ++ zeros q'
  else firstn (Z.to_nat ex) ds ++ [46%N] ++ skipn (Z.to_nat ex) ds.

(* floor(log10 (num/den)) for num, den > 0 *)
Fixpoint up_to (fuel:nat) (j:Z) (num den:Z) : Z := match fuel with O => j | S f => if den <=? num * 10 ^ j then j else up_to f (j + 1) num den end.
Definition log10_floor (num den:Z) : Z :=
  if den <=? num then Z.of_nat (length (zdigits (num / den))) - 1 else - up_to 400 1 num den.

Definition try_cand (x:f64) (neg:bool) (D q:Z) : option (list N) :=
  if D <=? 0 then None else
  let s := (if neg then [45%N] else []) ++ positional D q in
  match parse_f64 s with Some y => if fsame y x then Some s else None | None => None end.
(* the candidate with n significant digits: the n-digit decimal nearest to the number that parses back to it (the nearer of floor and ceiling first; on an exact tie the upper one, as Rust's shortest-digits generation rounds up when both directions are admissible and the remainder is a half) *)
Definition cand (x:f64) (neg:bool) (num den k n:Z) : option (list N) :=
  let q := k - n + 1 in
  let N' := num * 10 ^ (Z.max (- q) 0) in let D' := den * 10 ^ (Z.max q 0) in
  let lo := N' / D' in let r := N' mod D' in
  let first_hi := match Z.compare (2 * r) D' with Gt => true | Lt => false | Eq => true end in
  if r =? 0 then try_cand x neg lo q
  else if first_hi then (match try_cand x neg (lo + 1) q with Some s => Some s | None => try_cand x neg lo q end)
  else (match try_cand x neg lo q with Some s => Some s | None => try_cand x neg (lo + 1) q end).
(* the smallest n in 1..17 that has a candidate, by bisection (a decimal that parses back keeps doing so with a zero appended); best is the candidate of hi throughout *)
Fixpoint bisect (x:f64) (neg:bool) (num den k:Z) (fuel:nat) (lo hi:Z) (best:list N) : list N :=
  match fuel with O => best | S f =>
    if hi <=? lo then best else
    let mid := (lo + hi) / 2 in
    match cand x neg num den k mid with Some s => bisect x neg num den k f lo mid s | None => bisect x neg num den k f (mid + 1) hi best end end.
Definition show_mag (x:f64) (neg:bool) (m:positive) (e:Z) : option (list N) :=
  let num := Zpos m * 2 ^ (Z.max e 0) in let den := 2 ^ (Z.max (- e) 0) in
  let k := log10_floor num den in
  match cand x neg num den k 17 with Some s17 => Some (bisect x neg num den k 6%nat 1 17 s17) | None => None end.

Definition show_f64 (x:f64) : option (list N) :=
  match x with
  | B754_nan => Some [78; 97; 78]%N
  | B754_infinity s => Some (if s then [45; 105; 110; 102]%N else [105; 110; 102]%N)
  | B754_zero s => Some (if s then [45; 48]%N else [48]%N)
  | B754_finite s m e _ => show_mag x s m e end.

