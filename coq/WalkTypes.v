(* the vocabulary of the tables regenerated from optimizer.rs and validate.rs (Gen/GenOptArms.v, Gen/GenCheckArms.v) *)
Inductive gnode := NUnary | NBinary | NTernary | NArray | NCall | NVariable | NLiteral | NAnyOther.
Inductive gguard := GNone | GAllLiteral | GIsIfThen | GUnknownGuard (n:nat).
Inductive gwalk := TRecRight | TRecLeftRight | TRecLeftMiddleRight | TRecAll | TRewriteIfExactlyThreeElseRecAll | WNothing
  | FEvalIfOperandLiteralElseRec | FEvalIfBothLiteralElseRecLeftRight | FSelectBranchIfLiteralConditionElseRecAll | FEvalWhole | FRecAll | FEvalWholeIfExistsPure
  | VRecRight | VRecLeftThenRight | VRecLeftThenMiddleThenRight | VRecAllInOrder | VVariableExistsElseMissingVariable | VCallExistsThenParamsElseNamedError | VOk
  | WOther (n:nat).   (* the body of an arm, identified by its normalised text; WOther = a text the translator does not know *)
