(* the static environment filled with the standard library: names are looked up by their folded spelling in the registration table regenerated from the source (Gen/GenBuiltins.v),
   calls go to the builtin models (Builtins.v, Time.v). A call the models do not cover (transcendental functions, regex by pattern text, random, ...) answers with a marker error
   that the driver turns into UNMODELLED. run_script: source text -> front end -> evaluation against this environment, the whole pipeline in one function. *)
Require Import ZArith NArith Bool List Arith. Import ListNotations.
Require Import F64 Dec Types Generic Lang Opt IO GenUnicode CaseModel GenBuiltins Builtins Time Env Front.

Definition unmodelled_mark : list N := [0; 0; 0]%N.
Fixpoint find_builtin (key:list N) (l:list (list N * garity * bool)) : option (garity * bool) :=
  match l with [] => None | (n, a, p) :: t => if leqb n key then Some (a, p) else find_builtin key t end.
Definition arity_of_g (a:garity) : arity := match a with GPoly r o => Poly r o | GVariadic => Variadic | GNone => ANone end.
Definition std_call (off:nat) (n:list N) (vs:list value) : res value :=
  let key := fold_name n in
  match find_builtin key gen_builtins with
  | None => Er (NativeFunctionError n (FunctionNotFound n))
  | Some _ =>
      match call_builtin off key vs with
      | BOk v => Ok v | BErr e => Er (NativeFunctionError n e)
      | BUnmodelled => match call_time key vs with
                       | BOk v => Ok v | BErr e => Er (NativeFunctionError n e)
                       | BUnmodelled => Er (NativeFunctionError unmodelled_mark CustomError) end end end.
Definition std_env (off:nat) (vars:list (list N * value)) : env :=
  {| var := fun n => lookup (fold_name n) vars;
     call := std_call off;
     fn_exists := fun n k => match find_builtin (fold_name n) gen_builtins with None => NotFound | Some (a, p) => fn_result (arity_of_g a) p k end;
     var_exists := fun n => match lookup (fold_name n) vars with Some _ => true | None => false end |}.
(* vars are given with folded names. The result of the script and the validator's verdict, or the front end's error *)
Inductive sres := SNoCompile (c:cres) | SRan (r:res value) (check:option Generic.cerr) (optimized:res value) (ost:Generic.ostatus) (otree:expr).
Definition run_script (off:nat) (vars:list (list N * value)) (text:list N) : sres :=
  match Front.compile text with
  | COk e => let E := std_env off vars in
             let o := fst (optimize_t E (opt_fuel e) e []) in
             SRan (fst (eval_t E e)) (check_names E e) (fst (eval_t E (snd o))) (fst o) (snd o)
  | c => SNoCompile c end.

(* evaluation against a static environment that holds these variables (later entries of the list were added later and win) and the standard library *)
Definition eval_static (vars:list (list N * value)) (e:expr) : res value :=
  fst (eval_t (std_env 1 (rev (map (fun nv => (fold_name (fst nv), snd nv)) vars))) e).
