(* C10: the walk of the names validator satisfies, node by node, the equation of the arm selected from the table regenerated from validate.rs (Gen/GenCheckArms.v) *)
From Flocq Require Import Core BinarySingleNaN.
Require Import ZArith NArith Bool List Arith Lia. Import ListNotations.
Require Import F64 Dec Types Generic Lang Opt IO WalkTypes WalkRead GenCheckArms.

Section Walks.
Variable E : env.
Notation check := (Generic.check E). Notation check_list := (Generic.check_list E).
Definition check_body (b:gwalk) (e:expr) : option (option Generic.cerr) :=
  match b, e with
  | VRecRight, EUn _ r => Some (check r)
  | VRecLeftThenRight, EBin _ l r => Some (match check l with None => check r | x => x end)
  | VRecLeftThenMiddleThenRight, ETer _ l m r => Some (match check l with None => (match check m with None => check r | x => x end) | x => x end)
  | VRecAllInOrder, EArr es => Some (check_list es)
  | VVariableExistsElseMissingVariable, EVar n => Some (if var_exists E n then None else Some (Generic.MissingVariable n))
  | VCallExistsThenParamsElseNamedError, ECall n ps =>
      Some (match fn_exists E n (length ps) with Exists _ => check_list ps | NotFound => Some (Generic.MissingFunction n) | WrongArity => Some (Generic.ParamCountMismatch n (length ps)) end)
  | VOk, ELit _ => Some None
  | _, _ => None end.
Theorem check_is_the_table : forall e, Some (check e) = match arm_for gen_check_names_arms e with Some b => check_body b e | None => None end.
Proof.
  destruct e as [o r|o l r|o l m r|es|v|n|n ps]; [reflexivity|reflexivity|reflexivity| | reflexivity|reflexivity| ].
  - cbn. rewrite Generic.check_list_fix. reflexivity.
  - cbn. rewrite Generic.check_list_fix. reflexivity.
Qed.
Theorem check_expressions_as_modelled : gen_check_expressions_as_modelled = true. Proof. reflexivity. Qed.
End Walks.
