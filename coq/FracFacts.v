(* C16 / C17: trunc(x) + frac(x) = x for every finite double (date(x) + time(x) = x) - over Flocq's binary64 *)
From Flocq Require Import Core BinarySingleNaN Relative.
Require Import ZArith Reals Lia Lra Psatz List Bool. Import ListNotations.
Require Import F64 Dec Types Generic Lang Builtins Time TimeFacts.
Open Scope R_scope.

Lemma trunc_abs_le r : Rabs (r - IZR (Ztrunc r)) <= Rabs r /\ Rabs (IZR (Ztrunc r)) <= Rabs r.
Proof.
  destruct (Rle_or_lt 0 r) as [P|N].
  - rewrite Ztrunc_floor by exact P. pose proof (Zfloor_lb r). assert (0 <= IZR (Zfloor r)). { apply IZR_le. apply Zfloor_lub. exact P. }
    rewrite !Rabs_right by lra. lra.
  - rewrite Ztrunc_ceil by lra. pose proof (Zceil_ub r). assert (IZR (Zceil r) <= 0). { apply IZR_le. apply Zceil_glb. simpl. lra. }
    rewrite !Rabs_left1 by lra. lra.
Qed.
Lemma frac_format r : generic_format radix2 fexp r -> generic_format radix2 fexp (r - IZR (Ztrunc r)).
Proof.
  intros G. destruct (Req_dec (r - IZR (Ztrunc r)) 0) as [Z|NZ]. { rewrite Z. apply generic_format_0. }
  set (e := cexp radix2 fexp r). set (m := Ztrunc (scaled_mantissa radix2 fexp r)).
  assert (Er : r = F2R (Float radix2 m e)) by exact G.
  destruct (Z_le_gt_dec 0 e) as [Pe|Ne].
  - exfalso. apply NZ. assert (r = IZR (m * 2 ^ e)). { rewrite Er. unfold F2R; simpl. rewrite mult_IZR. change 2%Z with (radix_val radix2). rewrite IZR_Zpower by lia. reflexivity. }
    rewrite H. rewrite Ztrunc_IZR. lra.
  - assert (Ei : IZR (Ztrunc r) = F2R (Float radix2 (Ztrunc r * 2 ^ (- e)) e)).
    { unfold F2R; simpl. rewrite mult_IZR. change 2%Z with (radix_val radix2). rewrite IZR_Zpower by lia. rewrite Rmult_assoc, <- bpow_plus. replace (- e + e)%Z with 0%Z by lia. simpl. lra. }
    assert (Ed : r - IZR (Ztrunc r) = F2R (Float radix2 (m - Ztrunc r * 2 ^ (- e)) e)).
    { rewrite Ei at 1. rewrite Er at 1. unfold F2R; simpl. rewrite minus_IZR. lra. }
    rewrite Ed. apply generic_format_F2R. intros _. rewrite <- Ed. unfold e, cexp. apply (@monotone_exp fexp (FLT_exp_monotone emin prec)). apply mag_le_abs. exact NZ. apply trunc_abs_le.
Qed.

Lemma nearbyint_ZR_R x : B2R (ftrunc x) = IZR (Ztrunc (B2R x)) /\ is_finite (ftrunc x) = is_finite x.
Proof.
  unfold ftrunc. destruct (Bnearbyint_correct prec emax Hmax mode_ZR x) as (A & B & _). split; [|exact B].
  rewrite A. unfold round, scaled_mantissa, cexp, FIX_exp, F2R. simpl. rewrite !Rmult_1_r. reflexivity.
Qed.
Lemma finite_lt_emax (x:f64) : is_finite x = true -> Rabs (B2R x) < bpow radix2 emax.
Proof. intros F. apply abs_B2R_lt_emax. Qed.
Lemma ffract_R x : is_finite x = true -> B2R (ffract x) = B2R x - IZR (Ztrunc (B2R x)) /\ is_finite (ffract x) = true.
Proof.
  intros F. destruct (nearbyint_ZR_R x) as [Rt Ft]. rewrite F in Ft. unfold ffract, fsub.
  generalize (Bminus_correct prec emax _ _ mode_NE x (ftrunc x) F Ft). rewrite Rt, fexp_eq. simpl round_mode.
  assert (G : generic_format radix2 fexp (B2R x)) by (apply generic_format_B2R).
  rewrite round_generic; [|apply valid_rnd_N|apply frac_format; exact G].
  rewrite Rlt_bool_true. { intros (A & B & _). auto. }
  eapply Rle_lt_trans; [apply trunc_abs_le|]. apply finite_lt_emax; exact F.
Qed.
(* trunc(x) + frac(x) = x for every finite double (as numbers: at x = -0 the sum is +0) *)
Theorem trunc_plus_frac x : is_finite x = true -> B2R (fadd (ftrunc x) (ffract x)) = B2R x /\ is_finite (fadd (ftrunc x) (ffract x)) = true.
Proof.
  intros F. destruct (nearbyint_ZR_R x) as [Rt Ft]. rewrite F in Ft. destruct (ffract_R x F) as [Rf Ff]. unfold fadd.
  generalize (Bplus_correct prec emax _ _ mode_NE (ftrunc x) (ffract x) Ft Ff). rewrite Rt, Rf, fexp_eq. simpl round_mode.
  replace (IZR (Ztrunc (B2R x)) + (B2R x - IZR (Ztrunc (B2R x)))) with (B2R x) by lra.
  rewrite round_generic; [|apply valid_rnd_N|apply generic_format_B2R].
  rewrite Rlt_bool_true by (apply finite_lt_emax; exact F). intros (A & B & _). auto.
Qed.
Theorem trunc_plus_frac_eq x : is_finite x = true -> feq (fadd (ftrunc x) (ffract x)) x = true.
Proof.
  intros F. destruct (trunc_plus_frac x F) as [R Fi]. unfold feq, fcmp. rewrite (Bcompare_correct prec emax _ _ Fi F), R, Rcompare_Eq by reflexivity. reflexivity.
Qed.
