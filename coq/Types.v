(* shared syntax: values, operators, errors, trees, events, environments *)
From Flocq Require Import Core BinarySingleNaN.
Require Import ZArith NArith Bool List. Import ListNotations.
Require Import F64 Dec.
Notation str := (list N) (only parsing).
Inductive value := VBool (b:bool) | VStr (s:str) | VNum (f:f64) | VArr (l:list value).
Inductive op := Plus|Minus|Multiply|Divide|Greater|GreaterEqual|Less|LessEqual|Equal|NotEqual|And|Or|Xor|Not|Div|Mod|TernaryCondition.
Inductive nerr := FunctionNotFound (n:str) | WrongParameterCount (k:N) | WrongParameterType | IndexOutOfBounds (k:N) | IndexNegative | CustomError.
Inductive err := Undefined (n:str) | InvalidUnary (o:op) | InvalidBinary (o:op) | InvalidTernary (o:op) | NativeFunctionError (n:str) (e:nerr).
Inductive res (A:Type) := Ok (a:A) | Er (e:err). Arguments Ok {A}. Arguments Er {A}.
Inductive expr :=
| EUn (o:op) (r:expr) | EBin (o:op) (l r:expr) | ETer (o:op) (l m r:expr)
| EArr (es:list expr) | ELit (v:value) | EVar (n:str) | ECall (n:str) (ps:list expr).
Inductive event := Lookup (n:str) | Call (n:str) (vs:list value).
Inductive fres := Exists (pure:bool) | NotFound | WrongArity.
Record env := { var : str -> option value; call : str -> list value -> res value; fn_exists : str -> nat -> fres; var_exists : str -> bool }.
Definition if_then_name : list N := [105;102;95;116;104;101;110]%N.
Lemma leqb_eq : forall a b, leqb a b = true -> a = b.
Proof. induction a as [|x a IH]; destruct b as [|y b]; simpl; intros H; try discriminate; auto. apply andb_prop in H as [H1 H2]. apply N.eqb_eq in H1. subst. f_equal. auto. Qed.
Lemma leqb_refl : forall a, leqb a a = true.
Proof. induction a; simpl; auto. rewrite N.eqb_refl. auto. Qed.
Section Ind.
  Variable P : expr -> Prop.
  Hypothesis Hun : forall o r, P r -> P (EUn o r).
  Hypothesis Hbin : forall o l r, P l -> P r -> P (EBin o l r).
  Hypothesis Hter : forall o l m r, P l -> P m -> P r -> P (ETer o l m r).
  Hypothesis Harr : forall es, Forall P es -> P (EArr es).
  Hypothesis Hlit : forall v, P (ELit v).
  Hypothesis Hvar : forall n, P (EVar n).
  Hypothesis Hcall : forall n ps, Forall P ps -> P (ECall n ps).
  Fixpoint expr_ind' (e:expr) : P e :=
    match e with
    | EUn o r => Hun o r (expr_ind' r)
    | EBin o l r => Hbin o l r (expr_ind' l) (expr_ind' r)
    | ETer o l m r => Hter o l m r (expr_ind' l) (expr_ind' m) (expr_ind' r)
    | EArr es => Harr es ((fix go (l:list expr) : Forall P l := match l with [] => Forall_nil _ | x::t => Forall_cons x (expr_ind' x) (go t) end) es)
    | ELit v => Hlit v | EVar n => Hvar n
    | ECall n ps => Hcall n ps ((fix go (l:list expr) : Forall P l := match l with [] => Forall_nil _ | x::t => Forall_cons x (expr_ind' x) (go t) end) ps)
    end.
End Ind.
