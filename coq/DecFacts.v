(* C02: a decimal number literal denotes the nearest double (correct rounding of the exact decimal value, ties to even) *)
From Flocq Require Import Core BinarySingleNaN.
Require Import ZArith NArith Bool List Reals Lia Lra. Import ListNotations.
Require Import F64 Dec.
Open Scope Z_scope.
Lemma pow10_pos k : 0 <= k -> Zpos (pow10 k) = 10 ^ k.
Proof. intros H. unfold pow10. rewrite Z2Pos.id; auto. apply Z.pow_pos_nonneg; lia. Qed.
(* D / 10^k, D > 0: the result is the rounding to nearest-even of the exact quotient, or +inf when that overflows *)
Theorem dec_div_correct D k : 0 <= k ->
  let x := (IZR (Zpos D) / IZR (10 ^ k))%R in
  if Rlt_bool (Rabs (round radix2 (SpecFloat.fexp prec emax) ZnearestE x)) (bpow radix2 emax)
  then B2R (dec_div D k) = round radix2 (SpecFloat.fexp prec emax) ZnearestE x /\ is_finite (dec_div D k) = true
  else dec_div D k = B754_infinity false.
Proof.
  intros Hk x. unfold dec_div.
  pose proof (proj2 (Bdiv_correct_aux prec emax _ _ mode_NE false D 0 false (pow10 k) 0)) as H. cbv zeta in H.
  assert (Ex : (F2R (Float radix2 (cond_Zopp false (Zpos D)) 0) / F2R (Float radix2 (cond_Zopp false (Zpos (pow10 k))) 0))%R = x).
  { unfold F2R, x. simpl cond_Zopp. simpl Fnum. simpl Fexp. simpl bpow. rewrite !Rmult_1_r. rewrite pow10_pos by exact Hk. reflexivity. }
  rewrite Ex in H. simpl round_mode in H.
  destruct (Rlt_bool _ _).
  - destruct H as (A & B & C). split. rewrite B2R_SF2B. exact A. rewrite is_finite_SF2B. exact B.
  - apply B2SF_inj. rewrite B2SF_SF2B. rewrite H. reflexivity.
Qed.
(* the scanner's number literals: digits, digits., .digits, digits.digits - what parse_f64 computes for them *)
Lemma span_digits_all ds rest : forallb is_digit ds = true -> (match rest with c :: _ => is_digit c = false | [] => True end) -> span_digits (ds ++ rest) = (ds, rest).
Proof.
  induction ds as [|c t IH]; intros H Hr; cbn [app span_digits].
  - destruct rest as [|c r]; cbn [span_digits]; auto. rewrite Hr. reflexivity.
  - cbn [forallb] in H. apply andb_prop in H as [Hc Ht]. rewrite Hc, (IH Ht Hr). reflexivity.
Qed.
Definition literal_value (ip fp:list N) : f64 := scale10 (digits_val 0 (ip ++ fp)) (Z.of_nat (length (ip ++ fp))) (- Z.of_nat (length fp)).
Theorem parse_decimal_literal : forall ip fp, forallb is_digit ip = true -> forallb is_digit fp = true -> (ip <> [] \/ fp <> []) ->
  (match ip with c :: _ => True | [] => True end) ->
  parse_f64 (ip ++ 46%N :: fp) = Some (literal_value ip fp) /\ (fp = [] -> ip <> [] -> parse_f64 ip = Some (literal_value ip [])).
Proof.
  intros ip fp Hi Hf Hne _. split.
  - unfold parse_f64.
    assert (Hhd : match ip ++ 46%N :: fp with 43%N :: _ => False | 45%N :: _ => False | _ => True end).
    { destruct ip as [|c t]; cbn [app]; auto. cbn [forallb] in Hi. apply andb_prop in Hi as [Hc _]. unfold is_digit in Hc.
      destruct c as [|p]; auto. repeat (destruct p as [p|p|]; try exact I; try discriminate). }
    destruct (ip ++ 46%N :: fp) as [|c0 r0] eqn:E0. destruct ip; discriminate.
    assert (Hsign : (match c0 :: r0 with 43%N :: r => (false, r) | 45%N :: r => (true, r) | _ => (false, c0 :: r0) end) = (false, c0 :: r0)).
    { destruct c0 as [|p]; auto. repeat (destruct p as [p|p|]; auto; try contradiction). }
    rewrite Hsign. rewrite <- E0. clear Hsign Hhd E0 c0 r0.
    (* not inf / nan: the text starts with a digit or a dot *)
    assert (Hk : leqb (map lower_ascii (ip ++ 46%N :: fp)) [105;110;102]%N || leqb (map lower_ascii (ip ++ 46%N :: fp)) [105;110;102;105;110;105;116;121]%N = false /\
                 leqb (map lower_ascii (ip ++ 46%N :: fp)) [110;97;110]%N = false).
    { destruct ip as [|c t]; cbn [app map leqb]. split; reflexivity.
      cbn [forallb] in Hi. apply andb_prop in Hi as [Hc _]. unfold is_digit in Hc. unfold lower_ascii.
      assert (Hr : (48 <= c <= 57)%N) by (apply andb_prop in Hc as [A B]; apply N.leb_le in A; apply N.leb_le in B; lia).
      replace ((65 <=? c)%N && (c <=? 90)%N) with false by (symmetry; apply andb_false_iff; left; apply N.leb_gt; lia).
      replace (c =? 105)%N with false by (symmetry; apply N.eqb_neq; lia). replace (c =? 110)%N with false by (symmetry; apply N.eqb_neq; lia). split; reflexivity. }
    destruct Hk as [K1 K2]. rewrite K1, K2.
    rewrite (span_digits_all ip (46%N :: fp) Hi) by reflexivity.
    replace fp with (fp ++ []) at 1 by apply app_nil_r. rewrite (span_digits_all fp [] Hf I).
    destruct ip as [|a ip']; destruct fp as [|b fp']; try (destruct Hne; congruence); reflexivity.
  - intros -> Hn. unfold parse_f64.
    destruct ip as [|c t]; [congruence|]. cbn [forallb] in Hi. apply andb_prop in Hi as [Hc Ht]. unfold is_digit in Hc.
    assert (Hr : (48 <= c <= 57)%N) by (apply andb_prop in Hc as [A B]; apply N.leb_le in A; apply N.leb_le in B; lia).
    assert (Hsign : (match c :: t with 43%N :: r => (false, r) | 45%N :: r => (true, r) | _ => (false, c :: t) end) = (false, c :: t)).
    { destruct c as [|p]; auto. repeat (destruct p as [p|p|]; auto; try lia). }
    rewrite Hsign. cbn [map leqb].
    assert (Hl : lower_ascii c = c) by (unfold lower_ascii; replace ((65 <=? c)%N && (c <=? 90)%N) with false; [reflexivity|symmetry; apply andb_false_iff; left; apply N.leb_gt; lia]).
    rewrite !Hl. replace (c =? 105)%N with false by (symmetry; apply N.eqb_neq; lia). replace (c =? 110)%N with false by (symmetry; apply N.eqb_neq; lia). cbn [andb orb].
    replace (c :: t) with ((c :: t) ++ []) at 1 by apply app_nil_r.
    assert (Hall : forallb is_digit (c :: t) = true) by (cbn [forallb]; unfold is_digit at 1; rewrite Hc, Ht; reflexivity).
    rewrite (span_digits_all (c :: t) [] Hall I).
    unfold literal_value. rewrite app_nil_r. cbn [length Z.of_nat Z.opp Z.sub apply_sign]. reflexivity.
Qed.
(* a literal with a fractional part and a non-zero digit string is the correctly rounded quotient (the branch taken unless the literal
   has more than 400 leading fractional zeros beyond its digits, where the value is below half the least subnormal) *)
Theorem literal_is_dec_div : forall ip fp p, digits_val 0 (ip ++ fp) = Zpos p -> fp <> [] -> Z.of_nat (length fp) <= Z.of_nat (length (ip ++ fp)) + 400 ->
  literal_value ip fp = dec_div p (Z.of_nat (length fp)).
Proof.
  intros ip fp p HD Hfp Hk. unfold literal_value, scale10. rewrite HD.
  assert (L : 0 < Z.of_nat (length fp)) by (destruct fp; [congruence|cbn [length]; lia]).
  replace (0 <=? - Z.of_nat (length fp)) with false by (symmetry; apply Z.leb_gt; lia).
  replace (Z.of_nat (length (ip ++ fp)) + 400 <? - - Z.of_nat (length fp)) with false by (symmetry; apply Z.ltb_ge; lia).
  rewrite Z.opp_involutive. reflexivity.
Qed.
Theorem literal_nearest : forall ip fp p, digits_val 0 (ip ++ fp) = Zpos p -> fp <> [] -> Z.of_nat (length fp) <= Z.of_nat (length (ip ++ fp)) + 400 ->
  let x := (IZR (Zpos p) / IZR (10 ^ Z.of_nat (length fp)))%R in
  if Rlt_bool (Rabs (round radix2 (SpecFloat.fexp prec emax) ZnearestE x)) (bpow radix2 emax)
  then B2R (literal_value ip fp) = round radix2 (SpecFloat.fexp prec emax) ZnearestE x /\ is_finite (literal_value ip fp) = true
  else literal_value ip fp = B754_infinity false.
Proof. intros ip fp p HD Hfp Hk. rewrite (literal_is_dec_div ip fp p HD Hfp Hk). apply dec_div_correct. lia. Qed.
