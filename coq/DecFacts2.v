(* C02: every decimal literal (digits, digits., .digits, digits.digits) denotes the nearest double - the integer spellings and the literals flushed to zero *)
From Flocq Require Import Core BinarySingleNaN.
Require Import ZArith NArith Bool List Reals Lia Lra. Import ListNotations.
Require Import F64 Dec DecFacts.
Open Scope Z_scope.
Notation rne := (round radix2 (SpecFloat.fexp prec emax) ZnearestE).

(* the integer spellings (digits, digits.): the exact integer, rounded to nearest-even, or +inf *)
Theorem of_int_nearest D : 0 <= D ->
  if Rlt_bool (Rabs (rne (IZR D))) (bpow radix2 emax)
  then B2R (of_int D) = rne (IZR D) /\ is_finite (of_int D) = true
  else of_int D = B754_infinity false.
Proof.
  intros HD. unfold of_int. generalize (binary_normalize_correct prec emax _ _ mode_NE D 0 false). cbv zeta.
  replace (F2R (Float radix2 D 0)) with (IZR D) by (unfold F2R; simpl; lra). simpl round_mode.
  destruct (Rlt_bool _ _).
  - intros (A & B & _). auto.
  - intros H. apply B2SF_inj. rewrite H. replace (Rlt_bool (IZR D) 0) with false; [reflexivity|]. symmetry. apply Rlt_bool_false. apply IZR_le. exact HD.
Qed.
Lemma digits_val_ge acc ds : 0 <= acc -> forallb is_digit ds = true -> 0 <= digits_val acc ds.
Proof.
  revert acc. induction ds as [|c t IH]; intros acc Ha H; cbn [digits_val]. exact Ha.
  cbn [forallb] in H. apply andb_prop in H as [Hc Ht]. apply IH; [|exact Ht]. unfold is_digit in Hc. apply andb_prop in Hc as [H1 H2]. apply N.leb_le in H1. lia.
Qed.
Lemma digits_val_lt acc ds : forallb is_digit ds = true -> digits_val acc ds < (acc + 1) * 10 ^ Z.of_nat (length ds).
Proof.
  revert acc. induction ds as [|c t IH]; intros acc H; cbn [digits_val length]. rewrite Z.pow_0_r. lia.
  cbn [forallb] in H. apply andb_prop in H as [Hc Ht]. specialize (IH (acc * 10 + (Z.of_N c - 48)) Ht).
  unfold is_digit in Hc. apply andb_prop in Hc as [H1 H2]. apply N.leb_le in H1, H2.
  rewrite Nat2Z.inj_succ, Z.pow_succ_r by lia. assert (0 < 10 ^ Z.of_nat (length t)) by (apply Z.pow_pos_nonneg; lia). nia.
Qed.
Theorem integer_literal_nearest ip : forallb is_digit ip = true ->
  let D := digits_val 0 ip in
  if Rlt_bool (Rabs (rne (IZR D))) (bpow radix2 emax)
  then B2R (literal_value ip []) = rne (IZR D) /\ is_finite (literal_value ip []) = true
  else literal_value ip [] = B754_infinity false.
Proof.
  intros Hd D. pose proof (digits_val_ge 0 ip ltac:(lia) Hd) as HD. fold D in HD.
  assert (E : literal_value ip [] = of_int D).
  { unfold literal_value, scale10. rewrite app_nil_r. fold D. cbn [length Z.of_nat Z.opp]. destruct D as [|p|p] eqn:ED; [|rewrite Z.pow_0_r, Z.mul_1_r; reflexivity|lia]. vm_compute. reflexivity. }
  rewrite E. apply of_int_nearest. exact HD.
Qed.

(* literals flushed to zero (more than 400 fractional zeros beyond the digit count): the exact value is below 2^-1076, whose nearest double is 0 *)
Lemma tiny_rounds_to_zero x : (0 <= x <= bpow radix2 (-1076))%R -> rne x = 0%R.
Proof.
  intros [H0 H1]. change (SpecFloat.fexp prec emax) with (FLT_exp (3 - emax - prec) prec).
  assert (Z0 : round radix2 (FLT_exp (3 - emax - prec) prec) ZnearestE (bpow radix2 (-1076)) = 0%R).
  { apply (round_N_small_pos radix2 (FLT_exp (3 - emax - prec) prec) (fun z => negb (Z.even z)) _ (-1075)).
    - split. simpl Z.sub. apply Rle_refl. apply bpow_lt. lia.
    - unfold FLT_exp, emax, prec. lia. }
  apply Rle_antisym.
  - rewrite <- Z0. apply round_le; [apply FLT_exp_valid; reflexivity | apply valid_rnd_N | exact H1].
  - rewrite <- (round_0 radix2 (FLT_exp (3 - emax - prec) prec) ZnearestE). apply round_le; [apply FLT_exp_valid; reflexivity | apply valid_rnd_N | exact H0].
Qed.
Lemma pow2_lt_pow10 : 2 ^ 1076 < 10 ^ 401. Proof. vm_compute. reflexivity. Qed.
Theorem flushed_literal_nearest ip fp p : forallb is_digit (ip ++ fp) = true -> digits_val 0 (ip ++ fp) = Zpos p ->
  Z.of_nat (length (ip ++ fp)) + 400 < Z.of_nat (length fp) ->
  literal_value ip fp = B754_zero false /\ rne (IZR (Zpos p) / IZR (10 ^ Z.of_nat (length fp))) = 0%R.
Proof.
  intros Hd HD Hk. set (k := Z.of_nat (length fp)) in *. set (nd := Z.of_nat (length (ip ++ fp))) in *. split.
  - unfold literal_value, scale10. rewrite HD. fold k nd. replace (0 <=? - k) with false by (symmetry; apply Z.leb_gt; lia).
    replace (nd + 400 <? - - k) with true by (symmetry; apply Z.ltb_lt; lia). reflexivity.
  - apply tiny_rounds_to_zero. pose proof (digits_val_lt 0 (ip ++ fp) Hd) as HL. rewrite HD in HL. fold nd in HL. rewrite Z.add_0_l, Z.mul_1_l in HL.
    assert (P10 : 0 < 10 ^ k) by (apply Z.pow_pos_nonneg; lia).
    assert (Pk : (IZR (10 ^ k) > 0)%R) by (apply IZR_lt; exact P10).
    split. { apply Rmult_le_pos; [apply IZR_le; lia | left; apply Rinv_0_lt_compat; exact Pk]. }
    assert (B : Zpos p * 2 ^ 1076 <= 10 ^ k).
    { assert (E : 10 ^ k = 10 ^ nd * 10 ^ 401 * 10 ^ (k - nd - 401)) by (rewrite <- !Z.pow_add_r by lia; f_equal; lia).
      assert (0 < 10 ^ nd) by (apply Z.pow_pos_nonneg; lia). assert (0 < 10 ^ (k - nd - 401)) by (apply Z.pow_pos_nonneg; lia).
      pose proof pow2_lt_pow10. rewrite E. nia. }
    assert (E2 : bpow radix2 (-1076) = (/ IZR (2 ^ 1076))%R).
    { change (-1076) with (- (1076)). rewrite bpow_opp. f_equal; try (change (2 ^ 1076) with (Zpower radix2 1076); rewrite IZR_Zpower by lia; reflexivity). }
    rewrite E2. assert (PQ : (0 < IZR (2 ^ 1076))%R) by (apply IZR_lt; apply Z.pow_pos_nonneg; lia).
    apply (Rmult_le_reg_r (IZR (10 ^ k) * IZR (2 ^ 1076))); [apply Rmult_lt_0_compat; [exact Pk | exact PQ]|].
    replace (IZR (Z.pos p) / IZR (10 ^ k) * (IZR (10 ^ k) * IZR (2 ^ 1076)))%R with (IZR (Z.pos p) * IZR (2 ^ 1076))%R by (field; lra).
    replace (/ IZR (2 ^ 1076) * (IZR (10 ^ k) * IZR (2 ^ 1076)))%R with (IZR (10 ^ k)) by (field; lra).
    rewrite <- mult_IZR. apply IZR_le. exact B.
Qed.

(* every decimal literal: the value is the exact decimal D / 10^k rounded to nearest (ties to even), or +inf when that overflows *)
Theorem literal_denotes_nearest ip fp : forallb is_digit (ip ++ fp) = true ->
  let x := (IZR (digits_val 0 (ip ++ fp)) / IZR (10 ^ Z.of_nat (length fp)))%R in
  if Rlt_bool (Rabs (rne x)) (bpow radix2 emax)
  then B2R (literal_value ip fp) = rne x /\ is_finite (literal_value ip fp) = true
  else literal_value ip fp = B754_infinity false.
Proof.
  intros Hd x. pose proof (digits_val_ge 0 (ip ++ fp) ltac:(lia) Hd) as HD.
  assert (Small : forall y, y = 0%R -> (Rabs y < bpow radix2 emax)%R) by (intros y ->; rewrite Rabs_R0; apply bpow_gt_0).
  destruct (digits_val 0 (ip ++ fp)) as [|p|p] eqn:ED; [| |lia].
  - assert (x = 0%R) by (unfold x, Rdiv; lra). rewrite H.
    rewrite (round_0 radix2 (SpecFloat.fexp prec emax) ZnearestE). rewrite Rlt_bool_true by (apply Small; reflexivity).
    unfold literal_value, scale10. rewrite ED. split; reflexivity.
  - destruct fp as [|c fp'] eqn:Efp.
    + rewrite app_nil_r in *. pose proof (integer_literal_nearest ip Hd) as T. cbv zeta in T. rewrite ED in T.
      assert (x = IZR (Z.pos p)) by (unfold x; cbn [length Z.of_nat]; rewrite Z.pow_0_r; unfold Rdiv; rewrite Rinv_1; lra). rewrite H. exact T.
    + rewrite <- Efp in *. destruct (Z_le_gt_dec (Z.of_nat (length fp)) (Z.of_nat (length (ip ++ fp)) + 400)) as [L|G].
      * assert (NE : fp <> []) by (rewrite Efp; discriminate). pose proof (literal_nearest ip fp p ED NE L) as T. cbv zeta in T. unfold x. rewrite <- Efp. exact T.
      * destruct (flushed_literal_nearest ip fp p Hd ED ltac:(lia)) as [Z0 R0]. unfold x. rewrite <- Efp. rewrite R0, Z0.
        rewrite Rlt_bool_true by (apply Small; reflexivity). split; reflexivity.
Qed.
