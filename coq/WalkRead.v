(* reading the arms of a tree walk: the first arm, in source order, whose node kind and guard fit *)
From Flocq Require Import Core BinarySingleNaN.
Require Import ZArith NArith Bool List Arith Lia. Import ListNotations.
Require Import F64 Dec Types Generic Lang WalkTypes.

Definition node_of (e:expr) : gnode := match e with EUn _ _ => NUnary | EBin _ _ _ => NBinary | ETer _ _ _ _ => NTernary | EArr _ => NArray | ECall _ _ => NCall | EVar _ => NVariable | ELit _ => NLiteral end.
Definition node_eqb (a b:gnode) : bool := match a, b with NUnary, NUnary | NBinary, NBinary | NTernary, NTernary | NArray, NArray | NCall, NCall | NVariable, NVariable | NLiteral, NLiteral | NAnyOther, NAnyOther => true | _, _ => false end.
Definition guard_holds (g:gguard) (e:expr) : bool :=
  match g, e with
  | GNone, _ => true
  | GAllLiteral, EArr es => forallb Generic.is_lit es
  | GAllLiteral, ECall _ ps => forallb Generic.is_lit ps
  | GIsIfThen, ECall n _ => leqb n if_then_name
  | _, _ => false end.
Fixpoint arm_for (arms:list (gnode * gguard * gwalk)) (e:expr) : option gwalk :=
  match arms with [] => None | (n, g, b) :: t => if (node_eqb n (node_of e) || node_eqb n NAnyOther) && guard_holds g e then Some b else arm_for t e end.

