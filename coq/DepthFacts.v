(* optimize never deepens a tree: transform_ternary replaces a call node by a ternary node over the same operands, fold_constants replaces a node by a literal or by one
   of its own branches, and a failing pass returns the tree it had so far.  So a tree that execute / validate / serialize could walk before optimize can be walked after it
   (the recursion of every consumer is bounded by the depth of the tree it is given).  Proved for the generic optimizer and transported to the extracted optimize_t. *)
Require Import ZArith NArith Bool List Arith Lia. Import ListNotations.
Require Import F64 Dec Types Generic Lang Opt Json.

Definition dl (l:list expr) : nat := fold_right (fun x a => Nat.max (depth x) a) 0%nat l.
Lemma dl_cons x t : dl (x :: t) = Nat.max (depth x) (dl t). Proof. reflexivity. Qed.
Lemma depth_pos e : (1 <= depth e)%nat. Proof. destruct e; cbn [depth]; lia. Qed.
Lemma depth_arr es : depth (EArr es) = S (dl es). Proof. reflexivity. Qed.
Lemma depth_call n ps : depth (ECall n ps) = S (dl ps). Proof. reflexivity. Qed.

Lemma tt_list_depth es : Forall (fun e => (depth (fst (Generic.tt e)) <= depth e)%nat) es -> (dl (fst (Generic.tt_list es)) <= dl es)%nat.
Proof.
  induction 1 as [|x t Hx Ht IH]; [unfold dl; simpl; lia|]. cbn [Generic.tt_list]. destruct (Generic.tt x) as [x' f1]. destruct (Generic.tt_list t) as [t' f2].
  cbn [fst] in *. rewrite !dl_cons. lia.
Qed.
Theorem tt_depth : forall e, (depth (fst (Generic.tt e)) <= depth e)%nat.
Proof.
  induction e using expr_ind'.
  - cbn [Generic.tt]. destruct (Generic.tt e) as [r' f]. cbn [fst depth] in *. lia.
  - cbn [Generic.tt]. destruct (Generic.tt e1) as [l' f1]. destruct (Generic.tt e2) as [r' f2]. cbn [fst depth] in *. lia.
  - cbn [Generic.tt]. destruct (Generic.tt e1) as [l' f1]. destruct (Generic.tt e2) as [m' f2]. destruct (Generic.tt e3) as [r' f3]. cbn [fst depth] in *. lia.
  - rewrite Generic.tt_arr. cbn [fst]. rewrite !depth_arr. apply tt_list_depth in H. lia.
  - cbn. lia.
  - cbn. lia.
  - rewrite Generic.tt_call. destruct (Generic.is_if3 n ps).
    + destruct ps as [|a [|b [|c [|d t]]]]; cbn [fst]; try lia. cbn [depth fold_right]. lia.
    + cbn [fst]. rewrite !depth_call. apply tt_list_depth in H. lia.
Qed.

Section G.
Variable as_bool : value -> bool.
Variable is_empty : value -> bool.
Variable un : op -> value -> res value.
Variable binop : op -> value -> value -> res value.
Variable E : env.
Notation fold := (Generic.fold as_bool is_empty un binop E).
Notation fold_list := (Generic.fold_list as_bool is_empty un binop E).
Notation evalfold := (Generic.evalfold as_bool is_empty un binop E).
Lemma evalfold_depth e : (depth (snd (fst (evalfold e))) <= depth e)%nat.
Proof. unfold Generic.evalfold. destruct (Generic.eval as_bool is_empty un binop E e); cbn [fst snd depth]; [apply depth_pos | lia]. Qed.
Lemma fold_list_depth es : Forall (fun e => (depth (snd (fst (fold e))) <= depth e)%nat) es -> (dl (snd (fst (fold_list es))) <= dl es)%nat.
Proof.
  induction 1 as [|x t Hx Ht IH]; [unfold dl; simpl; lia|]. cbn [Generic.fold_list]. destruct (fold x) as [[st1 x'] f1]. cbn [fst snd] in Hx. destruct st1.
  - destruct (fold_list t) as [[st2 t'] f2]. cbn [fst snd] in *. rewrite !dl_cons. lia.
  - cbn [fst snd]. rewrite !dl_cons. lia.
Qed.
Theorem fold_depth : forall e, (depth (snd (fst (fold e))) <= depth e)%nat.
Proof.
  induction e using expr_ind'.
  - cbn [Generic.fold]. destruct (Generic.is_lit e); [apply evalfold_depth|]. destruct (fold e) as [[st r'] f]. cbn [fst snd depth] in *. lia.
  - cbn [Generic.fold]. destruct (Generic.is_lit e1 && Generic.is_lit e2); [apply evalfold_depth|].
    destruct (fold e1) as [[st1 l'] f1]. destruct st1.
    + destruct (fold e2) as [[st2 r'] f2]. cbn [fst snd depth] in *. lia.
    + cbn [fst snd depth] in *. lia.
  - cbn [Generic.fold].
    assert (G : (depth (snd (fst (let '(st1, l', f1) := fold e1 in
        match st1 with Generic.SErr _ => (st1, ETer o l' e2 e3, f1) | Generic.SOk =>
          let '(st2, m', f2) := fold e2 in
          match st2 with Generic.SErr _ => (st2, ETer o l' m' e3, f1 || f2) | Generic.SOk =>
            let '(st3, r', f3) := fold e3 in (st3, ETer o l' m' r', f1 || f2 || f3) end end))) <= depth (ETer o e1 e2 e3))%nat).
    { destruct (fold e1) as [[st1 l'] f1]. destruct st1.
      - destruct (fold e2) as [[st2 m'] f2]. destruct st2.
        + destruct (fold e3) as [[st3 r'] f3]. cbn [fst snd depth] in *. lia.
        + cbn [fst snd depth] in *. lia.
      - cbn [fst snd depth] in *. lia. }
    destruct e1; try exact G. destruct (Generic.is_cond o); try exact G.
    cbn [fst snd]. destruct (as_bool v); cbn [depth]; lia.
  - rewrite Generic.fold_arr. destruct (forallb Generic.is_lit es); [apply evalfold_depth|]. cbn [fst snd]. rewrite !depth_arr. apply fold_list_depth in H. lia.
  - cbn. lia.
  - cbn. lia.
  - rewrite Generic.fold_call. destruct (forallb Generic.is_lit ps).
    + destruct (fn_exists E n (length ps)) as [[|]| |]; try (cbn [fst snd]; lia). apply evalfold_depth.
    + cbn [fst snd]. rewrite !depth_call. apply fold_list_depth in H. lia.
Qed.
Theorem optimize_depth_g : forall k e, (depth (snd (Generic.optimize as_bool is_empty un binop E k e)) <= depth e)%nat.
Proof.
  induction k as [|k IH]; intros e; cbn [Generic.optimize]; [cbn; lia|].
  pose proof (tt_depth e) as T. destruct (Generic.tt e) as [e1 f1]. cbn [fst] in T.
  pose proof (fold_depth e1) as F. destruct (fold e1) as [[st e2] f2]. cbn [fst snd] in F.
  destruct st; [|cbn [snd]; lia]. destruct (f1 || f2); [specialize (IH e2); lia | cbn [snd]; lia].
Qed.
End G.

Theorem optimize_depth : forall E k e acc, (depth (snd (fst (optimize_t E k e acc))) <= depth e)%nat.
Proof.
  intros E k e acc. pose proof (optimize_erase E k e acc) as X. destruct (optimize_t E k e acc) as [[st e'] tr]. cbn [fst snd].
  pose proof (optimize_depth_g as_bool is_empty un binop E k e) as D. rewrite <- X in D. exact D.
Qed.
