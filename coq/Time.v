(* calendar and time builtins (repaired conversion: round to nearest millisecond) *)
From Flocq Require Import Core BinarySingleNaN.
Require Import ZArith NArith Bool List Arith. Import ListNotations.
Require Import F64 Dec Types Generic Lang Builtins.
Open Scope Z_scope.
Definition is_leap (y:Z) : bool := (y mod 4 =? 0) && (negb (y mod 100 =? 0) || (y mod 400 =? 0)).
Definition dim (y m : Z) : Z := if (m =? 2) then (if is_leap y then 29 else 28) else if (m =? 4) || (m =? 6) || (m =? 9) || (m =? 11) then 30 else 31.
Definition valid_date (y m d : Z) : bool := (1 <=? m) && (m <=? 12) && (1 <=? d) && (d <=? dim y m).
Definition doe_of (yoe m d : Z) : Z := let doy := (153 * (m + (if 2 <? m then -3 else 9)) + 2) / 5 + d - 1 in yoe * 365 + yoe / 4 - yoe / 100 + doy.
Definition days_from_civil (y m d : Z) : Z :=
  let y' := y - (if m <=? 2 then 1 else 0) in let era := y' / 400 in let yoe := y' - era * 400 in era * 146097 + doe_of yoe m d - 719468.
Definition of_doe (doe : Z) : Z * Z * Z :=   (* (yoe, m, d) *)
  let yoe := (doe - doe / 1460 + doe / 36524 - doe / 146096) / 365 in
  let doy := doe - (365 * yoe + yoe / 4 - yoe / 100) in
  let mp := (5 * doy + 2) / 153 in
  let d := doy - (153 * mp + 2) / 5 + 1 in
  let m := if mp <? 10 then mp + 3 else mp - 9 in
  (yoe, m, d).
Definition civil_from_days (z : Z) : Z * Z * Z :=
  let z := z + 719468 in
  let era := z / 146097 in
  let doe := z - era * 146097 in
  let '(yoe, m, d) := of_doe doe in
  (yoe + era * 400 + (if m <=? 2 then 1 else 0), m, d).
Definition MSD := 86400000.
Definition fD := of_int MSD.
Definition min_days := days_from_civil (-262143) 1 1.
Definition max_days := days_from_civil 262142 12 31.
Definition in_range (ms:Z) : bool := let d := ms / MSD in (min_days <=? d) && (d <=? max_days).
Definition to_ms (v:value) : Z + nerr :=
  match v with
  | VNum x => let ms := to_i64 (fround (fmul x fD)) in if in_range ms then inl ms else inr CustomError
  | _ => inr WrongParameterType end.
Definition of_ms (ms:Z) : value := VNum (fdiv (of_int ms) fD).
Definition num (z:Z) : bres := BOk (VNum (of_int z)).
Definition dig2 (z:Z) : list N := [Z.to_N (48 + z / 10); Z.to_N (48 + z mod 10)].
Definition dig4 (z:Z) : list N := [Z.to_N (48 + z / 1000); Z.to_N (48 + (z / 100) mod 10); Z.to_N (48 + (z / 10) mod 10); Z.to_N (48 + z mod 10)].
Definition fmt_date : list N := map Z.to_N [37;89;45;37;109;45;37;100].          (* %Y-%m-%d *)
Definition fmt_time : list N := map Z.to_N [37;72;58;37;77;58;37;83].            (* %H:%M:%S *)
Definition fmt_dt : list N := fmt_date ++ [32%N] ++ fmt_time.
Definition show_date (y m d:Z) := dig4 y ++ [45%N] ++ dig2 m ++ [45%N] ++ dig2 d.
Definition show_time (h mi s:Z) := dig2 h ++ [58%N] ++ dig2 mi ++ [58%N] ++ dig2 s.
Definition digv (c:N) : option Z := if (48 <=? c)%N && (c <=? 57)%N then Some (Z.of_N c - 48) else None.
Definition num_of (cs:list N) : option Z := fold_left (fun acc c => match acc, digv c with Some a, Some d => Some (a * 10 + d) | _, _ => None end) cs (Some 0).
Definition parse_date (s:list N) : option (Z*Z*Z) :=
  match s with
  | [a;b;c;d;h1;m1;m2;h2;d1;d2] => if (h1 =? 45)%N && (h2 =? 45)%N then match num_of [a;b;c;d], num_of [m1;m2], num_of [d1;d2] with Some y, Some m, Some dd => Some (y,m,dd) | _,_,_ => None end else None
  | _ => None end.
Definition parse_time (s:list N) : option (Z*Z*Z) :=
  match s with
  | [a;b;c1;c;d;c2;e;f] => if (c1 =? 58)%N && (c2 =? 58)%N then match num_of [a;b], num_of [c;d], num_of [e;f] with Some h, Some m, Some ss => Some (h,m,ss) | _,_,_ => None end else None
  | _ => None end.
Definition add_months (y m d : Z) (k:Z) : option (Z*Z*Z) :=
  let t := y * 12 + (m - 1) + k in let y' := t / 12 in let m' := t mod 12 + 1 in
  if (-262143 <=? y') && (y' <=? 262142) then Some (y', m', Z.min d (dim y' m')) else None.
Definition call_time (name:list N) (ps:list value) : bres :=
  let is s := leqb name (map Z.to_N s) in
  let cnt k := BErr (WrongParameterCount k) in
  let with_dt (v:value) (k : Z -> Z -> Z -> Z -> bres) : bres :=    (* y m d time-of-day-ms *)
    match to_ms v with inr e => BErr e | inl ms => let days := ms / MSD in let tod := ms mod MSD in let '(y,m,d) := civil_from_days days in k y m d tod end in
  let one (k : Z -> Z -> Z -> Z -> bres) := match ps with [v] => with_dt v k | _ => cnt 1%N end in
  (* string_to_*: the format parameter is looked at first (default_string), then the text; a format other than the default one is left to the oracles *)
  let str_to (deflt:list N) (k : list N -> bres) : bres :=
    match (match ps with _ :: x :: _ => (match x with VStr f => inl (Some f) | _ => inr tt end) | _ => inl None end) with
    | inr _ => BErr WrongParameterType
    | inl fo => match ps with
                | VStr s :: _ => (match fo with None => k s | Some f => if leqb f deflt then k s else BUnmodelled end)
                | _ :: _ => BErr WrongParameterType
                | [] => cnt 1%N end end in
  if is [121;101;97;114] then one (fun y _ _ _ => num y)
  else if is [109;111;110;116;104] then one (fun _ m _ _ => num m)
  else if is [100;97;121] then one (fun _ _ d _ => num d)
  else if is [104;111;117;114] then one (fun _ _ _ t => num (t / 3600000))
  else if is [109;105;110;117;116;101] then one (fun _ _ _ t => num ((t / 60000) mod 60))
  else if is [115;101;99;111;110;100] then one (fun _ _ _ t => num ((t / 1000) mod 60))
  else if is [109;105;108;108;105;115;101;99;111;110;100] then one (fun _ _ _ t => num (t mod 1000))
  else if is [100;97;121;95;111;102;95;119;101;101;107] then match ps with [v] => match to_ms v with inr e => BErr e | inl ms => num ((ms / MSD + 3) mod 7) end | _ => cnt 1%N end
  else if is [105;115;95;108;101;97;112;95;121;101;97;114] then one (fun y _ _ _ => BOk (VBool (is_leap y)))
  else if is [100;97;116;101] then match ps with [VNum v] => BOk (VNum (ftrunc v)) | [_] => BErr WrongParameterType | _ => cnt 1%N end
  else if is [116;105;109;101] then match ps with [VNum v] => BOk (VNum (ffract v)) | [_] => BErr WrongParameterType | _ => cnt 1%N end
  else if is [101;110;99;111;100;101;95;100;97;116;101] then
    match ps with
    | [VNum y; VNum m; VNum d] => let y := to_i32 y in let m := to_u32 m in let d := to_u32 d in
        if valid_date y m d && (-262143 <=? y) && (y <=? 262142) then BOk (of_ms (days_from_civil y m d * MSD)) else BErr CustomError
    | [_; _; _] => BErr WrongParameterType | _ => cnt 3%N end
  else if is [101;110;99;111;100;101;95;116;105;109;101] then
    match (match ps with _ :: _ :: _ :: x :: _ => (match x with VNum f => inl f | _ => inr tt end) | _ => inl (of_int 0) end) with
    | inr _ => BErr WrongParameterType
    | inl milli =>
      match ps with
      | VNum h0 :: VNum mi0 :: VNum s0 :: _ => let h := to_u32 h0 in let mi := to_u32 mi0 in let s := to_u32 s0 in let ml := to_u32 milli in
          if negb (ge0 h0 && ge0 mi0 && ge0 s0 && ge0 milli) then BErr CustomError else
          if (h <? 24) && (mi <? 60) && (s <? 60) && (ml <? 4294968) && ((ml <? 1000) || ((s =? 59) && (ml <? 2000))) then BOk (of_ms (((h * 60 + mi) * 60 + s) * 1000 + ml)) else BErr CustomError
      | _ :: _ :: _ :: _ => BErr WrongParameterType | _ => cnt 3%N end end
  else if is [105;110;99;95;109;111;110;116;104] then
    match (match ps with _ :: x :: _ => (match x with VNum f => inl f | _ => inr tt end) | _ => inl (of_int 1) end) with
    | inr _ => BErr WrongParameterType
    | inl inc =>
      match ps with
      | v :: _ => with_dt v (fun y m d tod =>
          let k := to_i32 inc in
          let pos := match fcmp inc (of_int 0) with Some Gt => true | _ => false end in
          let neg := match fcmp inc (of_int 0) with Some Lt => true | _ => false end in
          if pos || neg then
            match add_months y m d (if pos then Z.abs k else - Z.abs k) with
            | Some (y', m', d') => BOk (of_ms (days_from_civil y' m' d' * MSD + tod)) | None => BErr CustomError end
          else BOk (of_ms (days_from_civil y m d * MSD + tod)))
      | [] => cnt 1%N end end
  else if is [100;97;116;101;95;116;111;95;115;116;114;105;110;103] || is [116;105;109;101;95;116;111;95;115;116;114;105;110;103] then
    match ps with
    | [VStr f; v] =>
        match to_ms v with inr e => BErr e | inl ms =>
          let days := ms / MSD in let tod := ms mod MSD in let '(y,m,d) := civil_from_days days in
          let h := tod / 3600000 in let mi := (tod / 60000) mod 60 in let s := (tod / 1000) mod 60 in
          if negb ((0 <=? y) && (y <=? 9999)) then BUnmodelled
          else if leqb f fmt_date then BOk (VStr (show_date y m d)) else if leqb f fmt_time then BOk (VStr (show_time h mi s))
          else if leqb f fmt_dt then BOk (VStr (show_date y m d ++ [32%N] ++ show_time h mi s)) else BUnmodelled end
    | [_; _] => BErr WrongParameterType | _ => cnt 2%N end
  else if is [115;116;114;105;110;103;95;116;111;95;100;97;116;101] then
    str_to fmt_date (fun s => match parse_date s with Some (y,m,d) => if valid_date y m d then BOk (of_ms (days_from_civil y m d * MSD)) else BErr CustomError | None => BUnmodelled end)
  else if is [115;116;114;105;110;103;95;116;111;95;116;105;109;101] then
    str_to fmt_time (fun s => match parse_time s with Some (h,mi,ss) => if (h <? 24) && (mi <? 60) && (ss <? 60) then BOk (of_ms (((h * 60 + mi) * 60 + ss) * 1000)) else BUnmodelled | None => BUnmodelled end)
  else if is [115;116;114;105;110;103;95;116;111;95;100;97;116;101;116;105;109;101] then
    str_to fmt_dt (fun s =>
        if Nat.eqb (length s) 19 && (nth 10 s 0%N =? 32)%N then
          match parse_date (firstn 10 s), parse_time (skipn 11 s) with
          | Some (y,m,d), Some (h,mi,ss) =>
              if negb (valid_date y m d) then BErr CustomError
              else if (h <? 24) && (mi <? 60) && (ss <? 60) then BOk (of_ms (days_from_civil y m d * MSD + ((h * 60 + mi) * 60 + ss) * 1000)) else BUnmodelled
          | _, _ => BUnmodelled end
        else BUnmodelled)
  else BUnmodelled.
