(* C18: the four regex builtins as wrappers over a matching engine, and a small executable reference engine
   (leftmost-first backtracking with captures, fuelled) for the subset: literals, `.`, classes, * + ?, alternation,
   capturing and non-capturing groups, ^ and $. Definitions only (extracted). *)
Require Import ZArith NArith Bool List Arith. Import ListNotations.
Require Import F64 Dec Types Builtins.
Open Scope N_scope.

Inductive re :=
| REmpty | RChar (c:N) | RAny | RClass (neg:bool) (rs:list (N * N))
| RSeq (a b:re) | RAlt (a b:re) | RStar (a:re) | RPlus (a:re) | ROpt (a:re)
| RGroup (i:nat) (a:re)      (* capturing group number i (1-based, in order of the opening parentheses) *)
| RBol | REol.
Definition caps := list (nat * (nat * nat)).     (* group number -> (start, end), most recent binding first *)
Fixpoint in_rs (c:N) (rs:list (N * N)) : bool := match rs with [] => false | (lo, hi) :: t => ((lo <=? c) && (c <=? hi)) || in_rs c t end.
Definition mres := option (nat * caps).           (* end position, captures *)

(* Loops follow the leftmost-first automaton semantics of regex-lite: an iteration of a loop that consumes nothing is a dead end when it
   returns to the loop's decision point (the point was already visited at this position), except for the first iteration of `+`,
   which reaches that point for the first time and may only leave the loop. *)
Fixpoint nullable (r:re) : bool :=
  match r with
  | REmpty | RStar _ | ROpt _ | RBol | REol => true
  | RChar _ | RAny | RClass _ _ => false
  | RSeq a b => nullable a && nullable b | RAlt a b => nullable a || nullable b
  | RPlus a | RGroup _ a => nullable a end.
(* `x*` with a body that can match the empty string is compiled by the engine as `(x+)?` (so that the empty alternative keeps its priority) *)
(* one match attempt at position p of the remaining text s, continuation-passing; None = no match (or out of fuel, see [fuel_ok]) *)
Fixpoint m (fuel:nat) (r:re) (s:list N) (p:nat) (c:caps) (k:list N -> nat -> caps -> mres) {struct fuel} : mres :=
  match fuel with O => None | S f =>
  match r with
  | REmpty => k s p c
  | RChar x => match s with y :: t => if y =? x then k t (S p) c else None | [] => None end
  | RAny => match s with y :: t => if y =? 10 then None else k t (S p) c | [] => None end
  | RClass neg rs => match s with y :: t => if xorb neg (in_rs y rs) then k t (S p) c else None | [] => None end
  | RSeq a b => m f a s p c (fun s' p' c' => m f b s' p' c' k)
  | RAlt a b => match m f a s p c k with Some x => Some x | None => m f b s p c k end
  | RStar a => if nullable a
               then match m f (RPlus a) s p c k with Some x => Some x | None => k s p c end
               else match m f a s p c (fun s' p' c' => if Nat.eqb p' p then None else m f (RStar a) s' p' c' k) with Some x => Some x | None => k s p c end
  | RPlus a => m f a s p c (fun s' p' c' => if Nat.eqb p' p then k s' p' c' else loopj f a s' p' c' k)
  | ROpt a => match m f a s p c k with Some x => Some x | None => k s p c end
  | RGroup i a => m f a s p c (fun s' p' c' => k s' p' ((i, (p, p')) :: c'))
  | RBol => if Nat.eqb p 0 then k s p c else None
  | REol => match s with [] => k s p c | _ => None end
  end end
(* the decision point after an iteration of `+`: iterate again (an iteration that consumes nothing is a dead end here) or leave *)
with loopj (fuel:nat) (a:re) (s:list N) (p:nat) (c:caps) (k:list N -> nat -> caps -> mres) {struct fuel} : mres :=
  match fuel with O => None | S f =>
    match m f a s p c (fun s' p' c' => if Nat.eqb p' p then None else loopj f a s' p' c' k) with Some x => Some x | None => k s p c end end.
(* leftmost search from position p: (start, end, captures) *)
Fixpoint search (fuel:nat) (r:re) (s:list N) (p:nat) {struct s} : option (nat * nat * caps) :=
  match m fuel r s p [] (fun _ p' c' => Some (p', c')) with
  | Some (e, c) => Some (p, e, c)
  | None => match s with [] => None | _ :: t => search fuel r t (S p) end
  end.
Fixpoint ngroups (r:re) : nat :=
  match r with
  | RSeq a b | RAlt a b => ngroups a + ngroups b
  | RStar a | RPlus a | ROpt a => ngroups a
  | RGroup _ a => S (ngroups a)
  | _ => 0 end.
(* [k] scales the fuel: the driver evaluates with k = 1 and k = 2 and reports a case as unmodelled when the answers differ (fuel ran out) *)
Section Fuel.
Variable kf : nat.
Definition fuel_for (s:list N) : nat := kf * (3000 + 400 * length s).

(* all non-overlapping matches, as the regex crate iterates them: after a match the search resumes at its end; an empty match that
   abuts the previous match is skipped by retrying one character further *)
Fixpoint find_iter (n:nat) (r:re) (whole:list N) (start:nat) (last:option nat) : list (nat * nat) :=
  match n with O => [] | S n' =>
    let fuel := fuel_for whole in
    match search fuel r (skipn start whole) start with
    | None => []
    | Some (st, en, _) =>
        let abut := Nat.eqb st en && match last with Some l => Nat.eqb en l | None => false end in
        if abut then
          (if Nat.ltb st (length whole) then
            match search fuel r (skipn (S st) whole) (S st) with
            | None => []
            | Some (st2, en2, _) => (st2, en2) :: find_iter n' r whole en2 (Some en2)
            end
          else [])
        else (st, en) :: find_iter n' r whole en (Some en)
    end end.
Definition spans (r:re) (s:list N) : list (nat * nat) := find_iter (S (S (length s))) r s 0 None.
Definition slice (s:list N) (a b:nat) : list N := firstn (b - a) (skipn a s).

(* ---- the four builtins over the engine ---- *)
Definition re_is_match (r:re) (s:list N) : bool := match search (fuel_for s) r s 0 with Some _ => true | None => false end.
Definition re_find (r:re) (s:list N) : list (list N) := map (fun ab => slice s (fst ab) (snd ab)) (spans r s).
Fixpoint cap_get (i:nat) (c:caps) : option (nat * nat) := match c with [] => None | (j, ab) :: t => if Nat.eqb i j then Some ab else cap_get i t end.
Definition re_capture (r:re) (s:list N) : list (list N) :=
  match search (fuel_for s) r s 0 with
  | Some (st, en, c) => slice s st en :: map (fun i => match cap_get i c with Some (a, b) => slice s a b | None => [] end) (seq 1 (ngroups r))
  | None => repeat [] (S (ngroups r))
  end.
(* replacement text without `$` (no group expansion); limit 0 = all matches, limit n = the first n *)
Fixpoint splice (s:list N) (pos:nat) (sp:list (nat * nat)) (t:list N) : list N :=
  match sp with [] => skipn pos s | (a, b) :: rest => slice s pos a ++ t ++ splice s b rest t end.
Definition re_replace (r:re) (s t:list N) (limit:nat) : list N :=
  let sp := spans r s in splice s 0 (match limit with O => sp | S _ => firstn limit sp end) t.
End Fuel.
(* a pattern that is an escaped literal *)
Fixpoint lit (x:list N) : re := match x with [] => REmpty | c :: t => RSeq (RChar c) (lit t) end.
(* The engine under the builtins explores every automaton state at most once per haystack position; a backtracking matcher agrees with
   that exactly when the pattern has no loop whose body can match the empty string (no epsilon cycle). For patterns with such a loop the
   rules above are a close approximation only, and the correspondence check does not compare them (the direct-engine oracle still does). *)
Fixpoint has_nullable_loop (r:re) : bool :=
  match r with
  | RStar a | RPlus a => nullable a || has_nullable_loop a
  | RSeq a b | RAlt a b => has_nullable_loop a || has_nullable_loop b
  | ROpt a | RGroup _ a => has_nullable_loop a
  | _ => false end.
