(* Positions reported by the engine are ordered and inside the text: every match attempt ends between its start and the end of the text, the search
   reports start <= end <= length, and the iteration yields spans in increasing order.  Consequence: replacing every match by `$0` (the match itself) returns the
   text unchanged, for every pattern AST, text, limit and fuel scale. *)
Require Import ZArith NArith Bool List Arith Lia. Import ListNotations.
Require Import F64 Dec Types Builtins Regex RegexExpand RegexExpandFacts.

Section Inv.
Variable T : nat.
Definition kgood (p:nat) (k:list N -> nat -> caps -> mres) (Q:nat * caps -> Prop) : Prop :=
  forall s' p' c' x, (p' + length s' = T)%nat -> (p <= p')%nat -> k s' p' c' = Some x -> Q x.
Definition m_stmt (fuel:nat) : Prop := forall r s p c k Q, (p + length s = T)%nat -> kgood p k Q -> forall x, m fuel r s p c k = Some x -> Q x.
Definition l_stmt (fuel:nat) : Prop := forall a s p c k Q, (p + length s = T)%nat -> kgood p k Q -> forall x, loopj fuel a s p c k = Some x -> Q x.

Lemma kgood_here p k Q s c x : kgood p k Q -> (p + length s = T)%nat -> k s p c = Some x -> Q x.
Proof. intros H L E. exact (H s p c x L (le_n p) E). Qed.

Lemma ml_inv : forall fuel, m_stmt fuel /\ l_stmt fuel.
Proof.
  induction fuel as [|f [IHm IHl]]; [split; intros ? ? ? ? ? ? ? ? ? E; discriminate E|].
  split.
  - intros r s p c k Q L K x E. destruct r; cbn [m] in E.
    + exact (kgood_here _ _ _ _ _ _ K L E).
    + destruct s as [|y t]; [discriminate|]. destruct (y =? c0)%N; [|discriminate]. apply (K t (S p) c x); [cbn in L; lia | lia | exact E].
    + destruct s as [|y t]; [discriminate|]. destruct (y =? 10)%N; [discriminate|]. apply (K t (S p) c x); [cbn in L; lia | lia | exact E].
    + destruct s as [|y t]; [discriminate|]. destruct (xorb neg (in_rs y rs)); [|discriminate]. apply (K t (S p) c x); [cbn in L; lia | lia | exact E].
    + apply (IHm r1 s p c _ Q L) in E; [exact E|]. intros s' p' c' x' L' P' E'.
      apply (IHm r2 s' p' c' k Q L') in E'; [exact E'|]. intros s2 p2 c2 x2 L2 P2 E2. apply (K s2 p2 c2 x2 L2); [lia | exact E2].
    + destruct (m f r1 s p c k) as [y|] eqn:E1.
      * injection E as <-. exact (IHm r1 s p c k Q L K y E1).
      * exact (IHm r2 s p c k Q L K x E).
    + destruct (nullable r).
      * destruct (m f (RPlus r) s p c k) as [y|] eqn:E1.
        -- injection E as <-. exact (IHm (RPlus r) s p c k Q L K y E1).
        -- exact (kgood_here _ _ _ _ _ _ K L E).
      * match type of E with match ?M with _ => _ end = _ => destruct M as [y|] eqn:E1 end.
        -- injection E as <-. apply (IHm r s p c _ Q L) in E1; [exact E1|]. intros s' p' c' x' L' P' E'.
           destruct (Nat.eqb p' p); [discriminate|]. apply (IHm (RStar r) s' p' c' k Q L') in E'; [exact E'|].
           intros s2 p2 c2 x2 L2 P2 E2. apply (K s2 p2 c2 x2 L2); [lia | exact E2].
        -- exact (kgood_here _ _ _ _ _ _ K L E).
    + apply (IHm r s p c _ Q L) in E; [exact E|]. intros s' p' c' x' L' P' E'.
      destruct (Nat.eqb p' p).
      * apply (K s' p' c' x' L' P' E').
      * apply (IHl r s' p' c' k Q L') in E'; [exact E'|]. intros s2 p2 c2 x2 L2 P2 E2. apply (K s2 p2 c2 x2 L2); [lia | exact E2].
    + destruct (m f r s p c k) as [y|] eqn:E1.
      * injection E as <-. exact (IHm r s p c k Q L K y E1).
      * exact (kgood_here _ _ _ _ _ _ K L E).
    + apply (IHm r s p c _ Q L) in E; [exact E|]. intros s' p' c' x' L' P' E'. apply (K s' p' _ x' L' P' E').
    + destruct (Nat.eqb p 0); [|discriminate]. exact (kgood_here _ _ _ _ _ _ K L E).
    + destruct s; [|discriminate]. exact (kgood_here _ _ _ _ _ _ K L E).
  - intros a s p c k Q L K x E. cbn [loopj] in E.
    match type of E with match ?M with _ => _ end = _ => destruct M as [y|] eqn:E1 end.
    + injection E as <-. apply (IHm a s p c _ Q L) in E1; [exact E1|]. intros s' p' c' x' L' P' E'.
      destruct (Nat.eqb p' p); [discriminate|]. apply (IHl a s' p' c' k Q L') in E'; [exact E'|].
      intros s2 p2 c2 x2 L2 P2 E2. apply (K s2 p2 c2 x2 L2); [lia | exact E2].
    + exact (kgood_here _ _ _ _ _ _ K L E).
Qed.

Lemma search_bounds fuel r : forall s p st en c, (p + length s = T)%nat -> search fuel r s p = Some (st, en, c) -> (p <= st /\ st <= en /\ en <= T)%nat.
Proof.
  induction s as [|y t IH]; intros p st en c L E; cbn [search] in E.
  - destruct (m fuel r [] p [] (fun _ p' c' => Some (p', c'))) as [[e c0]|] eqn:E1; [|discriminate]. injection E as <- <- <-.
    apply (proj1 (ml_inv fuel) r [] p [] _ (fun x => p <= fst x /\ fst x <= T)%nat L) in E1; [cbn in E1; lia|].
    intros s' p' c' x L' P' E'. injection E' as <-. cbn. lia.
  - destruct (m fuel r (y :: t) p [] (fun _ p' c' => Some (p', c'))) as [[e c0]|] eqn:E1.
    + injection E as <- <- <-.
      apply (proj1 (ml_inv fuel) r (y :: t) p [] _ (fun x => p <= fst x /\ fst x <= T)%nat L) in E1; [cbn in E1; lia|].
      intros s' p' c' x L' P' E'. injection E' as <-. cbn. lia.
    + apply IH in E; [lia | cbn in L; lia].
Qed.
End Inv.

(* spans in increasing order, inside the text *)
Fixpoint ordered (pos:nat) (len:nat) (sp:list (nat * nat * caps)) : Prop :=
  match sp with [] => True | (a, b, _) :: rest => (pos <= a /\ a <= b /\ b <= len)%nat /\ ordered b len rest end.

Lemma skipn_length_eq {A} (l:list A) n : (n <= length l)%nat -> (n + length (skipn n l) = length l)%nat.
Proof. intros H. rewrite skipn_length. lia. Qed.

Lemma find_iter_c_ordered kf r whole : forall n start last, (start <= length whole)%nat -> ordered start (length whole) (find_iter_c kf n r whole start last).
Proof.
  induction n as [|n IH]; intros start last Hs; [exact I|]. cbn [find_iter_c]. cbv zeta.
  destruct (search (fuel_for kf whole) r (skipn start whole) start) as [[[st en] c]|] eqn:E; [|exact I].
  apply (search_bounds (length whole)) in E; [|apply skipn_length_eq; exact Hs].
  destruct (Nat.eqb st en && match last with Some l => Nat.eqb en l | None => false end).
  - destruct (Nat.ltb st (length whole)) eqn:Lt; [|exact I]. apply Nat.ltb_lt in Lt.
    destruct (search (fuel_for kf whole) r (skipn (S st) whole) (S st)) as [[[st2 en2] c2]|] eqn:E2; [|exact I].
    apply (search_bounds (length whole)) in E2; [|apply skipn_length_eq; lia].
    cbn [ordered]. split; [lia|]. apply IH. lia.
  - cbn [ordered]. split; [lia|]. apply IH. lia.
Qed.
Theorem spans_c_ordered kf r s : ordered 0 (length s) (spans_c kf r s).
Proof. apply find_iter_c_ordered. lia. Qed.

Lemma ordered_firstn len : forall n sp pos, ordered pos len sp -> ordered pos len (firstn n sp).
Proof.
  induction n as [|n IH]; intros [|[[a b] c] rest] pos H; cbn [firstn ordered]; try exact I.
  destruct H as [H1 H2]. split; [exact H1 | apply IH; exact H2].
Qed.

Lemma skipn_add {A} (l:list A) : forall b a, skipn a (skipn b l) = skipn (b + a) l.
Proof. induction b as [|b IH] in l |- *; intros a; [reflexivity|]. destruct l as [|x l]; [cbn; rewrite !skipn_nil; reflexivity|]. cbn [skipn Nat.add]. apply IH. Qed.
Lemma slice_join {A} (s:list A) pos a : (pos <= a)%nat -> (a <= length s)%nat -> firstn (a - pos) (skipn pos s) ++ skipn a s = skipn pos s.
Proof.
  intros H1 H2. rewrite <- (firstn_skipn (a - pos) (skipn pos s)) at 2. f_equal.
  rewrite skipn_add. f_equal. lia.
Qed.

Definition dollar0 : list N := [36; 48]%N.
Lemma splice_x_zero r s : forall sp pos, ordered pos (length s) sp -> splice_x r s pos sp dollar0 = skipn pos s.
Proof.
  induction sp as [|[[a b] c] rest IH]; intros pos H; [reflexivity|]. cbn [splice_x]. destruct H as [[H1 [H2 H3]] H4].
  rewrite (IH b H4). change (S (length dollar0)) with 3%nat. unfold dollar0.
  destruct (expand_forms (group_text r s a b c)) as [_ [E _]]. rewrite E. cbn [group_text]. unfold slice.
  rewrite (slice_join s a b H2 H3). apply slice_join; lia.
Qed.
(* `$0` puts every match back: the text is unchanged, whatever the pattern, the limit and the fuel scale *)
Theorem replace_x_zero kf r s limit : re_replace_x kf r s dollar0 limit = s.
Proof.
  unfold re_replace_x. cbv zeta. rewrite splice_x_zero; [reflexivity|].
  destruct limit; [apply spans_c_ordered | apply ordered_firstn, spans_c_ordered].
Qed.
(* the plain iteration too: every reported span is ordered and inside the text *)
Theorem spans_ordered kf r s : ordered 0 (length s) (spans_c kf r s) /\ map span_of (spans_c kf r s) = spans kf r s.
Proof. split; [apply spans_c_ordered | apply spans_c_spans]. Qed.

(* the matches are disjoint pieces of the text: together they are no longer than the text (no pattern makes `find` return more characters than it was given) *)
Lemma ordered_total s : forall sp pos, ordered pos (length s) sp ->
  (length (concat (map (fun ab => slice s (fst ab) (snd ab)) (map span_of sp))) + pos <= length s \/ sp = [])%nat.
Proof.
  induction sp as [|[[a b] c] rest IH]; intros pos H; [right; reflexivity|]. left. destruct H as [[H1 [H2 H3]] H4].
  cbn [map concat span_of fst snd]. rewrite app_length. assert (L : (length (slice s a b) <= b - a)%nat) by (unfold slice; apply firstn_le_length).
  destruct (IH b H4) as [E|E]; [lia | subst rest; cbn; lia].
Qed.
Theorem find_total_length kf r s : (length (concat (re_find kf r s)) <= length s)%nat.
Proof.
  unfold re_find. rewrite <- spans_c_spans. destruct (ordered_total s (spans_c kf r s) 0 (spans_c_ordered kf r s)) as [E|E]; [lia|]. rewrite E. cbn. lia.
Qed.

(* the ends of successive matches strictly increase (an empty match that abuts the previous one is skipped), so a text of n characters has at most n + 1 matches *)
Fixpoint ends_from (T lo:nat) (sp:list (nat * nat * caps)) : Prop :=
  match sp with [] => True | (_, b, _) :: rest => (lo <= b /\ b <= T)%nat /\ ends_from T (S b) rest end.
Lemma ends_from_length T : forall sp lo, ends_from T lo sp -> (length sp <= S T - lo)%nat.
Proof. induction sp as [|[[a b] c] rest IH]; intros lo H; [cbn; lia|]. destruct H as [H1 H2]. apply IH in H2. cbn [length]. lia. Qed.
Lemma find_iter_c_ends kf r whole : forall n start last, (start <= length whole)%nat -> match last with None => True | Some l => l = start end ->
  ends_from (length whole) (match last with None => start | Some _ => S start end) (find_iter_c kf n r whole start last).
Proof.
  induction n as [|n IH]; intros start last Hs Hl; [exact I|]. cbn [find_iter_c]. cbv zeta.
  destruct (search (fuel_for kf whole) r (skipn start whole) start) as [[[st en] c]|] eqn:E; [|exact I].
  apply (search_bounds (length whole)) in E; [|apply skipn_length_eq; exact Hs].
  destruct (Nat.eqb st en && match last with Some l => Nat.eqb en l | None => false end) eqn:Ab.
  - apply andb_prop in Ab as [A1 A2]. apply Nat.eqb_eq in A1. destruct last as [l|]; [|discriminate]. apply Nat.eqb_eq in A2. subst l.
    destruct (Nat.ltb st (length whole)) eqn:Lt; [|exact I]. apply Nat.ltb_lt in Lt.
    destruct (search (fuel_for kf whole) r (skipn (S st) whole) (S st)) as [[[st2 en2] c2]|] eqn:E2; [|exact I].
    apply (search_bounds (length whole)) in E2; [|apply skipn_length_eq; lia].
    cbn [ends_from]. split; [lia|]. apply (IH en2 (Some en2)); [lia | reflexivity].
  - cbn [ends_from]. split.
    + destruct last as [l|]; [|lia]. subst l. apply andb_false_iff in Ab as [A|A]; apply Nat.eqb_neq in A; lia.
    + apply (IH en (Some en)); [lia | reflexivity].
Qed.
Theorem find_count_bound kf r s : (length (re_find kf r s) <= S (length s))%nat.
Proof.
  unfold re_find. rewrite map_length, <- spans_c_spans, map_length.
  pose proof (ends_from_length (length s) _ _ (find_iter_c_ends kf r s (S (S (length s))) 0 None (Nat.le_0_l _) I)) as H. unfold spans_c. lia.
Qed.

(* bounded output of re_replace with a plain replacement text: the text plus one replacement per match, and there are at most length + 1 matches *)
Lemma splice_length s t : forall sp pos, (pos <= length s)%nat -> ordered pos (length s) sp ->
  (length (splice s pos (map span_of sp) t) + pos <= length s + length sp * length t)%nat.
Proof.
  induction sp as [|[[a b] c] rest IH]; intros pos Hp H.
  - cbn [map splice length]. rewrite skipn_length. lia.
  - destruct H as [[H1 [H2 H3]] H4]. cbn [map splice span_of fst snd]. rewrite !app_length. specialize (IH b H3 H4).
    assert (L : (length (slice s pos a) <= a - pos)%nat) by (unfold slice; apply firstn_le_length).
    change (length ((a, b, c) :: rest)) with (S (length rest)). rewrite Nat.mul_succ_l. lia.
Qed.
Theorem replace_plain_bounded kf r s t limit : (length (re_replace kf r s t limit) <= length s + S (length s) * length t)%nat.
Proof.
  unfold re_replace. cbv zeta. rewrite <- spans_c_spans.
  pose proof (ends_from_length (length s) _ _ (find_iter_c_ends kf r s (S (S (length s))) 0 None (Nat.le_0_l _) I)) as Hc. fold (spans_c kf r s) in Hc.
  assert (G : forall sp, ordered 0 (length s) sp -> (length sp <= S (length s))%nat -> (length (splice s 0 (map span_of sp) t) <= length s + S (length s) * length t)%nat).
  { intros sp Ho Hl. pose proof (splice_length s t sp 0 (Nat.le_0_l _) Ho) as B.
    assert (length sp * length t <= S (length s) * length t)%nat by (apply Nat.mul_le_mono_r; exact Hl). lia. }
  destruct limit as [|n].
  - apply G; [apply spans_c_ordered | lia].
  - rewrite firstn_map. apply G; [apply ordered_firstn, spans_c_ordered|]. rewrite firstn_length. lia.
Qed.
