(* optimizer with the trace of the evaluations it performs (extracted), and its erasure to the generic optimizer *)
From Flocq Require Import Core BinarySingleNaN.
Require Import ZArith NArith Bool List Arith Lia. Import ListNotations.
Require Import F64 Dec Types Generic Lang.
Definition is_lit := Generic.is_lit.
Notation status := Generic.status. Notation SOk := Generic.SOk. Notation SErr := Generic.SErr.
Section Opt.
Variable E : env.
Definition evalfold_t (e:expr) : status * expr * bool * list event :=
  let '(r, tr) := eval_t E e in match r with Ok v => (SOk, ELit v, true, tr) | Er x => (SErr x, e, true, tr) end.
Fixpoint fold_t (e:expr) : status * expr * bool * list event :=
  match e with
  | EUn o r => if is_lit r then evalfold_t e else let '(st, r', f, tr) := fold_t r in (st, EUn o r', f, tr)
  | EBin o l r => if is_lit l && is_lit r then evalfold_t e else
      let '(st1, l', f1, t1) := fold_t l in
      match st1 with SErr _ => (st1, EBin o l' r, f1, t1) | SOk =>
        let '(st2, r', f2, t2) := fold_t r in (st2, EBin o l' r', f1 || f2, t1 ++ t2) end
  | ETer o l m r =>
      match l, is_cond o with
      | ELit c, true => (SOk, if as_bool c then m else r, true, [])
      | _, _ =>
        let '(st1, l', f1, t1) := fold_t l in
        match st1 with SErr _ => (st1, ETer o l' m r, f1, t1) | SOk =>
          let '(st2, m', f2, t2) := fold_t m in
          match st2 with SErr _ => (st2, ETer o l' m' r, f1 || f2, t1 ++ t2) | SOk =>
            let '(st3, r', f3, t3) := fold_t r in (st3, ETer o l' m' r', f1 || f2 || f3, t1 ++ t2 ++ t3) end end
      end
  | EArr es => if forallb is_lit es then evalfold_t e else
      let r := (fix go (l:list expr) : status * list expr * bool * list event := match l with [] => (SOk, [], false, []) | x::t =>
                 let '(st1, x', f1, t1) := fold_t x in
                 match st1 with SErr _ => (st1, x'::t, f1, t1) | SOk => let '(st2, t', f2, t2) := go t in (st2, x'::t', f1||f2, t1 ++ t2) end end) es in
      let '(st, es', f, tr) := r in (st, EArr es', f, tr)
  | ECall n ps => if forallb is_lit ps then
        match fn_exists E n (length ps) with Exists true => evalfold_t e | _ => (SOk, e, false, []) end
      else
      let r := (fix go (l:list expr) : status * list expr * bool * list event := match l with [] => (SOk, [], false, []) | x::t =>
                 let '(st1, x', f1, t1) := fold_t x in
                 match st1 with SErr _ => (st1, x'::t, f1, t1) | SOk => let '(st2, t', f2, t2) := go t in (st2, x'::t', f1||f2, t1 ++ t2) end end) ps in
      let '(st, ps', f, tr) := r in (st, ECall n ps', f, tr)
  | _ => (SOk, e, false, [])
  end.
Notation ostatus := Generic.ostatus. Notation OOk := Generic.OOk. Notation OErr := Generic.OErr. Notation OOutOfFuel := Generic.OOutOfFuel.
Fixpoint optimize_t (fuel:nat) (e:expr) (acc:list event) : ostatus * expr * list event :=
  match fuel with O => (OOutOfFuel, e, acc) | S k =>
    let '(e1, f1) := Generic.tt e in
    let '(st, e2, f2, tr) := fold_t e1 in
    match st with SErr x => (OErr x, e2, acc ++ tr) | SOk => if f1 || f2 then optimize_t k e2 (acc ++ tr) else (OOk, e2, acc ++ tr) end end.


Definition fold_g := Generic.fold as_bool is_empty un binop E.
Definition erase (x : status * expr * bool * list event) : status * expr * bool := let '(st, e, f, _) := x in (st, e, f).
Fixpoint fold_list_t (l:list expr) : status * list expr * bool * list event :=
  match l with [] => (SOk, [], false, []) | x::t =>
    let '(st1, x', f1, t1) := fold_t x in
    match st1 with SErr _ => (st1, x'::t, f1, t1) | SOk => let '(st2, t', f2, t2) := fold_list_t t in (st2, x'::t', f1||f2, t1 ++ t2) end end.
Lemma fold_list_t_fix : forall l, (fix go (l:list expr) : status * list expr * bool * list event := match l with [] => (SOk, [], false, []) | x::t =>
                 let '(st1, x', f1, t1) := fold_t x in
                 match st1 with SErr _ => (st1, x'::t, f1, t1) | SOk => let '(st2, t', f2, t2) := go t in (st2, x'::t', f1||f2, t1 ++ t2) end end) l = fold_list_t l.
Proof. induction l as [|x t IH]; simpl; auto; try (rewrite IH; reflexivity). Qed.
Lemma evalfold_erase e : erase (evalfold_t e) = Generic.evalfold as_bool is_empty un binop E e.
Proof. unfold evalfold_t, Generic.evalfold. pose proof (eval_t_fst E e) as H. unfold eval in H. destruct (eval_t E e) as [r tr]. simpl in H. subst r. destruct (Generic.eval _ _ _ _ _ e); reflexivity. Qed.
Definition erase_l (x : status * list expr * bool * list event) : status * list expr * bool := let '(st, e, f, _) := x in (st, e, f).
Theorem fold_erase : forall e, erase (fold_t e) = fold_g e.
Proof.
  unfold fold_g. induction e using expr_ind'.
  - cbn [fold_t Generic.fold]. unfold is_lit. destruct (Generic.is_lit e). apply evalfold_erase.
    destruct (fold_t e) as [[[st r'] f] tr]. simpl in IHe. rewrite <- IHe. reflexivity.
  - cbn [fold_t Generic.fold]. unfold is_lit. destruct (Generic.is_lit e1 && Generic.is_lit e2). apply evalfold_erase.
    destruct (fold_t e1) as [[[st1 l'] f1] t1]. simpl in IHe1. rewrite <- IHe1. destruct st1; [|reflexivity].
    destruct (fold_t e2) as [[[st2 r'] f2] t2]. simpl in IHe2. rewrite <- IHe2. reflexivity.
  - cbn [fold_t Generic.fold].
    assert (G : erase (let '(st1, l', f1, t1) := fold_t e1 in
        match st1 with SErr _ => (st1, ETer o l' e2 e3, f1, t1) | SOk =>
          let '(st2, m', f2, t2) := fold_t e2 in
          match st2 with SErr _ => (st2, ETer o l' m' e3, f1 || f2, t1 ++ t2) | SOk =>
            let '(st3, r', f3, t3) := fold_t e3 in (st3, ETer o l' m' r', f1 || f2 || f3, t1 ++ t2 ++ t3) end end) =
       (let '(st1, l', f1) := Generic.fold as_bool is_empty un binop E e1 in
        match st1 with SErr _ => (st1, ETer o l' e2 e3, f1) | SOk =>
          let '(st2, m', f2) := Generic.fold as_bool is_empty un binop E e2 in
          match st2 with SErr _ => (st2, ETer o l' m' e3, f1 || f2) | SOk =>
            let '(st3, r', f3) := Generic.fold as_bool is_empty un binop E e3 in (st3, ETer o l' m' r', f1 || f2 || f3) end end)).
    { destruct (fold_t e1) as [[[st1 l'] f1] t1]. simpl in IHe1. rewrite <- IHe1. destruct st1; [|reflexivity].
      destruct (fold_t e2) as [[[st2 m'] f2] t2]. simpl in IHe2. rewrite <- IHe2. destruct st2; [|reflexivity].
      destruct (fold_t e3) as [[[st3 r'] f3] t3]. simpl in IHe3. rewrite <- IHe3. reflexivity. }
    unfold is_cond. destruct e1; try exact G. destruct (Generic.is_cond o); try exact G. reflexivity.
  - cbn [fold_t]. rewrite fold_list_t_fix. rewrite Generic.fold_arr. unfold is_lit. destruct (forallb Generic.is_lit es). apply evalfold_erase.
    assert (G : erase_l (fold_list_t es) = Generic.fold_list as_bool is_empty un binop E es).
    { induction H as [|x t Hx Ht IH]; simpl; auto. destruct (fold_t x) as [[[st1 x'] f1] t1]. simpl in Hx. rewrite <- Hx. destruct st1; [|reflexivity].
      destruct (fold_list_t t) as [[[st2 t'] f2] t2]. simpl in IH. rewrite <- IH. reflexivity. }
    destruct (fold_list_t es) as [[[st es'] f] tr]. simpl in G. rewrite <- G. reflexivity.
  - reflexivity.
  - reflexivity.
  - cbn [fold_t]. rewrite fold_list_t_fix. rewrite Generic.fold_call. unfold is_lit. destruct (forallb Generic.is_lit ps).
    + destruct (fn_exists E n (length ps)) as [[|]| |]; try reflexivity. apply evalfold_erase.
    + assert (G : erase_l (fold_list_t ps) = Generic.fold_list as_bool is_empty un binop E ps).
      { induction H as [|x t Hx Ht IH]; simpl; auto. destruct (fold_t x) as [[[st1 x'] f1] t1]. simpl in Hx. rewrite <- Hx. destruct st1; [|reflexivity].
        destruct (fold_list_t t) as [[[st2 t'] f2] t2]. simpl in IH. rewrite <- IH. reflexivity. }
      destruct (fold_list_t ps) as [[[st ps'] f] tr]. simpl in G. rewrite <- G. reflexivity.
Qed.
Theorem optimize_erase : forall k e acc, let '(st, e', _) := optimize_t k e acc in (st, e') = Generic.optimize as_bool is_empty un binop E k e.
Proof.
  induction k as [|k IH]; intros e acc; simpl. reflexivity.
  destruct (Generic.tt e) as [e1 f1]. pose proof (fold_erase e1) as F. unfold fold_g in F.
  destruct (fold_t e1) as [[[st e2] f2] tr]. simpl in F. rewrite <- F. destruct st; [|reflexivity].
  destruct (f1 || f2); [|reflexivity]. apply IH.
Qed.
End Opt.
