(* C16: the calendar round trip for every year, and exactness of the rounding millisecond conversion *)
From Flocq Require Import Core BinarySingleNaN Relative.
Require Import ZArith Reals Lia Lra Psatz List Bool. Import ListNotations.
Require Import F64 Dec Types Generic Lang Builtins Time.
Open Scope R_scope.
Notation emin := (3 - emax - prec)%Z.
Notation fexp := (FLT_exp emin prec).
Notation rnd := (round radix2 fexp ZnearestE).
Definition DZ := 86400000%Z.
Definition D := of_int DZ.
Definition encode (M:Z) : f64 := fdiv (of_int M) D.
Definition decode (v:f64) : Z := Btrunc (Bnearbyint mode_NA (fmul v D)).
Lemma int_format (M:Z) : (Z.abs M < 2^53)%Z -> generic_format radix2 fexp (IZR M).
Proof.
  intros H. apply generic_format_FLT. apply (FLT_spec radix2 emin prec (IZR M) (Float radix2 M 0)).
  - unfold F2R; simpl. lra.
  - simpl. exact H.
  - simpl. unfold emax, prec. lia.
Qed.
Lemma bpow_emax_big x : Rabs x <= IZR (2^52) -> Rabs x < bpow radix2 emax.
Proof.
  intros H. eapply Rle_lt_trans; [exact H|]. change (2^52)%Z with (Zpower radix2 52). rewrite IZR_Zpower by lia. apply bpow_lt. unfold emax; lia.
Qed.
Lemma of_int_correct (M:Z) : (Z.abs M <= 2^52)%Z -> B2R (of_int M) = IZR M /\ is_finite (of_int M) = true.
Proof.
  intros H. unfold of_int.
  generalize (binary_normalize_correct prec emax _ _ mode_NE M 0 false).
  cbv zeta. replace (F2R (Float radix2 M 0)) with (IZR M) by (unfold F2R; simpl; lra).
  simpl round_mode. rewrite round_generic; [| apply valid_rnd_N | apply int_format; lia].
  rewrite Rlt_bool_true.
  - intros (A & B & _). auto.
  - apply bpow_emax_big. rewrite <- abs_IZR. apply IZR_le. lia.
Qed.
Lemma fexp_eq : SpecFloat.fexp prec emax = fexp. Proof. reflexivity. Qed.

Definition u := / 2 * bpow radix2 (- prec + 1).
Lemma u_val : u = / IZR (2^53). Proof. unfold u, prec. simpl. lra. Qed.

Lemma rel_err x : bpow radix2 (emin + prec - 1) <= Rabs x -> exists eps, Rabs eps <= u /\ rnd x = x * (1 + eps).
Proof. intros H. apply (relative_error_N_FLT_ex radix2 emin prec Hprec (fun z => negb (Z.even z)) x H). Qed.

Lemma small_bpow : bpow radix2 (emin + prec - 1) <= / IZR (2^27).
Proof. unfold emax, prec. simpl. lra. Qed.

Theorem ms_exact (M:Z) : (Z.abs M <= 2^50)%Z -> decode (encode M) = M.
Proof.
  intros HM.
  destruct (of_int_correct M ltac:(lia)) as [Rx Fx].
  destruct (of_int_correct DZ ltac:(unfold DZ; lia)) as [Rd Fd]. fold D in Rd, Fd.
  assert (HD : IZR DZ = 86400000) by (unfold DZ; reflexivity).
  assert (HMabs : Rabs (IZR M) <= IZR (2^50)) by (rewrite <- abs_IZR; apply IZR_le; lia).
  (* division *)
  assert (Hq : B2R (encode M) = rnd (IZR M / IZR DZ) /\ is_finite (encode M) = true).
  { unfold encode, fdiv. generalize (Bdiv_correct prec emax _ _ mode_NE (of_int M) D ltac:(rewrite Rd, HD; lra)).
    rewrite Rx, Rd, fexp_eq. simpl round_mode.
    rewrite Rlt_bool_true.
    - intros (A & B & _). rewrite B, Fx. auto.
    - apply bpow_emax_big. apply (abs_round_le_generic radix2 fexp ZnearestE); [apply int_format; lia |].
      rewrite HD. unfold Rdiv. rewrite Rabs_mult. rewrite (Rabs_right (/ 86400000)) by lra.
      assert (IZR (2^50) <= IZR (2^52)) by (apply IZR_le; lia). nra. }
  destruct Hq as [Rq Fq].
  destruct (Z.eq_dec M 0) as [->|Hnz].
  { (* zero *) vm_compute. reflexivity. }
  assert (H1 : 1 <= Rabs (IZR M)). { rewrite <- abs_IZR. apply IZR_le. lia. }
  destruct (rel_err (IZR M / IZR DZ)) as (e1 & He1 & Eq1).
  { eapply Rle_trans; [apply small_bpow|]. rewrite HD. unfold Rdiv. rewrite Rabs_mult, (Rabs_right (/ 86400000)) by lra.
    assert (/ IZR (2^27) <= / 86400000) by (simpl; lra). nra. }
  set (q := rnd (IZR M / IZR DZ)) in *.
  assert (Hu : 0 < u <= / 1000000) by (rewrite u_val; simpl; lra).
  assert (Hqd : Rabs (q * IZR DZ) = Rabs (IZR M) * Rabs (1 + e1)).
  { rewrite Eq1, HD. replace (IZR M / 86400000 * (1 + e1) * 86400000) with (IZR M * (1 + e1)) by (field). apply Rabs_mult. }
  assert (He1' : 1 - u <= Rabs (1 + e1) <= 1 + u).
  { apply Rabs_le_inv in He1. rewrite Rabs_right by lra. lra. }
  destruct (rel_err (q * IZR DZ)) as (e2 & He2 & Eq2).
  { eapply Rle_trans; [apply small_bpow|]. rewrite Hqd. assert (/ IZR (2^27) <= /2) by (simpl; lra). nra. }
  (* multiplication *)
  assert (Hr : B2R (fmul (encode M) D) = rnd (q * IZR DZ) /\ is_finite (fmul (encode M) D) = true).
  { unfold fmul. generalize (Bmult_correct prec emax _ _ mode_NE (encode M) D).
    rewrite Rq, Rd, fexp_eq. simpl round_mode. fold q.
    rewrite Rlt_bool_true.
    - intros (A & B & _). rewrite B, Fq, Fd. auto.
    - apply bpow_emax_big. apply (abs_round_le_generic radix2 fexp ZnearestE); [apply int_format; lia |].
      rewrite Hqd. assert (IZR (2^50) * 2 <= IZR (2^52)) by (simpl; lra). nra. }
  destruct Hr as [Rr Fr].
  (* error bound *)
  assert (Herr : Rabs (rnd (q * IZR DZ) - IZR M) < / 2).
  { rewrite Eq2, Eq1, HD. replace (IZR M / 86400000 * (1 + e1) * 86400000 * (1 + e2) - IZR M) with (IZR M * (e1 + e2 + e1 * e2)) by field.
    rewrite Rabs_mult. apply Rabs_le_inv in He1. apply Rabs_le_inv in He2.
    assert (Rabs (e1 + e2 + e1 * e2) <= 2 * u + u * u). { apply Rabs_le. nra. }
    assert (IZR (2^50) * (2 * u + u * u) < /2). { rewrite u_val. simpl. lra. }
    assert (0 <= Rabs (IZR M)) by apply Rabs_pos. nra. }
  (* nearbyint *)
  unfold decode.
  destruct (Bnearbyint_correct prec emax _ mode_NA (fmul (encode M) D)) as (Rn & Fn & _).
  rewrite Rr in Rn. simpl round_mode in Rn.
  assert (Rn' : B2R (Bnearbyint mode_NA (fmul (encode M) D)) = IZR M).
  { rewrite Rn. unfold round, scaled_mantissa, cexp, FIX_exp, F2R. simpl. rewrite Rmult_1_r, Rmult_1_r. f_equal.
    apply Znearest_imp. exact Herr. }
  apply eq_IZR. rewrite Btrunc_correct, Rn'.
  unfold round, scaled_mantissa, cexp, FIX_exp, F2R. simpl. rewrite Rmult_1_r, Rmult_1_r. rewrite Ztrunc_IZR. reflexivity.
Unshelve. exact Hmax.
Qed.

Open Scope Z_scope.
(* finite sweep over one 400-year era *)
Definition zrange (lo : Z) (n : nat) : list Z := map (fun k => lo + Z.of_nat k) (seq 0 n).
Lemma zrange_in lo n x : lo <= x < lo + Z.of_nat n -> In x (zrange lo n).
Proof. intros H. unfold zrange. apply in_map_iff. exists (Z.to_nat (x - lo)). split. lia. apply in_seq. lia. Qed.
Definition check (yoe m d : Z) : bool :=
  negb (d <=? dim (yoe + (if m <=? 2 then 1 else 0)) m) ||
  (let doe := doe_of yoe m d in (0 <=? doe) && (doe <=? 146096) &&
   (let '(yoe', m', d') := of_doe doe in (yoe' =? yoe) && (m' =? m) && (d' =? d))).
Definition sweep : bool :=
  forallb (fun yoe => forallb (fun m => forallb (fun d => check yoe m d) (zrange 1 31)) (zrange 1 12)) (zrange 0 400).
Lemma sweep_true : forallb (fun yoe => forallb (fun m => forallb (fun d => check yoe m d) (zrange 1 31)) (zrange 1 12)) (zrange 0 400) = true. Proof. vm_compute. reflexivity. Qed.
Lemma forallb_zrange (f : Z -> bool) lo n : forallb f (zrange lo n) = true -> forall x, lo <= x < lo + Z.of_nat n -> f x = true.
Proof. intros H x Hx. rewrite forallb_forall in H. apply H. apply zrange_in. exact Hx. Qed.
Lemma sweep_spec yoe m d : 0 <= yoe < 400 -> 1 <= m <= 12 -> 1 <= d <= 31 -> check yoe m d = true.
Proof.
  intros Hy Hm Hd.
  pose proof (forallb_zrange _ 0 400 sweep_true yoe ltac:(lia)) as S1. cbv beta in S1.
  pose proof (forallb_zrange _ 1 12 S1 m ltac:(lia)) as S2. cbv beta in S2.
  exact (forallb_zrange _ 1 31 S2 d ltac:(lia)).
Qed.

Lemma leap_periodic y k : is_leap (y + 400 * k) = is_leap y.
Proof.
  unfold is_leap.
  replace ((y + 400 * k) mod 4) with (y mod 4) by (replace (y + 400*k) with (y + (100*k)*4) by lia; rewrite Z.mod_add; lia).
  replace ((y + 400 * k) mod 100) with (y mod 100) by (replace (y + 400*k) with (y + (4*k)*100) by lia; rewrite Z.mod_add; lia).
  replace ((y + 400 * k) mod 400) with (y mod 400) by (replace (y + 400*k) with (y + k*400) by lia; rewrite Z.mod_add; lia).
  reflexivity.
Qed.
Lemma dim_le_31 y m : dim y m <= 31. Proof. unfold dim. destruct (m =? 2); [destruct (is_leap y); lia|]. destruct ((m =? 4) || (m =? 6) || (m =? 9) || (m =? 11)); lia. Qed.
Lemma dim_periodic y m k : dim (y + 400 * k) m = dim y m. Proof. unfold dim. rewrite leap_periodic. reflexivity. Qed.

Local Opaque of_doe doe_of.
Theorem civil_roundtrip y m d : valid_date y m d = true -> civil_from_days (days_from_civil y m d) = (y, m, d).
Proof.
  unfold valid_date. intros V. repeat (apply andb_prop in V as [V ?]).
  assert (Hm : 1 <= m <= 12) by lia. assert (Hd1 : 1 <= d) by lia. assert (Hd2 : d <= dim y m) by lia.
  pose proof (dim_le_31 y m) as D31.
  unfold days_from_civil, civil_from_days.
  set (c := if m <=? 2 then 1 else 0).
  set (y' := y - c). set (era := y' / 400). set (yoe := y' - era * 400).
  assert (Hyoe : 0 <= yoe < 400). { unfold yoe, era. pose proof (Z.div_mod y' 400 ltac:(lia)). pose proof (Z.mod_pos_bound y' 400 ltac:(lia)). lia. }
  pose proof (sweep_spec yoe m d Hyoe Hm ltac:(lia)) as C. unfold check in C. fold c in C.
  assert (Hdim : dim (yoe + c) m = dim y m). { replace y with ((yoe + c) + 400 * era) by (unfold yoe, y'; lia). rewrite dim_periodic. replace (yoe + c + 400 * era - c - era*400) with yoe by lia. reflexivity. }
  rewrite Hdim in C. replace (d <=? dim y m) with true in C by (symmetry; lia). simpl in C.
  apply andb_prop in C as [C0 C1]. apply andb_prop in C0 as [Ca Cb].
  set (doe := doe_of yoe m d) in *.
  replace (era * 146097 + doe - 719468 + 719468) with (doe + era * 146097) by lia.
  rewrite Z.div_add by lia. rewrite (Z.div_small doe 146097) by lia. simpl (0 + era).
  replace (doe + era * 146097 - era * 146097) with doe by lia.
  destruct (of_doe doe) as [[yoe' m'] d']. apply andb_prop in C1 as [C1 Cd]. apply andb_prop in C1 as [Cy Cm].
  apply Z.eqb_eq in Cy. apply Z.eqb_eq in Cm. apply Z.eqb_eq in Cd. subst yoe' m' d'. fold c.
  f_equal. f_equal. unfold yoe, y'. lia.
Qed.

(* the other direction: every day number is the day count of exactly the valid date civil_from_days returns (sweep over one era) *)
Definition check_inv (doe : Z) : bool :=
  let '(yoe, m, d) := of_doe doe in
  (0 <=? yoe) && (yoe <? 400) && (1 <=? m) && (m <=? 12) && (1 <=? d) && (d <=? dim (yoe + (if m <=? 2 then 1 else 0)) m) && (doe_of yoe m d =? doe).
Definition check_inv2 (q r : Z) : bool := let doe := q * 1000 + r in negb (doe <? 146097) || check_inv doe.
Lemma sweep_inv_true : forallb (fun q => forallb (fun r => check_inv2 q r) (zrange 0 1000)) (zrange 0 147) = true. Proof. vm_compute. reflexivity. Qed.
Lemma sweep_inv_spec doe : 0 <= doe < 146097 -> check_inv doe = true.
Proof.
  intros H. pose proof (Z.div_mod doe 1000 ltac:(lia)) as DM. pose proof (Z.mod_pos_bound doe 1000 ltac:(lia)) as MB.
  assert (Hq : 0 <= doe / 1000 < 147) by (split; [apply Z.div_pos; lia|apply Z.div_lt_upper_bound; lia]).
  pose proof (forallb_zrange _ 0 147 sweep_inv_true (doe / 1000) ltac:(lia)) as S1. cbv beta in S1.
  pose proof (forallb_zrange _ 0 1000 S1 (doe mod 1000) ltac:(lia)) as S2. unfold check_inv2 in S2.
  replace (doe / 1000 * 1000 + doe mod 1000) with doe in S2 by lia.
  replace (doe <? 146097) with true in S2 by (symmetry; apply Z.ltb_lt; lia). exact S2.
Qed.
Theorem days_roundtrip z : let '(y, m, d) := civil_from_days z in valid_date y m d = true /\ days_from_civil y m d = z.
Proof.
  unfold civil_from_days.
  set (z' := z + 719468). set (era := z' / 146097). set (doe := z' - era * 146097).
  assert (Hdoe : 0 <= doe < 146097). { unfold doe, era. pose proof (Z.div_mod z' 146097 ltac:(lia)). pose proof (Z.mod_pos_bound z' 146097 ltac:(lia)). lia. }
  pose proof (sweep_inv_spec doe Hdoe) as C. unfold check_inv in C.
  destruct (of_doe doe) as [[yoe m] d].
  repeat (apply andb_prop in C as [C ?]).
  set (c := if m <=? 2 then 1 else 0) in *.
  assert (Hy : 0 <= yoe < 400) by lia. assert (Hm : 1 <= m <= 12) by lia.
  split.
  - unfold valid_date. replace (yoe + era * 400 + c) with ((yoe + c) + 400 * era) by lia. rewrite dim_periodic.
    repeat (apply andb_true_intro; split); lia.
  - unfold days_from_civil. fold c. replace (yoe + era * 400 + c - c) with (yoe + era * 400) by lia.
    rewrite Z.div_add by lia. rewrite (Z.div_small yoe 400) by lia. cbn [Z.add].
    replace (yoe + era * 400 - era * 400) with yoe by lia.
    assert (E : doe_of yoe m d = doe) by lia. rewrite E. unfold doe, z'. lia.
Qed.
(* day_of_week: Monday = 0, a period of 7 days, Thursday on the epoch day *)
Theorem weekday_model : forall d, (d + 7 + 3) mod 7 = (d + 3) mod 7 /\ 0 <= (d + 3) mod 7 < 7.
Proof. intros d. split. replace (d + 7 + 3) with (d + 3 + 1 * 7) by lia. apply Z.mod_add. lia. apply Z.mod_pos_bound. lia. Qed.

(* the conversions used by the builtin models are these *)
Close Scope R_scope.
Theorem C16_ms_exact (M:Z) : (Z.abs M <= 2^50)%Z -> to_i64 (fround (fmul (fdiv (of_int M) fD) fD)) = M.
Proof.
  intros H. destruct (Z.eq_dec M 0) as [->|Hn]; [vm_compute; reflexivity|].
  pose proof (ms_exact M H) as X. unfold decode, encode, D, DZ in X. unfold fD, MSD, fround.
  set (x := Bnearbyint mode_NA (fmul (fdiv (of_int M) (of_int 86400000)) (of_int 86400000))) in *.
  unfold to_i64, to_int_sat. destruct x eqn:Ex; [simpl in X; congruence | simpl in X; congruence | simpl in X; congruence | ].
  rewrite X. unfold clamp. lia.
Qed.
Print Assumptions C16_ms_exact. Print Assumptions civil_roundtrip.
