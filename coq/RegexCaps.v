(* Captured groups lie inside the match: the invariant of RegexZero.v carried over the capture list (every binding made during an attempt that started at [lo]
   spans positions between [lo] and the current position).  Consequence for re_capture: no group text is longer than the whole match, for every pattern AST. *)
Require Import ZArith NArith Bool List Arith Lia. Import ListNotations.
Require Import F64 Dec Types Builtins Regex RegexZero.

Section Inv.
Variables T lo : nat.
Definition capsok (hi:nat) (c:caps) : Prop := Forall (fun e => (lo <= fst (snd e) /\ fst (snd e) <= snd (snd e) /\ snd (snd e) <= hi)%nat) c.
Lemma capsok_mono hi hi' c : (hi <= hi')%nat -> capsok hi c -> capsok hi' c.
Proof. intros H. apply Forall_impl. intros e. lia. Qed.
Definition kgood2 (p:nat) (k:list N -> nat -> caps -> mres) (Q:nat * caps -> Prop) : Prop :=
  forall s' p' c' x, (p' + length s' = T)%nat -> (p <= p')%nat -> capsok p' c' -> k s' p' c' = Some x -> Q x.
Definition m_stmt2 (fuel:nat) : Prop := forall r s p c k Q, (p + length s = T)%nat -> (lo <= p)%nat -> capsok p c -> kgood2 p k Q -> forall x, m fuel r s p c k = Some x -> Q x.
Definition l_stmt2 (fuel:nat) : Prop := forall a s p c k Q, (p + length s = T)%nat -> (lo <= p)%nat -> capsok p c -> kgood2 p k Q -> forall x, loopj fuel a s p c k = Some x -> Q x.

Lemma kgood2_here p k Q s c x : kgood2 p k Q -> (p + length s = T)%nat -> capsok p c -> k s p c = Some x -> Q x.
Proof. intros H L C E. exact (H s p c x L (le_n p) C E). Qed.
Lemma kgood2_weaken p p' k Q : (p <= p')%nat -> kgood2 p k Q -> kgood2 p' k Q.
Proof. intros H K s2 p2 c2 x2 L2 P2 C2 E2. apply (K s2 p2 c2 x2 L2); [lia | exact C2 | exact E2]. Qed.

Lemma ml_inv2 : forall fuel, m_stmt2 fuel /\ l_stmt2 fuel.
Proof.
  induction fuel as [|f [IHm IHl]]; [split; intros ? ? ? ? ? ? ? ? ? ? ? E; discriminate E|].
  split.
  - intros r s p c k Q L Lo C K x E. destruct r; cbn [m] in E.
    + exact (kgood2_here _ _ _ _ _ _ K L C E).
    + destruct s as [|y t]; [discriminate|]. destruct (y =? c0)%N; [|discriminate]. apply (K t (S p) c x); [cbn in L; lia | lia | apply (capsok_mono p); [lia | exact C] | exact E].
    + destruct s as [|y t]; [discriminate|]. destruct (y =? 10)%N; [discriminate|]. apply (K t (S p) c x); [cbn in L; lia | lia | apply (capsok_mono p); [lia | exact C] | exact E].
    + destruct s as [|y t]; [discriminate|]. destruct (xorb neg (in_rs y rs)); [|discriminate]. apply (K t (S p) c x); [cbn in L; lia | lia | apply (capsok_mono p); [lia | exact C] | exact E].
    + apply (IHm r1 s p c _ Q L Lo C) in E; [exact E|]. intros s' p' c' x' L' P' C' E'.
      apply (IHm r2 s' p' c' k Q L') in E'; [exact E' | lia | exact C' | exact (kgood2_weaken p p' k Q P' K)].
    + destruct (m f r1 s p c k) as [y|] eqn:E1.
      * injection E as <-. exact (IHm r1 s p c k Q L Lo C K y E1).
      * exact (IHm r2 s p c k Q L Lo C K x E).
    + destruct (nullable r).
      * destruct (m f (RPlus r) s p c k) as [y|] eqn:E1.
        -- injection E as <-. exact (IHm (RPlus r) s p c k Q L Lo C K y E1).
        -- exact (kgood2_here _ _ _ _ _ _ K L C E).
      * match type of E with match ?M with _ => _ end = _ => destruct M as [y|] eqn:E1 end.
        -- injection E as <-. apply (IHm r s p c _ Q L Lo C) in E1; [exact E1|]. intros s' p' c' x' L' P' C' E'.
           destruct (Nat.eqb p' p); [discriminate|].
           apply (IHm (RStar r) s' p' c' k Q L') in E'; [exact E' | lia | exact C' | exact (kgood2_weaken p p' k Q P' K)].
        -- exact (kgood2_here _ _ _ _ _ _ K L C E).
    + apply (IHm r s p c _ Q L Lo C) in E; [exact E|]. intros s' p' c' x' L' P' C' E'.
      destruct (Nat.eqb p' p).
      * apply (K s' p' c' x' L' P' C' E').
      * apply (IHl r s' p' c' k Q L') in E'; [exact E' | lia | exact C' | exact (kgood2_weaken p p' k Q P' K)].
    + destruct (m f r s p c k) as [y|] eqn:E1.
      * injection E as <-. exact (IHm r s p c k Q L Lo C K y E1).
      * exact (kgood2_here _ _ _ _ _ _ K L C E).
    + apply (IHm r s p c _ Q L Lo C) in E; [exact E|]. intros s' p' c' x' L' P' C' E'. apply (K s' p' ((i, (p, p')) :: c') x' L' P'); [|exact E'].
      constructor; [cbn; lia | exact C'].
    + destruct (Nat.eqb p 0); [|discriminate]. exact (kgood2_here _ _ _ _ _ _ K L C E).
    + destruct s; [|discriminate]. exact (kgood2_here _ _ _ _ _ _ K L C E).
  - intros a s p c k Q L Lo C K x E. cbn [loopj] in E.
    match type of E with match ?M with _ => _ end = _ => destruct M as [y|] eqn:E1 end.
    + injection E as <-. apply (IHm a s p c _ Q L Lo C) in E1; [exact E1|]. intros s' p' c' x' L' P' C' E'.
      destruct (Nat.eqb p' p); [discriminate|].
      apply (IHl a s' p' c' k Q L') in E'; [exact E' | lia | exact C' | exact (kgood2_weaken p p' k Q P' K)].
    + exact (kgood2_here _ _ _ _ _ _ K L C E).
Qed.
End Inv.

Definition caps_inside (st en:nat) (c:caps) : Prop := Forall (fun e => (st <= fst (snd e) /\ fst (snd e) <= snd (snd e) /\ snd (snd e) <= en)%nat) c.
Lemma search_caps T fuel r : forall s p st en c, (p + length s = T)%nat -> search fuel r s p = Some (st, en, c) -> caps_inside st en c.
Proof.
  assert (A : forall s p e c, (p + length s = T)%nat -> m fuel r s p [] (fun _ p' c' => Some (p', c')) = Some (e, c) -> caps_inside p e c).
  { intros s p e c L E. apply (proj1 (ml_inv2 T p fuel) r s p [] _ (fun x => capsok p (fst x) (snd x)) L (le_n p)) in E; [exact E | constructor|].
    intros s' p' c' x L' P' C' E'. injection E' as <-. exact C'. }
  induction s as [|y t IH]; intros p st en c L E; cbn [search] in E.
  - destruct (m fuel r [] p [] (fun _ p' c' => Some (p', c'))) as [[e c0]|] eqn:E1; [|discriminate]. injection E as <- <- <-. exact (A _ _ _ _ L E1).
  - destruct (m fuel r (y :: t) p [] (fun _ p' c' => Some (p', c'))) as [[e c0]|] eqn:E1.
    + injection E as <- <- <-. exact (A _ _ _ _ L E1).
    + apply IH in E; [exact E | cbn in L; lia].
Qed.

Lemma cap_get_inside st en c i a b : caps_inside st en c -> cap_get i c = Some (a, b) -> (st <= a /\ a <= b /\ b <= en)%nat.
Proof.
  induction c as [|[j ab] t IH]; intros H E; [discriminate|]. cbn [cap_get] in E. inversion H as [|? ? H1 H2]; subst.
  destruct (Nat.eqb i j); [injection E as ->; exact H1 | exact (IH H2 E)].
Qed.
Lemma slice_length_le s a b : (length (slice s a b) <= b - a)%nat. Proof. unfold slice. apply firstn_le_length. Qed.
Lemma slice_length_eq s a b : (b <= length s)%nat -> length (slice s a b) = (b - a)%nat.
Proof. intros H. unfold slice. rewrite firstn_length, skipn_length. lia. Qed.

(* every entry of re_capture is at most as long as the first one (the whole match) *)
Theorem capture_groups_inside_match kf r s : Forall (fun g => (length g <= length (hd [] (re_capture kf r s)))%nat) (re_capture kf r s).
Proof.
  unfold re_capture. destruct (search (fuel_for kf s) r s 0) as [[[st en] c]|] eqn:E.
  - pose proof (search_bounds (length s) _ _ _ _ _ _ _ (eq_refl : (0 + length s = length s)%nat) E) as [_ [B1 B2]].
    pose proof (search_caps (length s) _ _ _ _ _ _ _ (eq_refl : (0 + length s = length s)%nat) E) as CI.
    cbn [hd]. rewrite (slice_length_eq s st en B2). constructor; [rewrite slice_length_eq by exact B2; lia|].
    apply Forall_forall. intros g Hg. apply in_map_iff in Hg as [i [<- _]].
    destruct (cap_get i c) as [[a b]|] eqn:G; [|cbn; lia].
    pose proof (cap_get_inside _ _ _ _ _ _ CI G). pose proof (slice_length_le s a b). lia.
  - apply Forall_forall. intros g Hg. apply repeat_spec in Hg. subst g. cbn. lia.
Qed.
