Require Import List Arith NArith Bool Lia. Import ListNotations.
Open Scope N_scope.
Arguments N.eqb : simpl never.
Arguments N.leb : simpl never.
Notation ch := N (only parsing).
Notation str := (list N) (only parsing).
(* ASCII constants *)
Definition cSP := 32. Definition cTAB := 9. Definition cCR := 13. Definition cLF := 10.
Definition cQ := 39. Definition cLP := 40. Definition cRP := 41. Definition cSTAR := 42. Definition cPLUS := 43.
Definition cCOMMA := 44. Definition cMINUS := 45. Definition cDOT := 46. Definition cSLASH := 47.
Definition cLT := 60. Definition cEQ := 61. Definition cGT := 62. Definition cLB := 91. Definition cRB := 93.
Definition cUS := 95. Definition cLC := 123. Definition cRC := 125.
Definition is_ws (c:ch) := (c =? cSP) || (c =? cCR) || (c =? cTAB) || (c =? cLF).

Section Scan.
Variables alpha num : ch -> bool.
Variable F : Type.
Variable parse_num : str -> option F.
Inductive kw := KAnd | KOr | KXor | KNot | KDiv | KMod | KTrue | KFalse.
Variable kw_of : str -> option kw.        (* keyword lookup on the lower-cased identifier: kw_of s = table (to_lowercase s) *)

Inductive token :=
| TLParen | TRParen | TLBracket | TRBracket | TPlus | TMinus | TStar | TSlash | TComma
| TGreater | TGreaterEqual | TLess | TLessEqual | TEqual | TNotEqual
| TKw (k:kw) | TNum (f:F) | TStr (s:str) | TId (s:str).
Inductive serr := EInvalidChar (c:ch) | EInvalidNumber | EUnterminated | EEof | EFuel.
Inductive res (A:Type) := Ok (a:A) | Er (e:serr). Arguments Ok {A}. Arguments Er {A}.

Definition ident_start c := alpha c || (c =? cUS).
Definition ident_char c := alpha c || num c || (c =? cUS).

(* whitespace / comment automaton: structural on the text *)
Inductive sk := Normal | InLine | InBlock (d:nat).
Fixpoint skip (st:sk) (s:str) : str :=
  match s with
  | [] => []
  | c :: r =>
    match st with
    | Normal => if is_ws c then skip Normal r
                else if (c =? cSLASH) && (match r with c2 :: _ => c2 =? cSLASH | [] => false end) then skip InLine r
                else if c =? cLC then skip (InBlock 1) r
                else s
    | InLine => if c =? cLF then skip Normal r else skip InLine r
    | InBlock d => if c =? cLC then skip (InBlock (S d)) r
                   else if c =? cRC then match d with S (S d') => skip (InBlock (S d')) r | _ => skip Normal r end
                   else skip (InBlock d) r
    end
  end.

Fixpoint span (p:ch -> bool) (s:str) : str * str :=
  match s with [] => ([],[]) | c :: r => if p c then let '(a,b) := span p r in (c::a, b) else ([], s) end.
Fixpoint scan_str (r:str) : option (str * str) :=
  match r with
  | [] => None
  | c :: r' => if c =? cQ then
                 match r' with
                 | q :: r'' => if q =? cQ then match scan_str r'' with Some (s,rest) => Some (cQ :: s, rest) | None => None end
                               else Some ([], r')
                 | [] => Some ([], [])
                 end
               else match scan_str r' with Some (s,rest) => Some (c :: s, rest) | None => None end
  end.
Definition finish (content rest : str) : res (token * str) :=
  match parse_num content with Some f => Ok (TNum f, rest) | None => Er EInvalidNumber end.
Definition number (c:ch) (r:str) : res (token * str) :=
  let '(ip, r1) := span num r in
  match r1 with
  | d :: r2 => if d =? cDOT then
                 match r2 with
                 | e :: _ => if num e then let '(fp, r3) := span num r2 in finish (c :: ip ++ d :: fp) r3
                             else finish (c :: ip ++ [d]) r2
                 | [] => finish (c :: ip ++ [d]) r2
                 end
               else finish (c :: ip) r1
  | [] => finish (c :: ip) r1
  end.
Definition ident_tok (s:str) : token := match kw_of s with Some k => TKw k | None => TId s end.
Definition next_token (s:str) : res (token * str) :=
  match s with
  | [] => Er EEof
  | c :: r =>
    if ident_start c then let '(b, rest) := span ident_char r in Ok (ident_tok (c :: b), rest)
    else if num c then number c r
    else if c =? cQ then match scan_str r with Some (s', rest) => Ok (TStr s', rest) | None => Er EUnterminated end
    else if c =? cDOT then number c r
    else if c =? cLP then Ok (TLParen, r) else if c =? cRP then Ok (TRParen, r)
    else if c =? cLB then Ok (TLBracket, r) else if c =? cRB then Ok (TRBracket, r)
    else if c =? cCOMMA then Ok (TComma, r) else if c =? cPLUS then Ok (TPlus, r)
    else if c =? cMINUS then Ok (TMinus, r) else if c =? cSTAR then Ok (TStar, r)
    else if c =? cSLASH then Ok (TSlash, r) else if c =? cEQ then Ok (TEqual, r)
    else if c =? cGT then match r with e :: r' => if e =? cEQ then Ok (TGreaterEqual, r') else Ok (TGreater, r) | [] => Ok (TGreater, r) end
    else if c =? cLT then match r with e :: r' => if e =? cEQ then Ok (TLessEqual, r') else if e =? cGT then Ok (TNotEqual, r') else Ok (TLess, r) | [] => Ok (TLess, r) end
    else Er (EInvalidChar c)
  end.
Fixpoint toks (fuel:nat) (s:str) : res (list token) :=
  match fuel with O => Er EFuel | S n =>
    match skip Normal s with
    | [] => Ok []
    | s' => match next_token s' with Er e => Er e | Ok (t, rest) => match toks n rest with Ok ts => Ok (t :: ts) | Er e => Er e end end
    end end.
Definition tokenize (s:str) : res (list token) :=
  match toks (S (length s)) s with Ok [] => Er EEof | r => r end.

(* =================== printer and the round-trip theorem =================== *)
Definition special (c:ch) : bool :=
  is_ws c || existsb (N.eqb c) [cQ;cLP;cRP;cSTAR;cPLUS;cCOMMA;cMINUS;cDOT;cSLASH;cLT;cEQ;cGT;cLB;cRB;cLC;cRC].
Hypothesis special_not_alnum : forall c, special c = true -> alpha c = false /\ num c = false.
Hypothesis us_not_num : num cUS = false.

Inductive punct := PLParen | PRParen | PLBracket | PRBracket | PPlus | PMinus | PStar | PSlash | PComma
                 | PGreater | PGreaterEqual | PLess | PLessEqual | PEqual | PNotEqual.
Definition punct_chars p : str := match p with
  | PLParen => [cLP] | PRParen => [cRP] | PLBracket => [cLB] | PRBracket => [cRB] | PPlus => [cPLUS] | PMinus => [cMINUS]
  | PStar => [cSTAR] | PSlash => [cSLASH] | PComma => [cCOMMA] | PGreater => [cGT] | PGreaterEqual => [cGT;cEQ]
  | PLess => [cLT] | PLessEqual => [cLT;cEQ] | PEqual => [cEQ] | PNotEqual => [cLT;cGT] end.
Definition punct_tok p : token := match p with
  | PLParen => TLParen | PRParen => TRParen | PLBracket => TLBracket | PRBracket => TRBracket | PPlus => TPlus | PMinus => TMinus
  | PStar => TStar | PSlash => TSlash | PComma => TComma | PGreater => TGreater | PGreaterEqual => TGreaterEqual
  | PLess => TLess | PLessEqual => TLessEqual | PEqual => TEqual | PNotEqual => TNotEqual end.

Inductive sp := SPunct (p:punct) | SWord (s:str) | SNum (ip:str) (dotfp:option str) | SStr (content:str).
Fixpoint escape (s:str) : str := match s with [] => [] | c :: r => if c =? cQ then cQ :: cQ :: escape r else c :: escape r end.
Definition num_content ip (dotfp:option str) : str := ip ++ match dotfp with None => [] | Some fp => cDOT :: fp end.
Definition print (t:sp) : str := match t with
  | SPunct p => punct_chars p | SWord s => s | SNum ip d => num_content ip d | SStr c => cQ :: escape c ++ [cQ] end.
Definition is_nil {A} (l:list A) := match l with [] => true | _ => false end.
Definition wf (t:sp) : Prop := match t with
  | SPunct _ => True
  | SWord s => match s with c :: b => ident_start c = true /\ forallb ident_char b = true | [] => False end
  | SNum ip d => forallb num ip = true /\ (match ip with c :: _ => ident_start c = false | [] => True end) /\ (match d with None => ip <> [] | Some fp => forallb num fp = true /\ (ip <> [] \/ fp <> []) end)
                 /\ parse_num (num_content ip d) <> None
  | SStr _ => True end.
Definition denote (t:sp) : token := match t with
  | SPunct p => punct_tok p | SWord s => ident_tok s
  | SNum ip d => match parse_num (num_content ip d) with Some f => TNum f | None => TId [] end
  | SStr c => TStr c end.
Definition nxt_is (p:ch -> bool) (n:option ch) := match n with Some c => p c | None => false end.
Definition safe (t:sp) (n:option ch) : Prop := match t with
  | SWord _ => nxt_is ident_char n = false
  | SNum ip d => nxt_is num n = false /\ (match d with None => nxt_is (N.eqb cDOT) n = false | Some fp => ip = [] -> nxt_is (N.eqb cDOT) n = false end)
  | SStr _ => nxt_is (N.eqb cQ) n = false
  | SPunct PLess => nxt_is (N.eqb cEQ) n = false /\ nxt_is (N.eqb cGT) n = false
  | SPunct PGreater => nxt_is (N.eqb cEQ) n = false
  | SPunct PSlash => nxt_is (N.eqb cSLASH) n = false
  | SPunct _ => True end.

(* separators *)
Fixpoint okb (k:nat) (b:str) : bool := match b with
  | [] => Nat.eqb k 0
  | c :: r => if c =? cLC then okb (S k) r else if c =? cRC then match k with S k' => okb k' r | O => false end else okb k r end.
Inductive sepi := Ws (c:ch) | Line (t:str) | Block (b:str).
Definition wf_sep (x:sepi) : Prop := match x with Ws c => is_ws c = true | Line t => forallb (fun c => negb (c =? cLF)) t = true | Block b => okb 0 b = true end.
Definition print_sep (x:sepi) : str := match x with Ws c => [c] | Line t => cSLASH :: cSLASH :: t ++ [cLF] | Block b => cLC :: b ++ [cRC] end.
Definition print_seps (l:list sepi) : str := flat_map print_sep l.

Definition close (d:nat) : sk := match d with O => Normal | S d' => InBlock (S d') end.
Lemma skip_block : forall b k d rest, okb k b = true -> skip (InBlock (S (k + d))) (b ++ cRC :: rest) = skip (close d) rest.
Proof.
  induction b as [|c r IH]; intros k d rest H; simpl in H.
  - apply Nat.eqb_eq in H. subst k. simpl. destruct d; reflexivity.
  - simpl app. cbn [skip]. destruct (c =? cLC) eqn:E1.
    + apply (IH (S k) d rest H).
    + destruct (c =? cRC) eqn:E2.
      * destruct k as [|k']; [discriminate|]. simpl plus. apply (IH k' d rest H).
      * apply (IH k d rest H).
Qed.
Lemma skip_line : forall t rest, forallb (fun c => negb (c =? cLF)) t = true -> skip InLine (t ++ cLF :: rest) = skip Normal rest.
Proof. induction t as [|c r IH]; intros rest H; simpl in *. reflexivity. apply andb_prop in H as [H1 H2]. apply negb_true_iff in H1. rewrite H1. auto. Qed.
Lemma skip_sep x rest : wf_sep x -> skip Normal (print_sep x ++ rest) = skip Normal rest.
Proof.
  destruct x as [c|t|b]; simpl; intros H.
  - rewrite H. reflexivity.
  - rewrite <- app_assoc. simpl. apply skip_line; auto.
  - rewrite <- app_assoc. simpl. apply (skip_block b 0 0 rest H).
Qed.
Lemma skip_seps l rest : Forall wf_sep l -> skip Normal (print_seps l ++ rest) = skip Normal rest.
Proof. induction 1 as [|x t Hx Ht IH]; simpl; auto. rewrite <- app_assoc. rewrite skip_sep; auto. Qed.

(* a token start stops the skipper *)
Definition tok_start (c:ch) (n:option ch) : Prop := is_ws c = false /\ (c =? cLC) = false /\ ((c =? cSLASH) = true -> nxt_is (N.eqb cSLASH) n = false).
Lemma skip_stop c r : tok_start c (hd_error r) -> skip Normal (c :: r) = c :: r.
Proof.
  intros (H1 & H2 & H3). cbn [skip]. rewrite H1, H2. destruct (c =? cSLASH) eqn:E; simpl; auto.
  specialize (H3 eq_refl). destruct r as [|c2 r']; simpl in *; auto. rewrite N.eqb_sym, H3. reflexivity.
Qed.

Lemma special_ident c : special c = true -> ident_start c = false /\ num c = false.
Proof.
  intros H. destruct (special_not_alnum c H) as [A B]. split; auto. unfold ident_start. rewrite A. simpl.
  unfold special in H. destruct (c =? cUS) eqn:E; auto. apply N.eqb_eq in E. subst c. vm_compute in H. discriminate.
Qed.
Ltac spec_of c := let H := fresh in assert (H : special c = true) by (vm_compute; reflexivity); destruct (special_ident c H) as [? ?].

Lemma ident_not_special c : ident_start c = true \/ num c = true -> special c = false.
Proof. intros H. destruct (special c) eqn:E; auto. destruct (special_ident c E) as [A B]. destruct H; congruence. Qed.
Lemma not_special_start c n : special c = false -> tok_start c n.
Proof.
  unfold special. intros H. apply orb_false_iff in H as [H1 H2]. repeat split; auto.
  - simpl in H2. repeat (apply orb_false_iff in H2 as [? H2]). assumption.
  - intros E. simpl in H2. repeat (apply orb_false_iff in H2 as [? H2]). congruence.
Qed.

Lemma span_app p a rest : forallb p a = true -> nxt_is p (hd_error rest) = false -> span p (a ++ rest) = (a, rest).
Proof.
  induction a as [|c r IH]; simpl; intros H1 H2.
  - destruct rest as [|x t]; simpl in *; auto. rewrite H2. reflexivity.
  - apply andb_prop in H1 as [Hc Hr]. rewrite Hc, IH; auto.
Qed.
Lemma scan_str_escape c rest : nxt_is (N.eqb cQ) (hd_error rest) = false -> scan_str (escape c ++ cQ :: rest) = Some (c, rest).
Proof.
  induction c as [|x r IH]; intros H.
  - simpl. rewrite ?N.eqb_refl. destruct rest as [|q t]; auto. simpl in H. rewrite N.eqb_sym in H. rewrite H. reflexivity.
  - simpl. destruct (x =? cQ) eqn:E.
    + apply N.eqb_eq in E. subst x. simpl. rewrite ?N.eqb_refl. rewrite IH; auto.
    + simpl. rewrite E, IH; auto.
Qed.

Lemma hd_app_cons {A} (a:list A) x r : a <> [] -> hd_error (a ++ x :: r) = hd_error a.
Proof. destruct a; simpl; congruence. Qed.

Lemma dot_not_num : num cDOT = false. Proof. spec_of cDOT. assumption. Qed.
Ltac useP P := unfold finish; match goal with |- match ?X with _ => _ end = _ => let E := fresh in assert (E : X = Some _) by exact P; rewrite E end; reflexivity.
Lemma number_int c ip' rest f : forallb num ip' = true -> nxt_is num (hd_error rest) = false -> nxt_is (N.eqb cDOT) (hd_error rest) = false ->
  parse_num (c :: ip') = Some f -> number c (ip' ++ rest) = Ok (TNum f, rest).
Proof.
  intros H1 H2 H3 P. unfold number. rewrite (span_app num ip' rest H1 H2).
  destruct rest as [|x r]; cbn [nxt_is hd_error] in *.
  - useP P.
  - rewrite N.eqb_sym in H3. rewrite H3. useP P.
Qed.
Lemma number_frac c ip' fp rest f : forallb num ip' = true -> forallb num fp = true -> nxt_is num (hd_error rest) = false ->
  parse_num (c :: ip' ++ cDOT :: fp) = Some f -> number c (ip' ++ cDOT :: fp ++ rest) = Ok (TNum f, rest).
Proof.
  intros H1 H2 H3 P. unfold number.
  assert (Hd : nxt_is num (hd_error (cDOT :: fp ++ rest)) = false) by (cbn [nxt_is hd_error]; apply dot_not_num).
  rewrite (span_app num ip' (cDOT :: fp ++ rest) H1 Hd). rewrite N.eqb_refl.
  destruct fp as [|e fp'].
  - cbn [app]. destruct rest as [|x r]; cbn [nxt_is hd_error] in *.
    + useP P.
    + rewrite H3. useP P.
  - cbn [forallb] in H2. pose proof H2 as H2'. apply andb_prop in H2 as [He Hf]. cbn [app]. rewrite He.
    change (e :: fp' ++ rest) with ((e :: fp') ++ rest). rewrite (span_app num (e :: fp') rest H2' H3).
    useP P.
Qed.

Theorem next_token_print t rest : wf t -> safe t (hd_error rest) -> next_token (print t ++ rest) = Ok (denote t, rest).
Proof.
  destruct t as [p|s|ip d|c]; cbn [print wf safe denote]; intros W S.
  - (* punctuation *)
    destruct p; cbn [punct_chars punct_tok app next_token];
      match goal with |- context [ident_start ?c] => spec_of c end;
      repeat match goal with H : ident_start _ = false |- _ => rewrite H; clear H end;
      repeat match goal with H : num _ = false |- _ => rewrite H; clear H end; try reflexivity.
    + (* > *) destruct rest as [|e r]; [reflexivity|]. cbn [nxt_is hd_error] in S. rewrite N.eqb_sym in S. cbn. rewrite S. reflexivity.
    + (* < *) destruct S as [S1 S2]. destruct rest as [|e r]; [reflexivity|]. cbn [nxt_is hd_error] in S1, S2. rewrite N.eqb_sym in S1. rewrite N.eqb_sym in S2. cbn. rewrite S1, S2. reflexivity.
  - (* word *)
    destruct s as [|c b]; [contradiction|]. destruct W as [W1 W2]. cbn [app next_token]. rewrite W1. rewrite (span_app ident_char b rest W2 S). reflexivity.
  - (* number *)
    destruct W as (Wip & Wis & Wd & Wp). destruct S as [S1 S2].
    destruct (parse_num (num_content ip d)) as [f|] eqn:P; [|congruence]. unfold num_content in *.
    destruct ip as [|c ip'].
    + (* .fp *) destruct d as [fp|]; [|congruence]. destruct Wd as [Wfp Wne]. cbn [app] in *.
      cbn [next_token]. spec_of cDOT.
      repeat match goal with H : ident_start _ = false |- _ => rewrite H; clear H end.
      repeat match goal with H : num _ = false |- _ => rewrite H; clear H end.
      change (cDOT =? cQ) with false. change (cDOT =? cDOT) with true. cbv iota.
      apply number_int; auto.
    + cbn [forallb] in Wip. apply andb_prop in Wip as [Wc Wip'].
      destruct d as [fp|].
      * destruct Wd as [Wfp _]. rewrite <- app_assoc. cbn [app next_token]. rewrite Wis, Wc.
        apply number_frac; auto.
      * rewrite app_nil_r in *. cbn [app next_token]. rewrite Wis, Wc. apply number_int; auto.
  - (* string *)
    cbn [app next_token]. spec_of cQ.
    repeat match goal with H : ident_start _ = false |- _ => rewrite H; clear H end.
    repeat match goal with H : num _ = false |- _ => rewrite H; clear H end.
    rewrite N.eqb_refl. rewrite <- app_assoc. cbn [app]. rewrite (scan_str_escape c rest S). reflexivity.
Qed.

(* =================== whole documents =================== *)
Definition doc := list (sp * list sepi).
Fixpoint print_rest (d:doc) (fin:str) : str := match d with [] => fin | (t,l) :: d' => print t ++ print_seps l ++ print_rest d' fin end.
Fixpoint ok_doc (d:doc) (fin:str) : Prop := match d with [] => True | (t,l) :: d' =>
   wf t /\ Forall wf_sep l /\ safe t (hd_error (print_seps l ++ print_rest d' fin)) /\ ok_doc d' fin end.

Lemma print_start t rest : wf t -> safe t (hd_error rest) -> exists c r, print t ++ rest = c :: r /\ tok_start c (hd_error r).
Proof.
  destruct t as [p|s|ip d|c]; cbn [print wf safe]; intros W S.
  - destruct p; cbn [punct_chars app]; eexists; eexists; (split; [reflexivity|]);
      (unfold tok_start; split; [vm_compute; reflexivity | split; [vm_compute; reflexivity | try (intros E; vm_compute in E; discriminate)]]).
    intros _. exact S.
  - destruct s as [|c b]; [contradiction|]. destruct W as [W1 _]. cbn [app]. eexists; eexists; split; [reflexivity|].
    apply not_special_start. apply ident_not_special. auto.
  - destruct W as (Wip & Wis & Wd & Wp). unfold num_content. destruct ip as [|c ip'].
    + destruct d as [fp|]; [|congruence]. cbn [app]. eexists; eexists; split; [reflexivity|].
      unfold tok_start; split; [vm_compute; reflexivity | split; [vm_compute; reflexivity | intros E; vm_compute in E; discriminate]].
    + cbn [forallb] in Wip. apply andb_prop in Wip as [Wc _]. cbn [app]. eexists; eexists; split; [reflexivity|].
      apply not_special_start. apply ident_not_special. auto.
  - cbn [app]. eexists; eexists; split; [reflexivity|].
    unfold tok_start; split; [vm_compute; reflexivity | split; [vm_compute; reflexivity | intros E; vm_compute in E; discriminate]].
Qed.

Lemma print_nonempty t rest : wf t -> safe t (hd_error rest) -> (length rest < length (print t ++ rest))%nat.
Proof. intros W S. destruct (print_start t rest W S) as (c & r & E & _). assert (L : length (print t ++ rest) = length (c :: r)) by (rewrite E; reflexivity). rewrite app_length in *.
  destruct (print t) as [|x y] eqn:Ep; simpl in *; [|lia].
  (* print t = [] is impossible for a well-formed token *)
  exfalso. destruct t as [p|s0|ip d|c0]; cbn [print wf] in *.
  - destruct p; discriminate.
  - subst s0. contradiction.
  - destruct W as (_ & _ & Wd & _). unfold num_content in Ep. destruct ip; [|discriminate]. destruct d; [discriminate|congruence].
  - discriminate.
Qed.

Theorem scan_print : forall d fin lead n, Forall wf_sep lead -> ok_doc d fin -> skip Normal fin = [] ->
  (length (print_seps lead ++ print_rest d fin) < n)%nat ->
  toks n (print_seps lead ++ print_rest d fin) = Ok (map (fun x => denote (fst x)) d).
Proof.
  induction d as [|[t l] d' IH]; intros fin lead n Hl Hd Hf Hn.
  - destruct n; [lia|]. cbn [toks print_rest map]. rewrite skip_seps; auto. rewrite Hf. reflexivity.
  - destruct n; [lia|]. cbn [ok_doc] in Hd. destruct Hd as (W & Wl & S & Hd'). cbn [print_rest map fst]. cbn [print_rest] in Hn.
    set (R := print_seps l ++ print_rest d' fin) in *.
    cbn [toks]. rewrite skip_seps; auto.
    destruct (print_start t R W S) as (c & r & E & Hs).
    rewrite E. rewrite (skip_stop c r Hs). rewrite <- E.
    rewrite (next_token_print t R W S).
    assert (Hlen : (length R < n)%nat).
    { pose proof (print_nonempty t R W S) as L. rewrite app_length in Hn. lia. }
    unfold R at 1. rewrite (IH fin l n Wl Hd' Hf Hlen). reflexivity.
Qed.
End Scan.

Arguments TLParen {F}. Arguments TRParen {F}. Arguments TLBracket {F}. Arguments TRBracket {F}. Arguments TPlus {F}. Arguments TMinus {F}. Arguments TStar {F}. Arguments TSlash {F}. Arguments TComma {F}.
Arguments TGreater {F}. Arguments TGreaterEqual {F}. Arguments TLess {F}. Arguments TLessEqual {F}. Arguments TEqual {F}. Arguments TNotEqual {F}.
Arguments TKw {F}. Arguments TNum {F}. Arguments TStr {F}. Arguments TId {F}.
Arguments Ok {A}. Arguments Er {A}.
