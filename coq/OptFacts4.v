(* C06: the optimized tree has no more nodes than its input; C10: a validated tree is still accepted after optimize *)
Require Import ZArith NArith Bool List Arith Lia. Import ListNotations.
Require Import F64 Dec Types Generic Lang Opt IO OptFacts.
Section N.
Variable E : env.
Notation fold := (Generic.fold as_bool is_empty un binop E).
Notation fold_list := (Generic.fold_list as_bool is_empty un binop E).
Notation evalfold := (Generic.evalfold as_bool is_empty un binop E).
Notation optimize := (Generic.optimize as_bool is_empty un binop E).
Notation tt := Generic.tt.
Notation check := (Generic.check E).
Notation check_list := (Generic.check_list E).
Notation lsum l := (list_sum (map nodes l)).

Lemma nodes_pos e : 1 <= nodes e. Proof. destruct e; cbn [nodes]; lia. Qed.
Lemma nodes_tt_list es : Forall (fun e => nodes (fst (tt e)) = nodes e) es -> lsum (fst (Generic.tt_list es)) = lsum es.
Proof. induction 1 as [|x t Hx Ht IH]; cbn [Generic.tt_list]; auto. destruct (tt x) as [x' f1]. destruct (Generic.tt_list t) as [t' f2]. simpl in *. lia. Qed.
Theorem nodes_tt : forall e, nodes (fst (tt e)) = nodes e.
Proof.
  induction e using expr_ind'.
  - cbn [Generic.tt]. destruct (tt e) as [r' f]. cbn [fst nodes] in *. lia.
  - cbn [Generic.tt]. destruct (tt e1) as [l' f1]. destruct (tt e2) as [r' f2]. cbn [fst nodes] in *. lia.
  - cbn [Generic.tt]. destruct (tt e1) as [l' f1]. destruct (tt e2) as [m' f2]. destruct (tt e3) as [r' f3]. cbn [fst nodes] in *. lia.
  - rewrite Generic.tt_arr. cbn [fst nodes]. rewrite (nodes_tt_list es H). reflexivity.
  - reflexivity.
  - reflexivity.
  - rewrite Generic.tt_call. destruct (Generic.is_if3 n ps).
    + destruct ps as [|a [|b [|c [|d t]]]]; try reflexivity. simpl. lia.
    + cbn [fst nodes]. rewrite (nodes_tt_list ps H). reflexivity.
Qed.
Lemma nodes_evalfold e : nodes (snd (fst (evalfold e))) <= nodes e.
Proof. unfold Generic.evalfold. destruct (Generic.eval _ _ _ _ _ e); cbn [fst snd nodes]; [apply nodes_pos|lia]. Qed.
Lemma nodes_fold_list es : Forall (fun e => nodes (snd (fst (fold e))) <= nodes e) es -> lsum (snd (fst (fold_list es))) <= lsum es.
Proof.
  induction 1 as [|x t Hx Ht IH]; cbn [Generic.fold_list]; auto. destruct (fold x) as [[st1 x'] f1]. cbn [fst snd] in Hx.
  destruct st1; [|simpl; lia]. destruct (fold_list t) as [[st2 t'] f2]. simpl in *. lia.
Qed.
Theorem nodes_fold : forall e, nodes (snd (fst (fold e))) <= nodes e.
Proof.
  induction e using expr_ind'.
  - cbn [Generic.fold]. destruct (Generic.is_lit e). apply nodes_evalfold. destruct (fold e) as [[st r'] f]. cbn [fst snd nodes] in *. lia.
  - cbn [Generic.fold]. destruct (Generic.is_lit e1 && Generic.is_lit e2). apply nodes_evalfold.
    destruct (fold e1) as [[st1 l'] f1]. cbn [fst snd] in IHe1. destruct st1; [|cbn [fst snd nodes]; lia].
    destruct (fold e2) as [[st2 r'] f2]. cbn [fst snd nodes] in *. lia.
  - assert (G : nodes (snd (fst (let '(st1, l', f1) := fold e1 in
        match st1 with Generic.SErr _ => (st1, ETer o l' e2 e3, f1) | Generic.SOk =>
          let '(st2, m', f2) := fold e2 in
          match st2 with Generic.SErr _ => (st2, ETer o l' m' e3, f1 || f2) | Generic.SOk =>
            let '(st3, r', f3) := fold e3 in (st3, ETer o l' m' r', f1 || f2 || f3) end end))) <= nodes (ETer o e1 e2 e3)).
    { destruct (fold e1) as [[st1 l'] f1]. cbn [fst snd] in IHe1. destruct st1; [|cbn [fst snd nodes]; lia].
      destruct (fold e2) as [[st2 m'] f2]. cbn [fst snd] in IHe2. destruct st2; [|cbn [fst snd nodes]; lia].
      destruct (fold e3) as [[st3 r'] f3]. cbn [fst snd nodes] in *. lia. }
    cbn [Generic.fold]. destruct e1; try exact G. destruct (Generic.is_cond o); [|exact G]. cbn [fst snd nodes]. destruct (as_bool v); lia.
  - rewrite Generic.fold_arr. destruct (forallb Generic.is_lit es). apply nodes_evalfold. cbn zeta. cbn [fst snd nodes]. pose proof (nodes_fold_list es H). lia.
  - cbn. lia.
  - cbn. lia.
  - rewrite Generic.fold_call. destruct (forallb Generic.is_lit ps).
    + destruct (fn_exists E n (length ps)) as [[|]| |]; try (cbn [fst snd]; lia). apply nodes_evalfold.
    + cbn zeta. cbn [fst snd nodes]. pose proof (nodes_fold_list ps H). lia.
Qed.
Theorem nodes_optimize : forall k e, nodes (snd (optimize k e)) <= nodes e.
Proof.
  induction k as [|k IH]; intros e; cbn [Generic.optimize]. cbn; lia.
  pose proof (nodes_tt e) as T. destruct (tt e) as [e1 f1]. cbn [fst] in T.
  pose proof (nodes_fold e1) as F. destruct (fold e1) as [[st e2] f2]. cbn [fst snd] in F.
  destruct st; [|cbn [snd]; lia]. destruct (f1 || f2); [specialize (IH e2); lia|cbn [snd]; lia].
Qed.

(* ---- C10: validation is stable under both passes ---- *)
Lemma check_tt_list es : Forall (fun e => check e = None -> check (fst (tt e)) = None) es -> check_list es = None -> check_list (fst (Generic.tt_list es)) = None.
Proof.
  induction 1 as [|x t Hx Ht IH]; cbn [Generic.tt_list Generic.check_list]; auto. destruct (tt x) as [x' f1]. destruct (Generic.tt_list t) as [t' f2]. cbn [fst] in *.
  destruct (check x); [discriminate|]. intros Hc. cbn [Generic.check_list]. rewrite (Hx eq_refl). auto.
Qed.
Theorem check_tt : forall e, check e = None -> check (fst (tt e)) = None.
Proof.
  induction e using expr_ind'; intros Hc.
  - cbn [Generic.tt]. destruct (tt e) as [r' f]. cbn [fst Generic.check] in *. auto.
  - cbn [Generic.tt]. destruct (tt e1) as [l' f1]. destruct (tt e2) as [r' f2]. cbn [fst Generic.check] in *. destruct (check e1); [discriminate|]. rewrite (IHe1 eq_refl). auto.
  - cbn [Generic.tt]. destruct (tt e1) as [l' f1]. destruct (tt e2) as [m' f2]. destruct (tt e3) as [r' f3]. cbn [fst Generic.check] in *.
    destruct (check e1); [discriminate|]. rewrite (IHe1 eq_refl). destruct (check e2); [discriminate|]. rewrite (IHe2 eq_refl). auto.
  - rewrite Generic.tt_arr. cbn [fst Generic.check] in *. rewrite Generic.check_list_fix in *. apply check_tt_list; auto.
  - exact Hc.
  - exact Hc.
  - rewrite Generic.tt_call. cbn [Generic.check] in Hc. rewrite Generic.check_list_fix in Hc. destruct (Generic.is_if3 n ps).
    + destruct ps as [|a [|b [|c [|d t]]]]; try (cbn [fst]; exact Hc).
      cbn [length] in Hc. destruct (fn_exists E n 3); [|discriminate Hc|discriminate Hc]. cbn [Generic.check_list] in Hc. cbn [fst Generic.check].
      destruct (check a); [discriminate|]. destruct (check b); [discriminate|]. destruct (check c); [discriminate|]. reflexivity.
    + cbn [fst Generic.check]. rewrite Generic.check_list_fix. replace (length (fst (Generic.tt_list ps))) with (length ps).
      destruct (fn_exists E n (length ps)); try discriminate. apply check_tt_list; auto.
      clear. induction ps as [|x t IH]; cbn [Generic.tt_list]; auto. destruct (tt x). destruct (Generic.tt_list t). cbn [fst length] in *. lia.
Qed.
Lemma check_evalfold e : check e = None -> check (snd (fst (evalfold e))) = None.
Proof. unfold Generic.evalfold. destruct (Generic.eval _ _ _ _ _ e); cbn [fst snd]; auto. Qed.
Lemma check_fold_list es : Forall (fun e => check e = None -> check (snd (fst (fold e))) = None) es -> check_list es = None -> check_list (snd (fst (fold_list es))) = None.
Proof.
  induction 1 as [|x t Hx Ht IH]; cbn [Generic.fold_list Generic.check_list]; auto. destruct (fold x) as [[st1 x'] f1]. cbn [fst snd] in Hx.
  destruct (check x); [discriminate|]. intros Hc. destruct st1.
  - destruct (fold_list t) as [[st2 t'] f2]. cbn [fst snd Generic.check_list] in *. rewrite (Hx eq_refl). auto.
  - cbn [fst snd Generic.check_list]. rewrite (Hx eq_refl). exact Hc.
Qed.
Lemma fold_list_length es : length (snd (fst (fold_list es))) = length es.
Proof. induction es as [|x t IH]; cbn [Generic.fold_list]; auto. destruct (fold x) as [[st1 x'] f1]. destruct st1; [|reflexivity]. destruct (fold_list t) as [[st2 t'] f2]. cbn [fst snd length] in *. lia. Qed.
Theorem check_fold : forall e, check e = None -> check (snd (fst (fold e))) = None.
Proof.
  induction e using expr_ind'; intros Hc.
  - cbn [Generic.fold]. destruct (Generic.is_lit e). apply check_evalfold; auto. destruct (fold e) as [[st r'] f]. cbn [fst snd Generic.check] in *. auto.
  - cbn [Generic.fold]. destruct (Generic.is_lit e1 && Generic.is_lit e2). apply check_evalfold; auto.
    cbn [Generic.check] in Hc. destruct (check e1) eqn:C1; [discriminate|].
    destruct (fold e1) as [[st1 l'] f1]. cbn [fst snd] in IHe1. destruct st1; [|cbn [fst snd Generic.check]; rewrite (IHe1 eq_refl); exact Hc].
    destruct (fold e2) as [[st2 r'] f2]. cbn [fst snd Generic.check] in *. rewrite (IHe1 eq_refl). auto.
  - cbn [Generic.check] in Hc. destruct (check e1) eqn:C1; [discriminate|]. destruct (check e2) eqn:C2; [discriminate|].
    assert (G : check (snd (fst (let '(st1, l', f1) := fold e1 in
        match st1 with Generic.SErr _ => (st1, ETer o l' e2 e3, f1) | Generic.SOk =>
          let '(st2, m', f2) := fold e2 in
          match st2 with Generic.SErr _ => (st2, ETer o l' m' e3, f1 || f2) | Generic.SOk =>
            let '(st3, r', f3) := fold e3 in (st3, ETer o l' m' r', f1 || f2 || f3) end end))) = None).
    { destruct (fold e1) as [[st1 l'] f1]. cbn [fst snd] in IHe1. destruct st1; [|cbn [fst snd Generic.check]; rewrite (IHe1 eq_refl), C2; exact Hc].
      destruct (fold e2) as [[st2 m'] f2]. cbn [fst snd] in IHe2. destruct st2; [|cbn [fst snd Generic.check]; rewrite (IHe1 eq_refl), (IHe2 eq_refl); exact Hc].
      destruct (fold e3) as [[st3 r'] f3]. cbn [fst snd Generic.check] in *. rewrite (IHe1 eq_refl), (IHe2 eq_refl). auto. }
    cbn [Generic.fold]. destruct e1; try exact G. destruct (Generic.is_cond o); [|exact G]. cbn [fst snd]. destruct (as_bool v); auto.
  - rewrite Generic.fold_arr. destruct (forallb Generic.is_lit es). apply check_evalfold; auto. cbn zeta. cbn [fst snd Generic.check] in *. rewrite Generic.check_list_fix in *. apply check_fold_list; auto.
  - exact Hc.
  - exact Hc.
  - rewrite Generic.fold_call. destruct (forallb Generic.is_lit ps).
    + destruct (fn_exists E n (length ps)) as [[|]| |]; try exact Hc. apply check_evalfold; auto.
    + cbn zeta. cbn [fst snd Generic.check] in *. rewrite Generic.check_list_fix in *. rewrite fold_list_length.
      destruct (fn_exists E n (length ps)); try discriminate. apply check_fold_list; auto.
Qed.
Theorem check_optimize : forall k e, check e = None -> check (snd (optimize k e)) = None.
Proof.
  induction k as [|k IH]; intros e Hc; cbn [Generic.optimize]. exact Hc.
  pose proof (check_tt e Hc) as T. destruct (tt e) as [e1 f1]. cbn [fst] in T.
  pose proof (check_fold e1 T) as F. destruct (fold e1) as [[st e2] f2]. cbn [fst snd] in F.
  destruct st; [|exact F]. destruct (f1 || f2); [apply IH; exact F|exact F].
Qed.
End N.
(* transported to the extracted optimizer *)
Theorem optimize_t_nodes : forall E k e acc, nodes (snd (fst (optimize_t E k e acc))) <= nodes e.
Proof. intros E k e acc. pose proof (optimize_erase E k e acc) as X. destruct (optimize_t E k e acc) as [[st e'] tr]. cbn [fst snd]. pose proof (nodes_optimize E k e) as N. rewrite <- X in N. exact N. Qed.
Theorem optimize_t_keeps_validated : forall E k e acc, check_names E e = None -> check_names E (snd (fst (optimize_t E k e acc))) = None.
Proof. intros E k e acc H. pose proof (optimize_erase E k e acc) as X. destruct (optimize_t E k e acc) as [[st e'] tr]. cbn [fst snd]. pose proof (check_optimize E k e H) as N. rewrite <- X in N. exact N. Qed.
