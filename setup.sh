#!/bin/sh
# Builds the framework offline from files on disk: Coq development (full .vo build), extracted model + OCaml driver,
# Rust harness in the four configurations.
set -e
cd "$(dirname "$0")"
export CARGO_NET_OFFLINE=true
python3 - <<'PY'
import sys, os
sys.path.insert(0, 'tools')
from vlib import core
print(core.run_translator())
core.ensure_makefile()
rc, out, err = core.sh('timeout 3400 make -j16', cwd=core.COQ)
print((out + err)[-1500:] if rc else 'coq: built')
if rc: sys.exit(1)
core.build_driver()
print('driver: built')
for v in ('release', 'debug', 'release-zb', 'debug-zb'):
    b, err = core.build_harness(v)
    print('harness', v, ':', b or err[-800:])
    if b is None: sys.exit(1)
PY
