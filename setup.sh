#!/bin/sh
# Builds the framework offline from files on disk: Coq development (full .vo build), extracted model + OCaml driver,
# Rust harness in the four configurations.
set -e
cd "$(dirname "$0")"
export CARGO_NET_OFFLINE=true
python3 - <<'PY'
import sys, os
sys.path.insert(0, 'tools')
from vlib import core
print(core.run_translator())
core.ensure_makefile()
# full .vo build, about 90 s on 16 cores; every coqc runs under a per-file limit (core.COQC_LIMIT) so that a script that no longer
# terminates is named within minutes
rc, out, err = core.sh('timeout 1800 %s' % core.MAKE, cwd=core.COQ, timeout=1900)
if rc:
    log = '\n'.join(l for l in (out + err).splitlines() if 'loadpath' not in l and 'previously bound' not in l)   # drop the -Q remapping warnings
    print('coq: build FAILED (rc=%d; "Error 124" = a file exceeded %d s)' % (rc, core.COQC_LIMIT))
    print(log[-3000:])
    sys.exit(1)
print('coq: built')
core.build_driver()
print('driver: built')
for v in ('release', 'debug', 'release-zb', 'debug-zb'):
    b, err = core.build_harness(v)
    print('harness', v, ':', b or err[-800:])
    if b is None: sys.exit(1)
PY
