// implementation-only oracles for the standard-library properties (C13, C15, C16, C17)
use crate::*;
use slac::stdlib::STRING_OFFSET;

pub fn lookup(name: &str) -> (slac::stdlib::NativeFunction, bool) {
    static TABLE: std::sync::OnceLock<HashMap<String, (slac::stdlib::NativeFunction, bool)>> = std::sync::OnceLock::new();
    let t = TABLE.get_or_init(|| slac::stdlib::builtins().into_iter().map(|f| (f.name.clone(), (f.func, f.pure))).collect());
    *t.get(name).expect("builtin")
}
pub fn call(name: &str, args: &[Value]) -> NativeResult {
    (lookup(name).0)(args)
}
fn num(x: f64) -> Value {
    Value::Number(x)
}
fn st(x: &str) -> Value {
    Value::String(x.to_string())
}
fn same(a: &Value, b: &Value) -> bool {
    show_value(a) == show_value(b)
}
fn as_num(r: &NativeResult) -> Option<f64> {
    match r {
        Ok(Value::Number(n)) => Some(*n),
        _ => None,
    }
}

// ---------------- C15: positions are coherent ----------------
pub fn poscoh(l: &[Sx]) -> String {
    let v = value(&l[2]);
    let mut why: Vec<String> = vec![];
    let mut chk = |ok: bool, what: &str| {
        if !ok && why.len() < 3 {
            why.push(what.replace(' ', "_"));
        }
    };
    match &v {
        Value::String(s) => {
            let first = STRING_OFFSET;
            let chars: Vec<char> = s.chars().collect();
            let n = chars.len();
            chk(as_num(&call("length", &[v.clone()])) == Some(n as f64), "length counts characters");
            // at enumerates s
            let mut acc = String::new();
            let mut all_ok = true;
            for i in 0..n {
                match call("at", &[v.clone(), num(first + i as f64)]) {
                    Ok(Value::String(c)) => acc.push_str(&c),
                    _ => all_ok = false,
                }
            }
            chk(all_ok && acc == *s, "at over first..first+length-1 enumerates s");
            chk(call("at", &[v.clone(), num(first + n as f64)]).is_err(), "at(first+length) is an error");
            chk(call("at", &[v.clone(), num(first - 1.0)]).is_err(), "at(first-1) is an error");
            // every substring
            let limit = n.min(7);
            for a in 0..=n {
                for len in 0..=(n - a).min(limit) {
                    let x: String = chars[a..a + len].iter().collect();
                    let xv = st(&x);
                    let p = call("find", &[v.clone(), xv.clone()]);
                    match as_num(&p) {
                        Some(p) if p >= first && p <= first + a as f64 => {
                            let c = call("copy", &[v.clone(), num(p), call("length", &[xv.clone()]).unwrap_or(num(-1.0))]);
                            chk(matches!(&c, Ok(cv) if same(cv, &xv)), "copy(s, find(s,x), length(x)) = x");
                            // first occurrence
                            let q = (p - first) as usize;
                            let is_first = (0..q).all(|j| j + len > n || chars[j..j + len] != chars[a..a + len]);
                            chk(is_first, "find returns the first occurrence");
                        }
                        _ => chk(false, "find of a substring returns a position >= first"),
                    }
                    let cnt = as_num(&call("count", &[v.clone(), xv.clone()]));
                    let cont = call("contains", &[v.clone(), xv.clone()]);
                    chk(matches!(cont, Ok(Value::Boolean(true))), "contains a substring");
                    chk(matches!(cnt, Some(c) if c > 0.0), "count of a substring is positive");
                }
            }
            let absent = st(&format!("{}\u{1}", s));
            chk(as_num(&call("find", &[v.clone(), absent.clone()])) == Some(first - 1.0), "failed find returns first-1");
            chk(matches!(call("contains", &[v.clone(), absent.clone()]), Ok(Value::Boolean(false))), "contains of an absent needle is false");
            chk(as_num(&call("count", &[v.clone(), absent.clone()])) == Some(0.0), "count of an absent needle is 0");
            let rev = call("reverse", &[v.clone()]);
            chk(matches!(&rev, Ok(r) if matches!(call("reverse", &[r.clone()]), Ok(rr) if same(&rr, &v))), "reverse is an involution");
            chk(matches!(&rev, Ok(r) if as_num(&call("length", &[r.clone()])) == Some(n as f64)), "reverse keeps the length");
            for i in 0..=n {
                let ins = call("insert", &[v.clone(), st("Z"), num(first + i as f64)]);
                let ok = match &ins {
                    Ok(r) => as_num(&call("length", &[r.clone()])) == Some(n as f64 + 1.0) && matches!(call("at", &[r.clone(), num(first + i as f64)]), Ok(Value::String(c)) if c == "Z"),
                    _ => false,
                };
                chk(ok, "insert puts the text at the position");
            }
            chk(call("insert", &[v.clone(), st("Z"), num(first + n as f64 + 1.0)]).is_err(), "insert beyond the end is an error");
            // copy bounds: any start/count yields the clipped slice
            for a in 0..=n + 1 {
                for c in 0..=n + 1 {
                    let want: String = chars.iter().skip(a).take(c).collect();
                    let got = call("copy", &[v.clone(), num(first + a as f64), num(c as f64)]);
                    chk(matches!(&got, Ok(Value::String(g)) if *g == want), "copy clips to the string");
                }
            }
            // letter case: lowercase / uppercase are the full Unicode mappings of the text, same_text compares the lowercase values
            let lo = s.to_lowercase();
            let up = s.to_uppercase();
            chk(matches!(call("lowercase", &[v.clone()]), Ok(Value::String(g)) if g == lo), "lowercase is the Unicode lowercase of the text");
            chk(matches!(call("uppercase", &[v.clone()]), Ok(Value::String(g)) if g == up), "uppercase is the Unicode uppercase of the text");
            let swapped: String = chars.iter().map(|c| if c.is_lowercase() { c.to_uppercase().collect::<String>() } else { c.to_lowercase().collect::<String>() }).collect();
            let tail_changed = format!("{}x", s);
            for other in [s.clone(), lo.clone(), up.clone(), swapped, tail_changed] {
                let want = lo == other.to_lowercase();
                chk(matches!(call("same_text", &[v.clone(), st(&other)]), Ok(Value::Boolean(g)) if g == want), "same_text(a,b) iff lowercase(a) = lowercase(b)");
                chk(matches!(call("same_text", &[st(&other), v.clone()]), Ok(Value::Boolean(g)) if g == want), "same_text is symmetric");
            }
        }
        Value::Array(a) => {
            let n = a.len();
            chk(as_num(&call("length", &[v.clone()])) == Some(n as f64), "length of an array");
            for (i, e) in a.iter().enumerate() {
                chk(matches!(call("at", &[v.clone(), num(i as f64)]), Ok(x) if same(&x, e)), "at enumerates the array from 0");
                let p = as_num(&call("find", &[v.clone(), e.clone()]));
                match p {
                    Some(p) if p >= 0.0 && p <= i as f64 => {
                        let found = call("at", &[v.clone(), num(p)]);
                        chk(matches!(&found, Ok(x) if x == e), "at(a, find(a,e)) = e");
                        chk((0..p as usize).all(|j| a[j] != *e), "find returns the first equal element");
                    }
                    _ => chk(false, "find of a member returns a position >= 0"),
                }
                chk(matches!(call("contains", &[v.clone(), e.clone()]), Ok(Value::Boolean(true))), "contains a member");
                chk(matches!(as_num(&call("count", &[v.clone(), e.clone()])), Some(c) if c > 0.0), "count of a member is positive");
            }
            chk(call("at", &[v.clone(), num(n as f64)]).is_err(), "at(length) is an error");
            chk(call("at", &[v.clone(), num(-1.0)]).is_err(), "at(-1) is an error");
            let absent = st("\u{1}absent");
            chk(as_num(&call("find", &[v.clone(), absent.clone()])) == Some(-1.0), "failed find on an array returns -1");
            chk(as_num(&call("count", &[v.clone(), absent.clone()])) == Some(0.0), "count of an absent element is 0");
            let rev = call("reverse", &[v.clone()]);
            chk(matches!(&rev, Ok(r) if matches!(call("reverse", &[r.clone()]), Ok(rr) if same(&rr, &v))), "reverse is an involution");
            for i in 0..=n {
                let ins = call("insert", &[v.clone(), st("Z"), num(i as f64)]);
                let ok = match &ins {
                    Ok(r) => as_num(&call("length", &[r.clone()])) == Some(n as f64 + 1.0) && matches!(call("at", &[r.clone(), num(i as f64)]), Ok(Value::String(c)) if c == "Z"),
                    _ => false,
                };
                chk(ok, "insert puts the element at the position");
            }
            // unique: no two kept elements equal, first occurrences kept in order, every element equal to a kept one
            if let Ok(Value::Array(u)) = call("unique", &[v.clone()]) {
                let nodup = (0..u.len()).all(|i| (0..i).all(|j| u[i] != u[j]));
                let covers = a.iter().all(|e| u.iter().any(|k| k == e));
                let mut it = a.iter();
                let ordered = u.iter().all(|k| it.any(|e| same(e, k)));
                chk(nodup && covers && ordered, "unique keeps first occurrences, no duplicates");
            } else {
                chk(false, "unique returns an array");
            }
        }
        _ => {}
    }
    format!("R=checked ## poscoh={} why={}", if why.is_empty() { "holds" } else { "FAILS" }, if why.is_empty() { "-".to_string() } else { why.join(";") })
}

// ---------------- C17: maths and conversions against their definitions ----------------
pub fn mathref(l: &[Sx]) -> String {
    let x = match value(&l[2]) {
        Value::Number(x) => x,
        _ => panic!("mathref"),
    };
    let mut why: Vec<String> = vec![];
    let mut chk = |ok: bool, what: &str| {
        if !ok && why.len() < 3 {
            why.push(what.replace(' ', "_"));
        }
    };
    let bit = |a: f64, b: f64| (a.is_nan() && b.is_nan()) || a.to_bits() == b.to_bits();
    let one = |name: &str| as_num(&call(name, &[num(x)])).unwrap_or(f64::from_bits(0x7ff0_dead_0000_0001));
    chk(bit(one("abs"), x.abs()), "abs");
    chk(bit(one("round"), x.round()), "round half away from zero");
    chk(bit(one("trunc"), x.trunc()), "trunc");
    chk(bit(one("frac"), x.fract()), "frac");
    chk(bit(one("sqrt"), x.sqrt()), "sqrt");
    chk(bit(one("exp"), x.exp()), "exp");
    chk(bit(one("ln"), x.ln()), "ln");
    chk(bit(one("sin"), x.sin()), "sin");
    chk(bit(one("cos"), x.cos()), "cos");
    chk(bit(one("arc_tan"), x.atan()), "arc_tan");
    chk(bit(one("pow"), x.powf(std::hint::black_box(2.0))), "pow default exponent 2");
    chk(bit(as_num(&call("pow", &[num(x), num(0.5)])).unwrap_or(0.0), x.powf(std::hint::black_box(0.5))), "pow");
    if x.is_finite() {
        chk(bit(one("trunc") + one("frac"), x) || (x == 0.0), "trunc(x)+frac(x)=x");
        chk(bit(one("date") + one("time"), x) || (x == 0.0), "date(x)+time(x)=x");
    }
    // round is half away from zero: independent of f64::round
    if x.is_finite() && x.abs() < 4.5e15 {
        let t = x.trunc();
        let want = if (x - t).abs() >= 0.5 { t + x.signum() } else { t };
        chk(one("round") == want, "round definition");
    }
    // float(str(x)) = x
    match call("str", &[num(x)]) {
        Ok(sv) => chk(matches!(call("float", &[sv.clone()]), Ok(Value::Number(y)) if bit(x, y)), "float(str(x)) = x"),
        _ => chk(false, "str of a number"),
    }
    chk(matches!(call("float", &[num(x)]), Ok(Value::Number(y)) if bit(x, y)), "float of a number is the number");
    chk(matches!(call("int", &[num(x)]), Ok(Value::Number(y)) if bit(x.trunc(), y)), "int truncates");
    chk(matches!(call("bool", &[num(x)]), Ok(Value::Boolean(b)) if b == !(x == 0.0)), "bool of a number is 'not zero'");
    // parity: for every integer of either sign and any magnitude
    if x.is_finite() && x.fract() == 0.0 {
        let even = x % 2.0 == 0.0;
        chk(matches!(call("even", &[num(x)]), Ok(Value::Boolean(b)) if b == even), "even(n) iff 2 divides n");
        chk(matches!(call("odd", &[num(x)]), Ok(Value::Boolean(b)) if b == !even), "odd(n) iff not even(n)");
    }
    if let (Ok(Value::Boolean(e)), Ok(Value::Boolean(o))) = (call("even", &[num(x)]), call("odd", &[num(x)])) {
        chk(e != o, "odd = not even");
    }
    // int_to_hex: upper-case hexadecimal of the truncated non-negative value
    let t = x.trunc();
    if t >= 0.0 && t < 9.2e18 {
        chk(matches!(call("int_to_hex", &[num(x)]), Ok(Value::String(h)) if h == format!("{:X}", t as u64)), "int_to_hex");
    }
    // chr / ord on the ASCII range
    if x.fract() == 0.0 && (0.0..=127.0).contains(&x) {
        let c = call("chr", &[num(x)]);
        chk(matches!(&c, Ok(Value::String(s)) if s.chars().count() == 1 && s.chars().next().unwrap() as u32 == x as u32), "chr on 0..127");
        if let Ok(cv) = &c {
            chk(as_num(&call("ord", &[cv.clone()])) == Some(x), "ord(chr(n)) = n");
        }
    } else if !(x >= 0.0 && x < 128.0) {
        chk(call("chr", &[num(x)]).is_err(), "chr rejects everything outside 0..127");
    }
    format!("R=checked ## mathref={} why={}", if why.is_empty() { "holds" } else { "FAILS" }, if why.is_empty() { "-".to_string() } else { why.join(";") })
}

// ---------------- C16: calendar ----------------
fn is_leap(y: i64) -> bool {
    y % 4 == 0 && (y % 100 != 0 || y % 400 == 0)
}
fn dim(y: i64, m: i64) -> i64 {
    match m {
        2 => if is_leap(y) { 29 } else { 28 },
        4 | 6 | 9 | 11 => 30,
        _ => 31,
    }
}
// independent day count: days before year y (proleptic Gregorian) by the closed formula, plus month lengths
fn days_from_civil(y: i64, m: i64, d: i64) -> i64 {
    let yy = y - 1;
    let before = yy * 365 + yy / 4 - yy / 100 + yy / 400; // days from 0001-01-01 to y-01-01
    let mut doy = 0;
    for mm in 1..m {
        doy += dim(y, mm);
    }
    before + doy + (d - 1) - 719162 // 1970-01-01 is day 719162 from 0001-01-01
}
pub fn daterange(l: &[Sx]) -> String {
    let y0: i64 = atom(&l[2]).parse().unwrap();
    let y1: i64 = atom(&l[3]).parse().unwrap();
    let mut why: Vec<String> = vec![];
    let mut n = 0usize;
    let mut chk = |ok: bool, what: String| {
        if !ok && why.len() < 3 {
            why.push(what.replace(' ', "_"));
        }
    };
    let tods: [(i64, i64, i64, i64); 5] = [(0, 0, 0, 0), (23, 59, 59, 999), (12, 0, 0, 1), (0, 0, 0, 31), (13, 37, 42, 47)];
    for y in y0..=y1 {
        for m in 0..=13i64 {
            for d in 0..=32i64 {
                let valid = (1..=12).contains(&m) && d >= 1 && d <= dim(y, m);
                let r = call("encode_date", &[num(y as f64), num(m as f64), num(d as f64)]);
                if !valid {
                    chk(r.is_err(), format!("invalid date {y}-{m}-{d} is rejected"));
                    continue;
                }
                n += 1;
                let days = days_from_civil(y, m, d);
                let x = match as_num(&r) {
                    Some(x) => x,
                    None => {
                        chk(false, format!("encode_date {y}-{m}-{d} fails"));
                        continue;
                    }
                };
                chk(x == days as f64, format!("encode_date {y}-{m}-{d} = {x}, days since 1970-01-01 = {days}"));
                let dv = num(x);
                chk(as_num(&call("year", &[dv.clone()])) == Some(y as f64), format!("year of {y}-{m}-{d}"));
                chk(as_num(&call("month", &[dv.clone()])) == Some(m as f64), format!("month of {y}-{m}-{d}"));
                chk(as_num(&call("day", &[dv.clone()])) == Some(d as f64), format!("day of {y}-{m}-{d}"));
                chk(as_num(&call("day_of_week", &[dv.clone()])) == Some(((days % 7 + 7 + 3) % 7) as f64), format!("day_of_week of {y}-{m}-{d} (Monday=0)"));
                chk(matches!(call("is_leap_year", &[dv.clone()]), Ok(Value::Boolean(b)) if b == is_leap(y)), format!("is_leap_year of {y}"));
                let text = format!("{y:04}-{m:02}-{d:02}");
                chk(matches!(call("date_to_string", &[st("%Y-%m-%d"), dv.clone()]), Ok(Value::String(s)) if s == text), format!("date_to_string of {text}"));
                chk(as_num(&call("string_to_date", &[st(&text)])) == Some(days as f64), format!("string_to_date of {text}"));
                if d == 1 || d == dim(y, m) || d == 15 {
                    for (h, mi, s, ms) in tods {
                        let tv = call("encode_time", &[num(h as f64), num(mi as f64), num(s as f64), num(ms as f64)]);
                        let t = match as_num(&tv) {
                            Some(t) => t,
                            None => {
                                chk(false, "encode_time fails".to_string());
                                continue;
                            }
                        };
                        let dt = x + t;
                        let dtv = num(dt);
                        // components of the combination (the sum itself may round: the components are those of the nearest millisecond)
                        let total_ms = days * 86_400_000 + h * 3_600_000 + mi * 60_000 + s * 1000 + ms;
                        let exact = (total_ms as f64) / 86_400_000.0 == dt;
                        if exact {
                            chk(as_num(&call("year", &[dtv.clone()])) == Some(y as f64) && as_num(&call("month", &[dtv.clone()])) == Some(m as f64) && as_num(&call("day", &[dtv.clone()])) == Some(d as f64),
                                format!("date components of {text} {h}:{mi}:{s}.{ms}"));
                            chk(as_num(&call("hour", &[dtv.clone()])) == Some(h as f64) && as_num(&call("minute", &[dtv.clone()])) == Some(mi as f64) && as_num(&call("second", &[dtv.clone()])) == Some(s as f64)
                                && as_num(&call("millisecond", &[dtv.clone()])) == Some(ms as f64), format!("time components of {text} {h}:{mi}:{s}.{ms}"));
                        }
                        if let (Some(a), Some(b)) = (as_num(&call("date", &[dtv.clone()])), as_num(&call("time", &[dtv.clone()]))) {
                            chk(a + b == dt, format!("date(x)+time(x)=x at {text} {h}:{mi}:{s}.{ms}"));
                        }
                        if ms == 0 {
                            let full = format!("{text} {h:02}:{mi:02}:{s:02}");
                            chk(matches!(call("date_to_string", &[st("%Y-%m-%d %H:%M:%S"), dtv.clone()]), Ok(Value::String(s2)) if s2 == full || !exact), format!("date_to_string of {full}"));
                            chk(matches!(as_num(&call("string_to_datetime", &[st(&full)])), Some(v) if v == (total_ms as f64) / 86_400_000.0), format!("string_to_datetime of {full}"));
                        }
                    }
                    // inc_month: whole calendar months, day clamped to the target month's length, time of day kept
                    for k in [-25i64, -12, -1, 0, 1, 2, 11, 12, 13, 24] {
                        let total = (y * 12 + (m - 1)) + k;
                        let (ty, tm) = (total.div_euclid(12), total.rem_euclid(12) + 1);
                        if !(1..=9999).contains(&ty) {
                            continue;
                        }
                        let td = d.min(dim(ty, tm));
                        let want = days_from_civil(ty, tm, td) as f64;
                        chk(as_num(&call("inc_month", &[dv.clone(), num(k as f64)])) == Some(want), format!("inc_month({text}, {k})"));
                        let half = num(x + 0.5);
                        chk(as_num(&call("inc_month", &[half, num(k as f64)])) == Some(want + 0.5), format!("inc_month({text} 12:00, {k}) keeps the time of day"));
                    }
                }
            }
        }
    }
    format!("R=checked ## calendar={} dates={} why={}", if why.is_empty() { "holds" } else { "FAILS" }, n, if why.is_empty() { "-".to_string() } else { why.join(";") })
}
pub fn todrange(l: &[Sx]) -> String {
    let lo: i64 = atom(&l[2]).parse().unwrap();
    let hi: i64 = atom(&l[3]).parse().unwrap();
    let mut why: Vec<String> = vec![];
    let mut chk = |ok: bool, what: String| {
        if !ok && why.len() < 3 {
            why.push(what.replace(' ', "_"));
        }
    };
    let comp = |name: &str, v: f64| as_num(&call(name, &[num(v)]));
    for t in lo..=hi.min(86_399_999) {
        let (h, mi, s, ms) = (t / 3_600_000, t / 60_000 % 60, t / 1000 % 60, t % 1000);
        let v = match as_num(&call("encode_time", &[num(h as f64), num(mi as f64), num(s as f64), num(ms as f64)])) {
            Some(v) => v,
            None => {
                chk(false, format!("encode_time({h},{mi},{s},{ms}) fails"));
                continue;
            }
        };
        chk(v == (t as f64) / 86_400_000.0, format!("encode_time({h},{mi},{s},{ms}) is exactly ms/86400000"));
        let ok = comp("hour", v) == Some(h as f64) && comp("minute", v) == Some(mi as f64) && comp("second", v) == Some(s as f64) && comp("millisecond", v) == Some(ms as f64);
        chk(ok, format!("components of {h}:{mi}:{s}.{ms} decode to {:?}:{:?}:{:?}.{:?}", comp("hour", v), comp("minute", v), comp("second", v), comp("millisecond", v)));
        // text forms at millisecond resolution: printing with %.3f and parsing it back give the same components / the same number
        if t % 13 == 0 {
            let txt = format!("{:02}:{:02}:{:02}.{:03}", h, mi, s, ms);
            let fmt = st("%H:%M:%S%.3f");
            chk(matches!(call("time_to_string", &[fmt.clone(), num(v)]), Ok(Value::String(g)) if g == txt), format!("time_to_string(%.3f) of {txt}"));
            chk(as_num(&call("string_to_time", &[st(&txt), fmt.clone()])) == Some(v), format!("string_to_time({txt}, %.3f) is the number encode_time produces"));
            if ms == 0 {
                let plain = format!("{:02}:{:02}:{:02}", h, mi, s);
                chk(as_num(&call("string_to_time", &[st(&plain)])) == Some(v), format!("string_to_time({plain}) is the number encode_time produces"));
                chk(as_num(&call("string_to_datetime", &[st(&format!("2024-02-29 {plain}"))])) == as_num(&call("encode_date", &[num(2024.0), num(2.0), num(29.0)])).map(|d| ((d * 86_400_000.0 + t as f64) / 86_400_000.0)),
                    format!("string_to_datetime(2024-02-29 {plain}) is date + time"));
            }
        }
        // the same time of day on a date far from the epoch (as a timestamp: total milliseconds / 86400000)
        if t % 97 == 0 {
            for day in [19000i64, -25000, 2_900_000, -700_000] {
                let x = ((day * 86_400_000 + t) as f64) / 86_400_000.0;
                let ok = comp("hour", x) == Some(h as f64) && comp("minute", x) == Some(mi as f64) && comp("second", x) == Some(s as f64) && comp("millisecond", x) == Some(ms as f64);
                chk(ok, format!("components of day {day} {h}:{mi}:{s}.{ms}"));
            }
        }
    }
    chk(call("encode_time", &[num(24.0), num(0.0), num(0.0)]).is_err(), "hour 24 is rejected".to_string());
    chk(call("encode_time", &[num(0.0), num(60.0), num(0.0)]).is_err(), "minute 60 is rejected".to_string());
    chk(call("encode_time", &[num(0.0), num(0.0), num(60.0)]).is_err(), "second 60 is rejected".to_string());
    chk(call("encode_time", &[num(-1.0), num(0.0), num(0.0)]).is_err(), "hour -1 is rejected".to_string());
    format!("R=checked ## timeofday={} why={}", if why.is_empty() { "holds" } else { "FAILS" }, if why.is_empty() { "-".to_string() } else { why.join(";") })
}

// ---------------- C13: one total preorder ----------------
fn nontame(vs: &[&Value]) -> (bool, bool) {
    // (a NaN occurs, a Number meets a numerically parsable String) among the leaves
    fn walk(v: &Value, nan: &mut bool, num: &mut bool, numstr: &mut bool) {
        match v {
            Value::Number(n) => {
                *num = true;
                if n.is_nan() {
                    *nan = true;
                }
            }
            Value::String(s) => {
                if let Ok(f) = s.parse::<f64>() {
                    if !f.is_nan() {
                        *numstr = true;
                    }
                }
            }
            Value::Array(a) => a.iter().for_each(|x| walk(x, nan, num, numstr)),
            _ => {}
        }
    }
    let (mut nan, mut num, mut numstr) = (false, false, false);
    for v in vs {
        walk(v, &mut nan, &mut num, &mut numstr);
    }
    (nan, num && numstr)
}
fn opr(o: Operator, a: &Value, b: &Value) -> Option<bool> {
    let e = Expression::Binary { left: Box::new(Expression::Literal { value: a.clone() }), right: Box::new(Expression::Literal { value: b.clone() }), operator: o };
    match execute(&StaticEnvironment::default(), &e) {
        Ok(Value::Boolean(b)) => Some(b),
        _ => None,
    }
}
pub fn ord3(l: &[Sx]) -> String {
    let (a, b, c) = (value(&l[2]), value(&l[3]), value(&l[4]));
    let mut why: Vec<String> = vec![];
    let mut chk = |ok: bool, what: &str| {
        if !ok && why.len() < 3 {
            why.push(what.replace(' ', "_"));
        }
    };
    use Operator::*;
    let pairs = [(&a, &b), (&b, &c), (&a, &c), (&b, &a), (&a, &a)];
    for (x, y) in pairs {
        let (lt, gt, le, ge, eq, ne) = (opr(Less, x, y), opr(Greater, x, y), opr(LessEqual, x, y), opr(GreaterEqual, x, y), opr(Equal, x, y), opr(NotEqual, x, y));
        chk(lt.is_some() && gt.is_some() && le.is_some() && ge.is_some() && eq.is_some() && ne.is_some(), "comparisons yield Booleans");
        chk(lt == opr(Greater, y, x), "a<b iff b>a");
        chk(le == gt.map(|v| !v), "a<=b iff not a>b");
        chk(ge == lt.map(|v| !v), "a>=b iff not a<b");
        chk(ne == eq.map(|v| !v), "a<>b iff not a=b");
        chk(eq == opr(Equal, y, x), "= is symmetric");
        let cmp = as_num(&call("compare", &[x.clone(), y.clone()]));
        chk(matches!(cmp, Some(v) if v == -1.0 || v == 0.0 || v == 1.0), "compare returns -1, 0 or 1");
        chk(cmp == Some(if lt == Some(true) { -1.0 } else if gt == Some(true) { 1.0 } else { 0.0 }), "compare is consistent with the operators");
        chk((x.cmp(y) == std::cmp::Ordering::Less) == (lt == Some(true)) && (x.cmp(y) == std::cmp::Ordering::Greater) == (gt == Some(true)), "operators are views of Value::cmp");
    }
    let le = |x: &Value, y: &Value| opr(LessEqual, x, y) == Some(true);
    if le(&a, &b) && le(&b, &c) {
        chk(le(&a, &c), "ordering is transitive");
    }
    // (transitivity of `=` is NOT part of the property - only its symmetry is: `=` coerces Boolean<->Number and numeric String<->Number but not
    //  Boolean<->String, so false = 0 and 0 = '-0' while false <> '-0'; that law was checked here once and removed as demanding more than stated)
    chk(matches!(call("between", &[b.clone(), a.clone(), c.clone()]), Ok(Value::Boolean(v)) if v == (le(&a, &b) && le(&b, &c))), "between(v,lo,hi) iff lo<=v and v<=hi");
    let all = [a.clone(), b.clone(), c.clone()];
    for (name, is_max) in [("max", true), ("min", false)] {
        match call(name, &all) {
            Ok(m) => {
                chk(all.iter().any(|x| same(x, &m)), "min/max return a member");
                chk(all.iter().all(|x| if is_max { le(x, &m) } else { le(&m, x) }), "min/max bound all others");
            }
            Err(_) => chk(false, "min/max of three values"),
        }
    }
    let (nan, mix) = nontame(&[&a, &b, &c]);
    format!("R=checked ## order={} nan={} mix={} why={}", if why.is_empty() { "holds" } else { "FAILS" }, nan, mix, if why.is_empty() { "-".to_string() } else { why.join(";") })
}
pub fn sortlaws(l: &[Sx]) -> String {
    let v = value(&l[2]);
    let arr = match &v {
        Value::Array(a) => a.clone(),
        _ => panic!("sortlaws"),
    };
    let mut why: Vec<String> = vec![];
    let mut chk = |ok: bool, what: &str| {
        if !ok && why.len() < 3 {
            why.push(what.replace(' ', "_"));
        }
    };
    use Operator::*;
    let le = |x: &Value, y: &Value| opr(LessEqual, x, y) == Some(true);
    match call("sort", &[v.clone()]) {
        Ok(Value::Array(s)) => {
            let mut x: Vec<String> = arr.iter().map(show_value).collect();
            let mut y: Vec<String> = s.iter().map(show_value).collect();
            x.sort();
            y.sort();
            chk(x == y, "sort returns a permutation of its input");
            chk(s.windows(2).all(|w| le(&w[0], &w[1])), "no element is greater than its successor");
            chk(matches!(call("sort", &[Value::Array(s.clone())]), Ok(Value::Array(t)) if t.iter().map(show_value).collect::<Vec<_>>() == s.iter().map(show_value).collect::<Vec<_>>()), "sorting again changes nothing");
        }
        _ => chk(false, "sort returns an array"),
    }
    if !arr.is_empty() {
        for (name, is_max) in [("max", true), ("min", false)] {
            match call(name, &[v.clone()]) {
                Ok(m) => {
                    chk(arr.iter().any(|x| same(x, &m)), "min/max return a member");
                    chk(arr.iter().all(|x| if is_max { le(x, &m) } else { le(&m, x) }), "min/max bound all others");
                }
                Err(_) => chk(false, "min/max of a non-empty array"),
            }
        }
    }
    let refs: Vec<&Value> = arr.iter().collect();
    let (nan, mix) = nontame(&refs);
    format!("R=checked ## sorted={} nan={} mix={} why={}", if why.is_empty() { "holds" } else { "FAILS" }, nan, mix, if why.is_empty() { "-".to_string() } else { why.join(";") })
}

// ---------------- C18: regex builtins against the engine used directly ----------------
fn strs(r: &NativeResult) -> Option<Vec<String>> {
    match r {
        Ok(Value::Array(a)) => a.iter().map(|v| if let Value::String(s) = v { Some(s.clone()) } else { None }).collect(),
        _ => None,
    }
}
fn show_strs(v: &[String]) -> String {
    format!("[{}]", v.iter().map(|s| show_str(s)).collect::<Vec<_>>().join(","))
}
// (re id (ast ...) (s pattern) (s haystack) (s replacement) (n limit))
pub fn re_case(l: &[Sx]) -> String {
    let (pat, hay, rep) = (string(&l[3]), string(&l[4]), string(&l[5]));
    let limit = match value(&l[6]) { Value::Number(x) => x, _ => 0.0 };
    let (pv, hv, rv) = (st(&pat), st(&hay), st(&rep));
    let m = call("re_is_match", &[hv.clone(), pv.clone()]);
    let f = call("re_find", &[hv.clone(), pv.clone()]);
    let c = call("re_capture", &[hv.clone(), pv.clone()]);
    let p_all = call("re_replace", &[hv.clone(), pv.clone(), rv.clone()]);
    let p_lim = call("re_replace", &[hv.clone(), pv.clone(), rv.clone(), num(limit)]);
    let mut why: Vec<String> = vec![];
    let mut chk = |ok: bool, what: &str| {
        if !ok && why.len() < 3 {
            why.push(what.replace(' ', "_"));
        }
    };
    let fs = strs(&f);
    let cs = strs(&c);
    match regex_lite::Regex::new(&pat) {
        Err(_) => chk(m.is_err() && f.is_err() && c.is_err() && p_all.is_err(), "an invalid pattern yields an error value"),
        Ok(re) => {
            let spans: Vec<(usize, usize)> = re.find_iter(&hay).map(|x| (x.start(), x.end())).collect();
            let found: Vec<String> = spans.iter().map(|(a, b)| hay[*a..*b].to_string()).collect();
            chk(matches!(&m, Ok(Value::Boolean(b)) if *b == !found.is_empty()), "re_is_match iff re_find returns a match");
            chk(fs.as_ref() == Some(&found), "re_find returns exactly the non-overlapping matches");
            let want_c: Vec<String> = match re.captures(&hay) {
                Some(caps) => caps.iter().map(|g| g.map_or(String::new(), |x| x.as_str().to_string())).collect(),
                None => vec![String::new(); re.captures_len()],
            };
            chk(cs.as_ref() == Some(&want_c), "re_capture: first match then one entry per group, all empty when nothing matches");
            chk(cs.as_ref().map(|v| v.len()) == Some(re.captures_len()), "re_capture has one entry per group plus one");
            if let (Some(cv), Some(fv)) = (&cs, &fs) {
                if !fv.is_empty() {
                    chk(cv[0] == fv[0], "re_capture starts with the first match");
                }
            }
            if !rep.contains('$') {
                let splice = |n: usize| {
                    let mut out = String::new();
                    let mut pos = 0;
                    for (a, b) in spans.iter().take(n) {
                        out.push_str(&hay[pos..*a]);
                        out.push_str(&rep);
                        pos = *b;
                    }
                    out.push_str(&hay[pos..]);
                    out
                };
                chk(matches!(&p_all, Ok(Value::String(s)) if *s == splice(usize::MAX)), "re_replace without limit rewrites exactly the matches re_find reports");
                let n = if limit >= 1.0 { limit.floor() as usize } else { usize::MAX };
                chk(matches!(&p_lim, Ok(Value::String(s)) if *s == splice(n)), "re_replace with limit n rewrites only the first n matches");
            } else {
                // a replacement text containing `$`: the builtin passes it to the engine, whose expansion rules ($n, ${name}, $$) do not depend on the pattern's shape
                let n = if limit >= 1.0 { limit.floor() as usize } else { 0 };
                chk(matches!(&p_all, Ok(Value::String(s)) if *s == re.replacen(&hay, 0, rep.as_str())), "re_replace expands the replacement text as the engine does");
                chk(matches!(&p_lim, Ok(Value::String(s)) if *s == re.replacen(&hay, n, rep.as_str())), "re_replace with limit expands the replacement text as the engine does");
            }
        }
    }
    let show = |r: &NativeResult| match r {
        Ok(v) => show_value(v),
        Err(e) => format!("err:{}", show_nerr(e)),
    };
    format!("M={} F={} C={} P={} L={} ## regex={} why={}", show(&m), show(&f), show(&c), show(&p_all), show(&p_lim), if why.is_empty() { "holds" } else { "FAILS" }, if why.is_empty() { "-".to_string() } else { why.join(";") })
}
// (relit id (s literal) (s haystack) (s replacement)): an escaped literal behaves like contains, count, replace
pub fn relit_case(l: &[Sx]) -> String {
    let (x, hay, rep) = (string(&l[2]), string(&l[3]), string(&l[4]));
    let pat = regex_lite::escape(&x);
    let (pv, hv, rv, xv) = (st(&pat), st(&hay), st(&rep), st(&x));
    let mut why: Vec<String> = vec![];
    let mut chk = |ok: bool, what: &str| {
        if !ok && why.len() < 3 {
            why.push(what.replace(' ', "_"));
        }
    };
    let m = call("re_is_match", &[hv.clone(), pv.clone()]);
    let f = strs(&call("re_find", &[hv.clone(), pv.clone()]));
    chk(matches!((&m, call("contains", &[hv.clone(), xv.clone()])), (Ok(a), Ok(b)) if same(a, &b)), "escaped literal: re_is_match = contains");
    let cnt = as_num(&call("count", &[hv.clone(), xv.clone()]));
    chk(f.as_ref().map(|v| v.len() as f64) == cnt, "escaped literal: number of matches = count");
    chk(f.as_ref().map_or(false, |v| v.iter().all(|s| *s == x)), "escaped literal: every match is the literal");
    if !rep.contains('$') {
        let a = call("re_replace", &[hv.clone(), pv.clone(), rv.clone()]);
        let b = call("replace", &[hv.clone(), xv.clone(), rv.clone()]);
        chk(matches!((&a, &b), (Ok(p), Ok(q)) if same(p, q)), "escaped literal: re_replace = replace");
    }
    format!("F={} ## regex={} why={}", f.map(|v| show_strs(&v)).unwrap_or("err".into()), if why.is_empty() { "holds" } else { "FAILS" }, if why.is_empty() { "-".to_string() } else { why.join(";") })
}
// (reinv id (s pattern) (s haystack)): an invalid pattern yields an error value from all four builtins
pub fn reinv_case(l: &[Sx]) -> String {
    let (pat, hay) = (string(&l[2]), string(&l[3]));
    let (pv, hv) = (st(&pat), st(&hay));
    let invalid = regex_lite::Regex::new(&pat).is_err();
    let rs = [call("re_is_match", &[hv.clone(), pv.clone()]), call("re_find", &[hv.clone(), pv.clone()]), call("re_capture", &[hv.clone(), pv.clone()]), call("re_replace", &[hv.clone(), pv.clone(), st("x")])];
    let all_err = rs.iter().all(|r| matches!(r, Err(NativeError::CustomError(_))));
    let none_err = rs.iter().all(|r| r.is_ok());
    format!("R={} ## regex={}", if invalid { "invalid" } else { "valid" }, if (invalid && all_err) || (!invalid && none_err) { "holds" } else { "FAILS" })
}

// ---------------- C14 / C16: parsing with an explicit format string against chrono used directly ----------------
// (datefmt id (s text) (s format)): string_to_date / string_to_time / string_to_datetime with a custom format must give exactly what chrono's own parser gives for
// these two arguments - a value determined by the arguments alone (no current year, no locale, no clock) - or an error value when chrono rejects them
pub fn datefmt_case(l: &[Sx]) -> String {
    let (text, fmt) = (string(&l[2]), string(&l[3]));
    let mut why: Vec<String> = vec![];
    let mut chk = |ok: bool, what: &str| {
        if !ok && why.len() < 3 {
            why.push(what.replace(' ', "_"));
        }
    };
    let ms = 86_400_000.0f64;
    let want_d = std::panic::catch_unwind(|| chrono::NaiveDate::parse_from_str(&text, &fmt).ok().and_then(|d| d.and_hms_opt(0, 0, 0)).map(|dt| dt.and_utc().timestamp_millis() as f64 / ms)).unwrap_or(None);
    let want_t = std::panic::catch_unwind(|| chrono::NaiveTime::parse_from_str(&text, &fmt).ok().map(|t| chrono::NaiveDate::default().and_time(t).and_utc().timestamp_millis() as f64 / ms)).unwrap_or(None);
    let want_dt = std::panic::catch_unwind(|| chrono::NaiveDateTime::parse_from_str(&text, &fmt).ok().map(|dt| dt.and_utc().timestamp_millis() as f64 / ms)).unwrap_or(None);
    let got = |name: &str| match call(name, &[st(&text), st(&fmt)]) {
        Ok(Value::Number(x)) => Some(x),
        _ => None,
    };
    let (gd, gt, gdt) = (got("string_to_date"), got("string_to_time"), got("string_to_datetime"));
    chk(gd == want_d, "string_to_date(text, format) is what the parser gives for these arguments");
    chk(gt == want_t, "string_to_time(text, format) is what the parser gives for these arguments");
    chk(gdt == want_dt, "string_to_datetime(text, format) is what the parser gives for these arguments");
    let show = |x: Option<f64>| x.map(|v| format!("{v:?}")).unwrap_or("err".into());
    format!("R=d:{},t:{},dt:{} ## fmtref={} why={}", show(gd), show(gt), show(gdt), if why.is_empty() { "holds" } else { "FAILS" }, if why.is_empty() { "-".to_string() } else { why.join(";") })
}
