// further case kinds: static-environment histories and implementation-only oracles
use crate::*;
use slac::environment::FunctionResult;

fn t0(_p: &[Value]) -> NativeResult {
    Ok(Value::Number(0.0))
}
fn t1(_p: &[Value]) -> NativeResult {
    Ok(Value::Number(1.0))
}
fn t2(_p: &[Value]) -> NativeResult {
    Ok(Value::Number(2.0))
}
fn tag_of_fn(f: &Function) -> u32 {
    match (f.func)(&[]) {
        Ok(Value::Number(t)) => t as u32,
        _ => 99,
    }
}

// (env id (qs name...) (ops op...)): after every operation print its output and every observation
pub fn env_case(l: &[Sx]) -> String {
    let qs: Vec<String> = list(&l[2])[1..].iter().map(string).collect();
    let mut env = StaticEnvironment::default();
    // independent reference: map from lower-cased name to entry
    let mut ref_vars: HashMap<String, Value> = HashMap::new();
    let mut ref_fns: HashMap<String, (String, u32)> = HashMap::new();
    let mut lines = vec![];
    let mut oracle_ok = true;
    let tag_of = |env: &StaticEnvironment, q: &str| -> String {
        match env.call(q, &[]) {
            Ok(Value::Number(t)) => {
                let d = env.list_functions().into_iter().find(|f| f.name.to_lowercase() == q.to_lowercase()).map(|f| f.name.clone()).unwrap_or_default();
                format!("fn{}#{}", show_str(&d), t as u32)
            }
            _ => "none".into(),
        }
    };
    for o in &list(&l[3])[1..] {
        let o = list(o);
        let out = match atom(&o[0]) {
            "addv" => {
                env.add_variable(&string(&o[1]), value(&o[2]));
                ref_vars.insert(string(&o[1]).to_lowercase(), value(&o[2]));
                "unit".to_string()
            }
            "remv" => {
                let r = env.remove_variable(&string(&o[1])).map(|v| show_value(&v)).unwrap_or("none".into());
                let rr = ref_vars.remove(&string(&o[1]).to_lowercase()).map(|v| show_value(&v)).unwrap_or("none".into());
                oracle_ok &= r == rr;
                r
            }
            "clrv" => {
                env.clear_variables();
                ref_vars.clear();
                "unit".into()
            }
            "addf" => {
                let f: slac::stdlib::NativeFunction = match atom(&o[2]) {
                    "0" => t0,
                    "1" => t1,
                    _ => t2,
                };
                env.add_function(Function::new(f, Arity::Variadic, &string(&o[1])));
                ref_fns.insert(string(&o[1]).to_lowercase(), (string(&o[1]), atom(&o[2]).parse().unwrap()));
                "unit".into()
            }
            _ => {
                let r = env.remove_function(&string(&o[1])).map(|f| format!("fn{}#{}", show_str(&f.name), tag_of_fn(&f))).unwrap_or("none".into());
                let rr = ref_fns.remove(&string(&o[1]).to_lowercase()).map(|(d, t)| format!("fn{}#{}", show_str(&d), t)).unwrap_or("none".into());
                oracle_ok &= r == rr;
                r
            }
        };
        let vs: Vec<String> = qs
            .iter()
            .map(|q| {
                let a = env.variable(q).map(|v| show_value(&v)).unwrap_or("none".into());
                oracle_ok &= env.variable_exists(q) == (a != "none");
                oracle_ok &= a == ref_vars.get(&q.to_lowercase()).map(show_value).unwrap_or("none".into());
                a
            })
            .collect();
        let fs: Vec<String> = qs
            .iter()
            .map(|q| {
                let a = tag_of(&env, q);
                let ex = matches!(env.function_exists(q, 1), FunctionResult::Exists { .. });
                oracle_ok &= ex == (a != "none");
                oracle_ok &= a == ref_fns.get(&q.to_lowercase()).map(|(d, t)| format!("fn{}#{}", show_str(d), t)).unwrap_or("none".into());
                a
            })
            .collect();
        let mut lst: Vec<String> = env.list_functions().iter().map(|f| format!("{}#{}", show_str(&f.name), tag_of_fn(f))).collect();
        lst.sort();
        let mut rl: Vec<String> = ref_fns.values().map(|(d, t)| format!("{}#{}", show_str(d), t)).collect();
        rl.sort();
        oracle_ok &= lst == rl;
        lines.push(format!("{}|{}|{}|{}", out, vs.join(","), fs.join(","), lst.join(",")));
    }
    format!("{} ## refmap={}", lines.join(" ; "), if oracle_ok { "holds" } else { "FAILS" })
}

pub fn run_extra(kind: &str, l: &[Sx]) -> String {
    match kind {
        "tot" => tot_case(l),
        "arity" => arity_case(),
        "serscript" => serscript_case(l),
        "rebind" => rebind_case(l),
        "respell" => respell_case(l),
        "fnhist" => fnhist_case(l),
        "wide" => wide_case(l),
        "datefmt" => crate::oracles::datefmt_case(l),
        "rtext" => rtext_case(l),
        "re" | "rex" => crate::oracles::re_case(l),
        "relit" => crate::oracles::relit_case(l),
        "reinv" => crate::oracles::reinv_case(l),
        "script" | "script0" => script_case(l),
        "foldcall" => foldcall_case(l),
        "hashclass" => hashclass_case(l),
        "poscoh" => crate::oracles::poscoh(l),
        "mathref" => crate::oracles::mathref(l),
        "daterange" => crate::oracles::daterange(l),
        "todrange" => crate::oracles::todrange(l),
        "ord3" => crate::oracles::ord3(l),
        "sortlaws" => crate::oracles::sortlaws(l),
        "stext" => stext_case(l),
        "lay" => lay_case(l),
        "uniclass" => uniclass(atom(&l[2]).parse().unwrap(), atom(&l[3]).parse().unwrap()),
        "unicase" => unicase(atom(&l[2]).parse().unwrap(), atom(&l[3]).parse().unwrap()),
        _ => panic!("unknown case kind {kind}"),
    }
}

// C08: every public entry point returns on an arbitrary (ill-formed) tree
fn tot_case(l: &[Sx]) -> String {
    let env = scripted_env(&l[2], &l[3]);
    let e = expr(&l[4]);
    let cb = check_boolean_result(&e);
    let cn = check_variables_and_functions(&env, &e);
    let r = execute(&env, &e);
    let mut e2 = e.clone();
    let _ = optimize(&env, &mut e2);
    let _ = execute(&env, &e2);
    let _ = check_variables_and_functions(&env, &e2);
    let jv = serde_json::to_value(&e);
    let js = serde_json::to_string(&e);
    if let Ok(jv) = &jv {
        let _ = serde_json::from_value::<Expression>(jv.clone());
    }
    if let Ok(js) = &js {
        let _ = serde_json::from_str::<Expression>(js);
    }
    let _ = e == e2;
    let _ = e == e.clone();
    // "every environment": the same against the real StaticEnvironment (case-folded keys, the standard library registered, the scripted variables added under their odd names)
    {
        let mut senv = StaticEnvironment::default();
        slac::stdlib::extend_environment(&mut senv);
        for v in &list(&l[2])[1..] {
            let p = list(v);
            senv.add_variable(&string(&p[0]), value(&p[1]));
        }
        let _ = check_variables_and_functions(&senv, &e);
        let _ = execute(&senv, &e);
        let mut e3 = e.clone();
        let _ = optimize(&senv, &mut e3);
        let _ = execute(&senv, &e3);
    }
    if let Ok(v) = &r {
        let _ = v.partial_cmp(v);
        let _ = v == v;
    }
    format!("R={} CB={} CN={} ## total=holds", show_res(&r), if cb.is_ok() { "ok" } else { "rej" }, show_check(&cn))
}

fn in_arity(a: &Arity, n: usize) -> bool {
    match a {
        Arity::Polyadic { required, optional } => n >= *required && n <= required + optional,
        Arity::Variadic => n >= 1,
        Arity::None => n == 0,
    }
}
fn samples_of_kind(k: &str) -> Vec<Value> {
    let k = k.trim();
    let num = Value::Number(2.0);
    let st = Value::String("a".into());
    let bo = Value::Boolean(true);
    let ar = Value::Array(vec![Value::Number(1.0), Value::Number(2.0)]);
    if k.starts_with('[') {
        return k.trim_matches(|c| c == '[' || c == ']').split('|').flat_map(samples_of_kind).collect();
    }
    if k.starts_with("Array") {
        return vec![ar];
    }
    match k {
        "Number" => vec![num],
        "String" => vec![st],
        "Boolean" => vec![bo],
        _ => vec![num, st, bo, ar],
    }
}
// C10: function_exists says Exists exactly within the registered arity, for scripted registrations of every arity kind
// and for every registered builtin; a builtin called with arguments of its documented kinds within its arity never
// reports WrongParameterCount
fn arity_case() -> String {
    let mut bad_arity = vec![];
    let mut bad_count = vec![];
    let mut checked = 0usize;
    let mut calls = 0usize;
    let mut env = StaticEnvironment::default();
    let kinds: Vec<(String, Arity, bool)> = vec![
        ("p00".into(), Arity::required(0), true),
        ("p10".into(), Arity::required(1), true),
        ("p30".into(), Arity::required(3), false),
        ("p02".into(), Arity::optional(0, 2), true),
        ("p21".into(), Arity::optional(2, 1), false),
        ("var".into(), Arity::Variadic, true),
        ("ivar".into(), Arity::Variadic, false),
        ("none".into(), Arity::None, true),
        ("inone".into(), Arity::None, false),
    ];
    for (n, a, p) in &kinds {
        env.add_function(if *p { Function::new(t0, *a, n) } else { Function::impure(t0, *a, n) });
    }
    // every small count, and the magnitudes at which a width, a table size or a made-up upper bound would show
    let counts: Vec<usize> = (0..8usize).chain([9, 15, 16, 17, 31, 32, 33, 63, 64, 65, 98, 99, 100, 101, 127, 128, 129, 254, 255, 256, 257, 999, 1000, 1001, 65535, 65536, 65537, 1 << 31, 1 << 32, usize::MAX - 1, usize::MAX]).collect();
    for (n, a, p) in &kinds {
        for &cnt in &counts {
            checked += 1;
            let r = env.function_exists(n, cnt);
            let want = in_arity(a, cnt);
            let ok = match r {
                FunctionResult::Exists { pure } => want && pure == *p,
                FunctionResult::WrongArity { .. } => !want,
                FunctionResult::NotFound => false,
            };
            if !ok {
                bad_arity.push(format!("{n}/{cnt}"));
            }
        }
    }
    // the registered arity is the one passed to Function::new, whatever the declaration text looks like: defaults written with `=`, comparison signs, brackets, no parameter list at all
    let decls: Vec<(&str, &str, Arity, bool)> = vec![
        ("kv", "kv(line: String, separator: String = '='): Array", Arity::optional(1, 1), true),
        ("ge", "ge(a >= b, c == d): Boolean", Arity::required(2), true),
        ("dfl", "dfl(x: Number = 1, y: Number = 2, z: Number = 3): Number", Arity::optional(1, 1), false),
        ("alld", "alld(a = 1, b = 2)", Arity::required(2), true),
        ("noparen", "noparen", Arity::required(1), true),
        ("dots", "dots(...values: Any = []): Any", Arity::Variadic, true),
        ("nonedef", "nonedef(a = 1)", Arity::None, true),
        ("opt0", "opt0(a: Any = (1, 2), b: Any = [3, 4])", Arity::optional(0, 2), true),
    ];
    let mut denv = StaticEnvironment::default();
    for (_, d, a, p) in &decls {
        denv.add_function(if *p { Function::new(t0, *a, d) } else { Function::impure(t0, *a, d) });
    }
    for (n, _, a, p) in &decls {
        for cnt in 0..9usize {
            checked += 1;
            let want = in_arity(a, cnt);
            let ok = match denv.function_exists(n, cnt) {
                FunctionResult::Exists { pure } => want && pure == *p,
                FunctionResult::WrongArity { .. } => !want,
                FunctionResult::NotFound => false,
            };
            if !ok {
                bad_arity.push(format!("{n}/{cnt}"));
            }
        }
    }
    let mut benv = StaticEnvironment::default();
    slac::stdlib::extend_environment(&mut benv);
    for f in slac::stdlib::builtins() {
        let max = match f.arity {
            Arity::Polyadic { required, optional } => required + optional,
            Arity::Variadic => 4,
            Arity::None => 0,
        };
        // documented parameter kinds from the declaration string kept in `params`
        let inner = f.params.trim();
        let inner = inner.strip_prefix('(').unwrap_or(inner);
        let inner = match inner.rfind(')') {
            Some(i) => &inner[..i],
            None => inner,
        };
        let decl: Vec<String> = if inner.trim().is_empty() { vec![] } else { inner.split(',').map(|p| p.trim().to_string()).collect() };
        for &cnt in counts.iter().filter(|c| **c > max + 1) {
            checked += 1;
            let want = in_arity(&f.arity, cnt);
            let ok = match benv.function_exists(&f.name, cnt) {
                FunctionResult::Exists { pure } => want && pure == f.pure,
                FunctionResult::WrongArity { .. } => !want,
                FunctionResult::NotFound => false,
            };
            if !ok {
                bad_arity.push(format!("{}/{}", f.name, cnt));
            }
            // a call with that many (literal) arguments: the validator's verdict is the registered arity, and an accepted call does not fail with a count error
            if cnt <= 1001 {
                let e = Expression::Call { name: f.name.clone(), params: (0..cnt).map(|i| Expression::Literal { value: Value::Number(i as f64) }).collect() };
                let accepted = check_variables_and_functions(&benv, &e).is_ok();
                if accepted != want {
                    bad_arity.push(format!("validator:{}/{}", f.name, cnt));
                }
                if accepted && f.pure {
                    if let Ok(Err(slac::Error::NativeFunctionError(_, NativeError::WrongParameterCount(_)))) = std::panic::catch_unwind(std::panic::AssertUnwindSafe(|| execute(&benv, &e))) {
                        bad_count.push(format!("{}/{}", f.name, cnt));
                    }
                }
            }
        }
        for cnt in 0..=max + 1 {
            checked += 1;
            let r = benv.function_exists(&f.name, cnt);
            let want = in_arity(&f.arity, cnt);
            let ok = match r {
                FunctionResult::Exists { pure } => want && pure == f.pure,
                FunctionResult::WrongArity { .. } => !want,
                FunctionResult::NotFound => false,
            };
            if !ok {
                bad_arity.push(format!("{}/{}", f.name, cnt));
            }
            if want {
                // arguments of the documented kinds (variadic "...": any kinds)
                let kinds_for = |i: usize| -> Vec<Value> {
                    let d = decl.get(i).or(decl.last()).cloned().unwrap_or_default();
                    let k = d.split(':').nth(1).unwrap_or("Any");
                    let k = k.split('=').next().unwrap_or("Any");
                    samples_of_kind(k)
                };
                let mut variants: Vec<Vec<Value>> = vec![(0..cnt).map(|i| kinds_for(i)[0].clone()).collect()];
                for i in 0..cnt {
                    for alt in kinds_for(i).into_iter().skip(1) {
                        let mut v = variants[0].clone();
                        v[i] = alt;
                        variants.push(v);
                    }
                }
                for args in variants {
                    calls += 1;
                    let r = std::panic::catch_unwind(|| (f.func)(&args));
                    if let Ok(Err(NativeError::WrongParameterCount(_))) = r {
                        bad_count.push(format!("{}/{}", f.name, cnt));
                    }
                }
            }
        }
    }
    bad_count.dedup();
    format!(
        "N={} ## arity={} bcount={} checked={} calls={} bad_arity={} bad_count={}",
        kinds.len(),
        if bad_arity.is_empty() { "holds" } else { "FAILS" },
        if bad_count.is_empty() { "holds" } else { "FAILS" },
        checked,
        calls,
        bad_arity.join(","),
        bad_count.join(",")
    )
}

// ranges of char::is_alphabetic / char::is_numeric within [lo, hi] (surrogates are not chars: neither)
fn uniclass(lo: u32, hi: u32) -> String {
    fn ranges(lo: u32, hi: u32, p: fn(char) -> bool) -> String {
        let mut out = vec![];
        let mut start: Option<u32> = None;
        for c in lo..=hi {
            let v = char::from_u32(c).map(p).unwrap_or(false);
            match (v, start) {
                (true, None) => start = Some(c),
                (false, Some(s)) => {
                    out.push(format!("{}-{}", s, c - 1));
                    start = None;
                }
                _ => {}
            }
        }
        if let Some(s) = start {
            out.push(format!("{}-{}", s, hi));
        }
        out.join(",")
    }
    format!("R=A:{};N:{}", ranges(lo, hi, char::is_alphabetic), ranges(lo, hi, char::is_numeric))
}

// every code point of the range whose lower- or upper-case mapping (char::to_lowercase / to_uppercase, as str::to_lowercase applies them outside the final-sigma rule) is not the identity
fn unicase(lo: u32, hi: u32) -> String {
    let mut low = vec![];
    let mut upp = vec![];
    for c in lo..=hi {
        if let Some(ch) = char::from_u32(c) {
            let l: Vec<u32> = ch.to_lowercase().map(|x| x as u32).collect();
            let u: Vec<u32> = ch.to_uppercase().map(|x| x as u32).collect();
            if l != vec![c] {
                low.push(format!("{}>{}", c, l.iter().map(|x| x.to_string()).collect::<Vec<_>>().join(".")));
            }
            if u != vec![c] {
                upp.push(format!("{}>{}", c, u.iter().map(|x| x.to_string()).collect::<Vec<_>>().join(".")));
            }
        }
    }
    // the two character classes behind the one context rule of str::to_lowercase (capital sigma at the end of a word), recovered from its behaviour:
    // with a non-cased neighbour ('1'), "1cΣ" ends in final sigma iff c is cased and not case-ignorable; with a cased one, "acΣ" does iff c is cased or case-ignorable
    let probe = |prefix: char, c: char| -> bool { let t: String = [prefix, c, '\u{3a3}'].iter().collect(); t.to_lowercase().ends_with('\u{3c2}') };
    let ranges = |p: &dyn Fn(char) -> bool| -> String {
        let mut out = vec![];
        let mut start: Option<u32> = None;
        for c in lo..=hi {
            let v = char::from_u32(c).map(|ch| p(ch)).unwrap_or(false);
            match (v, start) {
                (true, None) => start = Some(c),
                (false, Some(s0)) => { out.push(format!("{}-{}", s0, c - 1)); start = None; }
                _ => {}
            }
        }
        if let Some(s0) = start { out.push(format!("{}-{}", s0, hi)); }
        out.join(",")
    };
    let cased = ranges(&|c| probe('1', c));
    let ignorable = ranges(&|c| probe('a', c) && !probe('1', c));
    format!("R=L:{};U:{};C:{};I:{}", low.join(","), upp.join(","), cased, ignorable)
}

// ---------- front end: expected results and re-rendering ----------
fn op_sym(o: Operator) -> (&'static str, u8) {
    use Operator::*;
    match o {
        Or => ("or", 1),
        And => ("and", 2),
        Xor => ("xor", 3),
        Equal => ("=", 4),
        NotEqual => ("<>", 4),
        Less => ("<", 5),
        LessEqual => ("<=", 5),
        Greater => (">", 5),
        GreaterEqual => (">=", 5),
        Plus => ("+", 6),
        Minus => ("-", 6),
        Multiply => ("*", 7),
        Divide => ("/", 7),
        Div => ("div", 7),
        Mod => ("mod", 7),
        Not => ("not", 8),
        TernaryCondition => ("?", 0),
    }
}
// source-expressible: what the property quantifies over (no conditionals, no array literals, finite non-negative numbers)
pub fn source_expressible(e: &Expression) -> bool {
    match e {
        Expression::Unary { right, operator } => matches!(operator, Operator::Minus | Operator::Not) && source_expressible(right),
        Expression::Binary { left, right, operator } => !matches!(operator, Operator::Not | Operator::TernaryCondition) && source_expressible(left) && source_expressible(right),
        Expression::Ternary { .. } => false,
        Expression::Array { expressions } => expressions.iter().all(source_expressible),
        Expression::Literal { value } => match value {
            Value::Number(n) => n.is_finite() && n.is_sign_positive(),
            Value::Array(_) => false,
            _ => true,
        },
        Expression::Variable { .. } => true,
        Expression::Call { params, .. } => params.iter().all(source_expressible),
    }
}
// independent renderer: minimal parentheses (full = false) or every operator application parenthesised (full = true)
pub fn render(e: &Expression, ctx: u8, full: bool) -> String {
    let (inner, p) = match e {
        Expression::Literal { value } => (
            match value {
                Value::Boolean(b) => format!("{b}"),
                Value::Number(n) => format!("{n}"),
                Value::String(s) => format!("'{}'", s.replace('\'', "''")),
                Value::Array(_) => "?".to_string(),
            },
            10,
        ),
        Expression::Variable { name } => (name.clone(), 10),
        Expression::Unary { right, operator } => (format!("{} {}", if *operator == Operator::Minus { "-" } else { "not" }, render(right, 8, full)), 8),
        Expression::Binary { left, right, operator } => {
            let (sym, q) = op_sym(*operator);
            (format!("{} {} {}", render(left, q, full), sym, render(right, q + 1, full)), q)
        }
        Expression::Array { expressions } => (format!("[{}]", expressions.iter().map(|x| render(x, 1, full)).collect::<Vec<_>>().join(", ")), 10),
        Expression::Call { name, params } => (format!("{}({})", name, params.iter().map(|x| render(x, 1, full)).collect::<Vec<_>>().join(", ")), 10),
        Expression::Ternary { .. } => ("?".to_string(), 10),
    };
    if ctx > p || (full && p < 10) {
        format!("({inner})")
    } else {
        inner
    }
}
fn split_exp(l: &[Sx]) -> (Option<String>, String) {
    // (kind id (exp cps...) cps...)
    let ex = list(&l[2]);
    let exp = if ex.len() > 1 { Some(cps_to_string(&ex[1..])) } else { None };
    (exp, cps_to_string(&l[3..]))
}
fn rtext_case(l: &[Sx]) -> String {
    let (exp, text) = split_exp(l);
    let r = compile(&text);
    let rs = match &r {
        Ok(e) => format!("R=ok:{}", show_expr(e)),
        Err(e) => format!("R=err:{}", show_cerr(e)),
    };
    let expect = match &exp {
        Some(x) => if *x == rs { "holds" } else { "FAILS" },
        None => "n/a",
    };
    let reparse = match &r {
        Ok(e) if source_expressible(e) => {
            let a = compile(&render(e, 1, false));
            let b = compile(&render(e, 1, true));
            let same = |x: &Result<Expression, Error>| matches!(x, Ok(t) if show_expr(t) == show_expr(e));
            if same(&a) && same(&b) { "holds" } else { "FAILS" }
        }
        _ => "n/a",
    };
    format!("{rs} ## expect={expect} reparse={reparse}")
}
fn scan_str(text: &str) -> String {
    match Scanner::tokenize(text) {
        Ok(ts) => format!("R=ok:{}", ts.iter().map(show_tok).collect::<Vec<_>>().join(" ")),
        Err(e) => format!("R=err:{}", show_cerr(&e)),
    }
}
fn stext_case(l: &[Sx]) -> String {
    let (exp, text) = split_exp(l);
    let rs = scan_str(&text);
    let expect = match &exp {
        Some(x) => if *x == rs { "holds" } else { "FAILS" },
        None => "n/a",
    };
    format!("{rs} ## expect={expect}")
}
fn lay_case(l: &[Sx]) -> String {
    let a = cps_to_string(&list(&l[2])[1..]);
    let b = cps_to_string(&list(&l[3])[1..]);
    let (ra, rb) = (scan_str(&a), scan_str(&b));
    let (ca, cb) = (compile(&a), compile(&b));
    let same_tree = match (&ca, &cb) {
        (Ok(x), Ok(y)) => show_expr(x) == show_expr(y),
        (Err(x), Err(y)) => show_cerr(x) == show_cerr(y),
        _ => false,
    };
    format!("{ra} ## layout={} tree={}", if ra == rb { "holds" } else { "FAILS" }, if same_tree { "holds" } else { "FAILS" })
}

// C12: a script is compiled, optimized against the standard library, and both trees must survive the JSON round trip
fn roundtrip_ok(e: &Expression) -> (bool, bool) {
    let same = |a: &Expression, b: &Expression| show_expr(a) == show_expr(b);
    let v = serde_json::to_value(e).ok().and_then(|j| serde_json::from_value::<Expression>(j).ok()).map(|b| same(e, &b)).unwrap_or(false);
    let t = serde_json::to_string(e).ok().and_then(|j| serde_json::from_str::<Expression>(&j).ok()).map(|b| same(e, &b)).unwrap_or(false);
    (v, t)
}
pub fn expr_has_nonfinite(e: &Expression) -> bool {
    fn val(v: &Value) -> bool {
        match v {
            Value::Number(n) => !n.is_finite(),
            Value::Array(a) => a.iter().any(val),
            _ => false,
        }
    }
    match e {
        Expression::Unary { right, .. } => expr_has_nonfinite(right),
        Expression::Binary { left, right, .. } => expr_has_nonfinite(left) || expr_has_nonfinite(right),
        Expression::Ternary { left, middle, right, .. } => expr_has_nonfinite(left) || expr_has_nonfinite(middle) || expr_has_nonfinite(right),
        Expression::Array { expressions } => expressions.iter().any(expr_has_nonfinite),
        Expression::Literal { value } => val(value),
        Expression::Variable { .. } => false,
        Expression::Call { params, .. } => params.iter().any(expr_has_nonfinite),
    }
}
// C03 (and C19): execute sees the binding that the latest add_variable / remove_variable calls established - an environment that lived through an earlier binding of the same names
// evaluates like a fresh one holding the current binding
fn rebind_case(l: &[Sx]) -> String {
    let pairs = |x: &Sx| -> Vec<(String, Value)> { list(x)[1..].iter().map(|v| { let p = list(v); (string(&p[0]), value(&p[1])) }).collect() };
    let (v1, v2) = (pairs(&l[2]), pairs(&l[3]));
    let e = expr(&l[4]);
    let mut env = StaticEnvironment::default();
    for (n, v) in &v1 { env.add_variable(n, v.clone()); }
    for (n, _) in &v1 {
        if !v2.iter().any(|(m, _)| m.to_lowercase() == n.to_lowercase()) { env.remove_variable(n); }
    }
    for (n, v) in &v2 { env.add_variable(n, v.clone()); }
    let r = execute(&env, &e);
    let mut fresh = StaticEnvironment::default();
    for (n, v) in &v2 { fresh.add_variable(n, v.clone()); }
    let r2 = execute(&fresh, &e);
    format!("R={} ## rebind={}", show_res(&r), if show_res(&r) == show_res(&r2) { "holds" } else { "FAILS" })
}
fn serscript_case(l: &[Sx]) -> String {
    let text = cps_to_string(&l[2..]);
    let mut env = StaticEnvironment::default();
    slac::stdlib::extend_environment(&mut env);
    match compile(&text) {
        Err(_) => "R=nocompile ## roundtrip=n/a".to_string(),
        Ok(e) => {
            let mut o = e.clone();
            let _ = optimize(&env, &mut o);
            let (v1, t1) = roundtrip_ok(&e);
            let (v2, t2) = roundtrip_ok(&o);
            let nonfinite = expr_has_nonfinite(&e) || expr_has_nonfinite(&o);
            // the reloaded tree behaves like the original
            let back = serde_json::to_string(&o).ok().and_then(|j| serde_json::from_str::<Expression>(&j).ok());
            let behaves = match &back {
                Some(b) => show_res(&execute(&env, b)) == show_res(&execute(&env, &o)) && check_boolean_result(b).is_ok() == check_boolean_result(&o).is_ok(),
                None => false,
            };
            let ok = v1 && t1 && v2 && t2 && behaves;
            format!("R=compiled E={} ## roundtrip={} nonfinite={}", show_expr(&o), if ok { "holds" } else { "FAILS" }, nonfinite)
        }
    }
}
// C19: evaluation is unaffected by the letter case of identifiers in the tree and of the names used at registration
fn flip_case(s: &str, phase: usize) -> String {
    s.chars().enumerate().map(|(i, c)| if (i + phase) % 2 == 0 { c.to_uppercase().next().filter(|u| u.to_lowercase().next() == c.to_lowercase().next() && c.to_uppercase().count() == 1).unwrap_or(c) } else { c.to_lowercase().next().filter(|_| c.to_lowercase().count() == 1).unwrap_or(c) }).collect()
}
fn respell_expr(e: &Expression, phase: usize) -> Expression {
    let bx = |x: &Expression| Box::new(respell_expr(x, phase));
    match e {
        Expression::Unary { right, operator } => Expression::Unary { right: bx(right), operator: *operator },
        Expression::Binary { left, right, operator } => Expression::Binary { left: bx(left), right: bx(right), operator: *operator },
        Expression::Ternary { left, middle, right, operator } => Expression::Ternary { left: bx(left), middle: bx(middle), right: bx(right), operator: *operator },
        Expression::Array { expressions } => Expression::Array { expressions: expressions.iter().map(|x| respell_expr(x, phase)).collect() },
        Expression::Literal { value } => Expression::Literal { value: value.clone() },
        Expression::Variable { name } => Expression::Variable { name: flip_case(name, phase) },
        Expression::Call { name, params } => Expression::Call { name: flip_case(name, phase), params: params.iter().map(|x| respell_expr(x, phase)).collect() },
    }
}
fn respell_case(l: &[Sx]) -> String {
    let text = cps_to_string(&l[2..]);
    let vars: Vec<(&str, Value)> = vec![("x", Value::Number(3.0)), ("y_1", Value::String("str".into())), ("Abc", Value::String("MiXed".into())), ("ünï", Value::Number(1.5)),
        ("notx", Value::Boolean(true)), ("or_", Value::Boolean(false)), ("e5", Value::Array(vec![Value::Number(1.0)])), ("_", Value::Number(0.0))];
    fn echo(p: &[Value]) -> NativeResult { Ok(Value::Array(p.to_vec())) }
    let build = |phase: Option<usize>| {
        let mut env = StaticEnvironment::default();
        for f in slac::stdlib::builtins() {
            let mut f2 = f.clone();
            if let Some(p) = phase { f2.name = flip_case(&f.name, p); }
            env.add_function(f2);
        }
        for n in ["f", "g_2", "ä"] {
            env.add_function(Function::new(echo, Arity::Variadic, &match phase { Some(p) => flip_case(n, p), None => n.to_string() }));
        }
        for (n, v) in &vars {
            env.add_variable(&match phase { Some(p) => flip_case(n, p), None => n.to_string() }, v.clone());
        }
        env
    };
    match compile(&text) {
        Err(_) => "R=nocompile ## respell=n/a".to_string(),
        Ok(e) => {
            let base = show_res(&execute(&build(None), &e));
            let cn = check_variables_and_functions(&build(None), &e).is_ok();
            let mut ok = true;
            // C10 on the real StaticEnvironment: accepted by the validator => execute never fails with an unresolved name, and the tree is still accepted after optimize
            let mut o10 = true;
            let mut o10_check = |env: &StaticEnvironment, t: &Expression| {
                if check_variables_and_functions(env, t).is_ok() {
                    match execute(env, t) {
                        Err(slac::Error::UndefinedVariable(_)) | Err(slac::Error::NativeFunctionError(_, NativeError::FunctionNotFound(_))) => o10 = false,
                        _ => {}
                    }
                    let mut o = t.clone();
                    if optimize(env, &mut o).is_ok() && check_variables_and_functions(env, &o).is_err() {
                        o10 = false;
                    }
                }
            };
            o10_check(&build(None), &e);
            for (ephase, rphase) in [(Some(0usize), None), (Some(1), None), (None, Some(0usize)), (None, Some(1)), (Some(0), Some(1))] {
                let e2 = match ephase { Some(p) => respell_expr(&e, p), None => e.clone() };
                let env2 = build(rphase);
                let r2 = show_res(&execute(&env2, &e2));
                // names inside error payloads are spelled as in the tree: compare modulo case
                ok &= r2.to_lowercase() == base.to_lowercase() || (r2.starts_with("err:") && base.starts_with("err:") && r2.split(':').nth(1) == base.split(':').nth(1));
                ok &= check_variables_and_functions(&env2, &e2).is_ok() == cn;
                o10_check(&env2, &e2);
            }
            format!("R=compiled ## respell={} O10e={}", if ok { "holds" } else { "FAILS" }, if o10 { "holds" } else { "FAILS" })
        }
    }
}

// C09: a builtin called from a script (compile + validate + optimize + execute against the standard library)
fn script_case(l: &[Sx]) -> String {
    let text = cps_to_string(&l[2..]);
    let mut env = StaticEnvironment::default();
    slac::stdlib::extend_environment(&mut env);
    match compile(&text) {
        Err(e) => format!("R=nocompile:{}", show_cerr(&e)),
        Ok(e) => {
            let r = execute(&env, &e);
            let _ = check_variables_and_functions(&env, &e);
            let mut o = e.clone();
            let st = optimize(&env, &mut o);
            let r2 = execute(&env, &o);
            // folding a pure call at optimize time is indistinguishable from calling it at run time
            let uses_impure = text.starts_with("random") || text.starts_with("choice");
            // (a value before must be the same value after; an error before may legitimately differ - the if_then/3 rewrite of C05)
            let fold = if st.is_ok() && !uses_impure && r.is_ok() { if show_res(&r) == show_res(&r2) { "holds" } else { "FAILS" } } else { "n/a" };
            format!("R={} A={} ## fold={}", if uses_impure { "impure".to_string() } else { show_res(&r) }, if uses_impure { "impure".to_string() } else { show_res(&r2) }, fold)
        }
    }
}
// C14: optimize-time folding of a pure builtin equals the run-time call
fn foldcall_case(l: &[Sx]) -> String {
    let name = string(&l[2]);
    let args: Vec<Value> = l[3..].iter().map(value).collect();
    let mut env = StaticEnvironment::default();
    slac::stdlib::extend_environment(&mut env);
    let call = Expression::Call { name: name.clone(), params: args.iter().map(|v| Expression::Literal { value: v.clone() }).collect() };
    let direct = crate::oracles::call(&name, &args);
    let mut o = call.clone();
    let st = optimize(&env, &mut o);
    let folded = match (&st, &o) {
        (Ok(()), Expression::Literal { value }) => Some(value.clone()),
        _ => None,
    };
    let (_, pure) = crate::oracles::lookup(&name);
    let verdict = if !pure {
        // a function registered impure must never be folded, whatever its argument count and shape (its result legitimately varies between calls)
        if folded.is_some() { "FAILS" } else { "holds" }
    } else if name == "if_then" && args.len() == 3 { "n/a" } else { match (&direct, &folded) {
        (Ok(d), Some(f)) => if show_value(d) == show_value(f) { "holds" } else { "FAILS" },
        (Err(_), None) => "holds",
        (Ok(_), None) => if pure && matches!(env.function_exists(&name, args.len()), slac::environment::FunctionResult::Exists { .. }) { "FAILS" } else { "n/a" },
        (Err(_), Some(_)) => "FAILS",
    } };
    format!("R={} ## foldeq={}", match &direct { Ok(v) => format!("ok:{}", show_value(v)), Err(e) => format!("err:{}", show_nerr(e)) }, verdict)
}
// C14: Hash for Value under a fixed-key hasher: values that are == must hash alike
fn hashclass_case(l: &[Sx]) -> String {
    use std::hash::{Hash, Hasher};
    let vals: Vec<Value> = l[2..].iter().map(value).collect();
    let h = |v: &Value| {
        let mut s = std::collections::hash_map::DefaultHasher::new();
        v.hash(&mut s);
        s.finish()
    };
    let mut ok = true;
    for a in &vals {
        for b in &vals {
            if a == b && h(a) != h(b) {
                ok = false;
            }
        }
    }
    let classes: Vec<String> = vals.iter().map(|v| (if matches!(v, Value::Array(_)) { "A" } else { "S" }).to_string()).collect();
    let distinct: std::collections::HashSet<u64> = vals.iter().map(h).collect();
    format!("R=classes:{} ## hasheq={} hashes={}", classes.join(""), if ok { "holds" } else { "FAILS" }, distinct.len())
}

// C19 (oracle only): a history of function registrations in which the SAME native function is registered again and again under spellings of a few names with
// different arities and purities, interleaved with removals. After every step, for every spelling and every count 0..4, function_exists / list_functions / call must
// agree with a reference map keyed by the case-folded name that holds the MOST RECENTLY added entry in full (spelling, tag, arity, purity).
// (fnhist id seed steps)
fn fnhist_case(l: &[Sx]) -> String {
    let mut seed: u64 = atom(&l[2]).parse().unwrap();
    let steps: usize = atom(&l[3]).parse().unwrap();
    let mut next = move || {
        seed = seed.wrapping_mul(6364136223846793005).wrapping_add(1442695040888963407);
        (seed >> 33) as usize
    };
    let names = ["f", "F", "gg", "Gg", "GG", "\u{e4}x", "\u{c4}X"];
    let fns: [slac::stdlib::NativeFunction; 2] = [t0, t1];
    let arities = [Arity::None, Arity::Variadic, Arity::Polyadic { required: 0, optional: 0 }, Arity::Polyadic { required: 1, optional: 0 }, Arity::Polyadic { required: 2, optional: 0 },
        Arity::Polyadic { required: 1, optional: 2 }, Arity::Polyadic { required: 0, optional: 1 }];
    let mut env = StaticEnvironment::default();
    let mut reference: HashMap<String, (String, usize, usize, bool)> = HashMap::new();
    let mut ok = true;
    let mut first_bad = String::new();
    for step in 0..steps {
        let n = names[next() % names.len()];
        if next() % 5 == 0 {
            let got = env.remove_function(n).map(|f| (f.name.clone(), tag_of_fn(&f) as usize, f.pure));
            let want = reference.remove(&n.to_lowercase()).map(|(sp, t, _, p)| (sp, t, p));
            if got != want && ok {
                ok = false;
                first_bad = format!("step{}:remove({})", step, n);
            }
        } else {
            // mostly the same pointer, so that an overwrite differs from the stored entry in arity / purity only
            let t = if next() % 4 == 0 { 1 } else { 0 };
            let a = next() % arities.len();
            let p = next() % 2 == 0;
            let decl = format!("{}()", n);
            let f = if p { Function::new(fns[t], arities[a], &decl) } else { Function::impure(fns[t], arities[a], &decl) };
            // single and bulk registration must key the entry alike
            if next() % 3 == 0 { env.add_functions(vec![f]); } else { env.add_function(f); }
            reference.insert(n.to_lowercase(), (n.to_string(), t, a, p));
        }
        for q in names {
            let want = reference.get(&q.to_lowercase());
            for cnt in 0..5usize {
                let got = env.function_exists(q, cnt);
                let good = match (want, got) {
                    (None, FunctionResult::NotFound) => true,
                    (Some((_, _, a, p)), FunctionResult::Exists { pure }) => in_arity(&arities[*a], cnt) && pure == *p,
                    (Some((_, _, a, _)), FunctionResult::WrongArity { .. }) => !in_arity(&arities[*a], cnt),
                    _ => false,
                };
                if !good && ok {
                    ok = false;
                    first_bad = format!("step{}:function_exists({},{})", step, q, cnt);
                }
            }
            let called = env.call(q, &[]).ok().map(|v| show_value(&v));
            let want_call = want.map(|(_, t, _, _)| show_value(&Value::Number(*t as f64)));
            if called != want_call && ok {
                ok = false;
                first_bad = format!("step{}:call({})", step, q);
            }
        }
        let mut listed: Vec<(String, usize, bool)> = env.list_functions().iter().map(|f| (f.name.clone(), tag_of_fn(f) as usize, f.pure)).collect();
        let mut wanted: Vec<(String, usize, bool)> = reference.values().map(|(sp, t, _, p)| (sp.clone(), *t, *p)).collect();
        listed.sort();
        wanted.sort();
        if listed != wanted && ok {
            ok = false;
            first_bad = format!("step{}:list_functions", step);
        }
    }
    format!("R=steps:{} ## refmap={} first={}", steps, if ok { "holds" } else { "FAILS" }, if first_bad.is_empty() { "-".to_string() } else { first_bad.replace(' ', "_") })
}

// C08 (oracle only): very WIDE nodes at small depth - an array literal / Array node / call with n members - built here (no giant input line) and pushed through
// execute, optimize, both validators, serde, == and the value comparisons on a thread with a small stack (256 KiB): none of these may need stack proportional
// to the WIDTH of a node (an overflow aborts the process: CRASH).  (wide id n)
fn wide_case(l: &[Sx]) -> String {
    let n: usize = atom(&l[2]).parse().unwrap();
    let h = std::thread::Builder::new().stack_size(256 * 1024).spawn(move || {
        let mut env = StaticEnvironment::default();
        slac::stdlib::extend_environment(&mut env);
        let nums: Vec<Value> = (0..n).map(|i| Value::Number((i % 7) as f64)).collect();
        let lit = Expression::Literal { value: Value::Array(nums.clone()) };
        let node = Expression::Array { expressions: nums.iter().map(|v| Expression::Literal { value: v.clone() }).collect() };
        let call = Expression::Call { name: "max".into(), params: nums.iter().map(|v| Expression::Literal { value: v.clone() }).collect() };
        let nested = Expression::Literal { value: Value::Array(vec![Value::Array(nums.clone()), Value::Array(nums.clone())]) };
        let mut done = 0usize;
        for op in [Operator::Equal, Operator::NotEqual, Operator::Less, Operator::Plus] {
            for (a, b) in [(&lit, &lit), (&lit, &node), (&node, &lit), (&nested, &nested)] {
                let e = Expression::Binary { left: Box::new(a.clone()), right: Box::new(b.clone()), operator: op };
                let _ = execute(&env, &e);
                let _ = check_variables_and_functions(&env, &e);
                let _ = check_boolean_result(&e);
                let mut o = e.clone();
                let _ = optimize(&env, &mut o);
                let _ = o == e;
                if n <= 20000 {
                    if let Ok(j) = serde_json::to_value(&e) {
                        let _ = serde_json::from_value::<Expression>(j);
                    }
                }
                done += 1;
            }
        }
        for name in ["unique", "sort", "contains", "find", "count", "reverse", "length", "str", "min", "all"] {
            let args = if name == "contains" || name == "find" || name == "count" { vec![Value::Array(vec![Value::Array(nums.clone()), Value::Array(nums.clone())]), Value::Array(nums.clone())] } else { vec![Value::Array(nums.clone())] };
            let _ = crate::oracles::call(name, &args);
            done += 1;
        }
        let mut o = call.clone();
        let _ = execute(&env, &call);
        let _ = optimize(&env, &mut o);
        let _ = call == o;
        done
    });
    match h.unwrap().join() {
        Ok(d) => format!("R=done:{} ## total=holds", d),
        Err(_) => "R=panic ## total=FAILS".to_string(),
    }
}
